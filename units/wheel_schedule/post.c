/* Unit wheel_schedule (property C08 "not before its deadline; the wheel may be up to one tick early"): the delay that schedule() /
 * reschedule() hand to insertEntry versus the wheel's TIME BASE.
 *  currentTick is the index of the level-0 bucket that becomes current at time L = _lastAdvanceTime. The next advance() at time a
 *  performs max(1, floor((a - L)/tick)) tick steps (wheel_cascade A2), each releasing one level-0 bucket WITHOUT a deadline test
 *  (wheel_cascade R1/K1), and a level-0 entry sits exactly k = floor(x/tick) buckets ahead, x = the delay given to insertEntry
 *  (wheel_insert W1). It can therefore be released as early as L + (k+1)*tick. "At most one tick early" for every tick phase needs
 *        x >= deadline - L - tick      or      delay <= tick (a release can never precede the schedule() call itself)      (Q3 / Q5)
 *  i.e. the delay used for the bucket computation must be measured from L, not from the moment schedule() happens to be called.
 *  (Since (k+1)*tick can be as small as x + 1, the condition is also necessary up to one clock unit.) */
#define SCHED_STATE \
  TimingWheel W; TimerEntry e; int64_t delay = nondet_i64(); \
  IORA_TRUE = 1; G_ins_calls = 0; G_alloc_entry = &e; G_wheel_locks = 0; \
  __CPROVER_assume(W._tickDuration > 0 && W._tickDuration <= ((int64_t)1 << 40) && W._lastAdvanceTime > 0 && W._lastAdvanceTime <= ((int64_t)1 << 61)); /* started wheel */ \
  __CPROVER_assume(delay >= -((int64_t)1 << 40) && delay <= ((int64_t)1 << 60)); \
  G_clock_floor = W._lastAdvanceTime; \
  const int64_t L = W._lastAdvanceTime, tick = W._tickDuration;

void h_schedule(void)
{
  SCHED_STATE
  uint64_t id = nondet_u64(); void *cb = (void *)&W;
  TimingWheel_scheduleLocked(&W, id, delay, cb);
  IORA_CANARY("h_schedule: returns");
  /* Q1 */ __CPROVER_assert(e.id == id && e.callback == cb && e.deadline == G_clock_last + delay && G_clock_last >= L, "Q1 the entry carries id, handler and deadline = the clock value read + delay (representation invariant: entry->deadline is the time the timer is due)");
  /* Q2 */ __CPROVER_assert(G_ins_calls == 1 && G_ins_e == &e && G_map_key == id && G_map_slot == &e && G_wheel_locks == 1, "Q2 under the wheel lock the entry is inserted once and registered under its id (cancel/reschedule find it)");
  /* Q3 */ __CPROVER_assert(G_ins_delay >= e.deadline - L - tick || delay <= tick, "Q3 not early: the delay used for the bucket computation is measured from the wheel's time base (>= deadline - lastAdvanceTime - tick), unless the timer is due within one tick anyway");
  /* Q6 */ __CPROVER_assert(G_ins_delay <= e.deadline - L, "Q6 never dropped: the delay used is not beyond the real distance to the deadline");
}

void h_reschedule(void)
{
  SCHED_STATE
  uint64_t id = nondet_u64(); IdPair slot; slot.first = id; slot.second = &e;
  G_find_result = nondet_bool() ? &slot : NULL; G_finds = 0; G_unlinks = 0; G_unlink_before_insert = 0; G_clock_reads = 0;
  const _Bool pending = G_find_result != NULL; const TimerEntry e0 = e;
  bool r = TimingWheel_reschedule(&W, id, delay);
  IORA_CANARY("h_reschedule: returns");
  /* Q4a */ __CPROVER_assert(r == pending && G_finds == 1 && G_find_key == id && G_wheel_locks == 1, "Q4a reschedule reports success iff the id is pending; it decides under the wheel lock");
  if (!r) {
    IORA_CANARY("h_reschedule: not pending");
    /* Q4b */ __CPROVER_assert(G_ins_calls == 0 && G_unlinks == 0 && e.deadline == e0.deadline && e.id == e0.id && e.callback == e0.callback, "Q4b a failed reschedule changes nothing");
  } else {
    IORA_CANARY("h_reschedule: rescheduled");
    /* Q4  */ __CPROVER_assert(G_unlinks == 1 && G_unlinked == &e && G_unlink_before_insert && G_ins_calls == 1 && G_ins_e == &e && e.id == e0.id && e.callback == e0.callback,
                               "Q4 the entry is unlinked from its old bucket, then re-inserted exactly once, keeping id and handler");
    /* Q10 */ __CPROVER_assert(G_clock_reads == 1 && e.deadline == G_clock_last + delay, "Q10 representation invariant: after a successful reschedule entry->deadline IS the time the timer is now due (the clock value read + newDelay) - cascadeDown's deadline test and drain()'s fire-or-cancel decision read it");
    /* Q5  */ __CPROVER_assert(G_ins_delay >= e.deadline - L - tick || delay <= tick, "Q5 not early: the delay used for the bucket computation is measured from the wheel's time base (>= deadline - lastAdvanceTime - tick), unless the timer is due within one tick anyway");
    /* Q7  */ __CPROVER_assert(G_ins_delay <= e.deadline - L, "Q7 never dropped: the delay used is not beyond the real distance to the deadline");
    /* Q11 */ __CPROVER_assert(G_ins_delay >= G_clock_last + delay - L - tick || delay <= tick, "Q11 the bucket is chosen from the SAME clock value: delay used >= (clock read + newDelay) - lastAdvanceTime - tick");
  }
}

/* the whole schedule(): "scheduling on a stopped service is refused rather than lost" and the id it hands out */
void h_schedule_whole(void)
{
  SCHED_STATE
  void *cb = (void *)&W; W._accepting = nondet_bool(); G_map_writes = 0;
  __CPROVER_assume(W._nextId >= 1 && W._nextId < ((uint64_t)1 << 63));            /* ctor: _nextId{1}; 2^63 timers are out of reach */
  const uint64_t next0 = W._nextId; const bool acc = W._accepting;
  uint64_t id = TimingWheel_schedule(&W, delay, cb);
  IORA_CANARY("h_schedule_whole: returns");
  if (!acc) {
    IORA_CANARY("h_schedule_whole: refused");
    /* Q8 */ __CPROVER_assert(id == InvalidTimerId && G_ins_calls == 0 && G_map_writes == 0 && G_wheel_locks == 0 && W._nextId == next0, "Q8 a wheel that is not accepting (stopped / draining / not started) REFUSES: InvalidTimerId, nothing inserted, nothing registered - never accepted-and-lost");
  } else {
    IORA_CANARY("h_schedule_whole: accepted");
    /* Q9 */ __CPROVER_assert(id == next0 && id != InvalidTimerId && W._nextId == next0 + 1, "Q9 an accepted timer gets a fresh, valid id");
    /* Q2 */ __CPROVER_assert(G_ins_calls == 1 && G_ins_e == &e && G_map_writes == 1 && G_map_key == id && G_map_slot == &e && e.id == id && e.callback == cb && G_wheel_locks == 1, "Q2 under the wheel lock the entry is inserted once and registered under the id that is returned");
    /* Q3 */ __CPROVER_assert(G_ins_delay >= e.deadline - L - tick || delay <= tick, "Q3 not early: the delay used for the bucket computation is measured from the wheel's time base (>= deadline - lastAdvanceTime - tick), unless the timer is due within one tick anyway");
  }
}

#ifdef IORA_SEARCH
/* SEARCH: how far the tick thread is behind (STALL = clock - lastAdvanceTime) and the delay; tick 10 */
void h_search(void)
{
  int64_t STALL = nondet_i64(), DELAY = nondet_i64();
  __CPROVER_assume(STALL >= 100 && STALL <= 200 && DELAY >= 30 && DELAY + 20 <= STALL);    /* a clear witness: the tick thread is >= 10 ticks behind and its catch-up sweeps past the entry */
  TimingWheel W; TimerEntry e; IORA_TRUE = 1; G_alloc_entry = &e; G_ins_calls = 0;
  W._tickDuration = 10; W._lastAdvanceTime = 1000; G_clock_floor = 1000 + STALL;
  TimingWheel_scheduleLocked(&W, 1, DELAY, (void *)&W);
  __CPROVER_assume(e.deadline == 1000 + STALL + DELAY);       /* the clock read is exactly lastAdvanceTime + STALL */
  __CPROVER_assert(G_ins_delay >= e.deadline - 1000 - 10 || DELAY <= 10, "Q3 not early: the delay used for the bucket computation is measured from the wheel's time base (>= deadline - lastAdvanceTime - tick), unless the timer is due within one tick anyway");
}
#endif
