/* type environment + environment stubs for unit wheel_schedule (the locked part of TimingWheel::schedule / reschedule) */
typedef struct TimerEntry { uint64_t id; void *callback; int64_t deadline; struct TimerEntry *prev, *next; size_t wheelLevel; size_t bucketIndex; bool thenReschedule; } TimerEntry;
typedef struct { int unused; } iora_idmap;
typedef struct { int64_t _tickDuration; iora_idmap _entryMap; int64_t _lastAdvanceTime; bool _accepting; uint64_t _nextId; } TimingWheel;
size_t G_wheel_locks; int64_t G_clock_floor; TimerEntry *G_alloc_entry; uint64_t G_map_key; TimerEntry *G_map_slot;
size_t G_ins_calls; TimerEntry *G_ins_e; int64_t G_ins_delay;
static inline int64_t iora_clock_now(void) { int64_t t = nondet_i64(); IORA_ASSUME(t >= G_clock_floor && t <= ((int64_t)1 << 61)); return t; }   /* steady clock: monotone */
size_t G_map_writes;
static inline TimerEntry **iora_idmap_at(iora_idmap *m, uint64_t id) { (void)m; G_map_key = id; G_map_writes++; return &G_map_slot; }
#define TimingWheel_allocEntry(self) (G_alloc_entry)
static inline void TimingWheel_insertEntry(TimingWheel *self, TimerEntry *entry, int64_t delay) { (void)self; G_ins_calls++; G_ins_e = entry; G_ins_delay = delay; }
