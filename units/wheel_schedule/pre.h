/* type environment + environment stubs for unit wheel_schedule (the locked part of TimingWheel::schedule / reschedule) */
typedef struct TimerEntry { uint64_t id; void *callback; int64_t deadline; struct TimerEntry *prev, *next; size_t wheelLevel; size_t bucketIndex; bool thenReschedule; } TimerEntry;
typedef struct { uint64_t first; struct TimerEntry *second; } IdPair; typedef IdPair *IdIt;
typedef struct { int unused; } iora_idmap;
typedef struct { int64_t _tickDuration; iora_idmap _entryMap; int64_t _lastAdvanceTime; bool _accepting; uint64_t _nextId; } TimingWheel;
size_t G_wheel_locks; int64_t G_clock_floor; TimerEntry *G_alloc_entry; uint64_t G_map_key; TimerEntry *G_map_slot;
size_t G_ins_calls; TimerEntry *G_ins_e; int64_t G_ins_delay;
int64_t G_clock_last; size_t G_clock_reads;
static inline int64_t iora_clock_now(void) { int64_t t = nondet_i64(); IORA_ASSUME(t >= G_clock_floor && t <= ((int64_t)1 << 61)); G_clock_last = t; G_clock_reads++; return t; }   /* steady clock: monotone */
size_t G_map_writes;
static inline TimerEntry **iora_idmap_at(iora_idmap *m, uint64_t id) { (void)m; G_map_key = id; G_map_writes++; return &G_map_slot; }
#define TimingWheel_allocEntry(self) (G_alloc_entry)
static inline void TimingWheel_insertEntry(TimingWheel *self, TimerEntry *entry, int64_t delay) { (void)self; G_ins_calls++; G_ins_e = entry; G_ins_delay = delay; }

/* reschedule(): id map lookup and unlink are environment stubs */
IdIt G_find_result; uint64_t G_find_key; size_t G_finds, G_unlinks, G_unlink_before_insert; TimerEntry *G_unlinked;
static inline IdIt iora_idmap_end(iora_idmap *m) { (void)m; return NULL; }
static inline IdIt iora_idmap_find(iora_idmap *m, uint64_t k) { (void)m; G_finds++; G_find_key = k; return G_find_result; }
static inline void TimingWheel_unlinkEntry(TimingWheel *self, TimerEntry *e) { (void)self; G_unlinks++; G_unlinked = e; if (G_ins_calls == 0) G_unlink_before_insert = 1; }
