"""Unit-local plugin for tcp_send_queue: R11 scope exit of a lock guard declared in a NESTED block.
The declared rule turns `{ std::lock_guard<std::mutex> g(M); BODY }` into `{ iora_ulock g = iora_ulock_make(&M); BODY iora_ulock_dtor(&g); }`.
A `return` inside BODY leaves the scope too: hook_before_loops inserts `iora_ulock_dtor(&g);` before every `return` that lies inside the block
of a guard (C++ destroys the guard there)."""
from vt.lexer import Tok, match_close


def hook_before_loops(t, rw):
    out = list(t)
    i = 0
    n = 0
    while i < len(out):
        x = out[i]
        if x.kind == 'id' and x.text == 'iora_ulock' and i + 2 < len(out) and out[i + 1].kind == 'id' and out[i + 2].text == '=':
            name = out[i + 1].text
            # enclosing block: walk back to the '{' that opens it
            depth = 0
            j = i
            while j >= 0:
                if out[j].kind not in ('str', 'chr', 'expr'):
                    if out[j].text == '}':
                        depth += 1
                    elif out[j].text == '{':
                        if depth == 0:
                            break
                        depth -= 1
                j -= 1
            if j < 0:
                i += 1
                continue
            end = match_close(out, j)
            k = i
            while k < end:
                y = out[k]
                if y.kind == 'id' and y.text == 'return':
                    L = y.line
                    ins = [Tok('op', '{', L), Tok('id', 'iora_ulock_dtor', L, final=True), Tok('op', '(', L), Tok('op', '&', L), Tok('id', name, L, final=True), Tok('op', ')', L), Tok('op', ';', L)]
                    stmt_end = rw._stmt_end(out, k)
                    out[stmt_end + 1:stmt_end + 1] = [Tok('op', '}', L)]
                    out[k:k] = ins
                    k += len(ins) + 1
                    end += len(ins) + 1
                    n += 1
                    continue
                k += 1
            i = end
            continue
        i += 1
    if n:
        rw.R.fire('R11 scope exit (return inside a guarded block)', n)
    return out
