/* The cross-thread command queue `std::deque<Command> _cmds` (guarded by _cmdMutex) as a FIFO of commands in which the Send commands of ONE
 * arbitrary ghost session GSID are tracked exactly, everything else abstractly:
 *   n      number of commands in the queue (any)
 *   w      the payloads of the queued Send commands for GSID, in queue order, as a CONTIGUOUS slice deque over the session's ghost stream of
 *          ACCEPTED bytes (iora_sdeque: unbounded, inner boundaries nondeterministic, contiguity asserted at every push)
 * ASSUMPTION FIFO (the only thing this model takes from the library): push_back appends at the tail, iteration visits front to back, the mutex
 * serialises the push_backs (whoever holds it first is first in the queue).
 *   push_back(cmd)   asserts LK3 (mutex held). A Send for GSID gets ITS STREAM POSITIONS HERE: [G_accepted, G_accepted + size) - the order of
 *                    acceptance IS the order of the push_backs; it must be completely filled with the caller's bytes (see iora_pbuf)
 *   nth(i)           iteration in queue order: command i is the next Send of GSID (front of w) or some other command (another kind, or a Send for
 *                    another session); when only GSID's sends remain it must be one of them, so that every one of them is visited exactly once */
#ifndef TCP_SEND_QUEUE_CMDFIFO_H
#define TCP_SEND_QUEUE_CMDFIFO_H
SessionId GSID; size_t G_accepted; SessionId GCSID;      /* GCSID: witness connect id (ids are unique: at most one queued Connect carries it) */             /* witness session; end of the positions accepted for it so far */
typedef struct { int addr; } ListenerCfg;
typedef struct { SessionId sid; int host; uint16_t port; TlsMode tls; } ConnectReq;
typedef struct { unsigned set_calls; bool value; } iora_promise;
typedef struct { Cmd t; ListenerCfg l; ConnectReq c; SendReq s; SessionId closeSid; TransportError closeReason; const char *closeMsg; CloseOrigin closeOrigin; iora_promise *listenerReady; } Command;
#define SendReq_DEFAULT ((SendReq){0, {0, 0}})
/* ByteBuffer b(n); memcpy(b.data(), data, n): a fresh buffer of n bytes, of which `filled` were copied from the caller's memory.
 * It is an iora_slice whose positions are assigned when it is accepted (push_back); until then lo = 0, hi = size, and G_pbuf_filled counts. */
size_t G_pbuf_filled; const void *G_pbuf_src;
static inline iora_slice iora_pbuf_new(size_t n) { iora_slice b = { 0, n }; G_pbuf_filled = 0; G_pbuf_src = 0; return b; }
static inline void iora_pbuf_fill(iora_slice *b, const void *src, size_t n)
{ IORA_ASSERT(n <= b->hi - b->lo, "memcpy into the payload buffer stays inside it"); IORA_ASSERT(n == 0 || __CPROVER_r_ok(src, n), "memcpy source readable"); G_pbuf_filled = n; G_pbuf_src = src; }
static inline Command iora_Command_send(SendReq sr) { Command c; c.t = Cmd_Send; c.s = sr; c.listenerReady = 0; c.closeSid = 0; c.closeReason = 0; c.closeMsg = 0; c.closeOrigin = 0; c.c.sid = 0; return c; }

typedef struct { size_t n; iora_sdeque w; bool has_c; /* a Connect carrying GCSID is queued */ const iora_mutex *guard; Command cur; } iora_cmdfifo;
#define iora_cmdfifo_DEFAULT ((iora_cmdfifo){0, {0, {0, 0}, 0}, 0, 0})
unsigned G_doconnect_w_calls; bool G_iter_is_wc; unsigned G_iter_base;      /* per iteration: the command handed out is the witness Connect; doConnect calls for it before */
unsigned G_push_calls; Cmd G_push_kind; SessionId G_push_sid; size_t G_push_size;
static inline void iora_cmdfifo_push_back(iora_cmdfifo *q, Command c)
{
  IORA_ASSERT(q->guard != 0 && q->guard->held, "LK3 the command queue is modified with _cmdMutex held");
  IORA_ASSERT(q->n < SIZE_MAX, "deque growth");
  q->n++;
  if (G_push_calls < 0x7fffffffu) G_push_calls++; G_push_kind = c.t; G_push_sid = c.s.sid; G_push_size = c.s.payload.hi - c.s.payload.lo;
  if (c.t == Cmd_Send && c.s.sid == GSID)
  {
    size_t sz = c.s.payload.hi - c.s.payload.lo;
    IORA_ASSERT(sz >= 1 && G_pbuf_filled == sz, "Q2 the queued payload is non-empty and is exactly the caller's bytes (completely copied)");
    iora_slice pos = { G_accepted, G_accepted + sz };                 /* accepted NOW: the next positions of the session's stream */
    iora_sdeque_emplace_back(&q->w, pos);
    G_accepted += sz;
  }
}
/* any insertion that is not at the tail breaks the accepted order */
static inline void iora_cmdfifo_push_front(iora_cmdfifo *q, Command c) { (void)c; IORA_ASSERT(0, "Q1 commands are appended at the TAIL of the queue (FIFO)"); q->n++; }
static inline void iora_cmdfifo_swap(iora_cmdfifo *a, iora_cmdfifo *b)
{ IORA_ASSERT((a->guard == 0 || a->guard->held) && (b->guard == 0 || b->guard->held), "LK3 the command queue is swapped with _cmdMutex held");
  size_t n = a->n; iora_sdeque w = a->w; bool hc = a->has_c; a->n = b->n; a->w = b->w; a->has_c = b->has_c; b->n = n; b->w = w; b->has_c = hc; }
static inline size_t iora_cmdfifo_size(const iora_cmdfifo *q) { return q->n; }
/* i-th command in queue order (the loop visits 0, 1, 2, ...): `rem` = commands not yet visited */
static inline Command *iora_cmdfifo_next(iora_cmdfifo *q, size_t i)
{
  IORA_ASSERT(i < q->n, "deque iteration inside the deque");
  size_t rem = q->n - i;
  size_t special = q->w.n + (q->has_c ? 1u : 0u);                      /* tracked commands not yet visited */
  IORA_ASSUME(special <= rem);                                          /* model consistency: they are among the remaining commands */
  bool is_special = special > 0 && (special == rem || nondet_bool());
  bool is_wc = is_special && q->has_c && (q->w.n == 0 || nondet_bool());  /* the witness Connect sits anywhere among them */
  bool is_w = is_special && !is_wc;
  Command *c = &q->cur;
  G_iter_is_wc = is_wc; G_iter_base = G_doconnect_w_calls;
  if (is_w) { c->t = Cmd_Send; c->s.sid = GSID; c->s.payload = *iora_sdeque_front(&q->w); iora_sdeque_pop_front(&q->w); c->listenerReady = 0; }
  else if (is_wc) { c->t = Cmd_Connect; c->c.sid = GCSID; c->c.tls = nondet_int(); c->c.port = 0; c->c.host = 0; c->listenerReady = 0; q->has_c = 0; }
  else { c->t = nondet_int(); c->s.sid = nondet_u64(); c->s.payload.lo = nondet_size_t(); c->s.payload.hi = nondet_size_t(); c->c.sid = nondet_u64(); c->closeSid = nondet_u64();
         c->closeReason = nondet_int(); c->closeOrigin = nondet_int(); c->closeMsg = "cmd"; c->listenerReady = 0;
         IORA_ASSUME(c->t >= Cmd_Shutdown && c->t <= Cmd_Close && !(c->t == Cmd_Send && c->s.sid == GSID) && !(c->t == Cmd_Connect && c->c.sid == GCSID)
                     && c->s.payload.lo < c->s.payload.hi && c->closeOrigin >= 0 && c->closeOrigin <= 3); }
  return c;
}
#define IORA_EACH_REF_c(q, k) Command *c = iora_cmdfifo_next(&(q), (k))
/* end of one dispatch iteration (the loop's increment): the command that was handed out has been dealt with */
static inline void iora_cmdfifo_done(void)
{ IORA_ASSERT(!G_iter_is_wc || G_doconnect_w_calls == G_iter_base + 1, "PQ-C a Connect command taken from the queue is handed to doConnect exactly once, whatever _running says (connect() already returned its id: it must get onConnect or onClose)");
  IORA_ASSERT(G_iter_is_wc || G_doconnect_w_calls == G_iter_base, "PQ-C doConnect runs for an id only when its Connect command is dispatched"); }
#define IORA_NEXT_CMD(k) (iora_cmdfifo_done(), ++(k))
#endif
