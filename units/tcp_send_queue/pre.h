/* type environment + ghost state for unit tcp_send_queue: TcpEngine::send / sendAsync / enqueue(Command&&) and the whole of process()
 * (Transport::send / sendAsync in transport_impl.hpp are one-line forwards to these) */
#define IORA_TCP_CUSTOM_ENGINE
#include "iora_tcp_env.h"
#include "cmdfifo.h"
typedef struct TcpEngine { AtomicStats _atomicStats; int _eventFd; bool _running; iora_mutex _cmdMutex, _cbMutex; Callbacks _cbs;
                           iora_cmdfifo _cmds; bool _cmdsClosed; iora_sessmap _sessions; } TcpEngine;
#define EXC_exception 1
static inline int iora_isa(int exc, int ty) { return exc == ty; }

size_t G_handed;                 /* positions of the witness session's accepted stream handed to doSend so far */
bool G_hasc0;                    /* process(): a Connect carrying GCSID was in the queue at entry */
size_t G_qend;                   /* process(): end of the accepted positions that are in the swapped-out queue */
unsigned G_dosend_calls, G_dosend_w_calls, G_wake_calls, G_onerror_calls, G_scb_calls, G_closeNow_calls, G_doconnect_calls, G_dolisten_calls;
bool G_scb_ok; size_t G_scb_len; SessionId G_scb_sid; unsigned G_scb_after_push;
/* doSend: its own contract is unit tcp_write (precondition there: payload.lo == end of what was accepted before = STREAM order). Here: the
 * payloads of the witness session must ARRIVE in acceptance order, contiguous, each exactly once; handlers run without _cmdMutex. */
static inline void TcpEngine_doSend(TcpEngine *self, SendReq sr)
{
  IORA_ASSERT(!self->_cmdMutex.held, "PQ4 command handlers run with _cmdMutex released");
  if (G_dosend_calls < 0x7fffffffu) G_dosend_calls++;
  if (sr.sid == GSID)
  {
    IORA_ASSERT(sr.payload.lo < sr.payload.hi && sr.payload.lo == G_handed, "PQ1 payloads of one session reach doSend in the order they were accepted: the next one starts exactly where the previous one ended (none skipped, duplicated or reordered)");
    G_handed = sr.payload.hi; G_dosend_w_calls++;
  }
}
/* the other handlers: outside this unit (tcp_close_routes, tcp_close); they may throw std::exception (process() catches it) */
static inline bool TcpEngine_doAddListener(TcpEngine *self, ListenerCfg l) { (void)l; IORA_ASSERT(!self->_cmdMutex.held, "PQ4 command handlers run with _cmdMutex released"); if (G_dolisten_calls < 0x7fffffffu) G_dolisten_calls++; if (nondet_bool()) iora_exc = EXC_exception; return nondet_bool(); }
static inline bool TcpEngine_doConnect(TcpEngine *self, ConnectReq c) { IORA_ASSERT(!self->_cmdMutex.held, "PQ4 command handlers run with _cmdMutex released"); if (G_doconnect_calls < 0x7fffffffu) G_doconnect_calls++; if (c.sid == GCSID) G_doconnect_w_calls++; if (nondet_bool()) iora_exc = EXC_exception; return nondet_bool(); }
static inline void TcpEngine_closeNow(TcpEngine *self, Session *s, TransportError why, const char *msg, int tlsErr) { (void)s; (void)why; (void)msg; (void)tlsErr; IORA_ASSERT(!self->_cmdMutex.held, "PQ4 command handlers run with _cmdMutex released"); if (G_closeNow_calls < 0x7fffffffu) G_closeNow_calls++; }
static inline void TcpEngine_setLastFatal(TcpEngine *self) { (void)self; }
static inline void iora_cb_onError(TcpEngine *self, TransportError e) { (void)e; IORA_ASSERT(!self->_cbMutex.held && !self->_cmdMutex.held, "CB1 user callback runs outside the engine mutexes"); if (G_onerror_calls < 0x7fffffffu) G_onerror_calls++; }
static inline void iora_cb_sendComplete(SessionId sid, bool ok, size_t len) { if (G_scb_calls < 0x7fffffffu) G_scb_calls++; G_scb_sid = sid; G_scb_ok = ok; G_scb_len = len; G_scb_after_push = G_push_calls; }
static inline long iora_eventfd_write(int fd, const void *p, size_t n) { (void)p; IORA_ASSERT(fd >= 0 && n == 8, "write(eventfd): valid descriptor, 8-byte counter"); if (G_wake_calls < 0x7fffffffu) G_wake_calls++; return nondet_long(); }
static inline void iora_promise_set(iora_promise *p, bool v) { if (p->set_calls < 1000) p->set_calls++; p->value = v; }

/* Transport::send / sendAsync (transport_impl.hpp): forwards; the stubs record what reaches the engine */
typedef struct { int impl; } Transport;
SessionId G_fw_sid; const void *G_fw_data; size_t G_fw_n; bool G_fw_cb; unsigned G_fw_send_calls, G_fw_async_calls; bool G_fw_ret;
static inline bool iora_engine_send(Transport *self, SessionId sid, const void *d, size_t n) { (void)self; G_fw_sid = sid; G_fw_data = d; G_fw_n = n; if (G_fw_send_calls < 1000) G_fw_send_calls++; G_fw_ret = nondet_bool(); return G_fw_ret; }
static inline void iora_engine_sendAsync(Transport *self, SessionId sid, const void *d, size_t n, bool cb) { (void)self; G_fw_sid = sid; G_fw_data = d; G_fw_n = n; G_fw_cb = cb; if (G_fw_async_calls < 1000) G_fw_async_calls++; }
/* the witness session's queued payloads tile [G_handed, END) in queue order */
#define QSTREAM(w, END) ((w).n == 0 ? G_handed == (END) : (IORA_SDEQUE_WF(w) && (w).front.lo == G_handed && (w).end == (END)))
/* loop 1 of process(): the dispatch loop over the swapped-out commands (any number) */
#define IORA_LOOP_TcpEngine_process_1 IORA_LC( \
  __CPROVER_assigns(iora_i, q.w, q.cur, self->_running, self->_cbMutex.held, iora_exc, iora_exc_caught, G_handed, G_dosend_calls, G_dosend_w_calls, G_onerror_calls, \
                    G_closeNow_calls, G_doconnect_calls, G_dolisten_calls, G_doconnect_w_calls, G_iter_is_wc, G_iter_base, q.has_c) \
  __CPROVER_loop_invariant(iora_i <= q.n && q.w.n + (q.has_c ? 1u : 0u) <= q.n - iora_i && QSTREAM(q.w, G_qend)) \
  __CPROVER_loop_invariant((!q.has_c || G_hasc0) && G_doconnect_w_calls == ((G_hasc0 && !q.has_c) ? 1u : 0u)) \
  __CPROVER_loop_invariant(iora_exc == EXC_NONE && !self->_cbMutex.held && !self->_cmdMutex.held) \
  __CPROVER_decreases(q.n - iora_i))
