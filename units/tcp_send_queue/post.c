/* C01 above doSend: from the public send() to the call of doSend(). Written from C01's text: "the peer receives exactly the concatenation of the
 * payloads in the order the sends were accepted".
 *  SE0  send(n == 0): true, nothing queued (TcpEngine::send; Transport::send forwards verbatim)
 *  SE1  queue closed (engine tearing down): send returns FALSE and queues nothing - the caller is told, nothing is dropped silently
 *  SE2  otherwise send returns TRUE and exactly ONE Send command (this sid, exactly the caller's n bytes - Q2) is appended at the TAIL of the queue under
 *       _cmdMutex (LK3); for the witness session its bytes get the next positions of the session's accepted stream (SQ1: contiguous at the push) -
 *       i.e. "accepted order" = order of the push_backs = order in which callers get the mutex
 *  SE3  the mutex is released on every path; the I/O thread is woken iff the eventfd exists
 *  SE-U send() does NOT consult the session table: a send for an unknown / already closed id is accepted (true) and later discarded by doSend
 *       (unit tcp_write clause D0). Decided against C01's text: not a violation - C01 speaks about sends "accepted on an open session", and a session
 *       that closes is reported closed (C02); but it is not a refusal either (see NOTES.md)
 *  SA   sendAsync: the completion callback runs exactly once iff given, after the enqueue, with the enqueue verdict and the length
 *  PQ1  process(): payloads of one session reach doSend in accepted order, contiguous                       (asserted INSIDE the doSend stub)
 *  PQ2  process(): every payload that was in the queue has been handed to doSend exactly once when it returns (G_handed == end of the queued positions)
 *  PQ-C every Connect command taken from the queue is handed to doConnect exactly once, whatever `_running` says (witness connect id GCSID; checked at the
 *       end of its dispatch iteration and again when process() returns): connect() already returned that id, so it must get onConnect or onClose (C02 "never
 *       none", C05 "every in-flight call returns a definite result")
 *  PQ3  process() takes the whole queue under the mutex (swap) and leaves _cmds empty; later arrivals wait for the next round
 *  PQ4  handlers run with _cmdMutex released; an exception of a handler (doConnect / doAddListener) is caught per command: the error callback runs,
 *       a pending listener promise is failed, the loop goes on with the NEXT command (the order of the remaining sends is unaffected) */
static void world(TcpEngine *self)
{
  IORA_TRUE = 1; iora_exc = EXC_NONE; iora_exc_caught = 0;
  GCSID = nondet_u64(); G_doconnect_w_calls = 0; G_iter_is_wc = 0; G_iter_base = 0; G_hasc0 = 0;
  GSID = nondet_u64(); G_accepted = nondet_size_t(); G_handed = nondet_size_t(); G_qend = 0;
  G_push_calls = 0; G_dosend_calls = 0; G_dosend_w_calls = 0; G_wake_calls = 0; G_onerror_calls = 0; G_scb_calls = 0; G_closeNow_calls = 0; G_doconnect_calls = 0; G_dolisten_calls = 0; G_pbuf_filled = 0;
  self->_cmdMutex.held = 0; self->_cbMutex.held = 0; self->_cmdsClosed = nondet_bool(); self->_running = nondet_bool();
  self->_cbs.onError = nondet_bool(); self->_cbs.onClose = nondet_bool(); self->_cbs.onData = nondet_bool(); self->_cbs.onAccept = nondet_bool(); self->_cbs.onConnect = nondet_bool();
  self->_cmds.guard = &self->_cmdMutex; self->_cmds.has_c = nondet_bool();
  self->_sessions.has = nondet_bool(); self->_sessions.val = malloc(sizeof(Session)); self->_sessions.other = malloc(sizeof(Session));      /* the Close case looks sessions up (unit tcp_close) */
  __CPROVER_assume(self->_sessions.val != NULL && self->_sessions.other != NULL); iora_canon_session(self->_sessions.val); iora_canon_session(self->_sessions.other); iora_sessmap_GKEY = nondet_u64();
  /* the queue: any number of commands; the witness session's queued payloads tile [G_handed, G_accepted) */
  __CPROVER_assume(self->_cmds.n < ((size_t)1 << 60) && self->_cmds.w.n + (self->_cmds.has_c ? 1u : 0u) <= self->_cmds.n && G_handed <= G_accepted && G_accepted < ((size_t)1 << 60) && QSTREAM(self->_cmds.w, G_accepted));
}

void h_send(void)
{
  TcpEngine E; TcpEngine *self = &E; world(self);
  SessionId sid = nondet_u64(); size_t n = nondet_size_t(); __CPROVER_assume(n < ((size_t)1 << 40));
  uint8_t *data = malloc(n); __CPROVER_assume(data != NULL);
  size_t qn0 = E._cmds.n, wn0 = E._cmds.w.n, acc0 = G_accepted; uint64_t cmds0 = E._atomicStats.commands; bool closed0 = E._cmdsClosed;
  bool r = TcpEngine_send(self, sid, data, n);
  IORA_CANARY("h_send: returns");
  __CPROVER_assert(!self->_cmdMutex.held && !self->_cbMutex.held, "SE3 the mutex is released on every path");
  if (n == 0) { __CPROVER_assert(r && G_push_calls == 0 && E._cmds.n == qn0 && G_accepted == acc0 && G_wake_calls == 0, "SE0 an empty send succeeds and queues nothing"); IORA_CANARY("h_send: empty"); }
  else if (closed0) { __CPROVER_assert(!r && G_push_calls == 0 && E._cmds.n == qn0 && E._cmds.w.n == wn0 && G_accepted == acc0 && G_wake_calls == 0, "SE1 queue closed: send returns false and queues nothing (refused, not dropped)"); IORA_CANARY("h_send: refused"); }
  else
  {
    __CPROVER_assert(r && G_push_calls == 1 && G_push_kind == Cmd_Send && G_push_sid == sid && G_push_size == n && E._cmds.n == qn0 + 1 && E._atomicStats.commands == cmds0 + 1,
                     "SE2 accepted: exactly one Send command for this id with exactly n bytes is appended");
    __CPROVER_assert(G_wake_calls == (E._eventFd >= 0 ? 1u : 0u), "SE3 the I/O thread is woken iff the eventfd exists");
    if (sid == GSID) { __CPROVER_assert(G_accepted == acc0 + n && E._cmds.w.n == wn0 + 1 && QSTREAM(E._cmds.w, G_accepted), "SE2 the payload takes the NEXT positions of the session's accepted stream, at the tail of the queue"); IORA_CANARY("h_send: witness session"); }
    else __CPROVER_assert(G_accepted == acc0 && E._cmds.w.n == wn0, "SE2 other sessions' streams are untouched");
    IORA_CANARY("h_send: accepted");
  }
  __CPROVER_assert(G_onerror_calls == 0 && G_scb_calls == 0 && G_dosend_calls == 0, "SE no callback, no handler runs on the caller's thread");
}

void h_sendAsync(void)
{
  TcpEngine E; TcpEngine *self = &E; world(self);
  SessionId sid = nondet_u64(); size_t n = nondet_size_t(); __CPROVER_assume(n < ((size_t)1 << 40));
  uint8_t *data = malloc(n); __CPROVER_assume(data != NULL);
  bool cb = nondet_bool(), closed0 = E._cmdsClosed;
  TcpEngine_sendAsync(self, sid, data, n, cb);
  IORA_CANARY("h_sendAsync: returns");
  bool accepted = n == 0 || !closed0;
  __CPROVER_assert(G_scb_calls == (cb ? 1u : 0u), "SA completion callback exactly once iff one was given");
  __CPROVER_assert(!cb || (G_scb_sid == sid && G_scb_ok == accepted && (!accepted || G_scb_len == n) && G_scb_after_push == G_push_calls), "SA it carries the enqueue verdict and the length, and runs after the enqueue");
  __CPROVER_assert(G_push_calls == ((n > 0 && !closed0) ? 1u : 0u) && !self->_cmdMutex.held, "SA one command iff accepted; mutex released");
}

void h_process(void)
{
  TcpEngine E; TcpEngine *self = &E; world(self);
  G_qend = G_accepted;                     /* everything accepted so far is in the queue (or already handed) */
  G_hasc0 = E._cmds.has_c;
  TcpEngine_process(self);
  IORA_CANARY("h_process: returns");
  __CPROVER_assert(G_handed == G_qend, "PQ2 every payload that was queued for the session has been handed to doSend, exactly once, in order");
  __CPROVER_assert(G_doconnect_w_calls == (G_hasc0 ? 1u : 0u), "PQ-C every Connect command taken from the queue has been handed to doConnect exactly once when process() returns, whatever _running says");
  if (G_hasc0) { IORA_CANARY("h_process: a queued connect carried the witness id"); }
  __CPROVER_assert(E._cmds.n == 0 && E._cmds.w.n == 0 && !E._cmds.has_c, "PQ3 the whole queue was taken; _cmds is empty for the next round");
  __CPROVER_assert(!self->_cmdMutex.held && !self->_cbMutex.held && iora_exc == EXC_NONE, "PQ4 mutexes released, no exception escapes");
  if (G_dosend_w_calls > 0) { IORA_CANARY("h_process: payloads of the witness session handed over"); }
  if (G_onerror_calls > 0) { IORA_CANARY("h_process: a handler threw"); }
}

/* TF Transport::send / sendAsync hand (sid, data pointer, size, callback) to the engine verbatim, exactly once, and return its verdict */
void h_transport_forward(void)
{
  Transport T; SessionId sid = nondet_u64(); iora_bv d; bool cb = nondet_bool();
  G_fw_send_calls = 0; G_fw_async_calls = 0;
  if (nondet_bool()) { bool r = Transport_send(&T, sid, d); __CPROVER_assert(G_fw_send_calls == 1 && G_fw_async_calls == 0 && G_fw_sid == sid && G_fw_data == d.p && G_fw_n == d.n && r == G_fw_ret, "TF Transport::send forwards (sid, data, size) verbatim and returns the engine's verdict"); IORA_CANARY("h_transport_forward: send"); }
  else { Transport_sendAsync(&T, sid, d, cb); __CPROVER_assert(G_fw_async_calls == 1 && G_fw_send_calls == 0 && G_fw_sid == sid && G_fw_data == d.p && G_fw_n == d.n && G_fw_cb == cb, "TF Transport::sendAsync forwards (sid, data, size, callback) verbatim"); IORA_CANARY("h_transport_forward: sendAsync"); }
}
