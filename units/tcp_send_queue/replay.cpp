// REPLAY adapter for unit tcp_send_queue: the REAL TcpEngine (constructed without start(); one Session emplaced by hand; send()/epoll_ctl()
// interposed): NSEND public send() calls with distinct payloads, then process(); the bytes that reach the (interposed) kernel must be the
// concatenation of the payloads in call order. CLOSED=1: the command queue is closed first - every send() must return false and nothing is written.
// CONNECT=1: connect() to a closed loopback port is issued while the engine is not running (the state after stop() was requested: _running == false), then
//   process(): the id connect() returned must get a terminal event (onConnect or onClose) - clause PQ-C.
// UNKNOWN=1: the sends go to an id that has no session - send() still returns true (clause SE-U), nothing is written.
#include "iora/network/detail/tcp_engine.hpp"
#include "replay_io.h"
#include <sys/epoll.h>
using namespace iora::network;
static std::string wire;
extern "C" ssize_t send(int, const void *buf, size_t len, int) { wire.append((const char *)buf, len); return (ssize_t)len; }
extern "C" int epoll_ctl(int, int, int, struct epoll_event *) { return 0; }
int main(int argc, char **argv) {
  if (argc < 2) { printf("usage: replay <inputs>\n"); return 2; }
  auto in = replay_io::load(argv[1]);
  size_t NSEND = replay_io::u64(in["NSEND"]), CLOSED = replay_io::u64(in["CLOSED"]), UNKNOWN = replay_io::u64(in["UNKNOWN"]); if (NSEND > 64) NSEND = 64;
  TransportConfig cfg; cfg.enableHighResolutionTimers = false;
  TcpEngine eng(cfg);
  auto s = std::make_unique<TcpEngine::Session>(); s->id = 7; s->fd = 1000; eng._sessions.emplace(7, std::move(s));
  if (CLOSED) { std::lock_guard<std::mutex> g(eng._cmdMutex); eng._cmdsClosed = true; }
  if (in.count("CONNECT") && replay_io::u64(in["CONNECT"])) {
    int terminal = 0; SessionId got = 0;
    eng._cbs.onClose = [&](SessionId sid, const TransportErrorInfo &) { terminal++; got = sid; };
    eng._cbs.onConnect = [&](SessionId sid, const TransportAddress &) { terminal++; got = sid; };
    auto r = eng.connect("127.0.0.1", 9, TlsMode::None);           // _running is false: exactly the state in which a stop() has been requested
    if (!r.isOk()) replay_io::fail("connect() refused on an open queue");
    eng.process();
    if (auto it = eng._sessions.find(r.value()); it != eng._sessions.end()) eng.closeNow(it->second.get(), TransportError::Unknown, "replay teardown", 0);   // what shutdownDrain would do
    if (terminal != 1 || got != r.value()) replay_io::fail("PQ-C connect() returned ok(sid=" + std::to_string(r.value()) + ") but the id got " + std::to_string(terminal) + " terminal events (onConnect / onClose) after process() and teardown");
    replay_io::ok("PQ-C the queued connect was dispatched: exactly one terminal event"); return 0;
  }
  std::string expect; size_t refused = 0;
  for (size_t i = 0; i < NSEND; i++) {
    std::string p = "<" + std::to_string(i) + ":" + std::string(1 + i % 5, (char)('a' + i % 26)) + ">";
    bool ok = eng.send(UNKNOWN ? 99 : 7, p.data(), p.size());
    if (ok && !UNKNOWN) expect += p;
    if (!ok) refused++;
    if (i == 1 && !eng.send(7, p.data(), 0)) replay_io::fail("SE0 empty send refused");
  }
  size_t queued = eng._cmds.size();
  eng.process();
  if (CLOSED) { if (refused != NSEND || queued != 0 || !wire.empty()) replay_io::fail("SE1 closed queue: " + std::to_string(NSEND - refused) + " sends accepted, " + std::to_string(queued) + " queued"); }
  else {
    if (refused) replay_io::fail("SE2 send refused on an open queue");
    if (queued != NSEND) replay_io::fail("SE2 " + std::to_string(queued) + " commands queued for " + std::to_string(NSEND) + " sends");
    if (wire != expect) replay_io::fail("PQ1/PQ2 wire [" + wire + "] != payloads in call order [" + expect + "]");
    if (!eng._cmds.empty()) replay_io::fail("PQ3 queue not empty after process()");
  }
  replay_io::ok("send -> enqueue -> process -> doSend keeps the call order (" + std::to_string(wire.size()) + " bytes on the wire)");
  return 0;
}
