// REPLAY adapter for unit tcp_write: drives the REAL TcpEngine::writePending / doSend with the scenario found by the bounded SEARCH
// harness (post.c, h_search) and evaluates the contract clauses natively.
// SCR bytes: FF would block, FD would block (TLS: wants the other direction), FE fatal, k = accept min(k,len) bytes
//   - the engine is constructed without start(); a Session is emplaced into _sessions by hand (-fno-access-control)
//   - send / SSL_write / SSL_get_error / ERR_get_error / SSL_shutdown / SSL_free / epoll_ctl are DEFINED HERE: they interpose the libc /
//     libssl symbols for the calls made by the header-only engine code compiled into this executable, and answer from the script
// Inputs: SCR (hex bytes: FF = would block, FE = fatal, k = accept min(k,len) bytes), OP (0 writePending, 1 doSend),
//         MODE (0 plain, 1 TLS established, 2 TLS handshake), NQ, Q0, Q1, Q2 (queued buffer sizes), PAY, MAXQ, CLOSEBP
#include "iora/network/detail/tcp_engine.hpp"
#include "replay_io.h"
#include <sys/epoll.h>
using namespace iora::network;

static std::vector<uint8_t> script; static size_t sp = 0;
static std::vector<uint8_t> wire;            // bytes the "kernel" / "OpenSSL" accepted, in order
static int send_calls = 0, sslw_calls = 0, ssl_fatal = 0, ssl_other = 0, ssl_zero = 0;
static int ep_op = -1, ep_fd = -1; static uint32_t ep_events = 0;
static long next_answer(size_t len, int *fatal) {
  uint8_t c = sp < script.size() ? script[sp] : 0xFF; sp++; *fatal = (c == 0xFE);
  if (c >= 0xFD) return -1;                     // FF / FD would block (TLS: WANT_WRITE / WANT_READ), FE fatal
  return (size_t)c < len ? (long)c : (long)len;
}
extern "C" ssize_t send(int, const void *buf, size_t len, int) {
  send_calls++; int fatal; long r = next_answer(len, &fatal);
  if (r < 0) { errno = fatal ? ECONNRESET : EAGAIN; return -1; }
  wire.insert(wire.end(), (const uint8_t *)buf, (const uint8_t *)buf + r); return r;
}
extern "C" int SSL_write(SSL *, const void *buf, int num) {
  sslw_calls++;
  if (num <= 0) replay_io::fail("SSL_write called with num <= 0 (OpenSSL API misuse)");
  int fatal; long r = next_answer((size_t)num, &fatal); ssl_fatal = fatal; ssl_other = (sp >= 1 && sp - 1 < script.size() && script[sp - 1] == 0xFD); ssl_zero = (r == 0);
  if (r > 0) wire.insert(wire.end(), (const uint8_t *)buf, (const uint8_t *)buf + r);
  return (int)r;
}
extern "C" int SSL_get_error(const SSL *, int) { return (ssl_fatal || ssl_zero) ? SSL_ERROR_SSL : (ssl_other ? SSL_ERROR_WANT_READ : SSL_ERROR_WANT_WRITE); }
extern "C" unsigned long ERR_get_error(void) { return 0; }
extern "C" int SSL_shutdown(SSL *) { return 1; }
extern "C" void SSL_free(SSL *) {}
extern "C" int epoll_ctl(int, int op, int fd, struct epoll_event *ev) { ep_op = op; ep_fd = fd; ep_events = ev ? ev->events : 0; return 0; }

static uint8_t stream_byte(size_t pos) { return (uint8_t)(pos * 7 + 3); }
static ByteBuffer chunk(size_t lo, size_t n) { ByteBuffer b(n); for (size_t i = 0; i < n; i++) b[i] = stream_byte(lo + i); return b; }

int main(int argc, char **argv) {
  if (argc < 2) { printf("usage: replay <inputs>\n"); return 2; }
  auto in = replay_io::load(argv[1]);
  script = replay_io::bytes(in["SCR"]);
  size_t OP = replay_io::u64(in["OP"]), MODE = replay_io::u64(in["MODE"]), NQ = replay_io::u64(in["NQ"]);
  size_t Q[3] = {(size_t)replay_io::u64(in["Q0"]), (size_t)replay_io::u64(in["Q1"]), (size_t)replay_io::u64(in["Q2"])};
  size_t PAY = replay_io::u64(in["PAY"]), MAXQ = replay_io::u64(in["MAXQ"]); bool CLOSEBP = replay_io::u64(in["CLOSEBP"]) != 0;
  if (NQ > 3) NQ = 3;

  TransportConfig cfg; cfg.enableHighResolutionTimers = false; cfg.maxWriteQueue = MAXQ; cfg.closeOnBackpressure = CLOSEBP;
  TcpEngine eng(cfg);
  int closes = 0; SessionId closedSid = 0;
  eng._cbs.onClose = [&](SessionId sid, const TransportErrorInfo &) { closes++; closedSid = sid; };
  auto up = std::make_unique<TcpEngine::Session>(); up->id = 7; up->fd = 1000;   // fd 1000 is never touched by the real kernel
  up->tlsMode = MODE == 0 ? TlsMode::None : TlsMode::Client;
  up->tlsState = MODE == 0 ? TcpEngine::TlsState::None : (MODE == 1 ? TcpEngine::TlsState::Open : TcpEngine::TlsState::Handshake);
  up->ssl = MODE == 0 ? nullptr : (SSL *)0x1000;                                  // never dereferenced: every SSL_* call is interposed
  size_t total = 0;
  for (size_t i = 0; i < NQ; i++) { up->wq.emplace_back(chunk(total, Q[i])); total += Q[i]; }
  up->wantWrite = NQ > 0;
  TcpEngine::Session *sp_ = up.get();
  eng._sessions.emplace(7, std::move(up));
  size_t queued0 = NQ;

  size_t A = total;
  if (OP == 0) eng.writePending(sp_);
  else { TcpEngine::SendReq r; r.sid = 7; r.payload = chunk(total, PAY); A = total + PAY; eng.doSend(std::move(r)); }

  // S2: what reached the wire is the stream prefix, byte for byte, in order
  if (wire.size() > A) replay_io::fail("S2/SP more bytes written than accepted");
  for (size_t i = 0; i < wire.size(); i++) if (wire[i] != stream_byte(i)) replay_io::fail("S2 wire byte " + std::to_string(i) + " is not stream byte " + std::to_string(i) + " (skip / duplicate / reorder)");
  auto it = eng._sessions.find(7);
  bool open = it != eng._sessions.end() && !it->second->closed;
  if (open) {
    TcpEngine::Session *s = it->second.get();
    if (closes != 0) replay_io::fail("SC close reported but the session is still open");
    bool noDrop = CLOSEBP || OP == 0 || queued0 < MAXQ;
    if (noDrop) {     // S1: queue content == rest of the accepted stream
      size_t pos = wire.size();
      for (auto &b : s->wq) { if (b.empty()) replay_io::fail("S1 empty buffer in the write queue"); for (uint8_t c : b) { if (pos >= A || c != stream_byte(pos)) replay_io::fail("S1 queued byte at stream position " + std::to_string(pos) + " is wrong (lost / duplicated / reordered)"); pos++; } }
      if (pos != A) replay_io::fail("S1 accepted bytes are missing: wire + queue cover " + std::to_string(pos) + " of " + std::to_string(A));
    }
    if (!s->wq.empty() && !(ep_op == EPOLL_CTL_MOD && ep_fd == 1000 && (ep_events & EPOLLOUT) && (ep_events & EPOLLIN))) replay_io::fail("S4 queue non-empty but EPOLLOUT is not registered (lost re-arm)");
    if (!s->wq.empty() && !s->wantWrite) replay_io::fail("S4 queue non-empty but wantWrite is false");
    if (OP == 0 && s->wq.empty() && (s->wantWrite || (ep_events & EPOLLOUT))) replay_io::fail("S4b/S4c queue drained but the write wish / EPOLLOUT stays");
    if (OP == 1 && MODE == 2 && (send_calls || sslw_calls || s->wq.size() != queued0 + 1)) replay_io::fail("S3 TLS handshake in progress but something was written / payload not queued");
    if (OP == 1 && CLOSEBP && MODE != 2 && s->wq.size() > std::max<size_t>(MAXQ, 1)) replay_io::fail("S5 open with a queue over the limit");
  } else {
    if (it != eng._sessions.end()) replay_io::fail("SC session closed but still in the table");
    if (closes != 1 || closedSid != 7) replay_io::fail("SC close callback count is " + std::to_string(closes) + " (must be exactly 1 for sid 7)");
  }
  if (MODE == 0 ? sslw_calls != 0 : send_calls != 0) replay_io::fail("W6 wrong write primitive for the session's TLS mode (clear text on TLS / OpenSSL on plain TCP)");
  if (eng._atomicStats.bytesOut.load() != wire.size()) replay_io::fail("SB bytesOut != bytes handed over");
  replay_io::ok("contract clauses hold on this scenario (wire " + std::to_string(wire.size()) + " of " + std::to_string(A) + " bytes, " + (open ? "open" : "closed") + ")");
  return 0;
}
