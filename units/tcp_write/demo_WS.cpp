// Observation WS-2 (unit tcp_write NOTES.md): with the TimerService active the write-stall timer is armed only when doSend() appends the FIRST buffer;
// the remainder of a partially written payload is queued without it, and later sends see size >= 2. Real TcpEngine, interposed send().
// g++ -std=c++17 -g -fno-access-control -I/repo/include demo_WS.cpp -lssl -lcrypto -lpthread
#include "iora/network/detail/tcp_engine.hpp"
#include <cstdio>
using namespace iora::network;
static std::vector<long> script; static size_t sp = 0;
extern "C" ssize_t send(int, const void *, size_t len, int) { long s = sp < script.size() ? script[sp++] : (long)len; if (s < 0) { errno = EAGAIN; return -1; } return (ssize_t)((size_t)s < len ? (size_t)s : len); }
extern "C" int epoll_ctl(int, int, int, struct epoll_event *) { return 0; }
int main() {
  setvbuf(stdout, nullptr, _IONBF, 0);
  TransportConfig cfg; cfg.writeStallTimeout = std::chrono::seconds(5);      // high-resolution timers are on by default
  printf("enableHighResolutionTimers=%d writeStallTimeout=%lld ms\n", (int)cfg.enableHighResolutionTimers, (long long)std::chrono::duration_cast<std::chrono::milliseconds>(cfg.writeStallTimeout).count());
  for (int scenario = 0; scenario < 2; scenario++) {
    TcpEngine &eng = *new TcpEngine(cfg);      // leaked on purpose (no teardown in this demo)
    auto s = std::make_unique<TcpEngine::Session>(); s->id = 7; s->fd = 1000; TcpEngine::Session *p = s.get(); eng._sessions.emplace(7, std::move(s));
    auto doSend = [&](const char *x) { TcpEngine::SendReq r; r.sid = 7; r.payload.assign(x, x + 4); eng.doSend(std::move(r)); };
    script = scenario == 0 ? std::vector<long>{-1} : std::vector<long>{2}; sp = 0;     // 0: would block   1: partial write (2 of 4 bytes)
    doSend("AAAA");
    printf("scenario %d (%s): queue=%zu timerService=%d writeStallTimeoutId=%llu\n", scenario, scenario == 0 ? "first send would block" : "first send partially written", p->wq.size(), (int)(eng._timerService != nullptr), (unsigned long long)p->writeStallTimeoutId);
    doSend("BBBB"); doSend("CCCC");
    printf("           after two more sends (peer not reading): queue=%zu writeStallTimeoutId=%llu  -> %s\n", p->wq.size(), (unsigned long long)p->writeStallTimeoutId, p->writeStallTimeoutId ? "stall timer armed" : "NO stall timer: this stalled session is never closed by the write-stall mechanism");
  }
  _exit(0);
}
