/* type environment + ghost state + loop contracts for unit tcp_write (TcpEngine::writePending, doSend, updateInterest, modEpoll) */
#include "iora_tcp_env.h"

/* ---- ghost state of the write direction (G_written, G_send_calls, ... live in iora_slice.h; G_ep_* in iora_tcp_env.h) ---- */
size_t G_A;                      /* writePending: end of the accepted positions (constant during the call) */
unsigned G_close_calls;          /* calls of closeNow that really closed (saturating) */
SessionId G_close_sid; TransportError G_close_why;

/* STREAM(s, A): the buffers of s->wq tile [G_written, A) in queue order - nothing accepted is missing, duplicated or out of order */
#define STREAM(s, A) ((s)->wq.n == 0 ? G_written == (A) \
                      : (IORA_SDEQUE_WF((s)->wq) && (s)->wq.front.lo == G_written && (s)->wq.end == (A)))
/* stream positions < 2^31: every `(int)size()` narrowing is exact (assumption, see NOTES.md) */
#define POS_BOUND ((size_t)1 << 31)
/* session invariant established where sessions are created (onListener / doConnect): TLS mode and TLS state are set together,
 * a TLS session owns an SSL object */
#define TLS_INV(s) ((((s)->tlsMode == TlsMode_None) == ((s)->tlsState == TlsState_None)) && ((s)->tlsMode == TlsMode_None || (s)->ssl != NULL) \
                    && (s)->tlsMode >= TlsMode_None && (s)->tlsMode <= TlsMode_Client && (s)->tlsState >= TlsState_None && (s)->tlsState <= TlsState_Open)
#define TLS_HANDSHAKING(s) ((s)->tlsMode != TlsMode_None && (s)->tlsState == TlsState_Handshake)
/* the kernel's interest mask for the session's fd contains EPOLLOUT (last epoll_ctl was a MOD of this fd on the engine's epoll instance) */
#define EPOLLOUT_ARMED(self, s) (G_ep_op == EPOLL_CTL_MOD && G_ep_fd == (s)->fd && G_ep_epfd == (self)->_epollFd && (G_ep_events & EPOLLOUT) != 0 && (G_ep_events & EPOLLIN) != 0)

/* ---- callees that are not under contract in THIS unit (stubs) ---- */
/* closeNow: abstraction of the contract proved in unit tcp_close (idempotent; sets closed, erases the session from _sessions -
 * which DESTROYS it - and reports exactly one close). Any use of `s` after a closing closeNow is a failed pointer obligation. */
static inline void TcpEngine_closeNow(TcpEngine *self, Session *s, TransportError why, const char *msg, int tlsErr)
{
  (void)msg; (void)tlsErr;
  if (!s || s->closed) return;
  s->closed = true;
  G_close_sid = s->id; G_close_why = why;
  if (G_close_calls < 0x7fffffffu) G_close_calls++;
#ifdef TCP_WRITE_DFCC
  if (s->id == iora_sessmap_GKEY) self->_sessions.has = 0;      /* DFCC build: loop contracts have no frees clause, the object stays */
#else
  iora_sessmap_erase(&self->_sessions, s->id);                  /* destroys *s when s is the table entry */
#endif
}
/* virtual test hooks (B6): a subclass may veto the write; default returns true. Any answer, no side effect on the engine. */
static inline bool TcpEngine_beforeSslWrite(TcpEngine *self, SessionId sid, size_t n) { (void)self; (void)sid; (void)n; return nondet_bool(); }
static inline const char *TcpEngine_getInjectedErrorMessage(TcpEngine *self) { (void)self; return "injected"; }
static inline int TcpEngine_getInjectedSslError(TcpEngine *self) { (void)self; return nondet_int(); }
static inline const char *TcpEngine_lastErr(TcpEngine *self) { (void)self; return "errno text"; }
/* write-stall timer (TimerService, property C08): may change the session's timer id only */
static inline void TcpEngine_scheduleWriteStallTimeout(TcpEngine *self, Session *s) { (void)self; if (nondet_bool()) s->writeStallTimeoutId = nondet_u64(); }
static inline void TcpEngine_cancelWriteStallTimeout(TcpEngine *self, Session *s) { (void)self; if (nondet_bool()) s->writeStallTimeoutId = 0; }

/* ---- loop 1 of writePending: the drain loop ---- */
#define IORA_LOOP_TcpEngine_writePending_1 IORA_LC( \
  __CPROVER_assigns(s->wq, s->wantWrite, s->tlsWantWrite, s->lastWriteProgress, s->closed, self->_sessions.has, self->_atomicStats.bytesOut, \
                    IORA_WRITE_ENV_GHOSTS, G_close_calls, G_close_sid, G_close_why, \
                    IORA_EPOLL_GHOSTS) \
  __CPROVER_loop_invariant(!s->closed && self->_sessions.has && G_close_calls == __CPROVER_loop_entry(G_close_calls)) \
  __CPROVER_loop_invariant(STREAM(s, G_A) && G_written >= __CPROVER_loop_entry(G_written)) \
  __CPROVER_loop_invariant(self->_atomicStats.bytesOut - __CPROVER_loop_entry(self->_atomicStats.bytesOut) == G_written - __CPROVER_loop_entry(G_written)) \
  __CPROVER_loop_invariant(s->tlsMode == TlsMode_None ? G_sslw_calls == __CPROVER_loop_entry(G_sslw_calls) : G_send_calls == __CPROVER_loop_entry(G_send_calls)) \
  __CPROVER_decreases(s->wq.n))
