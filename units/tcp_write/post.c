/* Contracts of the TCP write path, written from property C01 (not from the code).
 *
 *  S1  closed, or STREAM: the queue still tiles [G_written, A') - nothing accepted is lost, duplicated or reordered
 *  S2  every byte range handed to send()/SSL_write() starts at G_written and stays inside its buffer   (asserted INSIDE the stubs)
 *  S3  TLS handshake in progress => neither send() nor SSL_write() is called, the payload is queued
 *  S4  open and queue non-empty => the kernel's interest mask of the session's fd contains EPOLLOUT (no lost re-arm)
 *  S5  closeOnBackpressure: over the limit => closed; while open nothing is dropped (S1) and the queue stays within the limit
 *  SP  progress is a prefix: G_written only grows and never passes A'
 *  SB  statistics: bytesOut grows by exactly the number of bytes handed over
 */
#define OLD(e) __CPROVER_old(e)
#define NOT_CLOSED_NOW (G_close_calls == OLD(G_close_calls))

#define WP_PRE \
__CPROVER_requires(IORA_TRUE && __CPROVER_is_fresh(self, sizeof(*self)) && __CPROVER_is_fresh(s, sizeof(*s))) \
/* s is the table entry of its id (sessions are only reachable through _sessions / _fdTags) */ \
__CPROVER_requires(self->_sessions.has && self->_sessions.val == s && s->id == iora_sessmap_GKEY) \
__CPROVER_requires(!s->closed && TLS_INV(s) && !TLS_HANDSHAKING(s))   /* onSession(): writePending only runs once the handshake is over */ \
__CPROVER_requires(STREAM(s, G_A) && G_written <= G_A && G_A < POS_BOUND) \
__CPROVER_requires(G_close_calls < 1000) \
__CPROVER_assigns(s->wq, s->wantWrite, s->tlsWantWrite, s->lastWriteProgress, s->closed, s->writeStallTimeoutId, self->_sessions.has, self->_atomicStats.bytesOut, \
                  G_written, G_errno, G_send_calls, G_sslw_calls, G_ssl_last_ret, G_close_calls, G_close_sid, G_close_why, \
                  G_ep_fd, G_ep_events, G_ep_op, G_ep_epfd, G_ep_mods, G_ep_dels)

void TcpEngine_writePending_contract(TcpEngine *self, Session *s)
WP_PRE
/* S1 */ __CPROVER_ensures(NOT_CLOSED_NOW ? (!s->closed && self->_sessions.has && STREAM(s, G_A))
                                          : (G_close_calls == OLD(G_close_calls) + 1 && G_close_sid == OLD(s->id) && !self->_sessions.has))
/* SP */ __CPROVER_ensures(G_written >= OLD(G_written) && G_written <= G_A)
/* S4 */ __CPROVER_ensures((NOT_CLOSED_NOW && s->wq.n > 0) ==> EPOLLOUT_ARMED(self, s))
/* S4b queue drained => the write wish is withdrawn and the mask was refreshed (EPOLLIN stays armed) */
         __CPROVER_ensures((NOT_CLOSED_NOW && s->wq.n == 0) ==> (!s->wantWrite && G_ep_op == EPOLL_CTL_MOD && G_ep_fd == s->fd && (G_ep_events & EPOLLIN) != 0))
/* SB */ __CPROVER_ensures(self->_atomicStats.bytesOut - OLD(self->_atomicStats.bytesOut) == G_written - OLD(G_written))
/* W6 plain TCP never touches OpenSSL, TLS never writes clear text */
         __CPROVER_ensures(OLD(s->tlsMode) == TlsMode_None ? G_sslw_calls == OLD(G_sslw_calls) : G_send_calls == OLD(G_send_calls))
;

void h_writePending(void)
{
  TcpEngine *self; Session *s;
  unsigned c0 = G_close_calls;
  TcpEngine_writePending(self, s);
  IORA_CANARY("h_writePending: returns");
  if (G_close_calls != c0) { IORA_CANARY("h_writePending: closed"); }
  else if (G_written < G_A) { IORA_CANARY("h_writePending: still queued"); }
  else { IORA_CANARY("h_writePending: drained"); }
}
