/* Contracts of the TCP write path, written from property C01 (not from the code).
 *
 *  S1  closed, or STREAM: the queue still tiles [G_written, A') - nothing accepted is lost, duplicated or reordered
 *  S2  every byte range handed to send()/SSL_write() starts at G_written and stays inside its buffer   (asserted INSIDE the stubs)
 *  S3  TLS handshake in progress => neither send() nor SSL_write() is called, the payload is queued
 *  S4  open and queue non-empty => the kernel's interest mask of the session's fd contains EPOLLOUT (no lost re-arm)
 *  S5  closeOnBackpressure: over the limit => closed; while open nothing is dropped (S1) and the queue stays within the limit
 *  SP  progress is a prefix: G_written only grows and never passes A'
 *  SB  statistics: bytesOut grows by exactly the number of bytes handed over
 *  SC  a close is reported exactly once, for this session, and the session leaves the table
 *  FR  frame: nothing else of the session / engine changes
 *
 * Two forms of the same contracts:
 *   plain harnesses (h_writePending, h_doSend*): assume the precondition on a nondeterministic state, call the extracted function
 *     (loop closed by its loop contract), assert every clause; the frame is an explicit field-by-field comparison with a snapshot.
 *     closeNow's stub DESTROYS the session, so a use after close is a failed pointer obligation.
 *   DFCC contracts (*_contract): the tool checks the assigns clause (frame) on every assignment. */
#define OLD(e) __CPROVER_old(e)

/* ---------- shared by both forms ---------- */
#define SESSION_FRAME_OK(s, s0) ((s)->id == (s0).id && (s)->fd == (s0).fd && (s)->tlsMode == (s0).tlsMode && (s)->ssl == (s0).ssl && (s)->tlsState == (s0).tlsState \
  && (s)->tlsStart == (s0).tlsStart && (s)->created == (s0).created && (s)->connectPending == (s0).connectPending \
  && (s)->connectStart == (s0).connectStart && (s)->connectTimeoutId == (s0).connectTimeoutId && (s)->handshakeTimeoutId == (s0).handshakeTimeoutId)
#define CONFIG_EQ(a, b) ((a).ioReadChunk == (b).ioReadChunk && (a).maxWriteQueue == (b).maxWriteQueue && (a).closeOnBackpressure == (b).closeOnBackpressure \
  && (a).useEdgeTriggered == (b).useEdgeTriggered && (a).connectTimeout.ticks == (b).connectTimeout.ticks && (a).handshakeTimeout.ticks == (b).handshakeTimeout.ticks \
  && (a).writeStallTimeout.ticks == (b).writeStallTimeout.ticks)
#define STATS_EQ_EXCEPT_OUT(a, b) ((a).accepted == (b).accepted && (a).connected == (b).connected && (a).closed == (b).closed && (a).errors == (b).errors \
  && (a).tlsHandshakes == (b).tlsHandshakes && (a).tlsFailures == (b).tlsFailures && (a).bytesIn == (b).bytesIn && (a).epollWakeups == (b).epollWakeups \
  && (a).commands == (b).commands && (a).gcRuns == (b).gcRuns && (a).gcClosedIdle == (b).gcClosedIdle && (a).gcClosedAged == (b).gcClosedAged \
  && (a).sessionsCurrent == (b).sessionsCurrent && (a).sessionsPeak == (b).sessionsPeak)
#define ENGINE_FRAME_OK(e, e0) (CONFIG_EQ((e)->_config, (e0)._config) && STATS_EQ_EXCEPT_OUT((e)->_atomicStats, (e0)._atomicStats) && (e)->_epollFd == (e0)._epollFd \
  && (e)->_cbMutex.held == (e0)._cbMutex.held && (e)->_sessionRwMutex.held == (e0)._sessionRwMutex.held && (e)->_cbs.onClose == (e0)._cbs.onClose && (e)->_cbs.onData == (e0)._cbs.onData \
  && (e)->_sessions.val == (e0)._sessions.val && (e)->_sessions.other == (e0)._sessions.other && (e)->_fdTags.has == (e0)._fdTags.has && (e)->_fdTags.val == (e0)._fdTags.val \
  && (e)->_timerService == (e0)._timerService)

static inline void havoc_write_ghosts(void)
{
  G_written = nondet_size_t(); G_errno = nondet_int(); G_send_calls = nondet_unsigned(); G_sslw_calls = nondet_unsigned(); G_ssl_last_ret = nondet_int();
  G_close_calls = nondet_unsigned(); G_close_sid = nondet_u64(); G_close_why = nondet_int();
  G_ep_fd = nondet_int(); G_ep_events = nondet_unsigned(); G_ep_op = nondet_int(); G_ep_epfd = nondet_int(); G_ep_mods = nondet_unsigned(); G_ep_dels = nondet_unsigned();
  G_A = nondet_size_t(); iora_sessmap_GKEY = nondet_u64(); IORA_TRUE = 1;
}

/* ===================== writePending ===================== */
/* precondition (both forms). Sources: s is reachable only through _sessions/_fdTags, so it is the table entry of its id;
 * onSession() calls writePending only when the TLS handshake is over; STREAM is the invariant every function here preserves. */
#define WP_PRE_COND(self, s) ((self)->_sessions.has && (self)->_sessions.val == (s) && (s)->id == iora_sessmap_GKEY \
  && !(s)->closed && TLS_INV(s) && !TLS_HANDSHAKING(s) && STREAM(s, G_A) && G_written <= G_A && G_A < POS_BOUND && G_close_calls < 1000)

/* postcondition clauses (shared by the unbounded harness and the bounded SEARCH harness) */
static void wp_post(TcpEngine *self, Session *s, const Session *s0p, const TcpEngine *E0p, unsigned c0, unsigned sc0, unsigned ss0, size_t w0)
{
  Session s0 = *s0p; TcpEngine E0 = *E0p;
  if (G_close_calls == c0)
  {
    __CPROVER_assert(!s->closed && self->_sessions.has, "S1 not closed: the session stays open and in the table");
    __CPROVER_assert(STREAM(s, G_A), "S1 STREAM: the queue tiles [G_written, A) - nothing lost, duplicated or reordered");
    __CPROVER_assert(s->wq.n == 0 || EPOLLOUT_ARMED(self, s), "S4 queue non-empty => EPOLLOUT registered for the session's fd (no lost re-arm)");
    __CPROVER_assert(s->wq.n == 0 || s->wantWrite, "S4 queue non-empty => wantWrite stays set");
    __CPROVER_assert(s->wq.n != 0 || (!s->wantWrite && G_ep_op == EPOLL_CTL_MOD && G_ep_fd == s->fd && (G_ep_events & EPOLLIN) != 0),
                     "S4b queue drained => write wish withdrawn, interest mask refreshed with EPOLLIN");
    __CPROVER_assert(s->wq.n != 0 || s->connectPending || (s->tlsState == TlsState_Open && s->tlsWantWrite) || (G_ep_events & EPOLLOUT) == 0,
                     "S4c queue drained => EPOLLOUT no longer registered (no busy loop), unless a connect is pending or OpenSSL itself wants to write");
    __CPROVER_assert(SESSION_FRAME_OK(s, s0) && s->lastActivity == s0.lastActivity, "FR session fields outside the write state are unchanged");
    if (s->wq.n > 0) { IORA_CANARY("writePending: still queued"); } else { IORA_CANARY("writePending: drained"); }
  }
  else
  {
    __CPROVER_assert(G_close_calls == c0 + 1 && G_close_sid == s0.id && !self->_sessions.has, "SC closed exactly once, reported for this session, erased from the table");
    __CPROVER_assert(G_close_why == TransportError_Socket || G_close_why == TransportError_TLSIO, "SC close reason is an I/O error");
    IORA_CANARY("writePending: closed");
  }
  __CPROVER_assert(G_written >= w0 && G_written <= G_A, "SP what reached the kernel is a prefix of the accepted stream");
  __CPROVER_assert(self->_atomicStats.bytesOut - E0._atomicStats.bytesOut == G_written - w0, "SB bytesOut counts exactly the bytes handed over");
  __CPROVER_assert(s0.tlsMode == TlsMode_None ? G_sslw_calls == ss0 : G_send_calls == sc0, "W6 plain TCP never calls SSL_write, TLS never calls send (no clear text)");
  __CPROVER_assert(ENGINE_FRAME_OK(self, E0) && self->_atomicStats.backpressureCloses == E0._atomicStats.backpressureCloses, "FR engine state outside bytesOut/_sessions is unchanged");
}

void h_writePending(void)
{
  TcpEngine E; TcpEngine *self = &E;
  Session *s = malloc(sizeof(Session)); __CPROVER_assume(s != NULL);
  iora_canon_session(s); iora_canon_engine(self);
  self->_sessions.val = s;       /* pointers are ASSIGNED: CBMC does not alias a nondeterministic pointer with an object it is merely assumed equal to */
  havoc_write_ghosts();
  __CPROVER_assume(WP_PRE_COND(self, s));
  Session s0 = *s; TcpEngine E0 = E;
  unsigned c0 = G_close_calls, sc0 = G_send_calls, ss0 = G_sslw_calls; size_t w0 = G_written;
  TcpEngine_writePending(self, s);
  IORA_CANARY("h_writePending: returns");
  wp_post(self, s, &s0, &E0, c0, sc0, ss0, w0);
}

/* DFCC form */
void TcpEngine_writePending_contract(TcpEngine *self, Session *s)
__CPROVER_requires(IORA_TRUE && __CPROVER_is_fresh(self, sizeof(*self)) && __CPROVER_is_fresh(s, sizeof(*s)))
__CPROVER_requires(WP_PRE_COND(self, s))
__CPROVER_assigns(s->wq, s->wantWrite, s->tlsWantWrite, s->lastWriteProgress, s->closed, s->writeStallTimeoutId, self->_sessions.has, self->_atomicStats.bytesOut,
                  IORA_WRITE_ENV_GHOSTS, G_close_calls, G_close_sid, G_close_why,
                  IORA_EPOLL_GHOSTS)
/* S1 */ __CPROVER_ensures(G_close_calls == OLD(G_close_calls) ? (!s->closed && self->_sessions.has && STREAM(s, G_A))
                                          : (G_close_calls == OLD(G_close_calls) + 1 && G_close_sid == OLD(s->id) && !self->_sessions.has))
/* SP */ __CPROVER_ensures(G_written >= OLD(G_written) && G_written <= G_A)
/* S4 */ __CPROVER_ensures((G_close_calls == OLD(G_close_calls) && s->wq.n > 0) ==> EPOLLOUT_ARMED(self, s))
;
void h_writePending_dfcc(void) { TcpEngine *self; Session *s; TcpEngine_writePending(self, s); IORA_CANARY("h_writePending_dfcc: returns"); }

/* ===================== doSend ===================== */
/* precondition (both forms): the request is for the witness id; its payload is non-empty (TcpEngine::send returns early for n == 0)
 * and is the NEXT interval of the accepted stream; if the session exists it is the table entry of its id, and while open it
 * satisfies STREAM up to the start of this payload. */
#define DS_PRE_COND(self, sr, s) ((sr)->sid == iora_sessmap_GKEY && (sr)->payload.lo < (sr)->payload.hi && (sr)->payload.hi < POS_BOUND && G_close_calls < 1000 \
  && (!(self)->_sessions.has || ((self)->_sessions.val == (s) && (s)->id == iora_sessmap_GKEY && TLS_INV(s) \
                                 && ((s)->closed || (STREAM(s, (sr)->payload.lo) && G_written <= (sr)->payload.lo)))))
/* default policy (the property's scope): close on backpressure; the non-default drop-oldest policy only matters once the limit is exceeded */
#define DS_NO_DROP(cfg, n0) ((cfg).closeOnBackpressure || (n0) < (cfg).maxWriteQueue)

static void ds_post(TcpEngine *self, Session *s, const Session *s0p, const TcpEngine *E0p, const SendReq *R0p, unsigned c0, unsigned sc0, unsigned ss0, unsigned m0, size_t w0)
{
  Session s0 = *s0p; TcpEngine E0 = *E0p; SendReq R0 = *R0p;
  if (!E0._sessions.has || s0.closed)
  {
    __CPROVER_assert(G_written == w0 && G_send_calls == sc0 && G_sslw_calls == ss0 && G_close_calls == c0 && G_ep_mods == m0,
                     "D0 unknown or closed session: nothing is written, registered or reported");
    __CPROVER_assert(!E0._sessions.has || (s->closed && s->wq.n == s0.wq.n && s->wq.front.lo == s0.wq.front.lo && s->wq.front.hi == s0.wq.front.hi && s->wq.end == s0.wq.end
                                           && s->wantWrite == s0.wantWrite && SESSION_FRAME_OK(s, s0)), "D0 closed session: untouched");
    __CPROVER_assert(self->_sessions.has == E0._sessions.has, "D0 table unchanged");
    IORA_CANARY("doSend: no open session");
  }
  else if (G_close_calls == c0)
  {
    __CPROVER_assert(!s->closed && self->_sessions.has, "S1 not closed: the session stays open and in the table");
    __CPROVER_assert(!DS_NO_DROP(E0._config, s0.wq.n) || STREAM(s, R0.payload.hi), "S1 STREAM: the queue tiles [G_written, A+n) - the payload is accepted exactly once, in order");
    __CPROVER_assert(!TLS_HANDSHAKING(&s0) || (G_send_calls == sc0 && G_sslw_calls == ss0 && G_written == w0 && s->wq.n == s0.wq.n + 1),
                     "S3 TLS handshake in progress: nothing is written (no clear text), the payload is queued");
    __CPROVER_assert(s->wq.n == 0 || (EPOLLOUT_ARMED(self, s) && s->wantWrite), "S4 queue non-empty => EPOLLOUT registered for the session's fd (no lost re-arm)");
    __CPROVER_assert(!E0._config.closeOnBackpressure || TLS_HANDSHAKING(&s0) || s->wq.n <= IORA_MAX(E0._config.maxWriteQueue, 1),
                     "S5 still open => the queue is within max(maxWriteQueue, 1) (a payload that was tried on the empty queue is always kept; the TLS handshake parks everything)");
    __CPROVER_assert(s->wq.n <= s0.wq.n + 1, "S5b at most this one buffer is added");
    __CPROVER_assert(SESSION_FRAME_OK(s, s0), "FR session fields outside the write state are unchanged");
    if (s->wq.n > 0) { IORA_CANARY("doSend: queued"); } else { IORA_CANARY("doSend: written completely"); }
  }
  else
  {
    __CPROVER_assert(G_close_calls == c0 + 1 && G_close_sid == s0.id && !self->_sessions.has, "SC closed exactly once, reported for this session, erased from the table");
    __CPROVER_assert(G_close_why == TransportError_Socket || G_close_why == TransportError_TLSIO || G_close_why == TransportError_WriteBackpressure, "SC close reason");
    __CPROVER_assert(G_close_why != TransportError_WriteBackpressure || (E0._config.closeOnBackpressure && s0.wq.n >= E0._config.maxWriteQueue && G_written == w0),
                     "S5c a backpressure close happens only over the limit and under the close policy");
    IORA_CANARY("doSend: closed");
  }
  __CPROVER_assert(G_written >= w0 && (G_written == w0 || G_written <= R0.payload.hi), "SP what reached the kernel is a prefix of the accepted stream");
  __CPROVER_assert(G_written == w0 || (E0._sessions.has && !s0.closed && s0.wq.n == 0 && w0 == R0.payload.lo), "SP2 a direct write happens only when nothing older is queued");
  __CPROVER_assert(self->_atomicStats.bytesOut - E0._atomicStats.bytesOut == G_written - w0, "SB bytesOut counts exactly the bytes handed over");
  __CPROVER_assert(!E0._sessions.has || (s0.tlsMode == TlsMode_None ? G_sslw_calls == ss0 : G_send_calls == sc0), "W6 plain TCP never calls SSL_write, TLS never calls send (no clear text)");
  __CPROVER_assert(ENGINE_FRAME_OK(self, E0), "FR engine state outside bytesOut/backpressureCloses/_sessions is unchanged");
}

void h_doSend(void)
{
  TcpEngine E; TcpEngine *self = &E;
  Session *s = malloc(sizeof(Session)); __CPROVER_assume(s != NULL);
  iora_canon_session(s); iora_canon_engine(self);
  self->_sessions.val = s;
  SendReq R; SendReq *sr = &R;
  havoc_write_ghosts();
  __CPROVER_assume(DS_PRE_COND(self, sr, s));
  Session s0 = *s; TcpEngine E0 = E; SendReq R0 = R;
  unsigned c0 = G_close_calls, sc0 = G_send_calls, ss0 = G_sslw_calls, m0 = G_ep_mods; size_t w0 = G_written;
  TcpEngine_doSend(self, sr);
  IORA_CANARY("h_doSend: returns");
  ds_post(self, s, &s0, &E0, &R0, c0, sc0, ss0, m0, w0);
}

/* DFCC form (frame by the tool). The session object is reached through the table. */
#define DS_S (self->_sessions.val)
void TcpEngine_doSend_contract(TcpEngine *self, SendReq *sr)
__CPROVER_requires(IORA_TRUE && __CPROVER_is_fresh(self, sizeof(*self)) && __CPROVER_is_fresh(sr, sizeof(*sr)))
__CPROVER_requires(self->_sessions.has && __CPROVER_is_fresh(self->_sessions.val, sizeof(Session)))
__CPROVER_requires(DS_PRE_COND(self, sr, DS_S) && !DS_S->closed && self->_config.closeOnBackpressure)
__CPROVER_assigns(DS_S->wq, DS_S->wantWrite, DS_S->lastActivity, DS_S->lastWriteProgress, DS_S->closed, DS_S->writeStallTimeoutId,
                  self->_sessions.has, self->_atomicStats.bytesOut, self->_atomicStats.backpressureCloses,
                  IORA_WRITE_ENV_GHOSTS, G_close_calls, G_close_sid, G_close_why,
                  IORA_EPOLL_GHOSTS)
/* S1 */ __CPROVER_ensures(G_close_calls == OLD(G_close_calls) ? (!DS_S->closed && self->_sessions.has && STREAM(DS_S, OLD(sr->payload.hi)))
                                          : (G_close_calls == OLD(G_close_calls) + 1 && !self->_sessions.has))
/* S3 */ __CPROVER_ensures((OLD(DS_S->tlsMode) != TlsMode_None && OLD(DS_S->tlsState) == TlsState_Handshake) ==> (G_send_calls == OLD(G_send_calls) && G_sslw_calls == OLD(G_sslw_calls) && G_written == OLD(G_written)))
/* S4 */ __CPROVER_ensures((G_close_calls == OLD(G_close_calls) && DS_S->wq.n > 0) ==> EPOLLOUT_ARMED(self, DS_S))
/* SP */ __CPROVER_ensures(G_written >= OLD(G_written) && G_written <= OLD(sr->payload.hi))
;
void h_doSend_dfcc(void) { TcpEngine *self; SendReq *sr; TcpEngine_doSend(self, sr); IORA_CANARY("h_doSend_dfcc: returns"); }

#ifdef IORA_SEARCH
/* SEARCH: the same functions and the same clauses on a small CONCRETE scenario (bounded; only used to obtain an input for REPLAY).
 *   OP 0 = writePending, 1 = doSend;  MODE 0 = plain TCP, 1 = TLS established, 2 = TLS handshake
 *   NQ queued buffers of Q0,Q1,Q2 bytes, payload of PAY bytes, maxWriteQueue MAXQ, closeOnBackpressure CLOSEBP
 *   SCR: one byte per environment call (send / SSL_write): 0xFF = would block, 0xFE = fatal error, k = accept min(k, len) bytes */
void h_search(void)
{
  uint8_t SCR[8]; IORA_NONDET_BYTES(SCR, 8);
  size_t OP = nondet_size_t(), MODE = nondet_size_t(), NQ = nondet_size_t(), Q0 = nondet_size_t(), Q1 = nondet_size_t(), Q2 = nondet_size_t();
  size_t PAY = nondet_size_t(), MAXQ = nondet_size_t(), CLOSEBP = nondet_size_t();
  __CPROVER_assume(OP <= 1 && MODE <= 2 && NQ <= 3 && Q0 >= 1 && Q0 <= 4 && Q1 >= 1 && Q1 <= 4 && Q2 >= 1 && Q2 <= 4 && PAY >= 1 && PAY <= 4 && MAXQ <= 4 && CLOSEBP <= 1);
  __CPROVER_assume(OP == 1 || MODE != 2);           /* writePending never runs during the handshake */
  for (unsigned i = 0; i < 8; i++) IORA_ENV_SCRIPT[i] = SCR[i];
  IORA_ENV_i = 0; IORA_SQ_i = 0; IORA_TRUE = 1;
  /* statics are nondeterministic (--nondet-static): the concrete scenario starts every ghost at 0 */
  G_close_calls = 0; G_close_sid = 0; G_close_why = 0; G_send_calls = 0; G_sslw_calls = 0; G_ssl_last_ret = 0; G_ssl_last_err = 0; G_rd_last = 0; G_errno = 0;
  G_ep_fd = 0; G_ep_events = 0; G_ep_op = 0; G_ep_epfd = 0; G_ep_mods = 0; G_ep_dels = 0; G_seq = 0; G_ep_seq = 0; G_env_kind = 0; G_ssl_last_op = 0; G_ssl_fatal = 0;
  for (unsigned i = 0; i < 8; i++) IORA_SQ_B[i] = 0;
  TcpEngine E = {0}; TcpEngine *self = &E;
  Session *s = malloc(sizeof(Session)); __CPROVER_assume(s != NULL);
  Session z = {0}; *s = z;
  s->id = 7; s->fd = 1000; iora_sessmap_GKEY = 7; self->_sessions.has = 1; self->_sessions.val = s; self->_epollFd = 5;
  s->tlsMode = MODE == 0 ? TlsMode_None : TlsMode_Client; s->tlsState = MODE == 0 ? TlsState_None : (MODE == 1 ? TlsState_Open : TlsState_Handshake);
  s->ssl = MODE == 0 ? NULL : (SSL *)s;            /* any non-null pointer: the stubs never look inside */
  self->_config.maxWriteQueue = MAXQ; self->_config.closeOnBackpressure = CLOSEBP != 0; self->_config.useEdgeTriggered = 1;
  size_t total = (NQ > 0 ? Q0 : 0) + (NQ > 1 ? Q1 : 0) + (NQ > 2 ? Q2 : 0);
  G_written = 0; s->wq.n = NQ; s->wq.front.lo = 0; s->wq.front.hi = NQ > 0 ? Q0 : 0; s->wq.end = total; IORA_SQ_B[0] = Q0 + Q1;
  s->wantWrite = NQ > 0;
  SendReq R; R.sid = 7; R.payload.lo = total; R.payload.hi = total + PAY; SendReq *sr = &R;
  G_A = total;
  Session s0 = *s; TcpEngine E0 = E; SendReq R0 = R;
  unsigned c0 = G_close_calls, sc0 = G_send_calls, ss0 = G_sslw_calls, m0 = G_ep_mods; size_t w0 = G_written;
  if (OP == 0) { TcpEngine_writePending(self, s); wp_post(self, s, &s0, &E0, c0, sc0, ss0, w0); }
  else { TcpEngine_doSend(self, sr); ds_post(self, s, &s0, &E0, &R0, c0, sc0, ss0, m0, w0); }
}
#endif
