/* type environment for unit udp_client: shared UDP environment + the connected-client receive environment.
 * The data callback stub's hook checks EVERY data event at the moment it fires (ghost checks in shims, DESIGN 2.6). */
#define IORA_RX_CONTENT_ABSTRACT
struct { size_t fuel; bool pending; bool dset; uint64_t sid; size_t recv_calls, recv_pos, recv_zero, data_events, write_calls; void *write_s; size_t cas_fuel; } GO;
#define IORA_ON_DATA_HOOK(self, sid_, p_, n_) iora_client_on_data(self, sid_, p_, n_)
struct UdpEngine;
static inline void iora_client_on_data(struct UdpEngine *self, uint64_t sid, const uint8_t *p, size_t n);
#include "iora_udp.h"
/* the per-datagram receive buffer, content-abstracted for the DFCC proof (dynamic allocation inside a loop under a loop contract is rejected by DFCC):
 * its address and declared size are what the clauses speak about; nothing may be written through it (a 1-byte object: any access is a pointer obligation) */
uint8_t G_rx_region[1];
typedef struct { uint8_t *p; size_t n; } iora_rxabs;
#define iora_rxabs_DEFAULT ((iora_rxabs){0, 0})
static inline void iora_rxabs_resize(iora_rxabs *v, size_t n) { v->p = G_rx_region; v->n = n; }
static inline uint8_t *iora_rxabs_data(iora_rxabs *v) { return v->p; }
static inline size_t iora_rxabs_size(const iora_rxabs *v) { return v->n; }
static inline void iora_client_on_data(struct UdpEngine *self, uint64_t sid, const uint8_t *p, size_t n)
{ (void)self; GO.data_events++;
  IORA_ASSERT(GO.pending, "K1 a data event is announced only for a datagram that was just received and not yet announced (never duplicated)"); GO.pending = false;
  IORA_ASSERT(sid == GO.sid, "K2 on that client's OWN session");
  if (G.rc.ret > 0) {
    IORA_ASSERT(p == G.rc.buf && n == (size_t)G.rc.ret, "K3 carrying the bytes recv wrote: same buffer, n bytes (never merged or split)");
    IORA_ASSERT(n == G.rc.dgram_len, "K4 complete payload: n is the datagram's length (needs ioReadChunk >= 65507)");
  } else { IORA_ASSERT(n == 0, "K6 a zero-length datagram is announced as an empty event"); } }
/* recv(2) on a connected non-blocking UDP socket: -1 with errno > 0, or ONE datagram (0..65507 bytes), min(len, size) bytes copied, the rest discarded.
 * A (termination only): finitely many datagrams are queued (GO.fuel). */
static inline int iora_sys_recv(int fd, uint8_t *buf, int len, int flags)
{ (void)flags; IORA_ASSERT(len >= 0, "RX0 buffer length fits the int length argument");
  IORA_ASSERT(!GO.pending, "K7 the previous datagram was announced before the next one is read (never lost)");
  GO.recv_calls++; G.rc.fd = fd; G.rc.buf = buf; G.rc.buflen = len;
  if (GO.fuel == 0 || nondet_bool()) { int e = nondet_int(); IORA_ASSUME(e > 0); iora_errno = e; G.rc.ret = -1; return -1; }
  GO.fuel--;
  size_t dl = nondet_size_t(); IORA_ASSUME(dl <= IORA_UDP_MAX_PAYLOAD); G.rc.dgram_len = dl;
  int r = dl <= (size_t)len ? (int)dl : len;
  if (r > 0) GO.recv_pos++; else GO.recv_zero++;
  GO.pending = GO.dset; G.rc.ret = r; return r; }
/* writeClient is under contract in unit udp_send; here: called with a live, open session (a freed or closed one is an obligation) */
static inline void UdpEngine_writeClient(UdpEngine *self, Session *s)
{ (void)self; IORA_ASSERT(!s->closed, "W1 writeClient is called with an open session (never after the session was closed)"); GO.write_calls++; GO.write_s = s; }
/* R10 atomics, sequential semantics; compare_exchange_weak may fail spuriously (finitely often: GO.cas_fuel, termination only) */
static inline size_t iora_fetch_add_sz(size_t *x, size_t n) { size_t o = *x; *x = o + n; return o; }
static inline bool iora_cas_weak_sz(size_t *x, size_t *expected, size_t desired)
{ if (GO.cas_fuel > 0 && nondet_bool()) { GO.cas_fuel--; *expected = *x; return false; }
  if (*x == *expected) { *x = desired; return true; } *expected = *x; return false; }

/* onClient, loop 1 (receive drain), DFCC.  A hard error closes the session through closeNow (REPLACED by its contract, units/udp_close) and returns,
 * so at the loop head nobody was closed and closeNow's preconditions still hold (OC_CLOSE_PRE); only datagrams with n > 0 go round again. */
unsigned G_cb0;               /* ghost: close notifications before the call (bound by the precondition) */
struct { uint64_t closed; bool idx_has; uint64_t idx_val; } OC0;      /* ghost mirror of the pre-state fields the replaced closeNow may assign */
size_t G_fuel0;               /* ghost: datagrams queued at the start (keeps the ghost counters from wrapping) */
#define OC_CLOSE_PRE ( IORA_NO_LOCK_HELD(self) && !s->closed && (s->id == GSID ==> (self->_sessions.has && self->_sessions.val == s)) \
  && ((self->_peerIndex.has && self->_peerIndex.val == GSID) ==> self->_sessions.has) \
  && ((self->_peerIndex.has && self->_peerIndex.val == s->id) ==> (s->pkey == GPK && s->role == Role_ServerPeer)) \
  && self->_atomicStats.sessionsCurrent >= 1 && G_closeCb_calls < IORA_SAT && G_close_calls < IORA_SAT && G_delEpoll_calls < IORA_SAT )
#define OC_CLOSE_TARGETS s->closed, self->_peerIndex, self->_sessions.has, self->_tags, self->_atomicStats.closed, self->_atomicStats.sessionsCurrent, \
  self->_cbMutex.held, self->_sessionRwMutex.held, G.cl
#define OC_TARGETS GO, G.rc, G.rx, iora_errno, s->lastActivity, self->_atomicStats.bytesIn, OC_CLOSE_TARGETS
#define IORA_LOOP_UdpEngine_onClient_1 IORA_LC( \
  __CPROVER_assigns(OC_TARGETS) \
  __CPROVER_loop_invariant(!GO.pending && GO.sid == s->id && GO.dset == self->_cbs.onData.set && GO.write_calls == 0 && GO.recv_zero == 0) \
  __CPROVER_loop_invariant(GO.data_events == (GO.dset ? GO.recv_pos : 0) && GO.recv_calls == GO.recv_pos && G.rx.errorCb_calls == 0 && GO.recv_pos <= G_fuel0 && GO.fuel == G_fuel0 - GO.recv_pos && G_fuel0 < ((size_t)1 << 62)) \
  __CPROVER_loop_invariant(self->_atomicStats.closed == OC0.closed && self->_peerIndex.has == OC0.idx_has && self->_peerIndex.val == OC0.idx_val) \
  __CPROVER_loop_invariant(OC_CLOSE_PRE && G_closeCb_calls == G_cb0 && (GO.recv_calls > 0 ==> G.rc.fd == s->fd)) \
  __CPROVER_decreases(GO.fuel))
/* bumpSess, loop 1: the CAS retry loop.  Sequentially the expected value always equals the peak, so only spurious failures go round again. */
#define IORA_LOOP_bumpSess_real_1 IORA_LC( \
  __CPROVER_assigns(pk, self->_atomicStats.sessionsPeak, GO.cas_fuel) \
  __CPROVER_loop_invariant(pk == self->_atomicStats.sessionsPeak && self->_atomicStats.sessionsPeak == G_peak0) \
  __CPROVER_decreases(GO.cas_fuel))
size_t G_peak0;
