/* unit udp_client (C06): UdpEngine::onClient (connected-client receive + write dispatch), whole function, and the real bumpSess.
 * Clauses from the property: "each datagram received is delivered as exactly one data event carrying its complete payload - never merged, split,
 * duplicated or delivered on a session belonging to a different peer".  A connected client socket has exactly one peer: its events belong to
 * the session that owns the descriptor.  Per-event clauses K1-K7 are checked inside the callback / recv stubs at the moment of each event
 * (pre.h), for every iteration of the unbounded drain loop (loop contract); the contract below is about the function as a whole. */
#include "../udp_close/closenow_contract.h"
#define OC_IN  ((events & EPOLLIN) != 0)
#define OC_OUT ((events & EPOLLOUT) != 0)
#define OC_HARD (OC_IN && GO.recv_calls > 0 && G.rc.ret < 0 && iora_errno != EAGAIN)          /* the last recv failed with a real error */
#define OC_XSET (__CPROVER_old(self->_cbs.onClose.set))
void UdpEngine_onClient_contract(UdpEngine *self, Session *s, uint32_t events)
__CPROVER_requires(IORA_TRUE && __CPROVER_is_fresh(self, sizeof(*self)) && __CPROVER_is_fresh(s, sizeof(*s)))
/* the descriptor's tag belongs to a live, open session owned by the table; engine invariants closeNow relies on (closenow_contract.h) */
__CPROVER_requires(OC_CLOSE_PRE && G_cb0 == G_closeCb_calls && OC0.closed == self->_atomicStats.closed && OC0.idx_has == self->_peerIndex.has && OC0.idx_val == self->_peerIndex.val)
/* A (stated): default receive chunk */
__CPROVER_requires(self->_config.ioReadChunk >= IORA_UDP_MAX_PAYLOAD && self->_config.ioReadChunk <= 0x7fffffff)
/* ghost records start empty and are bound to this call */
__CPROVER_requires(!GO.pending && GO.recv_calls == 0 && GO.recv_pos == 0 && GO.recv_zero == 0 && GO.data_events == 0 && GO.write_calls == 0 && GO.sid == s->id && GO.dset == self->_cbs.onData.set && G.rx.errorCb_calls == 0 && G_fuel0 == GO.fuel && G_fuel0 < ((size_t)1 << 62))
__CPROVER_assigns(OC_TARGETS)
__CPROVER_frees(s)
/* L1 */ __CPROVER_ensures(IORA_NO_LOCK_HELD(self) && !GO.pending)
/* OC1 nothing is read without EPOLLIN */ __CPROVER_ensures(OC_IN || GO.recv_calls == 0)
/* OC2 one data event per datagram read (an empty one for a zero-length datagram, which also ends the drain) */ __CPROVER_ensures(GO.data_events == (GO.dset ? GO.recv_pos + GO.recv_zero : 0) && GO.recv_zero <= 1)
/* OC3 reads come from the session's own descriptor */ __CPROVER_ensures(GO.recv_calls == 0 || G.rc.fd == __CPROVER_old(s->fd))
/* OC4 a hard receive error closes the session exactly once (reason Socket), erased before the notification */ __CPROVER_ensures(OC_HARD ==> (G_closeCb_calls == __CPROVER_old(G_closeCb_calls) + (OC_XSET ? 1u : 0u) && (OC_XSET ==> (G_closeCb_sid == __CPROVER_old(s->id) && G_closeCb_why == TransportError_Socket && G_closeCb_erased))))
/* OC5 and the closed session is not written to afterwards, even if EPOLLOUT was signalled */ __CPROVER_ensures(OC_HARD ==> GO.write_calls == 0)
/* OC6 counted once, out of the table */ __CPROVER_ensures(OC_HARD ==> (self->_atomicStats.closed == __CPROVER_old(self->_atomicStats.closed) + 1 && (__CPROVER_old(s->id) == GSID ==> !self->_sessions.has)))
/* OC7 EAGAIN / zero-length datagram / no EPOLLIN: nobody is closed */ __CPROVER_ensures(!OC_HARD ==> (G_closeCb_calls == __CPROVER_old(G_closeCb_calls) && self->_atomicStats.closed == __CPROVER_old(self->_atomicStats.closed) && !s->closed))
/* OC8 EPOLLOUT is passed on to writeClient exactly once, for this session */ __CPROVER_ensures(!OC_HARD ==> (GO.write_calls == (OC_OUT ? 1u : 0u) && (OC_OUT ==> GO.write_s == s)))
/* OC11 edge-triggered drain: reading stops only when recv reports no datagram (EAGAIN), a zero-length datagram or an error - never with datagrams left unread */ __CPROVER_ensures(OC_IN ==> (GO.recv_calls > 0 && G.rc.ret <= 0))
/* OC9 no error event */ __CPROVER_ensures(G.rx.errorCb_calls == 0)
/* OC10 a connected client's receive path never touches the listener peer index */ __CPROVER_ensures(!OC_HARD ==> (self->_peerIndex.has == __CPROVER_old(self->_peerIndex.has) && self->_peerIndex.val == __CPROVER_old(self->_peerIndex.val)))
;
void h_onClient(void)
{
  UdpEngine *e; Session *s; uint32_t ev;
  UdpEngine_onClient(e, s, ev);
  IORA_CANARY("h_onClient: returns");
  if (GO.recv_pos) { IORA_CANARY("h_onClient: datagrams delivered"); }
  if (GO.recv_zero) { IORA_CANARY("h_onClient: zero-length datagram"); }
  if (GO.write_calls) { IORA_CANARY("h_onClient: write dispatch"); }
  if (GO.recv_calls && G.rc.ret < 0 && iora_errno != EAGAIN) { IORA_CANARY("h_onClient: hard receive error"); }
}

/* the real bumpSess against the stub the other units use (UdpEngine_bumpSess in shims/iora_udp.h): same effect */
void h_bumpSess(void)
{
  IORA_TRUE = 1; memset(&GO, 0, sizeof(GO)); GO.cas_fuel = nondet_size_t();
  UdpEngine E; UdpEngine E2;
  __CPROVER_assume(E._atomicStats.sessionsCurrent < (size_t)-1);
  const size_t cur0 = E._atomicStats.sessionsCurrent, peak0 = E._atomicStats.sessionsPeak; G_peak0 = peak0;
  E2 = E;
  bumpSess_real(&E);
  UdpEngine_bumpSess(&E2);
  __CPROVER_assert(E._atomicStats.sessionsCurrent == cur0 + 1, "B1 the gauge grows by exactly one");
  __CPROVER_assert(E._atomicStats.sessionsPeak == (cur0 + 1 > peak0 ? cur0 + 1 : peak0), "B2 the peak is the maximum of the old peak and the new gauge");
  __CPROVER_assert(E._atomicStats.sessionsCurrent == E2._atomicStats.sessionsCurrent && E._atomicStats.sessionsPeak == E2._atomicStats.sessionsPeak, "B3 the stub used by the other UDP units has the same effect");
  IORA_CANARY("h_bumpSess: returns");
}
