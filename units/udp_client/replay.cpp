// Native cross-check for unit udp_client: the REAL UdpEngine connected-client receive path (onClient) on loopback.  A raw UDP socket plays the server;
// the engine connects to it.  Datagrams of 1, 1472 and 65507 bytes sent to the client: exactly one data event each, on the client's own session,
// complete and byte-identical.  Then: a zero-length datagram (observation), and the server goes away -> hard receive error -> exactly one close.
#include "iora/network/detail/udp_engine.hpp"
#include "replay_io.h"
#include <arpa/inet.h>
#include <sys/socket.h>
#include <thread>
using namespace iora::network;
using namespace std::chrono_literals;
static std::vector<uint8_t> pattern(size_t n, uint8_t seed) { std::vector<uint8_t> v(n); for (size_t i = 0; i < n; i++) v[i] = (uint8_t)(seed + i * 17 + (i >> 9)); return v; }
int main(int, char **)
{
  std::mutex mx; std::vector<std::pair<SessionId, std::vector<uint8_t>>> datas; std::map<SessionId, int> closes, connects;
  int srv = ::socket(AF_INET, SOCK_DGRAM, 0); sockaddr_in sa{}; sa.sin_family = AF_INET; sa.sin_addr.s_addr = htonl(INADDR_LOOPBACK);
  if (::bind(srv, (sockaddr *)&sa, sizeof(sa)) != 0) { replay_io::ok("skipped: cannot bind loopback UDP"); return 0; }
  socklen_t sl = sizeof(sa); ::getsockname(srv, (sockaddr *)&sa, &sl); int big = 1 << 20; ::setsockopt(srv, SOL_SOCKET, SO_SNDBUF, &big, sizeof(big));
  TransportConfig cfg{}; UdpEngine eng{cfg};
  detail::EngineBase::Callbacks cbs{};
  cbs.onConnect = [&](SessionId s, const TransportAddress &) { std::lock_guard<std::mutex> g(mx); connects[s]++; };
  cbs.onData = [&](SessionId s, iora::core::BufferView bv, std::chrono::steady_clock::time_point) { std::lock_guard<std::mutex> g(mx); datas.emplace_back(s, std::vector<uint8_t>(bv.data(), bv.data() + bv.size())); };
  cbs.onClose = [&](SessionId s, const TransportErrorInfo &) { std::lock_guard<std::mutex> g(mx); closes[s]++; };
  cbs.onAccept = [](SessionId, const TransportAddress &) {};
  eng.setCallbacks(cbs);
  if (!eng.start().isOk()) { replay_io::ok("skipped: engine did not start"); return 0; }
  auto wait = [&](auto p, int ms = 4000) { for (int i = 0; i < ms / 10; i++) { { std::lock_guard<std::mutex> g(mx); if (p()) return true; } std::this_thread::sleep_for(10ms); } return false; };
  SessionId sid = eng.connect("127.0.0.1", ntohs(sa.sin_port), TlsMode::None).value();
  if (!wait([&] { return connects[sid] == 1; })) replay_io::fail("connect event missing");
  eng.send(sid, "hello", 5);
  sockaddr_in cli{}; socklen_t cl = sizeof(cli); char tmp[16];
  if (::recvfrom(srv, tmp, sizeof(tmp), 0, (sockaddr *)&cli, &cl) != 5) replay_io::fail("test rig: server did not get the client's datagram");
  std::vector<std::vector<uint8_t>> sent = {pattern(1, 1), pattern(1472, 2), pattern(65507, 3)};
  size_t k = 0;
  for (auto &d : sent) {
    if (::sendto(srv, d.data(), d.size(), 0, (sockaddr *)&cli, cl) != (ssize_t)d.size()) replay_io::fail("test rig: sendto failed for " + std::to_string(d.size()));
    ++k; if (!wait([&] { return datas.size() >= k; })) replay_io::fail("K7 datagram of " + std::to_string(d.size()) + " bytes was not announced");
  }
  std::this_thread::sleep_for(100ms);
  { std::lock_guard<std::mutex> g(mx);
    if (datas.size() != sent.size()) replay_io::fail("K1/OC2 " + std::to_string(sent.size()) + " datagrams, " + std::to_string(datas.size()) + " data events");
    for (size_t i = 0; i < sent.size(); i++) { if (datas[i].first != sid) replay_io::fail("K2 data event on another session");
      if (datas[i].second != sent[i]) replay_io::fail("K3/K4 payload of " + std::to_string(sent[i].size()) + " bytes not delivered complete and identical (got " + std::to_string(datas[i].second.size()) + ")"); } }
  printf("3 datagrams (1, 1472, 65507 bytes): 3 data events on session %llu, byte-identical\n", (unsigned long long)sid);
  // observation: zero-length datagram
  ::sendto(srv, "", 0, 0, (sockaddr *)&cli, cl);
  if (wait([&] { return datas.size() >= 4; }, 1000)) { std::lock_guard<std::mutex> g(mx); printf("observation: a zero-length datagram is announced as a data event of %zu bytes (and ends that drain round)\n", datas[3].second.size()); }
  // server goes away: the next send draws ICMP port-unreachable, the following recv fails hard -> the session must be closed exactly once
  ::close(srv);
  eng.send(sid, "x", 1); std::this_thread::sleep_for(100ms); eng.send(sid, "y", 1);
  if (wait([&] { return closes[sid] >= 1; }, 3000)) {
    std::this_thread::sleep_for(200ms); eng.send(sid, "z", 1); std::this_thread::sleep_for(200ms);
    std::lock_guard<std::mutex> g(mx);
    if (closes[sid] != 1) replay_io::fail("OC4 hard error closed the session " + std::to_string(closes[sid]) + " times");
    printf("server gone: hard socket error closed session %llu exactly once\n", (unsigned long long)sid);
  } else printf("note: no ICMP-triggered socket error in this sandbox; hard-error path not exercised natively\n");
  eng.stop();
  { std::lock_guard<std::mutex> g(mx); if (closes[sid] != 1) replay_io::fail("after stop(): session has " + std::to_string(closes[sid]) + " close notifications"); }
  replay_io::ok("connected-client receive clauses hold natively");
  return 0;
}
