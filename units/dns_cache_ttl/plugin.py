"""Unit-local plugin of dns_cache_ttl.

calculateResultTtl is a sequence of identical scans `for (record : result.X) min_ttl = min(min_ttl, record.ttl)`.
Their loop contracts are keyed by the NAME OF THE VECTOR the loop scans (read from the loop's own header), not by the loop's
ordinal: the k-th loop macro IORA_LOOP_DnsCache_calculateResultTtl_<k> is renamed to TTLSCAN_<vector>. A scan that is removed
therefore does not make the contract mapping fail ("undecided"); the remaining contracts still apply and the proof decides:
the invariant of the next scan ("the witness record of every EARLIER section is already covered") fails at loop entry.
A scan over a vector without a TTLSCAN_ macro does not compile (exit 2), as before.
"""


def hook_end(tokens, rw):
    if rw.prefix != 'DnsCache_calculateResultTtl':
        return tokens
    for k, x in enumerate(tokens):
        if x.kind == 'id' and x.text.startswith('IORA_LOOP_DnsCache_calculateResultTtl_'):
            # header: for ( size_t iora_i = 0 ; iora_i < iora_rvec_size ( & (*result) . VEC ) ; ++ iora_i ) MACRO
            j = k - 1
            vec = None
            while j > 0 and tokens[j].text != 'for':
                if tokens[j].kind == 'id' and tokens[j - 1].text == '.' and vec is None:
                    vec = tokens[j].text
                j -= 1
            if vec is None:
                raise Exception('dns_cache_ttl plugin: scan loop without a vector name')
            x.text = 'TTLSCAN_' + vec
    return tokens
