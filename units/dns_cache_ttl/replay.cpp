// REPLAY adapter of unit dns_cache_ttl: the REAL DnsCache (with its real ExpiringCache and purge thread).
// A result with one answer record of TTL IN_TTL is put; then the question is looked up IN_DT seconds later.
// Time is advanced without sleeping by moving the stored expiry instants back by IN_DT seconds (private members are
// reachable through -fno-access-control); for IN_TTL == 0 nothing is tampered with: the lookup simply happens 50 ms later.
// Optional IN_OLD_TTL: the same question is first put with a result of that (longer) TTL, then REPLACED by the IN_TTL result (update path of
// ExpiringCache::set).
// input file:  IN_TTL <seconds>   IN_DT <seconds>   [IN_OLD_TTL <seconds>]
#include "iora/network/dns/dns_cache.hpp"
#include "replay_io.h"
#include <thread>
using namespace iora::network::dns;

int main(int argc, char **argv)
{
  auto in = replay_io::load(argv[1]);
  uint32_t ttl = (uint32_t)replay_io::u64(in["IN_TTL"]);
  long long dt = in.count("IN_DT") ? replay_io::i64(in["IN_DT"]) : 0;
  if (dt < 0) dt = 0;
  DnsCache cache(std::chrono::seconds(300));
  DnsQuestion q("example.com", DnsType::A, DnsClass::IN);
  if (in.count("IN_SOA_TTL"))
  {
    // negative caching (RFC 2308 5): TTL = min(SOA MINIMUM, SOA TTL); looked up IN_DT seconds later
    uint32_t sttl = (uint32_t)replay_io::u64(in["IN_SOA_TTL"]), smin = (uint32_t)replay_io::u64(in["IN_SOA_MIN"]);
    uint32_t want = std::min(sttl, smin);
    DnsResult neg;
    neg.soa_records.push_back(SoaRecord("example.com", "ns.example.com", "admin.example.com", 1, 2, 3, 4, smin, sttl));
    cache.putNegative(q, neg, "NXDOMAIN");
    if (want == 0) std::this_thread::sleep_for(std::chrono::milliseconds(50));
    else { std::lock_guard<std::mutex> lock(cache.cache_->_mutex); for (auto &kv : cache.cache_->_cache) kv.second.expiration -= std::chrono::seconds(dt); }
    DnsResult out; bool hit = cache.get(q, out);
    if (hit && (want == 0 || (unsigned long long)dt >= want))
      replay_io::fail("N1: a negative answer is served " + std::to_string(dt) + " s after putNegative although min(SOA MINIMUM " + std::to_string(smin) + ", SOA TTL " + std::to_string(sttl) + ") = " + std::to_string(want) + " s");
    replay_io::ok("negative answer honours min(SOA MINIMUM, SOA TTL)");
    return 0;
  }
  DnsResult res;
  res.answers.push_back(DnsResourceRecord("example.com", DnsType::A, DnsClass::IN, ttl));
  if (in.count("IN_OLD_TTL"))
  {
    DnsResult old;
    old.answers.push_back(DnsResourceRecord("example.com", DnsType::A, DnsClass::IN, (uint32_t)replay_io::u64(in["IN_OLD_TTL"])));
    cache.put(q, old);
  }
  cache.put(q, res);
  if (ttl == 0)
  {
    std::this_thread::sleep_for(std::chrono::milliseconds(50));
    dt = 0;
  }
  else
  {
    std::lock_guard<std::mutex> lock(cache.cache_->_mutex);
    for (auto &kv : cache.cache_->_cache) kv.second.expiration -= std::chrono::seconds(dt);
  }
  DnsResult out;
  bool hit = cache.get(q, out);
  if (hit && (unsigned long long)dt >= ttl)
    replay_io::fail("P1: the answer is served from the cache " + std::to_string(dt) + " s (+50 ms) after put although the smallest record TTL is " +
                    std::to_string(ttl) + " s");
  if (!hit && (unsigned long long)dt + 1 < ttl)
    replay_io::fail("an unexpired entry is not served");
  replay_io::ok(hit ? "served while less than the TTL has elapsed" : "not served after the TTL has elapsed");
  return 0;
}
