// REPLAY adapter of unit dns_cache_ttl: the REAL DnsCache (with its real ExpiringCache and purge thread).
// A result with one answer record of TTL IN_TTL is put; then the question is looked up IN_DT seconds later.
// Time is advanced without sleeping by moving the stored expiry instants back by IN_DT seconds (private members are
// reachable through -fno-access-control); for IN_TTL == 0 nothing is tampered with: the lookup simply happens 50 ms later.
// input file:  IN_TTL <seconds>   IN_DT <seconds>
#include "iora/network/dns/dns_cache.hpp"
#include "replay_io.h"
#include <thread>
using namespace iora::network::dns;

int main(int argc, char **argv)
{
  auto in = replay_io::load(argv[1]);
  uint32_t ttl = (uint32_t)replay_io::u64(in["IN_TTL"]);
  long long dt = in.count("IN_DT") ? replay_io::i64(in["IN_DT"]) : 0;
  if (dt < 0) dt = 0;
  DnsCache cache(std::chrono::seconds(300));
  DnsQuestion q("example.com", DnsType::A, DnsClass::IN);
  DnsResult res;
  res.answers.push_back(DnsResourceRecord("example.com", DnsType::A, DnsClass::IN, ttl));
  cache.put(q, res);
  if (ttl == 0)
  {
    std::this_thread::sleep_for(std::chrono::milliseconds(50));
    dt = 0;
  }
  else
  {
    std::lock_guard<std::mutex> lock(cache.cache_->_mutex);
    for (auto &kv : cache.cache_->_cache) kv.second.expiration -= std::chrono::seconds(dt);
  }
  DnsResult out;
  bool hit = cache.get(q, out);
  if (hit && (unsigned long long)dt >= ttl)
    replay_io::fail("P1: the answer is served from the cache " + std::to_string(dt) + " s (+50 ms) after put although the smallest record TTL is " +
                    std::to_string(ttl) + " s");
  if (!hit && (unsigned long long)dt + 1 < ttl)
    replay_io::fail("an unexpired entry is not served");
  replay_io::ok(hit ? "served while less than the TTL has elapsed" : "not served after the TTL has elapsed");
  return 0;
}
