/* Unit-local shims of dns_cache_ttl (trusted base, listed in unit.json):
 *  - record vectors of a DnsResult as real arrays of the fields the TTL computations read;
 *  - ExpiringCache<K,V>::_cache as a WITNESS-KEY map (one arbitrary ghost key GKEY tracked exactly, all other keys answer
 *    nondeterministically), instantiated at K = V = uint64_t;
 *  - std::chrono: time points and durations are int64 counts of ONE common unit (seconds); steady_clock::now() reads the ghost
 *    clock G_now, which the harness advances. */
#ifndef TTL_SHIMS_H
#define TTL_SHIMS_H

/* ---- DnsResourceRecord and everything derived from it (ARecord ... SoaRecord): the fields the cache reads ---- */
typedef struct { uint16_t type; uint32_t ttl; uint32_t minimum; } DnsRec;
typedef struct { const DnsRec *p; size_t n; } iora_rvec;          /* const std::vector<XRecord>& */
/* witness record: section GSEC (0..11 in declaration order of DnsResult), index GI - both arbitrary.
 * G_wv / G_wttl: ghost names for "the witness exists" / "its TTL" (bound in the contracts' requires). */
unsigned GSEC; size_t GI; bool G_wv; uint32_t G_wttl;
static inline size_t iora_rvec_size(const iora_rvec *v) { return v->n; }
static inline const DnsRec *iora_rvec_at(const iora_rvec *v, size_t i) { IORA_ASSERT(i < v->n, "record vector index in range"); return &v->p[i]; }

/* ---- chrono ---- */
typedef int64_t iora_secs;     /* std::chrono::seconds */
typedef int64_t iora_tp;       /* std::chrono::steady_clock::time_point */
int64_t G_now;
static inline iora_tp iora_clock_now(void) { return G_now; }
#define IORA_LOCK_GUARD() do { } while (0)      /* std::lock_guard: sequential semantics; mutual exclusion is not decided here */

/* ---- std::unordered_map<K, CacheEntry> ---- */
uint64_t GKEY;
typedef struct { uint64_t value; iora_tp expiration; } CacheEntry;
typedef struct { bool has; CacheEntry e; } iora_tmap;
typedef struct { bool found; uint64_t key; CacheEntry e; } iora_tmap_it;
static inline iora_tmap_it iora_tmap_find(const iora_tmap *m, uint64_t k)
{
  iora_tmap_it it; it.key = k;
  if (k == GKEY) { it.found = m->has; it.e = m->e; }
  else { it.found = nondet_bool(); it.e.value = nondet_u64(); it.e.expiration = nondet_i64(); }
  return it;
}
static inline bool iora_tmap_contains(const iora_tmap *m, uint64_t k) { return k == GKEY ? m->has : nondet_bool(); }
static inline bool iora_tmap_it_is_end(const iora_tmap_it *it) { return !it->found; }
static inline const CacheEntry *iora_tmap_it_entry(const iora_tmap_it *it) { IORA_ASSERT(it->found, "unordered_map iterator dereferenced only when it is not end()"); return &it->e; }
static inline void iora_tmap_set(iora_tmap *m, uint64_t k, uint64_t value, iora_tp expiration)       /* m[k] = {value, expiration} */
{ if (k == GKEY) { m->has = true; m->e.value = value; m->e.expiration = expiration; } }
/* m.try_emplace(k, CacheEntry{value, expiration}) -> pair<iterator, bool>: inserts only if the key is absent; an existing entry is left
 * UNTOUCHED (value and expiration) and inserted == false. The iterator addresses the entry of k afterwards. */
typedef struct { iora_tmap_it it; bool inserted; } iora_tmap_ins;
static inline iora_tmap_ins iora_tmap_try_emplace(iora_tmap *m, uint64_t k, uint64_t value, iora_tp expiration)
{
  iora_tmap_ins r; r.it.key = k; r.it.found = true;
  if (k == GKEY)
  {
    if (!m->has) { m->has = true; m->e.value = value; m->e.expiration = expiration; r.inserted = true; }
    else r.inserted = false;
    r.it.e = m->e;
  }
  else
  {
    r.inserted = nondet_bool();
    if (r.inserted) { r.it.e.value = value; r.it.e.expiration = expiration; } else { r.it.e.value = nondet_u64(); r.it.e.expiration = nondet_i64(); }
  }
  return r;
}
/* it->second.value = x: a write THROUGH the iterator into the map entry it addresses */
static inline void iora_tmap_it_store_value(iora_tmap *m, iora_tmap_it *it, uint64_t x)
{
  IORA_ASSERT(it->found, "unordered_map iterator dereferenced only when it is not end()");
  if (it->key == GKEY) { IORA_ASSERT(m->has, "iterator of the witness key still valid"); m->e.value = x; }
  it->e.value = x;
}
static inline void iora_tmap_erase(iora_tmap *m, iora_tmap_it it)
{ IORA_ASSERT(it.found, "unordered_map::erase(iterator): dereferenceable iterator"); if (it.key == GKEY) m->has = false; }

/* ---- std::optional<std::pair<K,V>> evicted ---- */
typedef struct { bool has; uint64_t first; uint64_t second; } iora_optpair;
#define iora_optpair_DEFAULT ((iora_optpair){false, 0, 0})
static inline void iora_optpair_emplace(iora_optpair *o, uint64_t a, uint64_t b) { o->has = true; o->first = a; o->second = b; }

/* ---- the eviction callback (std::function member): ghost stub that counts invocations and records the key ---- */
unsigned G_evictions; uint64_t G_evicted_key;
#endif
