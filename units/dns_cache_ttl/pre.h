typedef struct { iora_rvec answers, authority, additional, a_records, aaaa_records, srv_records, naptr_records, cname_records,
                 mx_records, txt_records, ptr_records, soa_records; } DnsResult;
typedef struct { int64_t defaultTtlSeconds_; } DnsCache;
typedef struct { iora_tmap _cache; iora_secs _ttl; bool _evictionCallback; } ExpiringCache;
static inline void iora_cb_eviction(uint64_t k, uint64_t v) { (void)v; G_evictions++; G_evicted_key = k; }
