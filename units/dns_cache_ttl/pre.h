/* type environment + ghost state + loop contracts for unit dns_cache_ttl
 * (DnsCache::calculateResultTtl, calculateNegativeTtl, the TTL hand-over in DnsCache::put, ExpiringCache::set / get) */
typedef struct { iora_rvec answers, authority, additional, a_records, aaaa_records, srv_records, naptr_records, cname_records,
                 mx_records, txt_records, ptr_records, soa_records; } DnsResult;
typedef struct { iora_tmap _cache; iora_secs _ttl; bool _evictionCallback; } ExpiringCache;
typedef struct { int64_t defaultTtlSeconds_; ExpiringCache *cache_; } DnsCache;
/* R21: the eviction callback is a user std::function; ghost stub: counts invocations, records the key */
static inline void iora_cb_eviction(uint64_t k, uint64_t v) { (void)v; G_evictions++; G_evicted_key = k; }
/* CachedDnsResult(result): the cached value is identified by a ghost id */
uint64_t G_result_id;
static inline uint64_t iora_cached_positive(const DnsResult *r) { (void)r; return G_result_id; }
/* cache_->remove(key) (only present in a repaired DnsCache::put): erases the entry of that key */
static inline void ExpiringCache_remove_stub(ExpiringCache *c, uint64_t key) { if (key == GKEY) c->_cache.has = false; }

/* witness record: section GSEC (0..11 in declaration order of DnsResult), index GI - both arbitrary.
 * G_wv / G_wttl are ghost NAMES for "the witness exists" and "its TTL": every contract binds them in its requires to exactly
 * that (WITNESS_BOUND). Carrying the bound `min_ttl <= G_wttl` through the loops directly (instead of a chain
 * min_12 <= min_11 <= ... <= ttl) is what makes the proof cheap (measured: chain 150 s for one clause, direct form 10 s). */
unsigned GSEC; size_t GI; bool G_wv; uint32_t G_wttl;
/* ghost names for two shapes of a result: no record at all / exactly one answer record and nothing else (bound in WITNESS_BOUND) */
bool G_empty, G_single;
#define NSEC 12
/* a record vector of a parsed message: each section count is a 16-bit field, the typed vectors collect from three sections */
#define RVEC_MAX ((size_t)3 * 65535)

/* loop k of calculateResultTtl runs over section k-1 */
#define TTL_LOOP(k, vec) IORA_LC( \
  __CPROVER_assigns(iora_i, min_ttl) \
  __CPROVER_loop_invariant(iora_i <= result->vec.n) \
  /* once the witness record has been passed, the running minimum is <= its TTL */ \
  __CPROVER_loop_invariant((G_wv && (GSEC < (k) - 1 || (GSEC == (k) - 1 && GI < iora_i))) ==> min_ttl <= G_wttl) \
  /* exactness for the first record of a section (gives: nothing in any section -> sentinel; a single record -> its TTL) */ \
  __CPROVER_loop_invariant(iora_i == 0 ==> min_ttl == __CPROVER_loop_entry(min_ttl)) \
  __CPROVER_loop_invariant(iora_i == 1 ==> min_ttl == IORA_MIN(__CPROVER_loop_entry(min_ttl), result->vec.p[0].ttl)) \
  __CPROVER_decreases(result->vec.n - iora_i))
#define IORA_LOOP_DnsCache_calculateResultTtl_1 TTL_LOOP(1, answers)
#define IORA_LOOP_DnsCache_calculateResultTtl_2 TTL_LOOP(2, authority)
#define IORA_LOOP_DnsCache_calculateResultTtl_3 TTL_LOOP(3, additional)
#define IORA_LOOP_DnsCache_calculateResultTtl_4 TTL_LOOP(4, a_records)
#define IORA_LOOP_DnsCache_calculateResultTtl_5 TTL_LOOP(5, aaaa_records)
#define IORA_LOOP_DnsCache_calculateResultTtl_6 TTL_LOOP(6, srv_records)
#define IORA_LOOP_DnsCache_calculateResultTtl_7 TTL_LOOP(7, naptr_records)
#define IORA_LOOP_DnsCache_calculateResultTtl_8 TTL_LOOP(8, cname_records)
#define IORA_LOOP_DnsCache_calculateResultTtl_9 TTL_LOOP(9, mx_records)
#define IORA_LOOP_DnsCache_calculateResultTtl_10 TTL_LOOP(10, txt_records)
#define IORA_LOOP_DnsCache_calculateResultTtl_11 TTL_LOOP(11, ptr_records)
#define IORA_LOOP_DnsCache_calculateResultTtl_12 TTL_LOOP(12, soa_records)

/* calculateNegativeTtl: loop 1 returns in its first iteration; loop 2 looks for the first SOA of the authority section */
#define IORA_LOOP_DnsCache_calculateNegativeTtl_1 IORA_LC( \
  __CPROVER_assigns(iora_i) \
  __CPROVER_loop_invariant(iora_i == 0) \
  __CPROVER_decreases(result->soa_records.n - iora_i))
#define IORA_LOOP_DnsCache_calculateNegativeTtl_2 IORA_LC( \
  __CPROVER_assigns(iora_i) \
  __CPROVER_loop_invariant(iora_i <= result->authority.n && (GI < iora_i ==> result->authority.p[GI].type != DnsType_SOA)) \
  __CPROVER_decreases(result->authority.n - iora_i))
