/* type environment + ghost state + loop contracts for unit dns_cache_ttl
 * (DnsCache::calculateResultTtl, calculateNegativeTtl, the TTL hand-over in DnsCache::put, ExpiringCache::set / get) */
typedef struct { iora_rvec answers, authority, additional, a_records, aaaa_records, srv_records, naptr_records, cname_records,
                 mx_records, txt_records, ptr_records, soa_records; } DnsResult;
typedef struct { iora_tmap _cache; iora_secs _ttl; bool _evictionCallback; } ExpiringCache;
typedef struct { int64_t defaultTtlSeconds_; ExpiringCache *cache_; } DnsCache;
/* R21: the eviction callback is a user std::function; ghost stub: counts invocations, records the key */
static inline void iora_cb_eviction(uint64_t k, uint64_t v) { (void)v; G_evictions++; G_evicted_key = k; }
/* CachedDnsResult(result): the cached value is identified by a ghost id */
uint64_t G_result_id;
static inline uint64_t iora_cached_positive(const DnsResult *r) { (void)r; return G_result_id; }
/* cache_->remove(key) (only present in a repaired DnsCache::put): erases the entry of that key */
static inline void ExpiringCache_remove_stub(ExpiringCache *c, uint64_t key) { if (key == GKEY) c->_cache.has = false; }

/* ghost names for two shapes of a result: no record at all / exactly one answer record and nothing else (bound in WITNESS_BOUND) */
bool G_empty, G_single;
#define NSEC 12
/* a record vector of a parsed message: each section count is a 16-bit field, the typed vectors collect from three sections */
#define RVEC_MAX ((size_t)3 * 65535)

/* The scan over section number k (position of the vector in DnsResult; plugin.py maps each loop to TTLSCAN_<vector> by the
 * vector named in its header, NOT by ordinal). Carrying `min_ttl <= G_wttl` directly (instead of a chain
 * min_12 <= ... <= min_1 <= ttl) is what makes the proof cheap (measured: chain 150 s for one clause, direct form 22 s total). */
#define TTL_LOOP(k, vec) IORA_LC( \
  __CPROVER_assigns(iora_i, min_ttl) \
  __CPROVER_loop_invariant(iora_i <= result->vec.n) \
  /* the witness record of an earlier section, or of this section once passed, bounds the running minimum */ \
  __CPROVER_loop_invariant((G_wv && (GSEC < (k) || (GSEC == (k) && GI < iora_i))) ==> min_ttl <= G_wttl) \
  /* exactness for the first record of a section (gives: nothing anywhere -> sentinel; a single record -> its TTL) */ \
  __CPROVER_loop_invariant(iora_i == 0 ==> min_ttl == __CPROVER_loop_entry(min_ttl)) \
  __CPROVER_loop_invariant(iora_i == 1 ==> min_ttl == IORA_MIN(__CPROVER_loop_entry(min_ttl), result->vec.p[0].ttl)) \
  __CPROVER_decreases(result->vec.n - iora_i))
#define TTLSCAN_answers TTL_LOOP(0, answers)
#define TTLSCAN_authority TTL_LOOP(1, authority)
#define TTLSCAN_additional TTL_LOOP(2, additional)
#define TTLSCAN_a_records TTL_LOOP(3, a_records)
#define TTLSCAN_aaaa_records TTL_LOOP(4, aaaa_records)
#define TTLSCAN_srv_records TTL_LOOP(5, srv_records)
#define TTLSCAN_naptr_records TTL_LOOP(6, naptr_records)
#define TTLSCAN_cname_records TTL_LOOP(7, cname_records)
#define TTLSCAN_mx_records TTL_LOOP(8, mx_records)
#define TTLSCAN_txt_records TTL_LOOP(9, txt_records)
#define TTLSCAN_ptr_records TTL_LOOP(10, ptr_records)
#define TTLSCAN_soa_records TTL_LOOP(11, soa_records)

/* calculateNegativeTtl: loop 1 returns in its first iteration; loop 2 looks for the first SOA of the authority section */
#define IORA_LOOP_DnsCache_calculateNegativeTtl_1 IORA_LC( \
  __CPROVER_assigns(iora_i) \
  __CPROVER_loop_invariant(iora_i == 0) \
  __CPROVER_decreases(result->soa_records.n - iora_i))
#define IORA_LOOP_DnsCache_calculateNegativeTtl_2 IORA_LC( \
  __CPROVER_assigns(iora_i) \
  __CPROVER_loop_invariant(iora_i <= result->authority.n && (GI < iora_i ==> result->authority.p[GI].type != DnsType_SOA)) \
  __CPROVER_decreases(result->authority.n - iora_i))
