/* Contracts + harnesses of unit dns_cache_ttl (property C19, last sentence: "an answer is served from the cache ... never after
 * the smallest record TTL - or the negative-caching TTL - has elapsed"; RFC 1035 3.2.1 TTL, RFC 2308 5 negative TTL). */

#define RESULT_FRESH \
__CPROVER_requires(__CPROVER_is_fresh(result, sizeof(*result))) \
__CPROVER_requires(result->answers.n <= RVEC_MAX && __CPROVER_is_fresh(result->answers.p, result->answers.n * sizeof(DnsRec))) \
__CPROVER_requires(result->authority.n <= RVEC_MAX && __CPROVER_is_fresh(result->authority.p, result->authority.n * sizeof(DnsRec))) \
__CPROVER_requires(result->additional.n <= RVEC_MAX && __CPROVER_is_fresh(result->additional.p, result->additional.n * sizeof(DnsRec))) \
__CPROVER_requires(result->a_records.n <= RVEC_MAX && __CPROVER_is_fresh(result->a_records.p, result->a_records.n * sizeof(DnsRec))) \
__CPROVER_requires(result->aaaa_records.n <= RVEC_MAX && __CPROVER_is_fresh(result->aaaa_records.p, result->aaaa_records.n * sizeof(DnsRec))) \
__CPROVER_requires(result->srv_records.n <= RVEC_MAX && __CPROVER_is_fresh(result->srv_records.p, result->srv_records.n * sizeof(DnsRec))) \
__CPROVER_requires(result->naptr_records.n <= RVEC_MAX && __CPROVER_is_fresh(result->naptr_records.p, result->naptr_records.n * sizeof(DnsRec))) \
__CPROVER_requires(result->cname_records.n <= RVEC_MAX && __CPROVER_is_fresh(result->cname_records.p, result->cname_records.n * sizeof(DnsRec))) \
__CPROVER_requires(result->mx_records.n <= RVEC_MAX && __CPROVER_is_fresh(result->mx_records.p, result->mx_records.n * sizeof(DnsRec))) \
__CPROVER_requires(result->txt_records.n <= RVEC_MAX && __CPROVER_is_fresh(result->txt_records.p, result->txt_records.n * sizeof(DnsRec))) \
__CPROVER_requires(result->ptr_records.n <= RVEC_MAX && __CPROVER_is_fresh(result->ptr_records.p, result->ptr_records.n * sizeof(DnsRec))) \
__CPROVER_requires(result->soa_records.n <= RVEC_MAX && __CPROVER_is_fresh(result->soa_records.p, result->soa_records.n * sizeof(DnsRec)))
#define WITNESS_BOUND \
__CPROVER_requires(G_empty == (result->answers.n == 0 && result->authority.n == 0 && result->additional.n == 0 && result->a_records.n == 0 && result->aaaa_records.n == 0 && result->srv_records.n == 0 && result->naptr_records.n == 0 && result->cname_records.n == 0 && result->mx_records.n == 0 && result->txt_records.n == 0 && result->ptr_records.n == 0 && result->soa_records.n == 0)) \
__CPROVER_requires(G_single == (result->answers.n == 1 && result->authority.n == 0 && result->additional.n == 0 && result->a_records.n == 0 && result->aaaa_records.n == 0 && result->srv_records.n == 0 && result->naptr_records.n == 0 && result->cname_records.n == 0 && result->mx_records.n == 0 && result->txt_records.n == 0 && result->ptr_records.n == 0 && result->soa_records.n == 0)) \
__CPROVER_requires(G_wv == ((GSEC == 0 && GI < result->answers.n) || (GSEC == 1 && GI < result->authority.n) || (GSEC == 2 && GI < result->additional.n) || (GSEC == 3 && GI < result->a_records.n) || (GSEC == 4 && GI < result->aaaa_records.n) || (GSEC == 5 && GI < result->srv_records.n) || (GSEC == 6 && GI < result->naptr_records.n) || (GSEC == 7 && GI < result->cname_records.n) || (GSEC == 8 && GI < result->mx_records.n) || (GSEC == 9 && GI < result->txt_records.n) || (GSEC == 10 && GI < result->ptr_records.n) || (GSEC == 11 && GI < result->soa_records.n))) \
__CPROVER_requires((GSEC == 0 && GI < result->answers.n) ==> G_wttl == result->answers.p[GI].ttl) \
__CPROVER_requires((GSEC == 1 && GI < result->authority.n) ==> G_wttl == result->authority.p[GI].ttl) \
__CPROVER_requires((GSEC == 2 && GI < result->additional.n) ==> G_wttl == result->additional.p[GI].ttl) \
__CPROVER_requires((GSEC == 3 && GI < result->a_records.n) ==> G_wttl == result->a_records.p[GI].ttl) \
__CPROVER_requires((GSEC == 4 && GI < result->aaaa_records.n) ==> G_wttl == result->aaaa_records.p[GI].ttl) \
__CPROVER_requires((GSEC == 5 && GI < result->srv_records.n) ==> G_wttl == result->srv_records.p[GI].ttl) \
__CPROVER_requires((GSEC == 6 && GI < result->naptr_records.n) ==> G_wttl == result->naptr_records.p[GI].ttl) \
__CPROVER_requires((GSEC == 7 && GI < result->cname_records.n) ==> G_wttl == result->cname_records.p[GI].ttl) \
__CPROVER_requires((GSEC == 8 && GI < result->mx_records.n) ==> G_wttl == result->mx_records.p[GI].ttl) \
__CPROVER_requires((GSEC == 9 && GI < result->txt_records.n) ==> G_wttl == result->txt_records.p[GI].ttl) \
__CPROVER_requires((GSEC == 10 && GI < result->ptr_records.n) ==> G_wttl == result->ptr_records.p[GI].ttl) \
__CPROVER_requires((GSEC == 11 && GI < result->soa_records.n) ==> G_wttl == result->soa_records.p[GI].ttl)
/* the configured default TTL is a second count that fits the 32-bit TTL type it is cast to */
#define SELF_OK (self->defaultTtlSeconds_ >= 0 && self->defaultTtlSeconds_ <= (int64_t)0xFFFFFFFF)

/* ------------------------------------------------------------------------------------------------------------------
 * calculateResultTtl: for the ARBITRARY witness record (section GSEC, index GI) the result is <= its TTL, i.e. the result
 * is <= the TTL of every record of every section: no record can outlive the cached entry. */
uint32_t calculateResultTtl_contract(const DnsCache *self, const DnsResult *result)
__CPROVER_requires(IORA_TRUE && __CPROVER_is_fresh(self, sizeof(*self)) && SELF_OK)
RESULT_FRESH
WITNESS_BOUND
__CPROVER_assigns()
/* T1 */ __CPROVER_ensures(G_wv ==> __CPROVER_return_value <= G_wttl)
/* T2 no record at all: the configured default */
__CPROVER_ensures(G_empty ==> __CPROVER_return_value == (uint32_t)self->defaultTtlSeconds_)
/* T3 a single answer record and nothing else: exactly its TTL (unless that is the 2^32-1 sentinel) */
__CPROVER_ensures((G_single && result->answers.p[0].ttl != 0xFFFFFFFFu) ==> __CPROVER_return_value == result->answers.p[0].ttl)
;

void h_ttl(void)
{
  const DnsCache *self; const DnsResult *result;
  uint32_t r = DnsCache_calculateResultTtl(self, result);
  IORA_CANARY("h_ttl: returns");
}

/* ------------------------------------------------------------------------------------------------------------------
 * calculateNegativeTtl (RFC 2308 5: "the TTL of this record is set from the minimum of the MINIMUM field of the SOA record
 * and the TTL of the SOA itself") */
uint32_t calculateNegativeTtl_contract(const DnsCache *self, const DnsResult *result, uint32_t defaultNegativeTtl)
__CPROVER_requires(IORA_TRUE && __CPROVER_is_fresh(self, sizeof(*self)) && SELF_OK)
RESULT_FRESH
__CPROVER_assigns()
/* N1 */ __CPROVER_ensures(result->soa_records.n > 0 ==> __CPROVER_return_value == IORA_MIN(result->soa_records.p[0].minimum, result->soa_records.p[0].ttl))
/* N2 no parsed SOA, the authority section starts with an (unparsed) SOA: its TTL */
__CPROVER_ensures((result->soa_records.n == 0 && result->authority.n > 0 && result->authority.p[0].type == DnsType_SOA) ==> __CPROVER_return_value == result->authority.p[0].ttl)
/* N3 no SOA anywhere: the caller's default, else the configured default */
__CPROVER_ensures((result->soa_records.n == 0 && result->authority.n == 0) ==>
   __CPROVER_return_value == (defaultNegativeTtl > 0 ? defaultNegativeTtl : (uint32_t)self->defaultTtlSeconds_))
;

void h_negttl(void)
{
  const DnsCache *self; const DnsResult *result; uint32_t d;
  uint32_t r = DnsCache_calculateNegativeTtl(self, result, d);
  IORA_CANARY("h_negttl: returns");
}

/* ------------------------------------------------------------------------------------------------------------------
 * ExpiringCache::set / get over integer time points: loop-free -> plain harnesses, full domain.
 * API contract of set (its own documentation): customTtl == 0 means "use the cache's default TTL". */
#define TIME_OK(t) ((t) >= -((int64_t)1 << 61) && (t) <= ((int64_t)1 << 61))      /* steady_clock counts are far from the int64 limits */
#define TTL_OK(t) ((t) >= 0 && (t) <= ((int64_t)1 << 40))

void h_set(void)
{
  ExpiringCache c; uint64_t key = nondet_u64(), value = nondet_u64(); iora_secs ttl = nondet_i64();
  c._cache.has = nondet_bool(); c._evictionCallback = nondet_bool();     /* _Bool fields: explicit 0/1 */
  GKEY = nondet_u64(); G_now = nondet_i64(); IORA_TRUE = 1; G_evictions = 0;
  __CPROVER_assume(TIME_OK(G_now) && TTL_OK(ttl) && TTL_OK(c._ttl));
  const iora_tmap before = c._cache;
  ExpiringCache_set(&c, key, value, ttl);
  IORA_CANARY("h_set: returns");
  __CPROVER_assert(key == GKEY ==> (c._cache.has && c._cache.e.value == value), "E1 set stores the value under the key");
  __CPROVER_assert((key == GKEY && ttl > 0) ==> c._cache.e.expiration == G_now + ttl, "E2 an explicit TTL: the entry expires exactly TTL after now");
  __CPROVER_assert((key == GKEY && ttl == 0) ==> c._cache.e.expiration == G_now + c._ttl, "E3 TTL 0 = not given: the cache's default TTL");
  __CPROVER_assert(key != GKEY ==> (c._cache.has == before.has && c._cache.e.value == before.e.value && c._cache.e.expiration == before.e.expiration), "E4 entries of other keys untouched");
}

void h_get(void)
{
  ExpiringCache c; uint64_t key = nondet_u64(); uint64_t out = nondet_u64();
  c._cache.has = nondet_bool(); c._evictionCallback = nondet_bool();     /* _Bool fields: explicit 0/1 */
  GKEY = nondet_u64(); G_now = nondet_i64(); IORA_TRUE = 1; G_evictions = 0;
  const iora_tmap before = c._cache; const uint64_t out0 = out;
  bool hit = ExpiringCache_get(&c, key, &out);
  IORA_CANARY("h_get: returns");
  if (hit) { IORA_CANARY("h_get: hit"); } else { IORA_CANARY("h_get: miss"); }
  /* the property's clause: an entry is served only strictly before its expiry instant */
  __CPROVER_assert((key == GKEY && hit) ==> (before.has && G_now < before.e.expiration && out == before.e.value), "G1 a hit returns the stored value and only before the expiry instant");
  __CPROVER_assert((key == GKEY && before.has && G_now < before.e.expiration) ==> hit, "G2 an unexpired entry is a hit");
  __CPROVER_assert((key == GKEY && before.has && G_now >= before.e.expiration) ==> (!hit && !c._cache.has), "G3 an expired entry is a miss and is removed");
  __CPROVER_assert((key == GKEY && before.has && G_now >= before.e.expiration) ==> (G_evictions == (c._evictionCallback ? 1 : 0) && (!c._evictionCallback || G_evicted_key == key)), "G4 the eviction callback fires exactly once for the removed entry");
  __CPROVER_assert((key == GKEY && hit) ==> (c._cache.has && G_evictions == 0), "G5 a hit changes nothing");
  __CPROVER_assert(key != GKEY ==> (c._cache.has == before.has && c._cache.e.value == before.e.value && c._cache.e.expiration == before.e.expiration), "G6 entries of other keys untouched");
  __CPROVER_assert(!hit ==> out == out0, "G7 a miss returns no value");
}

/* lemma: set then get after time has passed (the clock is monotone) */
void h_set_get(void)
{
  ExpiringCache c; uint64_t key = nondet_u64(), value = nondet_u64(); iora_secs ttl = nondet_i64(); uint64_t out = 0;
  c._cache.has = nondet_bool(); c._evictionCallback = nondet_bool();     /* _Bool fields: explicit 0/1 */
  GKEY = key; G_now = nondet_i64(); IORA_TRUE = 1; G_evictions = 0;
  __CPROVER_assume(TIME_OK(G_now) && ttl > 0 && TTL_OK(ttl) && TTL_OK(c._ttl));
  const int64_t t0 = G_now;
  ExpiringCache_set(&c, key, value, ttl);
  int64_t dt = nondet_i64();
  __CPROVER_assume(dt >= 0 && dt <= ((int64_t)1 << 61));
  G_now = t0 + dt;
  bool hit = ExpiringCache_get(&c, key, &out);
  IORA_CANARY("h_set_get: returns");
  __CPROVER_assert(hit == (dt < ttl), "L1 an entry stored with TTL > 0 is served exactly while less than TTL has elapsed");
  __CPROVER_assert(hit ==> out == value, "L2 and it is the stored value");
}

/* ------------------------------------------------------------------------------------------------------------------
 * DnsCache::put, the TTL hand-over (block target: `ttl = calculateResultTtl(result); ... cache_->set(key, cachedResult, seconds(ttl));`)
 * calculateResultTtl replaced by its contract above, ExpiringCache::set inlined (extracted text).
 * P1: the entry the key has after put expires no later than now + TTL of the ARBITRARY witness record of the cached result.
 *     FAILS on the unchanged tree (finding D3): a minimum TTL of 0 is handed to set(), where 0 means "default TTL". */
void put_core_contract(DnsCache *self, uint64_t key, const DnsResult *result)
__CPROVER_requires(IORA_TRUE && __CPROVER_is_fresh(self, sizeof(*self)) && SELF_OK && __CPROVER_is_fresh(self->cache_, sizeof(*self->cache_)))
__CPROVER_requires(TIME_OK(G_now) && TTL_OK(self->cache_->_ttl))
RESULT_FRESH
WITNESS_BOUND
__CPROVER_assigns(self->cache_->_cache)
/* P1 */ __CPROVER_ensures((key == GKEY && G_wv && self->cache_->_cache.has) ==> self->cache_->_cache.e.expiration <= G_now + (int64_t)G_wttl)
/* P3 a single answer record with a TTL > 0 and nothing else: stored, and it expires exactly TTL after now */
#define PUT_SINGLE (key == GKEY && G_single && result->answers.p[0].ttl > 0 && result->answers.p[0].ttl != 0xFFFFFFFFu)
/* P2 the entry holds this result */
__CPROVER_ensures((key == GKEY && self->cache_->_cache.has) ==> self->cache_->_cache.e.value == G_result_id)
;

/* proof "put_stored": P3a alone */
void put_core_stored_contract(DnsCache *self, uint64_t key, const DnsResult *result)
__CPROVER_requires(IORA_TRUE && __CPROVER_is_fresh(self, sizeof(*self)) && SELF_OK && __CPROVER_is_fresh(self->cache_, sizeof(*self->cache_)))
__CPROVER_requires(TIME_OK(G_now) && TTL_OK(self->cache_->_ttl))
RESULT_FRESH
WITNESS_BOUND
__CPROVER_assigns(self->cache_->_cache)
/* P3a */ __CPROVER_ensures(PUT_SINGLE ==> self->cache_->_cache.has)
;

/* proof "put_exact": P3b alone (measured: P3a and P3b take 7 s each, together in one run > 300 s) */
void put_core_exact_contract(DnsCache *self, uint64_t key, const DnsResult *result)
__CPROVER_requires(IORA_TRUE && __CPROVER_is_fresh(self, sizeof(*self)) && SELF_OK && __CPROVER_is_fresh(self->cache_, sizeof(*self->cache_)))
__CPROVER_requires(TIME_OK(G_now) && TTL_OK(self->cache_->_ttl))
RESULT_FRESH
WITNESS_BOUND
__CPROVER_assigns(self->cache_->_cache)
/* P3b */ __CPROVER_ensures(PUT_SINGLE ==> self->cache_->_cache.e.expiration == G_now + (int64_t)result->answers.p[0].ttl)
;

void h_put(void)
{
  DnsCache *self; uint64_t key; const DnsResult *result;
  DnsCache_put_core(self, key, result);
  IORA_CANARY("h_put: returns");
}

#ifdef IORA_SEARCH
/* SEARCH: one answer record with TTL IN_TTL is put at time 0; get at time IN_DT (bounded only by the concrete shapes) */
void h_search(void)
{
  uint32_t IN_TTL = (uint32_t)nondet_u64(); int64_t IN_DT = nondet_i64();
  __CPROVER_assume(IN_DT >= 0 && IN_DT <= 1000000);
  DnsRec rec = { DnsType_A, IN_TTL, 0 };
  DnsResult res = { {&rec, 1}, {0,0},{0,0},{0,0},{0,0},{0,0},{0,0},{0,0},{0,0},{0,0},{0,0},{0,0} };
  ExpiringCache ec = { {false, {0, 0}}, 300, false };
  DnsCache dc = { 300, &ec };
  IORA_TRUE = 1; GKEY = 7; G_now = 0; G_result_id = 42; GSEC = 0; GI = 0; G_wv = true; G_wttl = IN_TTL; G_empty = false; G_single = true; G_evictions = 0;
  DnsCache_put_core(&dc, 7, &res);
  G_now = IN_DT;
  uint64_t out = 0;
  bool hit = ExpiringCache_get(&ec, 7, &out);
  __CPROVER_assert(!hit || IN_DT < (int64_t)IN_TTL, "P1 served only while less than the record TTL has elapsed");
}
#endif
