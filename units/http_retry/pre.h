/* type environment + loop contract for unit http_retry (C17) */
#include "exec_model.h"
typedef struct HttpClient_s { int _mutex; iora_transport *_transport; HttpConfig _config; } HttpClient;

/* RFC 9110 section 9.2.2: idempotent methods are the safe methods (GET, HEAD, OPTIONS, TRACE) plus PUT and DELETE; method tokens are
 * case-sensitive (section 9.1). Written from the RFC as byte values. Needs m.n > 0 for the clamped reads. */
#define MB(m, i) ((m).p[(i) < (m).n ? (i) : 0])
#define IDEM_NZ(m) ( \
   (((m).n == 3) & (MB(m,0) == 71) & (MB(m,1) == 69) & (MB(m,2) == 84))                                                          /* GET     */ \
 | (((m).n == 4) & (MB(m,0) == 72) & (MB(m,1) == 69) & (MB(m,2) == 65) & (MB(m,3) == 68))                                        /* HEAD    */ \
 | (((m).n == 3) & (MB(m,0) == 80) & (MB(m,1) == 85) & (MB(m,2) == 84))                                                          /* PUT     */ \
 | (((m).n == 6) & (MB(m,0) == 68) & (MB(m,1) == 69) & (MB(m,2) == 76) & (MB(m,3) == 69) & (MB(m,4) == 84) & (MB(m,5) == 69))    /* DELETE  */ \
 | (((m).n == 7) & (MB(m,0) == 79) & (MB(m,1) == 80) & (MB(m,2) == 84) & (MB(m,3) == 73) & (MB(m,4) == 79) & (MB(m,5) == 78) & (MB(m,6) == 83)) /* OPTIONS */ \
 | (((m).n == 5) & (MB(m,0) == 84) & (MB(m,1) == 82) & (MB(m,2) == 65) & (MB(m,3) == 67) & (MB(m,4) == 69)))                     /* TRACE   */
#define IDEM(m) ((m).n > 0 && IDEM_NZ(m))

/* stated bound on the retry budget: the back-off `(1 << attempt) * 100 + jitter(0..99)` is computed for attempt < retries and stays
 * within int for attempt <= 24, i.e. retries <= 25 */
#ifndef RETRIES_MAX
#define RETRIES_MAX 25
#endif

/* ghost snapshot of IDEM(method), bound by the precondition (the loop invariant must not re-read the method bytes) */
bool G_idem;

/* ghosts written by one attempt (exec_model.h) */
#define EXEC_ATTEMPT_GHOSTS G_presend_entered, G_presend_framing, G_acquired, G_sid, G_send_calls, G_recv_calls, G_drop_calls, G_dropped, G_send_ok, G_async_ok, G_rrc_called, G_rrc, G_fr_force_evict, G_fr_mode, G_peer_closed_body, G_reuse_cfg

/* stated bound: response cap (max(maxResponseBytes, maxPayloadSize)) <= 2^60, so `size + 8192` cannot wrap (std::string::max_size is below that anyway) */
#define EXEC_CAP_MAX ((size_t)1 << 60)

/* loop 1 of the send+receive block of executeRequest: the receive loop. No variant: a peer may stream interim 1xx responses (which
 * frameResponse erases from the buffer) for ever - termination is NOT decided (only each receiveSync is bounded by its timeout). */
#define IORA_LOOP_HttpClient_exec_exchange_1 IORA_LC( \
  __CPROVER_assigns(complete, responseData, headersDone, headerScanPos, bodyStart, resp, framing, chunkState, forceEvict, iora_exc, \
                    __CPROVER_object_whole(buffer), G_recv_calls, G_fr_force_evict, G_fr_mode, G_peer_closed_body) \
  __CPROVER_loop_invariant(iora_exc == EXC_NONE && G_acquired && sessionId == G_sid && G_send_ok && !G_dropped && G_drop_calls == 0 && !G_async_ok && !G_rrc_called) \
  __CPROVER_loop_invariant(responseData.n <= effectiveCap && (headersDone ==> bodyStart <= responseData.n)) \
  __CPROVER_loop_invariant(G_peer_closed_body ==> (complete && forceEvict)) \
  __CPROVER_loop_invariant((G_fr_force_evict ==> forceEvict) && (complete && !G_peer_closed_body ==> G_fr_mode == framing.mode)) \
  __CPROVER_loop_invariant(0 <= G_recv_calls && G_recv_calls < 100000))

/* loop 1 of performRequest: the retry loop */
#define IORA_LOOP_HttpClient_performRequest_1 IORA_LC( \
  __CPROVER_assigns(attempt, iora_exc, iora_exc_caught, G_attempts, G_possibly_sent, G_framing_seen, G_attempts_after_framing, G_attempts_after_sent, G_last_ok, G_sleeps, *iora_ret, EXEC_ATTEMPT_GHOSTS) \
  __CPROVER_loop_invariant(0 <= G_send_calls && G_send_calls <= G_possibly_sent) \
  __CPROVER_loop_invariant(iora_exc == EXC_NONE && 0 <= attempt && attempt <= RETRIES_MAX && G_attempts == attempt && G_sleeps == attempt) \
  __CPROVER_loop_invariant(!G_framing_seen && G_attempts_after_framing == 0 && (G_idem || G_attempts_after_sent == 0) && 0 <= G_attempts_after_sent && G_attempts_after_sent <= attempt && !G_last_ok) \
  __CPROVER_loop_invariant(0 <= G_possibly_sent && G_possibly_sent <= attempt && (G_idem || G_possibly_sent == 0)) \
  __CPROVER_loop_invariant(attempt > 0 ==> attempt <= retries) \
  __CPROVER_decreases(RETRIES_MAX + 1 - attempt))

/* callees replaced by contracts (post.c) */
Response HttpClient_executeRequest(HttpClient *self, iora_sv method, iora_sv url, iora_sv body, iora_hdrs headers);
void HttpClient_ensureInitialized(HttpClient *self);

/* environment of executeRequest (bodies in post.c: inline nondeterministic stubs) */
SessionId HttpClient_acquireConnection(HttpClient *self, ParsedUrl u);
void HttpClient_dropConnection(HttpClient *self, iora_sv hostPort, SessionId sid);
bool HttpClient_frameResponse(HttpClient *self, iora_sv method, iora_ostr *data, bool *headersDone, size_t *headerScanPos, size_t *bodyStart, Response *resp, Framing *framing, ChunkState *chunkState, bool *forceEvict, size_t effectiveCap);
bool HttpClient_responseRequestsClose_env(HttpClient *self, const Response *resp);
