/* Contracts for unit http_retry (C17). Top-level clauses are written from the property statement:
 *  "a request with a non-idempotent method reaches the wire in at most one attempt unless every earlier attempt provably failed before
 *   sending a byte; idempotent requests are attempted at most budget+1 times. Deterministic framing errors are never retried" */

/* ---- isIdempotentMethod: exact against RFC 9110 9.2.2 (IDEM is written from the RFC in pre.h), case-sensitive ---- */
bool HttpClient_isIdempotentMethod_contract(iora_sv method)
__CPROVER_requires(IORA_TRUE && method.n <= ((size_t)1 << 40) && __CPROVER_is_fresh(method.p, method.n))
__CPROVER_assigns()
/* M1 */ __CPROVER_ensures(__CPROVER_return_value == IDEM(method))
;
void h_idem(void)
{
  iora_sv m;
  bool r = HttpClient_isIdempotentMethod(m);
  IORA_CANARY("h_idem: returns");
  if (r) { IORA_CANARY("h_idem: idempotent"); } else { IORA_CANARY("h_idem: not idempotent"); }
}

/* ---- environment: one attempt. Outcome is arbitrary: a response, HttpFramingError, HttpRequestNotSentError, or any other exception.
 * HttpRequestNotSentError is, by its documented meaning (http_client.hpp l.65-77), the only outcome that proves no byte was sent. ---- */
Response HttpClient_executeRequest_contract(HttpClient *self, iora_sv method, iora_sv url, iora_sv body, iora_hdrs headers)
__CPROVER_requires(IORA_TRUE)
/* X0 a new attempt never starts while an exception is pending */
__CPROVER_requires(iora_exc == EXC_NONE)
__CPROVER_requires(G_attempts >= 0 && G_attempts < 1000 && G_possibly_sent >= 0 && G_possibly_sent < 1000 && G_attempts_after_framing >= 0 && G_attempts_after_framing < 1000 && G_attempts_after_sent >= 0 && G_attempts_after_sent < 1000)
__CPROVER_assigns(iora_exc, G_attempts, G_possibly_sent, G_framing_seen, G_attempts_after_framing, G_attempts_after_sent, G_last_ok)
__CPROVER_ensures(iora_exc == EXC_NONE || iora_exc == EXC_HttpFramingError || iora_exc == EXC_HttpRequestNotSentError || iora_exc == EXC_runtime_error)
__CPROVER_ensures(G_attempts == __CPROVER_old(G_attempts) + 1)
__CPROVER_ensures(G_possibly_sent == __CPROVER_old(G_possibly_sent) + (iora_exc == EXC_HttpRequestNotSentError ? 0 : 1))
__CPROVER_ensures(G_framing_seen == (__CPROVER_old(G_framing_seen) || iora_exc == EXC_HttpFramingError))
__CPROVER_ensures(G_attempts_after_framing == __CPROVER_old(G_attempts_after_framing) + (__CPROVER_old(G_framing_seen) ? 1 : 0))
__CPROVER_ensures(G_attempts_after_sent == __CPROVER_old(G_attempts_after_sent) + (__CPROVER_old(G_possibly_sent) > 0 ? 1 : 0))
__CPROVER_ensures(G_last_ok == (iora_exc == EXC_NONE))
;
/* ensureInitialized may fail (transport start) before any attempt */
void HttpClient_ensureInitialized_contract(HttpClient *self)
__CPROVER_requires(IORA_TRUE && iora_exc == EXC_NONE)
__CPROVER_assigns(iora_exc)
__CPROVER_ensures(iora_exc == EXC_NONE || iora_exc == EXC_runtime_error)
;

#define RETRY_PRE \
__CPROVER_requires(IORA_TRUE && __CPROVER_is_fresh(self, sizeof(*self)) && __CPROVER_is_fresh(headers, sizeof(*headers)) && __CPROVER_is_fresh(iora_ret, sizeof(*iora_ret))) \
__CPROVER_requires(method.n <= ((size_t)1 << 40) && __CPROVER_is_fresh(method.p, method.n)) \
__CPROVER_requires(iora_exc == EXC_NONE && G_attempts == 0 && G_possibly_sent == 0 && !G_framing_seen && G_attempts_after_framing == 0 && G_attempts_after_sent == 0 && !G_last_ok && G_sleeps == 0) \
__CPROVER_requires(G_idem == IDEM(method)) \
/* stated bound on the retry budget (see RETRIES_MAX) */ \
__CPROVER_requires(retries <= RETRIES_MAX) \
__CPROVER_assigns(iora_exc, iora_exc_caught, G_attempts, G_possibly_sent, G_framing_seen, G_attempts_after_framing, G_attempts_after_sent, G_last_ok, G_sleeps, G_locks, *iora_ret)

/* proof "retry_safety": built-in checks (incl. signed overflow / shift of the back-off), frame, invariant, variant */
void HttpClient_performRequest_safety(HttpClient *self, iora_sv method, iora_sv url, iora_sv body, const iora_hdrs *headers, int retries, Response *iora_ret)
RETRY_PRE
/* R2 */ __CPROVER_ensures(G_attempts <= (retries < 0 ? 0 : retries) + 1)
;

/* proof "retry_functional" */
void HttpClient_performRequest_contract(HttpClient *self, iora_sv method, iora_sv url, iora_sv body, const iora_hdrs *headers, int retries, Response *iora_ret)
RETRY_PRE
/* R1  a non-idempotent request possibly reaches the wire in at most one attempt ... */
__CPROVER_ensures(!G_idem ==> G_possibly_sent <= 1)
/* R1b ... and no attempt is started after one that possibly reached the wire */
__CPROVER_ensures(!G_idem ==> G_attempts_after_sent == 0)
/* R2  at most budget+1 attempts, whatever the method (a negative budget counts as 0) */
__CPROVER_ensures(G_attempts <= (retries < 0 ? 0 : retries) + 1)
/* R3  a framing error is never followed by another attempt */
__CPROVER_ensures(G_attempts_after_framing == 0)
/* R4  a normal return hands out the response of the last attempt; a failure is reported as an exception, never swallowed */
__CPROVER_ensures((iora_exc == EXC_NONE) == G_last_ok)
__CPROVER_ensures(G_framing_seen ==> iora_exc == EXC_HttpFramingError)
/* R5  (documented behaviour, beyond the safety property) the budget is used: a retry-eligible failure is retried until the budget is spent,
 *     with one back-off sleep between consecutive attempts */
__CPROVER_ensures((iora_exc == EXC_runtime_error && G_idem && G_attempts > 0) ==> G_attempts == (retries < 0 ? 0 : retries) + 1)
__CPROVER_ensures((iora_exc == EXC_HttpRequestNotSentError) ==> G_attempts == (retries < 0 ? 0 : retries) + 1)
__CPROVER_ensures(G_attempts > 0 ==> G_sleeps == G_attempts - 1)
;

void h_retry(void)
{
  HttpClient *c; iora_sv m, u, b; const iora_hdrs *h; int retries; Response *r;
  HttpClient_performRequest(c, m, u, b, h, retries, r);
  IORA_CANARY("h_retry: returns");
  if (iora_exc == EXC_NONE) { IORA_CANARY("h_retry: response"); }
  if (iora_exc == EXC_HttpFramingError) { IORA_CANARY("h_retry: framing error propagated"); }
  if (iora_exc == EXC_HttpRequestNotSentError && G_attempts > 1) { IORA_CANARY("h_retry: not-sent retried then failed"); }
  if (iora_exc == EXC_runtime_error && G_attempts > 1) { IORA_CANARY("h_retry: idempotent retried then failed"); }
  if (iora_exc == EXC_runtime_error && G_attempts == 0) { IORA_CANARY("h_retry: initialisation failed"); }
}

#ifdef IORA_SEARCH
/* SEARCH: concrete 8-byte method token for REPLAY when M1 fails */
void h_search(void)
{
  uint8_t IN[8]; size_t IN_N = nondet_size_t();
  IORA_NONDET_BYTES(IN, 8);
  __CPROVER_assume(IN_N <= 8);
  IORA_TRUE = 1;
  iora_sv method = { (const char *)IN, IN_N };
  bool got = HttpClient_isIdempotentMethod(method);
  __CPROVER_assert(got == IDEM(method), "M1 classification equals RFC 9110 9.2.2");
}
#endif
