/* Contracts for unit http_retry (C17). Top-level clauses are written from the property statement:
 *  "a request with a non-idempotent method reaches the wire in at most one attempt unless every earlier attempt provably failed before
 *   sending a byte; idempotent requests are attempted at most budget+1 times. Deterministic framing errors are never retried" */

/* ---- isIdempotentMethod: exact against RFC 9110 9.2.2 (IDEM is written from the RFC in pre.h), case-sensitive ---- */
bool HttpClient_isIdempotentMethod_contract(iora_sv method)
__CPROVER_requires(IORA_TRUE && method.n <= ((size_t)1 << 40) && __CPROVER_is_fresh(method.p, method.n))
__CPROVER_assigns()
/* M1 */ __CPROVER_ensures(__CPROVER_return_value == IDEM(method))
;
void h_idem(void)
{
  iora_sv m;
  bool r = HttpClient_isIdempotentMethod(m);
  IORA_CANARY("h_idem: returns");
  if (r) { IORA_CANARY("h_idem: idempotent"); } else { IORA_CANARY("h_idem: not idempotent"); }
}

/* ---- one attempt: the contract of HttpClient::executeRequest that performRequest's proofs use (replace) and that proof "exec_contract"
 * ENFORCES on the composition [parseUrl; acquireLease; pre-send block; request building; send+receive block] of the real text.
 * Outcome classes: a response, HttpFramingError, HttpRequestNotSentError, or any other exception (EXC_runtime_error stands for all others). ---- */
#define EXEC_PRE \
__CPROVER_requires(IORA_TRUE) \
/* X0 a new attempt never starts while an exception is pending */ \
__CPROVER_requires(iora_exc == EXC_NONE) \
__CPROVER_requires(G_attempts >= 0 && G_attempts < 1000 && G_possibly_sent >= 0 && G_possibly_sent < 1000 && G_attempts_after_framing >= 0 && G_attempts_after_framing < 1000 && G_attempts_after_sent >= 0 && G_attempts_after_sent < 1000 && G_send_calls >= 0 && G_send_calls < 1000) \
__CPROVER_assigns(iora_exc, iora_exc_caught, G_attempts, G_possibly_sent, G_framing_seen, G_attempts_after_framing, G_attempts_after_sent, G_last_ok, EXEC_ATTEMPT_GHOSTS)
#define EXEC_ENS_RETRY \
__CPROVER_ensures(iora_exc == EXC_NONE || iora_exc == EXC_HttpFramingError || iora_exc == EXC_HttpRequestNotSentError || iora_exc == EXC_runtime_error) \
__CPROVER_ensures(G_attempts == __CPROVER_old(G_attempts) + 1) \
__CPROVER_ensures(G_possibly_sent == __CPROVER_old(G_possibly_sent) + (iora_exc == EXC_HttpRequestNotSentError ? 0 : 1)) \
__CPROVER_ensures(G_framing_seen == (__CPROVER_old(G_framing_seen) || iora_exc == EXC_HttpFramingError)) \
__CPROVER_ensures(G_attempts_after_framing == __CPROVER_old(G_attempts_after_framing) + (__CPROVER_old(G_framing_seen) ? 1 : 0)) \
__CPROVER_ensures(G_attempts_after_sent == __CPROVER_old(G_attempts_after_sent) + (__CPROVER_old(G_possibly_sent) > 0 ? 1 : 0)) \
__CPROVER_ensures(G_last_ok == (iora_exc == EXC_NONE)) \
/* E1 HttpRequestNotSentError only on paths where the send stub was NOT called in this attempt */ \
__CPROVER_ensures(iora_exc == EXC_HttpRequestNotSentError ==> G_send_calls == __CPROVER_old(G_send_calls)) \
/* E2 the request is handed to the transport at most once per attempt */ \
__CPROVER_ensures(G_send_calls == __CPROVER_old(G_send_calls) || G_send_calls == __CPROVER_old(G_send_calls) + 1) \
/* E3 (documented classification) once the pre-send region is entered, a failure that is NOT reported as not-sent/framing happened at or after the send */ \
__CPROVER_ensures((iora_exc == EXC_runtime_error && G_presend_entered) ==> G_send_calls == __CPROVER_old(G_send_calls) + 1) \
/* E4 a framing error raised in the pre-send region is never downgraded to the retryable not-sent class */ \
__CPROVER_ensures(G_presend_framing ==> iora_exc == EXC_HttpFramingError)

Response HttpClient_executeRequest_contract(HttpClient *self, iora_sv method, iora_sv url, iora_sv body, iora_hdrs headers)
EXEC_PRE
EXEC_ENS_RETRY
;
/* the same contract plus the connection clauses (proof "exec_contract" enforces this one; it implies the one above clause by clause) */
Response HttpClient_executeRequest_full(HttpClient *self, iora_sv method, iora_sv url, iora_sv body, iora_hdrs headers)
EXEC_PRE
__CPROVER_requires(__CPROVER_is_fresh(self, sizeof(*self)) && __CPROVER_is_fresh(self->_transport, sizeof(iora_transport)))
__CPROVER_requires(self->_config.maxResponseBytes <= EXEC_CAP_MAX && self->_config.jsonConfig.maxPayloadSize <= EXEC_CAP_MAX)
EXEC_ENS_RETRY
/* D1 every exceptional exit after a connection was acquired drops it before returning (it is never left in the pool) */
__CPROVER_ensures((iora_exc != EXC_NONE && G_acquired) ==> G_dropped)
/* D2 a response is returned only after a successful send on the acquired session, and the connection is kept for reuse ONLY IF reuse is
 *    configured, responseRequestsClose said no, no surplus bytes / forced eviction, the body was not close-delimited, and the switch back to
 *    Async succeeded; otherwise it was dropped before returning */
__CPROVER_ensures(iora_exc == EXC_NONE ==> (G_acquired && G_send_ok))
__CPROVER_ensures((iora_exc == EXC_NONE && !G_dropped) ==> (G_reuse_cfg && G_rrc_called && !G_rrc && !G_fr_force_evict && G_fr_mode != BodyMode_CloseDelimited && !G_peer_closed_body && G_async_ok))
__CPROVER_ensures((iora_exc == EXC_NONE && (!G_reuse_cfg || G_rrc || G_fr_force_evict || G_peer_closed_body)) ==> G_dropped)
/* D3 evicted at most once; D4 (asserted inside the transport stubs): no transport call on a dropped or foreign session, receive only after a
 *    successful send, Async only after a completed exchange */
__CPROVER_ensures(G_drop_calls <= 1 && (G_dropped == (G_drop_calls == 1)))
/* D5 nothing is received unless the request was sent */
__CPROVER_ensures(G_recv_calls > 0 ==> G_send_ok)
;

/* ensureInitialized may fail (transport start) before any attempt */
void HttpClient_ensureInitialized_contract(HttpClient *self)
__CPROVER_requires(IORA_TRUE && iora_exc == EXC_NONE)
__CPROVER_assigns(iora_exc)
__CPROVER_ensures(iora_exc == EXC_NONE || iora_exc == EXC_runtime_error)
;

#define RETRY_PRE \
__CPROVER_requires(IORA_TRUE && __CPROVER_is_fresh(self, sizeof(*self)) && __CPROVER_is_fresh(headers, sizeof(*headers)) && __CPROVER_is_fresh(iora_ret, sizeof(*iora_ret))) \
__CPROVER_requires(method.n <= ((size_t)1 << 40) && __CPROVER_is_fresh(method.p, method.n)) \
__CPROVER_requires(iora_exc == EXC_NONE && G_attempts == 0 && G_possibly_sent == 0 && !G_framing_seen && G_attempts_after_framing == 0 && G_attempts_after_sent == 0 && !G_last_ok && G_sleeps == 0 && G_send_calls == 0) \
__CPROVER_requires(G_idem == IDEM(method)) \
/* stated bound on the retry budget (see RETRIES_MAX) */ \
__CPROVER_requires(retries <= RETRIES_MAX) \
__CPROVER_assigns(iora_exc, iora_exc_caught, G_attempts, G_possibly_sent, G_framing_seen, G_attempts_after_framing, G_attempts_after_sent, G_last_ok, G_sleeps, G_locks, *iora_ret, EXEC_ATTEMPT_GHOSTS)

/* proof "retry_safety": built-in checks (incl. signed overflow / shift of the back-off), frame, invariant, variant */
void HttpClient_performRequest_safety(HttpClient *self, iora_sv method, iora_sv url, iora_sv body, const iora_hdrs *headers, int retries, Response *iora_ret)
RETRY_PRE
/* R2 */ __CPROVER_ensures(G_attempts <= (retries < 0 ? 0 : retries) + 1)
;

/* proof "retry_functional" */
void HttpClient_performRequest_contract(HttpClient *self, iora_sv method, iora_sv url, iora_sv body, const iora_hdrs *headers, int retries, Response *iora_ret)
RETRY_PRE
/* R1  a non-idempotent request possibly reaches the wire in at most one attempt ... */
__CPROVER_ensures(!G_idem ==> G_possibly_sent <= 1)
/* R1w ... measured at the send stub: the request of a non-idempotent method is handed to the transport in at most one attempt */
__CPROVER_ensures(!G_idem ==> G_send_calls <= 1)
/* R1b ... and no attempt is started after one that possibly reached the wire */
__CPROVER_ensures(!G_idem ==> G_attempts_after_sent == 0)
/* R2  at most budget+1 attempts, whatever the method (a negative budget counts as 0) */
__CPROVER_ensures(G_attempts <= (retries < 0 ? 0 : retries) + 1)
/* R3  a framing error is never followed by another attempt */
__CPROVER_ensures(G_attempts_after_framing == 0)
/* R4  a normal return hands out the response of the last attempt; a failure is reported as an exception, never swallowed */
__CPROVER_ensures((iora_exc == EXC_NONE) == G_last_ok)
__CPROVER_ensures(G_framing_seen ==> iora_exc == EXC_HttpFramingError)
/* R5  (documented behaviour, beyond the safety property) the budget is used: a retry-eligible failure is retried until the budget is spent,
 *     with one back-off sleep between consecutive attempts */
__CPROVER_ensures((iora_exc == EXC_runtime_error && G_idem && G_attempts > 0) ==> G_attempts == (retries < 0 ? 0 : retries) + 1)
__CPROVER_ensures((iora_exc == EXC_HttpRequestNotSentError) ==> G_attempts == (retries < 0 ? 0 : retries) + 1)
__CPROVER_ensures(G_attempts > 0 ==> G_sleeps == G_attempts - 1)
;

void h_retry(void)
{
  HttpClient *c; iora_sv m, u, b; const iora_hdrs *h; int retries; Response *r;
  HttpClient_performRequest(c, m, u, b, h, retries, r);
  IORA_CANARY("h_retry: returns");
  if (iora_exc == EXC_NONE) { IORA_CANARY("h_retry: response"); }
  if (iora_exc == EXC_HttpFramingError) { IORA_CANARY("h_retry: framing error propagated"); }
  if (iora_exc == EXC_HttpRequestNotSentError && G_attempts > 1) { IORA_CANARY("h_retry: not-sent retried then failed"); }
  if (iora_exc == EXC_runtime_error && G_attempts > 1) { IORA_CANARY("h_retry: idempotent retried then failed"); }
  if (iora_exc == EXC_runtime_error && G_attempts == 0) { IORA_CANARY("h_retry: initialisation failed"); }
}

#ifdef IORA_SEARCH
/* SEARCH: concrete 8-byte method token for REPLAY when M1 fails */
void h_search(void)
{
  uint8_t IN[8]; size_t IN_N = nondet_size_t();
  IORA_NONDET_BYTES(IN, 8);
  __CPROVER_assume(IN_N <= 8);
  IORA_TRUE = 1;
  iora_sv method = { (const char *)IN, IN_N };
  bool got = HttpClient_isIdempotentMethod(method);
  __CPROVER_assert(got == IDEM(method), "M1 classification equals RFC 9110 9.2.2");
}
#endif


/* ------------------------------------------------------------------------------------------------------------------------------
 * environment of executeRequest: arbitrary outcomes, recorded in the per-attempt ghosts */
SessionId HttpClient_acquireConnection(HttpClient *self, ParsedUrl u)
{
  (void)self; (void)u;
  IORA_ASSERT(!G_acquired && !G_presend_entered, "one connection per attempt");
  G_presend_entered = true;
  int o = nondet_int();
  if (o == 1) { iora_exc = EXC_runtime_error; return 0; }        /* connect / DNS failure: the connection (if any) is cleaned up by acquireConnection itself */
  if (o == 2) { iora_exc = EXC_HttpFramingError; G_presend_framing = true; return 0; }     /* "today impossible" - kept to check that the guard does not downgrade it */
  G_acquired = true; G_sid = nondet_u64(); return G_sid;
}
void HttpClient_dropConnection(HttpClient *self, iora_sv hostPort, SessionId sid)
{
  (void)self; (void)hostPort;
  IORA_ASSERT(G_acquired && sid == G_sid, "dropConnection names the session acquired for this attempt");
  IORA_ASSERT(G_drop_calls < 1000, "ghost counter");
  G_drop_calls++; G_dropped = true;
}
/* frameResponse (not extracted here): may consume interim responses while headers are incomplete (data shrinks), afterwards data and
 * bodyStart are stable and bodyStart <= data.size(); forceEvict is only ever set; may throw HttpFramingError */
bool HttpClient_frameResponse(HttpClient *self, iora_sv method, iora_ostr *data, bool *headersDone, size_t *headerScanPos, size_t *bodyStart, Response *resp, Framing *framing, ChunkState *chunkState, bool *forceEvict, size_t effectiveCap)
{
  (void)self; (void)method; (void)effectiveCap;
  if (!*headersDone) {
    size_t n = nondet_size_t(); IORA_ASSUME(n <= data->n); data->n = n;
    *headersDone = nondet_bool();
    if (*headersDone) { size_t b = nondet_size_t(); IORA_ASSUME(b <= data->n); *bodyStart = b; framing->mode = nondet_int(); framing->contentLength = nondet_u64(); }
  }
  *headerScanPos = nondet_size_t(); resp->statusCode = nondet_int(); chunkState->pos = nondet_size_t(); chunkState->messageEnd = nondet_size_t();
  if (nondet_bool()) *forceEvict = true;
  G_fr_force_evict = *forceEvict; G_fr_mode = framing->mode;
  if (nondet_bool()) { iora_exc = EXC_HttpFramingError; return false; }
  bool done = nondet_bool();
  if (done) { IORA_ASSUME(*headersDone && framing->mode != BodyMode_CloseDelimited); }     /* a close-delimited body completes only on PeerClosed (frameResponse returns false) */
  return done;
}
bool HttpClient_responseRequestsClose_env(HttpClient *self, const Response *resp)
{ (void)self; (void)resp; G_rrc_called = true; G_rrc = nondet_bool(); return G_rrc; }

/* SEQUENCING GLUE (hand-written, trusted; guarded by plugin.py which re-checks on every run that the un-extracted regions of
 * executeRequest contain nothing but what is written here): executeRequest = parseUrl(url); hostPort; sendTimeout; acquireLease(hostPort);
 * SessionId sessionId{}; [pre-send block]; request building (ostringstream only); [send+receive block]. */
Response HttpClient_executeRequest(HttpClient *self, iora_sv method, iora_sv url, iora_sv body, iora_hdrs headers)
{
  (void)body; (void)headers;
  Response r = Response_DEFAULT;
  G_presend_entered = false; G_presend_framing = false; G_acquired = false; G_sid = 0; G_dropped = false; G_drop_calls = 0; G_send_ok = false; G_async_ok = false; G_rrc_called = false; G_rrc = false;
  G_fr_force_evict = false; G_fr_mode = BodyMode_CloseDelimited; G_peer_closed_body = false; G_recv_calls = 0;
  G_reuse_cfg = self->_config.reuseConnections;
  bool framing_before = G_framing_seen; int sent_before = G_possibly_sent;
  ParsedUrl parsedUrl; parsedUrl.host = url; parsedUrl.port = nondet_int();
  if (nondet_bool()) iora_exc = EXC_runtime_error;                                  /* parseUrl(url) may throw */
  if (!iora_exc) {
    iora_sv hostPort = url; int64_t sendTimeout = (int64_t)nondet_int();
    if (nondet_bool()) iora_exc = EXC_runtime_error;                                /* acquireLease(hostPort) may throw */
    if (!iora_exc) {
      SessionId sessionId = 0;
      HttpClient_exec_presend(self, parsedUrl, hostPort, &sessionId);
      if (!iora_exc) {
        /* request building */
        HttpClient_exec_exchange(self, method, hostPort, sessionId, sendTimeout, &r);
      }
    }
  }
  /* attempt accounting: the DEFINITIONS of the retry-level ghosts in terms of the outcome */
  G_attempts++;
  G_possibly_sent += (iora_exc == EXC_HttpRequestNotSentError ? 0 : 1);
  G_attempts_after_framing += (framing_before ? 1 : 0);
  G_attempts_after_sent += (sent_before > 0 ? 1 : 0);
  G_framing_seen = framing_before || iora_exc == EXC_HttpFramingError;
  G_last_ok = (iora_exc == EXC_NONE);
  return r;
}
void h_exec(void)
{
  HttpClient *c; iora_sv m, u, b; iora_hdrs h;
  HttpClient_executeRequest(c, m, u, b, h);
  IORA_CANARY("h_exec: returns");
  if (iora_exc == EXC_NONE && !G_dropped) { IORA_CANARY("h_exec: response, connection kept for reuse"); }
  if (iora_exc == EXC_NONE && G_dropped) { IORA_CANARY("h_exec: response, connection dropped"); }
  if (iora_exc == EXC_NONE && G_peer_closed_body) { IORA_CANARY("h_exec: close-delimited body"); }
  if (iora_exc == EXC_HttpRequestNotSentError) { IORA_CANARY("h_exec: not sent"); }
  if (iora_exc == EXC_HttpFramingError && G_send_ok) { IORA_CANARY("h_exec: framing error after send"); }
  if (iora_exc == EXC_HttpFramingError && !G_acquired) { IORA_CANARY("h_exec: framing error from the pre-send region is not downgraded"); }
  if (iora_exc == EXC_runtime_error && G_send_ok) { IORA_CANARY("h_exec: failure after send"); }
}
