/* unit-local shims for http_retry (C17): exception classes, the executeRequest environment contract, backoff environment */
#ifndef RETRY_MODEL_H
#define RETRY_MODEL_H

/* exception classes of http_client.hpp (l.59, l.74): both are DIRECT subclasses of std::runtime_error (trusted: class heads are not extracted) */
#define EXC_HttpFramingError 1
#define EXC_HttpRequestNotSentError 2
#define EXC_runtime_error 3              /* any other std::exception (transport failure, timeout, ...) */
#define EXC_exception 100                /* catch (const std::exception &) matches every class above */
static inline bool iora_isa(int exc, int cls)
{
  if (exc == EXC_NONE) return false;
  if (cls == EXC_exception) return true;
  return exc == cls;
}

/* sv == "lit" for literals of at most 8 characters: loop-free byte comparison (std::string::operator==(const char*)) */
static inline bool iora_sv_eq_lit(iora_sv x, const char *s, size_t len)
{
  IORA_ASSERT(len <= 8, "model: comparison literal of at most 8 characters");
  if (x.n != len) return false;
  bool r = true;
  if (len > 0) r &= (x.p[0] == s[0]);
  if (len > 1) r &= (x.p[1] == s[1]);
  if (len > 2) r &= (x.p[2] == s[2]);
  if (len > 3) r &= (x.p[3] == s[3]);
  if (len > 4) r &= (x.p[4] == s[4]);
  if (len > 5) r &= (x.p[5] == s[5]);
  if (len > 6) r &= (x.p[6] == s[6]);
  if (len > 7) r &= (x.p[7] == s[7]);
  return r;
}
#define IORA_SV_EQ_LIT(x, s) iora_sv_eq_lit((x), (s), sizeof(s) - 1)

/* ---- ghost counters of the retry loop ---- */
int G_attempts;                  /* executeRequest calls */
int G_possibly_sent;             /* attempts that did NOT provably fail before sending a byte (every outcome except NotSent) */
bool G_framing_seen;             /* some attempt ended in HttpFramingError */
int G_attempts_after_framing;    /* attempts started after a framing error was seen */
int G_attempts_after_sent;       /* attempts started after an earlier attempt possibly reached the wire */
bool G_last_ok;                  /* the last attempt returned a response */
int G_sleeps;                    /* sleep_for calls */

/* jitter PRNG / sleep: environment */
typedef struct { int dummy; } iora_rng;
typedef struct { int lo, hi; } iora_dist;
int nondet_int(void);
static inline iora_rng iora_rng_seed(void) { iora_rng r = {0}; return r; }
static inline iora_dist iora_dist_make(int lo, int hi) { iora_dist d = { lo, hi }; return d; }
static inline int iora_dist_draw(iora_dist d) { int v = nondet_int(); IORA_ASSUME(v >= d.lo && v <= d.hi); return v; }   /* uniform_int_distribution(lo,hi): a value in [lo,hi] */
static inline void iora_sleep_ms(int ms) { IORA_ASSERT(ms >= 0, "sleep_for a non-negative duration"); G_sleeps++; }
unsigned G_locks;
#define IORA_LOCK_GUARD(m) (G_locks++)

typedef struct { int dummy; } iora_hdrs;      /* std::map<std::string,std::string>: only passed through */
typedef struct { int statusCode; } Response;  /* only passed through */
#endif
