// REPLAY adapter for unit http_retry: the REAL HttpClient::isIdempotentMethod against the RFC 9110 9.2.2 set (exact, case-sensitive).
// The retry loop itself (performRequest) cannot be driven natively without a peer: executeRequest is a non-virtual private member;
// a failing loop obligation is therefore reported with no-failing-input-found.
#include "iora/network/http_client.hpp"
#include "replay_io.h"
int main(int argc, char **argv) {
  auto in = replay_io::load(argv[1]);
  std::vector<uint8_t> d = replay_io::bytes(in["IN"]);
  if (in.count("IN_N")) d.resize(std::min<size_t>(d.size(), replay_io::u64(in["IN_N"])));
  std::string m(d.begin(), d.end());
  bool got = iora::network::HttpClient::isIdempotentMethod(m);
  static const char *rfc[] = {"GET", "HEAD", "OPTIONS", "TRACE", "PUT", "DELETE"};   // safe methods + PUT + DELETE
  bool want = false; for (auto r : rfc) if (m == r) want = true;
  if (got != want) replay_io::fail("isIdempotentMethod(\"" + m + "\") returned " + (got ? "true" : "false") + ", RFC 9110 9.2.2 says " + (want ? "idempotent" : "not idempotent"));
  replay_io::ok("classification equals RFC 9110 9.2.2 on this method token");
  return 0;
}
