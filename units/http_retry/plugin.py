"""Unit-local extraction guard for http_retry.

HttpClient::executeRequest is brought under contract as two block targets (pre-send region, send+receive region) joined by a
hand-written sequencing glue (post.c). The text BETWEEN the two blocks (request building with std::ostringstream) and the text BEFORE
the first block (parseUrl, sendTimeout, acquireLease, `SessionId sessionId{}`) are not extracted. This guard re-reads the real header
on every run and makes the run undecided (extraction break) when those regions contain anything the glue does not account for:
a transport call, dropConnection, a throw, a return, a try/catch, or a write to sessionId.
"""
import os
from vt import x2c
from vt.lexer import lex, text_of


def _find(body, seq, start=0):
    n = len(seq)
    for i in range(start, len(body) - n + 1):
        if all(body[i + k].text == seq[k].text for k in range(n)):
            return i
    return -1


def hook_begin(tokens, rw):
    if rw.fn.get('cname') != 'HttpClient_exec_exchange':
        return None
    from vt import pipeline
    path = os.path.join(pipeline.REPO, rw.fn.get('file', rw.unit['file']))
    toks = lex(open(path, encoding='utf-8', errors='replace').read())
    i_name, lp, rp, lb, rb = x2c.find_function(toks, 'executeRequest', 'HttpClient')
    body = toks[lb + 1:rb]
    fa = [f for f in rw.unit['functions'] if f.get('cname') == 'HttpClient_exec_presend'][0]
    a0 = _find(body, lex(fa['block']['first']))
    a1 = _find(body, lex(fa['block']['last']), a0)
    b0 = _find(body, lex(rw.fn['block']['first']))
    b1 = _find(body, lex(rw.fn['block']['last']), b0)
    if min(a0, a1, b0, b1) < 0 or not (a0 < a1 < b0 < b1):
        raise x2c.ExtractionBreak("executeRequest: block anchors not found in the expected order")
    a1 += len(lex(fa['block']['last']))
    b1 += len(lex(rw.fn['block']['last']))
    head, gap, tail = body[:a0], body[a1:b0], body[b1:]
    forbidden = {'_transport', 'sendSync', 'receiveSync', 'setReadMode', 'dropConnection', 'throw', 'return', 'try', 'catch', 'goto', 'acquireConnection'}
    for name, region, extra in (('before the pre-send block', head, set()), ('between the two blocks (request building)', gap, {'sessionId', 'acquireLease', 'parseUrl'})):
        bad = sorted({t.text for t in region if t.kind == 'id' and t.text in (forbidden | extra)})
        if bad:
            raise x2c.ExtractionBreak(f"executeRequest: region {name} is not under contract and now contains {bad}; the sequencing glue in post.c no longer describes it")
    # the head must be exactly: parseUrl, getHostPort, requestTimeout, acquireLease, `SessionId sessionId{}` (order checked loosely by presence)
    htxt = text_of(head)
    for need in ('parseUrl ( url )', 'acquireLease ( hostPort )', 'SessionId sessionId { }'):
        if need not in htxt:
            raise x2c.ExtractionBreak(f"executeRequest: expected `{need}` before the pre-send block")
    if tail:
        raise x2c.ExtractionBreak("executeRequest: statements after the send+receive block are not under contract: " + text_of(tail)[:80])
    rw.R.notes.append({"executeRequest regions not extracted (guarded by plugin.py)": {"head": text_of(head)[:400], "gap_tokens": len(gap)}})
    return None
