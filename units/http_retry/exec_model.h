/* Environment of HttpClient::executeRequest for unit http_retry (C17, send boundary): the transport and the HttpClient helpers are
 * recording stubs with ARBITRARY outcomes. Ghost state is per attempt (reset by the sequencing glue at the start of an attempt). */
#ifndef EXEC_MODEL_H
#define EXEC_MODEL_H
bool nondet_bool(void); int nondet_int(void); size_t nondet_size_t(void); uint64_t nondet_u64(void);

typedef uint64_t SessionId;
typedef struct { bool ok; int code; } iora_res;                 /* Result<T, TransportErrorInfo> / IoResult: ok flag + error code (message dropped, R20) */
typedef struct { int code; } iora_reserr;
static inline bool iora_res_isOk(const iora_res *r) { return r->ok; }
static inline bool iora_res_isErr(const iora_res *r) { return !r->ok; }
static inline const iora_reserr *iora_res_error(const iora_res *r) { IORA_ASSERT(!r->ok, "Result::error() on an error result"); return (const iora_reserr *)&r->code; }

/* ---- per-attempt ghosts ---- */
bool G_presend_entered;     /* the pre-send region was entered (acquireConnection called) */
bool G_presend_framing;     /* acquireConnection failed with an HttpFramingError */
bool G_acquired;            /* acquireConnection returned a session for this attempt */
SessionId G_sid;            /* ... this one */
int G_send_calls;           /* sendSync calls (whole run of performRequest; the glue snapshots it per attempt) */
int G_recv_calls;
int G_drop_calls;           /* dropConnection calls in this attempt */
bool G_dropped;             /* the connection of this attempt was evicted (dropConnection(hostPort, sid)) */
bool G_send_ok;             /* sendSync succeeded */
bool G_async_ok;            /* setReadMode(Async) succeeded at the end: the connection stays cached for reuse */
bool G_rrc_called, G_rrc;   /* responseRequestsClose(resp) was consulted / its answer */
bool G_fr_force_evict;      /* forceEvict as last left by frameResponse */
int G_fr_mode;              /* framing.mode as last left by frameResponse */
bool G_peer_closed_body;    /* close-delimited body ended by PeerClosed */
bool G_reuse_cfg;           /* _config.reuseConnections (snapshot) */

typedef struct { int dummy; } iora_transport;
#define EXEC_LIVE(sid) IORA_ASSERT(G_acquired && (sid) == G_sid && !G_dropped, "transport call on the session acquired for this attempt, not after it was dropped")
static inline bool iora_transport_setReadMode(iora_transport *t, SessionId sid, int mode)
{ (void)t; EXEC_LIVE(sid); bool r = nondet_bool(); if (mode == ReadMode_Async) { IORA_ASSERT(G_send_ok, "switched back to Async only after a completed exchange"); G_async_ok = r; } return r; }
typedef struct { int dummy; } iora_reqview;
#define IORA_REQ_VIEW(...) ((iora_reqview){0})
static inline iora_res iora_transport_sendSync(iora_transport *t, SessionId sid, iora_reqview v, int64_t timeout)
{ (void)t; (void)v; (void)timeout; EXEC_LIVE(sid); IORA_ASSERT(G_send_calls < 100000, "ghost counter"); G_send_calls++; iora_res r; r.ok = nondet_bool(); r.code = nondet_int(); G_send_ok = r.ok; return r; }
/* receiveSync: ok(k) with 1 <= k <= len (proved for the real Transport::receiveSync in unit sync_receive, clause D1), or an error and len untouched (D2c) */
static inline iora_res iora_transport_receiveSync(iora_transport *t, SessionId sid, char *buf, size_t *len, int64_t timeout)
{ (void)t; (void)buf; (void)timeout; EXEC_LIVE(sid); IORA_ASSERT(G_send_ok, "receive only after the request was sent"); IORA_ASSERT(*len > 0, "non-empty caller buffer"); if (G_recv_calls < 99999) G_recv_calls++;
  iora_res r; r.ok = nondet_bool(); r.code = nondet_int();
  if (r.ok) { size_t k = nondet_size_t(); IORA_ASSUME(k >= 1 && k <= *len); *len = k; }
  return r; }

typedef struct { iora_sv host; int port; } ParsedUrl;

/* ---- HttpClient helpers that are not extracted: arbitrary outcomes ---- */
typedef struct { int mode; uint64_t contentLength; } Framing;
#define Framing_DEFAULT ((Framing){ BodyMode_CloseDelimited, 0 })
typedef struct { size_t pos; size_t messageEnd; } ChunkState;
#define ChunkState_DEFAULT ((ChunkState){ 0, 0 })
#define Response_DEFAULT ((Response){ 0 })
typedef struct { size_t requestTimeout; size_t maxResponseBytes; struct { size_t maxPayloadSize; } jsonConfig; bool reuseConnections; } HttpConfig;
struct HttpClient_s;
static inline void iora_ostr_append_len(iora_ostr *v, const char *p, size_t len) { (void)p; IORA_ASSERT(len <= (size_t)-1 - v->n, "string growth"); v->n += len; }
static inline void iora_resp_set_body(Response *r, const iora_ostr *d, size_t from) { (void)r; IORA_ASSERT(from <= d->n, "substr: pos <= size()"); G_peer_closed_body = true; }   /* only use: close-delimited body ended by PeerClosed */
#endif
