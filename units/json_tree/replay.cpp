// REPLAY adapter for unit json_tree: the REAL Json::parse on the given bytes (exact-size heap block, ASan/UBSan build):
// must terminate, must not read outside the text, and a reported error offset must lie inside the input.
#include "iora/parsers/json.hpp"
#include "replay_io.h"
#include <cstring>
using namespace iora::parsers;
int main(int argc, char **argv) {
  auto in = replay_io::load(argv[1]);
  std::vector<uint8_t> d = replay_io::bytes(in["IN"]);
  size_t n = in.count("IN_N") ? replay_io::u64(in["IN_N"]) : d.size();
  d.resize(n, 0);
  char *buf = (char *)malloc(n); if (n) memcpy(buf, d.data(), n);
  ParseLimits lim; if (in.count("DEPTH_MAX")) lim.depthMax = replay_io::u64(in["DEPTH_MAX"]);
  if (in.count("ITEMS_MAX")) lim.arrayItemsMax = replay_io::u64(in["ITEMS_MAX"]);
  if (in.count("MEMBERS_MAX")) lim.membersMax = replay_io::u64(in["MEMBERS_MAX"]);
  ParseResult r = Json::parse(std::string_view(buf, n), lim);
  if (!r.ok && r.error.where.offset > n) replay_io::fail("T1 reported error offset " + std::to_string(r.error.where.offset) + " outside the " + std::to_string(n) + "-byte input");
  if (!r.ok && r.error.message.empty()) replay_io::fail("T3 failure without error message");
  free(buf);
  // duplicate member names: the reference decoder (and RFC 8259 practice) keeps the LAST occurrence; fixed scenarios, independent of IN
  { const char *docs[] = { "{\"a\":1,\"a\":2}", "{\"a\\/b\":1,\"a/b\":2}", "{\"k\":[1],\"x\":0,\"k\":{\"k\":3,\"k\":4}}" };
    for (const char *doc : docs) { ParseResult d2 = Json::parse(std::string_view(doc), ParseLimits{});
      if (!d2.ok || !d2.value.isObject()) replay_io::fail(std::string("valid object text rejected: ") + doc); }
    ParseResult a = Json::parse(std::string_view(docs[0]), ParseLimits{});
    if (!(a.value["a"] == 2)) replay_io::fail("duplicate key: {\"a\":1,\"a\":2} must decode a -> 2 (last wins), got " + a.value["a"].dump());
    ParseResult b = Json::parse(std::string_view(docs[1]), ParseLimits{});
    if (!(b.value["a/b"] == 2)) replay_io::fail("duplicate key spelled with an escape: a\\/b then a/b must decode to 2 (last wins), got " + b.value["a/b"].dump());
    ParseResult c = Json::parse(std::string_view(docs[2]), ParseLimits{});
    if (!c.value["k"].isObject() || !(c.value["k"]["k"] == 4)) replay_io::fail("nested duplicate keys: last wins on both levels"); }
  replay_io::ok("contract clauses hold on this input");
  return 0;
}
