/* Contract of the recursive descent JsonParser::_parseValue (with _parseArray/_parseObject inlined; mutual recursion closed by
 * --enforce-contract-rec: the recursive calls of _parseValue are replaced by this very contract).
 * From property C13: "for arbitrary input bytes parsing terminates within its limits without undefined behaviour and reports an
 * error position inside the input".                                                                                              */
#define N (self->_text.n)
#define POS (self->_pos)
#define OLDPOS (__CPROVER_old(self->_pos))
#define RET __CPROVER_return_value

/* ---- contracts of the callees, proved in units json_scan / json_string; projections used here in place of the bodies ---- */
void JsonParser_skipWhitespace_assumed(JsonParser *self)
JSON_PRE(self)
__CPROVER_requires(POS <= N)
__CPROVER_assigns(self->_pos)
/* W1 */ __CPROVER_ensures(OLDPOS <= POS && POS <= N)
;
bool JsonParser_parseLiteral_assumed(JsonParser *self, Json *out)          /* _parseNull and _parseBool */
JSON_PRE(self) JSON_FRESH(out)
__CPROVER_requires(POS <= N)
__CPROVER_assigns(self->_pos, self->_error, *out)
/* L2/B2/B3 */ __CPROVER_ensures(RET ==> (POS >= OLDPOS + 4 && POS <= N))
/* L3/B4 */    __CPROVER_ensures(!RET ==> (POS == OLDPOS && self->_error != NULL))
;
bool JsonParser_parseNumber_assumed(JsonParser *self, Json *out)
JSON_PRE(self) JSON_FRESH(out)
__CPROVER_requires(POS < N)
__CPROVER_assigns(self->_pos, self->_error, *out)
/* N1 */ __CPROVER_ensures(OLDPOS <= POS && POS <= N)
/* N2 */ __CPROVER_ensures(RET ==> POS > OLDPOS)
/* N3 */ __CPROVER_ensures(!RET ==> self->_error != NULL)
;
bool JsonParser_parseString_assumed(JsonParser *self, Json *out)
JSON_PRE(self) JSON_FRESH(out)
__CPROVER_requires(POS <= N)
__CPROVER_assigns(self->_pos, self->_error, *out)
/* P1 */ __CPROVER_ensures(OLDPOS <= POS && POS <= N)
/* P2 */ __CPROVER_ensures(RET ==> (POS >= OLDPOS + 2 && out->type == JsonType_String))
/* P5 */ __CPROVER_ensures(!RET ==> self->_error != NULL)
;

/* ---- the contract under proof ---- */
bool JsonParser_parseValue_contract(JsonParser *self, Json *out, size_t depth)
JSON_PRE(self) JSON_FRESH(out)
__CPROVER_requires(POS <= N)
__CPROVER_requires(self->_limits.depthMax < (size_t)-1)
/* T0 nesting depth at every entry (checked at every recursive call site): at most depthMax + 1 => recursion depth is bounded */
__CPROVER_requires(depth <= self->_limits.depthMax + 1)
__CPROVER_requires(GJ_items_max == self->_limits.arrayItemsMax && GJ_members_max == self->_limits.membersMax)
__CPROVER_assigns(self->_pos, self->_error, *out)
/* T1 cursor monotone and inside the text, also on failure (error position inside the input) */ __CPROVER_ensures(OLDPOS <= POS && POS <= N)
/* T2 success consumes input */                                                              __CPROVER_ensures(RET ==> POS > OLDPOS)
/* T3 failure sets the error */                                                              __CPROVER_ensures(!RET ==> self->_error != NULL)
/* T4 nesting beyond the limit is refused */                                                 __CPROVER_ensures(depth > self->_limits.depthMax ==> !RET)
;
void h_value(void)
{
  JsonParser *s; Json *o; size_t depth;
  bool ok = JsonParser_parseValue(s, o, depth);
  if (ok) { IORA_CANARY("h_value: accepted"); } else { IORA_CANARY("h_value: rejected"); }
}
