/* Differential run, C side: the EXTRACTED JsonParser::_parseValue / _parseArray / _parseObject, compiled natively; the leaf parsers
 * (contract-replaced in this unit's proofs) are the extracted texts of units json_scan and json_string, linked in ("link_units").
 * Whole documents from offset 0, depth 0. Tree contents are abstracted in this unit (containers are counts), so compared are:
 * accept/reject, cursor, error message text, and the type of the top-level value. The object member count is an upper bound natively
 * (every key counts as new), so membersMax stays at its default and is not exercised; arrayItemsMax and depthMax are. */
#include "unit_native.c"
#include "diff_io.h"
int main(int argc, char **argv)
{
  FILE *f = fopen(argv[1], "r"); diff_input in;
  IORA_TRUE = 1; GK = (size_t)-1;
  while (diff_next(f, &in)) {
    JsonParser p; Json o = Json_DEFAULT;
    p._text.p = (const char *)in.bytes; p._text.n = in.n; p._pos = 0; p._error = NULL;
    p._limits = (ParseLimits){ (size_t)diff_param(&in, "items_max", 10000), 10000, (size_t)diff_param(&in, "depth_max", 100), 1000000 };
    GJ_items_max = p._limits.arrayItemsMax; GJ_members_max = p._limits.membersMax;
    bool r = JsonParser_parseValue(&p, &o, 0);
    printf("val ret=%d pos=%zu err=\"%s\" type=%d\n", r, p._pos, p._error ? p._error : "-", r ? (int)o.type : -1); fflush(stdout); diff_free(&in);
  }
  return 0;
}
