/* unit json_tree: recursion structure of _parseValue/_parseArray/_parseObject. Tree contents are abstracted: containers are counts. */
size_t GJ_items_max, GJ_members_max;    /* ghosts bound by the contract to _limits.arrayItemsMax / _limits.membersMax */
typedef struct { size_t n; } iora_jarr;  /* Json::Array (SmallVec<Json>) */
#define iora_jarr_DEFAULT ((iora_jarr){0})
static inline size_t iora_jarr_size(const iora_jarr *a) { return a->n; }
static inline void iora_jarr_push_back(iora_jarr *a, Json v)
{
  (void)v;
  IORA_ASSERT(a->n < GJ_items_max, "array item limit checked before insertion");
  a->n++;
}
typedef struct { size_t n; } iora_jobj;  /* Json::Object (map): obj[key] = v inserts a new member or overwrites a duplicate key */
#define iora_jobj_DEFAULT ((iora_jobj){0})
static inline size_t iora_jobj_size(const iora_jobj *o) { return o->n; }
static inline void iora_jobj_set(iora_jobj *o, Json key, Json v)
{
  (void)v;
  IORA_ASSERT(key.type == JsonType_String, "getString() on a string value (std::get would throw otherwise)");
  IORA_ASSERT(o->n < GJ_members_max, "object member limit checked before insertion");
  if (nondet_bool()) o->n++;             /* new key; otherwise a duplicate key overwrites */
}
#define Json_array(a) ((Json){ .type = JsonType_Array, .b = false, .i = 0, .d = 0.0, .s = {0, 0} })
#define Json_object(o) ((Json){ .type = JsonType_Object, .b = false, .i = 0, .d = 0.0, .s = {0, 0} })
/* recursion measure depthMax + 1 - depth: strictly decreasing at every recursive call (no function-level decreases clause in CBMC) */
#define IORA_REC_MEASURE(callee_depth, caller_depth) IORA_ASSERT((callee_depth) > (caller_depth) && (callee_depth) <= self->_limits.depthMax + 1, \
  "recursion measure depthMax + 1 - depth decreases and stays non-negative at the recursive call")

/* callees proved in other units: declared only, replaced by their contracts (post.c) */
void JsonParser_skipWhitespace(JsonParser *self);
bool JsonParser_parseNull(JsonParser *self, Json *out);
bool JsonParser_parseBool(JsonParser *self, Json *out);
bool JsonParser_parseNumber(JsonParser *self, Json *out);
bool JsonParser_parseString(JsonParser *self, Json *out);

/* element loop of _parseArray / member loop of _parseObject (`while (true)`): cursor monotone inside the text, the container never
 * exceeds its limit; every completed iteration consumes input (a value and a separator) */
#define IORA_LOOP_JsonParser_parseArray_1 IORA_LC( \
  __CPROVER_assigns(self->_pos, self->_error, arr.n) \
  __CPROVER_loop_invariant(__CPROVER_loop_entry(self->_pos) <= self->_pos && self->_pos <= self->_text.n) \
  __CPROVER_loop_invariant(arr.n <= GJ_items_max) \
  __CPROVER_decreases(self->_text.n - self->_pos))
#define IORA_LOOP_JsonParser_parseObject_1 IORA_LC( \
  __CPROVER_assigns(self->_pos, self->_error, obj.n) \
  __CPROVER_loop_invariant(__CPROVER_loop_entry(self->_pos) <= self->_pos && self->_pos <= self->_text.n) \
  __CPROVER_loop_invariant(obj.n <= GJ_members_max) \
  __CPROVER_decreases(self->_text.n - self->_pos))
