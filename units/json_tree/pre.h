/* unit json_tree: recursion structure of _parseValue/_parseArray/_parseObject. Tree contents are abstracted: containers are counts. */
size_t GJ_items_max, GJ_members_max;    /* ghosts bound by the contract to _limits.arrayItemsMax / _limits.membersMax */
typedef struct { size_t n; } iora_jarr;  /* Json::Array (SmallVec<Json>) */
#define iora_jarr_DEFAULT ((iora_jarr){0})
static inline size_t iora_jarr_size(const iora_jarr *a) { return a->n; }
static inline void iora_jarr_push_back(iora_jarr *a, Json v)
{
  (void)v;
  IORA_ASSERT(a->n < GJ_items_max, "array item limit checked before insertion");
  a->n++;
}
/* Json::Object (std::unordered_map<std::string, Json>) as a WITNESS-KEY map: member count + presence/value of ONE arbitrary ghost key.
 * - Which parsed member names equal the witness key is decided by bit 0 of the opaque payload the _parseString stub leaves in the
 *   key value: every sequence of flags is realised by some input text, so what is proved for all flag sequences holds for every key.
 * - The identity of a member value is the cursor position right after it was parsed (strictly increasing from member to member).
 * - model part  (has, val_id): what the library operation does -- operator[] + assignment inserts or OVERWRITES, emplace inserts only
 *   if ABSENT;   spec part (spec_has, spec_last): the reference decoder (Python json, RFC 8259 4 "last wins" practice): the value of
 *   the LAST occurrence.  After every insertion the two must agree (ghost check), and they agree when the object is returned.        */
typedef struct { size_t n; size_t has; size_t val_id; size_t spec_has; size_t spec_last; } iora_jobj;
#define iora_jobj_DEFAULT ((iora_jobj){0, 0, 0, 0, 0})
#define JSON_KEY_IS_WITNESS(k) (((k).i & 1) != 0)
#define JOBJ_AGREES(o) ((o).has <= 1 && (o).has == (o).spec_has && ((o).has == 0 || (o).val_id == (o).spec_last))
static inline size_t iora_jobj_size(const iora_jobj *o) { return o->n; }
static inline void iora_jobj_pre(iora_jobj *o, Json key, size_t id)
{
  IORA_ASSERT(key.type == JsonType_String, "getString() on a string value (std::get would throw otherwise)");
  IORA_ASSERT(o->n < GJ_members_max, "object member limit checked before insertion");
  if (JSON_KEY_IS_WITNESS(key)) { o->spec_has = 1; o->spec_last = id; }        /* reference decoder: last occurrence wins */
}
static inline void iora_jobj_post(const iora_jobj *o)
{
  IORA_ASSERT(JOBJ_AGREES(*o), "duplicate member names: the object maps the witness key to the value of its LAST occurrence (reference decoder: last wins)");
}
/* obj[key] = value */
static inline void iora_jobj_set(iora_jobj *o, Json key, Json v, size_t id)
{
  (void)v;
  iora_jobj_pre(o, key, id);
  if (JSON_KEY_IS_WITNESS(key)) { if (o->has == 0) o->n++; o->has = 1; o->val_id = id; }
#ifdef IORA_NATIVE
  else o->n++;                              /* differential run: every other key counts as new (an upper bound; the member limit is not exercised there) */
#else
  else if (nondet_bool()) o->n++;          /* some other key: new, or a duplicate that is overwritten */
#endif
  iora_jobj_post(o);
}
/* obj.emplace(key, value): no effect when the key is present */
static inline void iora_jobj_emplace(iora_jobj *o, Json key, Json v, size_t id)
{
  (void)v;
  iora_jobj_pre(o, key, id);
  if (JSON_KEY_IS_WITNESS(key)) { if (o->has == 0) { o->n++; o->has = 1; o->val_id = id; } }
#ifdef IORA_NATIVE
  else o->n++;
#else
  else if (nondet_bool()) o->n++;
#endif
  iora_jobj_post(o);
}
static inline Json Json_object(iora_jobj o)
{
  IORA_ASSERT(JOBJ_AGREES(o), "the object returned maps the witness key to the value of its LAST occurrence (reference decoder: last wins)");
  return (Json){ .type = JsonType_Object, .b = o.has != 0, .i = (int64_t)o.val_id, .d = 0.0, .s = {0, 0} };
}
#define Json_array(a) ((Json){ .type = JsonType_Array, .b = false, .i = 0, .d = 0.0, .s = {0, 0} })
/* recursion measure depthMax + 1 - depth: strictly decreasing at every recursive call (no function-level decreases clause in CBMC) */
#ifdef IORA_NATIVE   /* used inside a comma expression: must be an expression natively too */
#define IORA_REC_MEASURE(callee_depth, caller_depth) ((void)(((callee_depth) > (caller_depth) && (callee_depth) <= self->_limits.depthMax + 1) ? 0 : (abort(), 0)))
#else
#define IORA_REC_MEASURE(callee_depth, caller_depth) IORA_ASSERT((callee_depth) > (caller_depth) && (callee_depth) <= self->_limits.depthMax + 1, \
  "recursion measure depthMax + 1 - depth decreases and stays non-negative at the recursive call")
#endif

/* callees proved in other units: declared only, replaced by their contracts (post.c) */
void JsonParser_skipWhitespace(JsonParser *self);
bool JsonParser_parseNull(JsonParser *self, Json *out);
bool JsonParser_parseBool(JsonParser *self, Json *out);
bool JsonParser_parseNumber(JsonParser *self, Json *out);
bool JsonParser_parseString(JsonParser *self, Json *out);

/* element loop of _parseArray / member loop of _parseObject (`while (true)`): cursor monotone inside the text, the container never
 * exceeds its limit; every completed iteration consumes input (a value and a separator) */
#define IORA_LOOP_JsonParser_parseArray_1 IORA_LC( \
  __CPROVER_assigns(self->_pos, self->_error, arr.n) \
  __CPROVER_loop_invariant(__CPROVER_loop_entry(self->_pos) <= self->_pos && self->_pos <= self->_text.n) \
  __CPROVER_loop_invariant(arr.n <= GJ_items_max) \
  __CPROVER_decreases(self->_text.n - self->_pos))
#define IORA_LOOP_JsonParser_parseObject_1 IORA_LC( \
  __CPROVER_assigns(self->_pos, self->_error, obj) \
  __CPROVER_loop_invariant(__CPROVER_loop_entry(self->_pos) <= self->_pos && self->_pos <= self->_text.n) \
  __CPROVER_loop_invariant(obj.n <= GJ_members_max) \
  __CPROVER_loop_invariant(JOBJ_AGREES(obj)) \
  __CPROVER_decreases(self->_text.n - self->_pos))
