// Differential run, C++ side: the REAL JsonParser::_parseValue on whole documents.
#include "iora/parsers/json.hpp"
#include "diff_io.h"
using namespace iora::parsers;
int main(int argc, char **argv)
{
  FILE *f = fopen(argv[1], "r"); diff_input in;
  while (diff_next(f, &in)) {
    ParseLimits lim; lim.arrayItemsMax = (size_t)diff_param(&in, "items_max", 10000); lim.depthMax = (size_t)diff_param(&in, "depth_max", 100);
    JsonParser p(std::string_view((const char *)in.bytes, in.n), lim); Json o;
    bool r = p._parseValue(o, 0);
    printf("val ret=%d pos=%zu err=\"%s\" type=%d\n", r, p._pos, p._error.empty() ? "-" : p._error.c_str(), r ? (int)o.type() : -1); fflush(stdout); diff_free(&in);
  }
  return 0;
}
