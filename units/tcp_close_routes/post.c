/* ===================== (a) shutdownDrain, whole function, BOUNDED stand-in (<= 3 sessions, <= 1 listener, <= 2 queued commands) =====================
 * Clauses from the text of property C02 for an ORDERLY STOP:
 *  SD-A  every session still open in the table gets its close notification exactly once (witness id)            "exactly one close notification"
 *  SD-A0 an id that is neither an open session nor a queued connect gets none
 *  SD-B  the table is empty afterwards, every session object destroyed
 *  SD-C  the gauge of open sessions returns to zero; closed grows by the number of sessions closed              "gauge ... returns to zero"
 *  SD-D  the fd of every closed session is deregistered and closed exactly once, deregistered first (witness fd)
 *  SD-1  no fd tag outlives the session (or listener) it points to: _fdTags is empty at exit. The engine can be start()ed again; a tag
 *        left behind routes the events of a later connection that reuses the fd number to a destroyed Session
 *        ("data events for an identifier occur only between its accept/connect callback and its close")
 *  SD-2  a Connect command still in the queue when the queue is closed carries an id the application already holds (connect() returned it):
 *        it gets its close notification exactly once                                                            "never none ... stopped in an orderly way"
 *  SD-E  the queue is closed and empty, the engine's fds are closed, every mutex released, pending listener promises are failed */
#ifndef SD_WITNESS
static size_t count_open(const TcpEngine *e) { size_t k = 0; for (size_t i = 0; i < IORA_NS; i++) if (i < e->_sessions.n && !e->_sessions.v[i]->closed) k++; return k; }


/* expectations computed from the pre-state + the clauses (shared by the bounded proof and the SEARCH harness) */
typedef struct { bool cb, wsid_open, wsid_is_queued_connect, wfd_open; size_t open0, ssl_open, nc; uint64_t closed0; } sd_expect;
static void sd_post(TcpEngine *self, const sd_expect *xp, const iora_promise *P)
{
  sd_expect x = *xp;
  /* a session that the final process() created (queued Connect executed) is one more open session with a fresh id / fd */
  if (G_proc_inserted) { x.open0 += 1; if (G_proc_sid == G_WSID) x.wsid_open = 1; if (G_proc_fd == G_WFD) x.wfd_open = 1; IORA_CANARY("shutdownDrain: process() executed a queued connect"); }
  __CPROVER_assert(G_proc_calls == 1, "SD-O the command queue is drained exactly once");
  if (x.wsid_open) { __CPROVER_assert(G_cbw_calls == (x.cb ? 1u : 0u), "SD-A an open session gets its close notification exactly once"); IORA_CANARY("shutdownDrain: witness id is an open session"); }
  if (x.wsid_is_queued_connect) { __CPROVER_assert(G_cbw_calls == (x.cb ? 1u : 0u), "SD-2 a connect still queued when the queue is closed gets its close notification (the application holds that id)"); IORA_CANARY("shutdownDrain: witness id is a queued connect"); }
  if (!x.wsid_open && !x.wsid_is_queued_connect) __CPROVER_assert(G_cbw_calls == 0, "SD-A0 no close notification for an id that is neither an open session nor a queued connect");
  __CPROVER_assert(self->_sessions.n == 0, "SD-B the session table is empty");
  __CPROVER_assert(self->_atomicStats.sessionsCurrent == 0, "SD-C the gauge of open sessions returns to zero");
  __CPROVER_assert(self->_atomicStats.closed == x.closed0 + x.open0, "SD-C closed grows by the number of sessions closed");
  if (x.wfd_open) __CPROVER_assert(G_wfd_close_calls == 1 && G_wfd_del_calls == 1 && G_wfd_del_seq <= G_wfd_close_seq, "SD-D the fd of a closed session is deregistered and closed exactly once, deregistered first");
  __CPROVER_assert(G_sslshut_calls == x.ssl_open && G_sslfree_calls == x.ssl_open, "SD-D SSL_shutdown / SSL_free exactly once per TLS session");
  __CPROVER_assert(self->_fdTags.n == 0, "SD-1 no fd tag outlives the session or listener it points to (_fdTags empty at exit; the engine can be started again)");
  __CPROVER_assert(self->_cmdsClosed && self->_cmds.n == 0 && self->_listeners.n == 0 && self->_epollFd == -1 && self->_eventFd == -1 && self->_timerFd == -1, "SD-E queue closed and empty, listeners gone, engine fds closed");
  __CPROVER_assert(!self->_cbMutex.held && !self->_sessionRwMutex.held && !self->_cmdMutex.held, "SD-E every mutex released");
  for (size_t i = 0; i < IORA_NC; i++) if (i < x.nc && P[i].set_calls != 0) __CPROVER_assert(P[i].set_calls == 1 && !P[i].value, "SD-E a pending listener promise is failed exactly once");
}

void h_shutdownDrain(void)
{
  TcpEngine E; TcpEngine *self = &E;
  IORA_TRUE = 1;
  /* ghosts */
  G_seq = 0; G_cb_calls = 0; G_cbw_calls = 0; G_cbw_in_table = 0; G_wfd_close_calls = 0; G_wfd_del_calls = 0; G_wfd_close_seq = 0; G_wfd_del_seq = 0; G_promise_sets = 0;
  G_fdclose_calls = 0; G_sslshut_calls = 0; G_sslfree_calls = 0; G_ep_dels = 0; G_ep_mods = 0; G_errno = nondet_int();
  G_WSID = nondet_u64(); G_WFD = nondet_int();
  G_sd_cleared = 0; G_proc_calls = 0; G_proc_inserted = 0; IORA_PROC_MAY_INSERT = 1; G_proc_sid = nondet_u64(); G_proc_fd = nondet_int(); __CPROVER_assume(G_proc_fd >= 2000 && G_proc_fd < 3000);
  /* engine: no mutex held, fds open or not */
  E._cbMutex.held = 0; E._sessionRwMutex.held = 0; E._cmdMutex.held = 0; E._cmdsClosed = 0;
  E._cbs.onClose = nondet_bool(); E._cbs.onData = nondet_bool(); E._cbs.onAccept = nondet_bool(); E._cbs.onConnect = nondet_bool(); E._cbs.onError = nondet_bool();
  __CPROVER_assume(E._epollFd >= -1 && E._eventFd >= -1 && E._timerFd >= -1 && E._epollFd < 100 && E._eventFd < 100 && E._timerFd < 100);
  /* sessions: distinct ids, distinct fds >= 100; each one has its tag (TAGINV) */
  size_t ns = nondet_size_t(), nl = nondet_size_t(), nc = nondet_size_t();
  __CPROVER_assume(ns <= IORA_NS && nl <= IORA_NL && nc <= IORA_NC);
  E._sessions.n = ns; E._fdTags.n = 0; E._listeners.n = nl; E._cmds.n = nc;
  Session *S[IORA_NS]; Session S0[IORA_NS];
  for (size_t i = 0; i < IORA_NS; i++)
  {
    S[i] = NULL;
    if (i < ns)
    {
      Session *s = malloc(sizeof(Session)); __CPROVER_assume(s != NULL); iora_canon_session(s);
      __CPROVER_assume(s->fd >= 100 && s->fd < 1000);
      for (size_t j = 0; j < IORA_NS; j++) if (j < i) __CPROVER_assume(S[j]->id != s->id && S[j]->fd != s->fd && (s->ssl == NULL || S[j]->ssl != s->ssl));   /* ids, fds, SSL objects are not shared */
      __CPROVER_assume(s->id != G_proc_sid);
      S[i] = s; S0[i] = *s; E._sessions.v[i] = s;
      Tag *t = malloc(sizeof(Tag)); __CPROVER_assume(t != NULL); t->isListener = 0; t->lst = NULL; t->sess = s;
      E._fdTags.fd[E._fdTags.n] = s->fd; E._fdTags.v[E._fdTags.n] = t; E._fdTags.n++;
    }
  }
  for (size_t i = 0; i < IORA_NL; i++) if (i < nl)
  {
    Listener *l = malloc(sizeof(Listener)); __CPROVER_assume(l != NULL); __CPROVER_assume(l->fd >= 1000 && l->fd < 2000);
    E._listeners.v[i] = l;
    Tag *t = malloc(sizeof(Tag)); __CPROVER_assume(t != NULL); t->isListener = 1; t->lst = l; t->sess = NULL;
    E._fdTags.fd[E._fdTags.n] = l->fd; E._fdTags.v[E._fdTags.n] = t; E._fdTags.n++;
  }
  /* commands that arrived after the last process(): any kind; a Connect carries a fresh id (connect() allocated it) */
  iora_promise P[IORA_NC]; bool wsid_is_queued_connect = 0;
  for (size_t i = 0; i < IORA_NC; i++) if (i < nc)
  {
    Command *c = &E._cmds.v[i];
    __CPROVER_assume(c->t >= Cmd_Shutdown && c->t <= Cmd_Close);
    P[i].set_calls = 0; P[i].value = 1;
    c->listenerReady = (c->t == Cmd_AddListener && nondet_bool()) ? &P[i] : NULL;
    if (c->t == Cmd_Connect)
    {
      for (size_t j = 0; j < IORA_NS; j++) if (j < ns) __CPROVER_assume(S[j]->id != c->c.sid);
      for (size_t j = 0; j < IORA_NC; j++) if (j < i && E._cmds.v[j].t == Cmd_Connect) __CPROVER_assume(E._cmds.v[j].c.sid != c->c.sid);
      __CPROVER_assume(c->c.sid != G_proc_sid);
      if (c->c.sid == G_WSID) wsid_is_queued_connect = 1;
    }
  }
  size_t open0 = count_open(self);
  E._atomicStats.sessionsCurrent = open0;                       /* the gauge counts the open sessions */
  uint64_t closed0 = E._atomicStats.closed;
  bool wsid_open = 0, wfd_open = 0; size_t ssl_open = 0;
  for (size_t i = 0; i < IORA_NS; i++) if (i < ns && !S0[i].closed) { if (S0[i].id == G_WSID) wsid_open = 1; if (S0[i].fd == G_WFD) wfd_open = 1; if (S0[i].ssl != NULL) ssl_open++; }
  bool cb = E._cbs.onClose;

  sd_expect x = { cb, wsid_open, wsid_is_queued_connect, wfd_open, open0, ssl_open, nc, closed0 };
  TcpEngine_shutdownDrain(self);
  IORA_CANARY("h_shutdownDrain: returns");
  sd_post(self, &x, P);
}

#endif

#ifdef SD_WITNESS
/* ===================== (a) shutdownDrain, whole function, UNBOUNDED: witness session / fd / queued connect, loops closed by loop contracts =====================
 * Same clauses as the bounded cross-check (SD-A .. SD-E, SD-O, SD-1, SD-2) for ANY number of sessions, listeners, fd tags and queued commands.
 * ASSUMPTION TABINV: every session in the table is open at entry (closeNow erases what it closes; shutdownDrain clears the table), and the gauge
 * equals the table size (bumpSess at every insertion, sessionsCurrent-- at every close). Closed entries are covered by shutdownDrain_b3. */
void h_shutdownDrain_w(void)
{
  TcpEngine E; TcpEngine *self = &E;
  IORA_TRUE = 1;
  G_seq = nondet_unsigned(); G_cb_calls = 0; G_cbw_calls = 0; G_cbw_in_table = 0; G_wfd_close_calls = 0; G_wfd_del_calls = 0; G_promise_sets = 0;
  G_wssl_shut_calls = 0; G_wssl_free_calls = 0; G_wssl_shut_before_free = 0; G_wfd_del_before_close = 0; G_wssl_done_before_close = 0;
  G_fdclose_calls = 0; G_sslshut_calls = 0; G_sslfree_calls = 0; G_ep_dels = 0; G_ep_mods = 0; G_errno = nondet_int();
  G_sd_cleared = 0; G_proc_calls = 0; G_proc_inserted = 0; IORA_PROC_MAY_INSERT = 1; G_proc_sid = nondet_u64(); G_proc_fd = nondet_int(); __CPROVER_assume(G_proc_fd >= 0);
  G_WSID = nondet_u64(); G_WFD = nondet_int(); __CPROVER_assume(G_WFD >= 0);
  /* scratch objects for "some other session / listener" and the witness object (in the table or not) */
  G_OTHER_SESS = malloc(sizeof(Session)); G_OTHER_LST = malloc(sizeof(Listener)); G_WSESS = malloc(sizeof(Session));
  __CPROVER_assume(G_OTHER_SESS != NULL && G_OTHER_LST != NULL && G_WSESS != NULL);
  iora_canon_session(G_WSESS); iora_canon_session(G_OTHER_SESS);
  E._cbMutex.held = 0; E._sessionRwMutex.held = 0; E._cmdMutex.held = 0; E._cmdsClosed = 0;
  E._cbs.onClose = nondet_bool(); E._cbs.onData = nondet_bool(); E._cbs.onAccept = nondet_bool(); E._cbs.onConnect = nondet_bool(); E._cbs.onError = nondet_bool();
  __CPROVER_assume(E._epollFd >= -1 && E._eventFd >= -1 && E._timerFd >= -1 && E._epollFd != G_WFD && E._eventFd != G_WFD && E._timerFd != G_WFD);   /* the engine's own fds are no session's fd */
  /* tables: any sizes; the witness entries where they exist */
  E._sessions.has = nondet_bool(); E._sessions.val = G_WSESS;
  __CPROVER_assume(E._sessions.n < ((size_t)1 << 60) && (!E._sessions.has || (E._sessions.gpos < E._sessions.n && G_WSESS->id == G_WSID && G_WSESS->fd == G_WFD && !G_WSESS->closed)));
  G_WSSL = E._sessions.has ? G_WSESS->ssl : NULL; G_W0 = *G_WSESS;
  __CPROVER_assume(E._atomicStats.sessionsCurrent == E._sessions.n);                                    /* TABINV: gauge == table size, all entries open */
  E._fdTags.has = E._sessions.has; E._fdTags.val = NULL;
  if (E._fdTags.has) { Tag *t = malloc(sizeof(Tag)); __CPROVER_assume(t != NULL); t->isListener = 0; t->lst = NULL; t->sess = G_WSESS; E._fdTags.val = t; }
  __CPROVER_assume(E._fdTags.n < ((size_t)1 << 60) && E._fdTags.n >= (E._fdTags.has ? 1u : 0u) && E._listeners.n < ((size_t)1 << 60));
  E._cmds.has = nondet_bool();
  __CPROVER_assume(E._cmds.n < ((size_t)1 << 60) && (!E._cmds.has || (E._cmds.gpos < E._cmds.n && E._cmds.val.t == Cmd_Connect && E._cmds.val.c.sid == G_WSID && E._cmds.val.listenerReady == NULL)));
  __CPROVER_assume(!(E._sessions.has && E._cmds.has));                                                  /* an id is either a session or a connect still to be executed */
  __CPROVER_assume(!(E._sessions.has || E._cmds.has) || G_proc_sid != G_WSID);                           /* a connect executed by process() carries a fresh id ... */
  __CPROVER_assume(!E._sessions.has || G_proc_fd != G_WFD);                                              /* ... and gets a fresh descriptor */
  __CPROVER_assume((G_proc_sid == G_WSID) == (G_proc_fd == G_WFD));                                      /* the fd witness is the descriptor of the id witness */
  bool w_sess0 = E._sessions.has, w_cmd0 = E._cmds.has, cb = E._cbs.onClose; size_t n0 = E._sessions.n; uint64_t closed0 = E._atomicStats.closed;

  TcpEngine_shutdownDrain(self);
  IORA_CANARY("h_shutdownDrain_w: returns");

  bool wsid_open = w_sess0 || (G_proc_inserted && G_proc_sid == G_WSID);
  bool wfd_open = w_sess0 || (G_proc_inserted && G_proc_fd == G_WFD);
  __CPROVER_assert(G_proc_calls == 1, "SD-O the command queue is drained exactly once");
  if (wsid_open) { __CPROVER_assert(G_cbw_calls == (cb ? 1u : 0u), "SD-A an open session gets its close notification exactly once"); IORA_CANARY("h_shutdownDrain_w: witness id is an open session"); }
  if (w_cmd0) { __CPROVER_assert(G_cbw_calls == (cb ? 1u : 0u), "SD-2 a connect still queued when the queue is closed gets its close notification (the application holds that id)"); IORA_CANARY("h_shutdownDrain_w: witness id is a queued connect"); }
  if (!wsid_open && !w_cmd0) __CPROVER_assert(G_cbw_calls == 0, "SD-A0 no close notification for an id that is neither an open session nor a queued connect");
  __CPROVER_assert(self->_sessions.n == 0 && !self->_sessions.has, "SD-B the session table is empty");
  __CPROVER_assert(self->_atomicStats.sessionsCurrent == 0, "SD-C the gauge of open sessions returns to zero");
  __CPROVER_assert(self->_atomicStats.closed - closed0 == n0 + (G_proc_inserted ? 1u : 0u), "SD-C closed grows by the number of sessions closed");
  if (wfd_open) { __CPROVER_assert(G_wfd_close_calls == 1 && G_wfd_del_calls == 1 && G_wfd_del_before_close == 1, "SD-D the fd of a closed session is deregistered and closed exactly once, deregistered first");
                  __CPROVER_assert(SD_WSSL_DONE, "SD-D SSL_shutdown then SSL_free exactly once on the session's SSL object, before close(fd)"); }
  else __CPROVER_assert(G_wfd_close_calls == 0, "SD-D no other descriptor is closed");
  __CPROVER_assert(self->_fdTags.n == 0 && !self->_fdTags.has, "SD-1 no fd tag outlives the session or listener it points to (_fdTags empty at exit; the engine can be started again)");
  __CPROVER_assert(self->_cmdsClosed && self->_cmds.n == 0 && self->_listeners.n == 0 && self->_epollFd == -1 && self->_eventFd == -1 && self->_timerFd == -1, "SD-E queue closed and empty, listeners gone, engine fds closed");
  __CPROVER_assert(!self->_cbMutex.held && !self->_sessionRwMutex.held && !self->_cmdMutex.held, "SD-E every mutex released");
  if (G_proc_inserted) { IORA_CANARY("h_shutdownDrain_w: process() executed a queued connect"); }
}
#endif

/* ===================== (a') the body of shutdownDrain's session loop as a step: ANY session state (unbounded) ===================== */
void h_sd_step(void)
{
  TcpEngine E; TcpEngine *self = &E;
  IORA_TRUE = 1;
  G_sd_cleared = 0; G_proc_calls = 0; G_proc_inserted = 0; IORA_PROC_MAY_INSERT = 0;
  G_seq = nondet_unsigned(); __CPROVER_assume(G_seq < 1000);
  G_cb_calls = 0; G_cbw_calls = 0; G_wfd_close_calls = 0; G_wfd_del_calls = 0; G_fdclose_calls = 0; G_sslshut_calls = 0; G_sslfree_calls = 0; G_ep_dels = 0; G_ep_mods = 0; G_errno = nondet_int();
  E._cbMutex.held = 0; E._sessionRwMutex.held = 0; E._cmdMutex.held = 0; E._cbs.onClose = nondet_bool();
  E._sessions.n = 0; E._fdTags.n = 0; E._listeners.n = 0; E._cmds.n = 0;
  Session *s = nondet_bool() ? NULL : malloc(sizeof(Session));
  Session s0; bool was_open = 0;
  if (s) { iora_canon_session(s); s0 = *s; was_open = !s->closed; G_WSID = s->id; G_WFD = s->fd; __CPROVER_assume(!was_open || E._atomicStats.sessionsCurrent >= 1); }
  uint64_t closed0 = E._atomicStats.closed; size_t cur0 = E._atomicStats.sessionsCurrent; int epfd = E._epollFd;
  TcpEngine_sd_step(self, s);
  IORA_CANARY("h_sd_step: returns");
  if (!was_open)
  {
    __CPROVER_assert(G_cb_calls == 0 && G_fdclose_calls == 0 && G_ep_dels == 0 && G_sslshut_calls == 0 && G_sslfree_calls == 0 && E._atomicStats.closed == closed0 && E._atomicStats.sessionsCurrent == cur0,
                     "ST0 a NULL or already closed session is skipped: no system call, no callback, counters untouched");
    IORA_CANARY("h_sd_step: skipped");
  }
  else
  {
    __CPROVER_assert(s->closed, "ST1 the session is marked closed");
    __CPROVER_assert(G_cb_calls == (E._cbs.onClose ? 1u : 0u) && G_cbw_calls == G_cb_calls && (!E._cbs.onClose || G_cbw_why == TransportError_Unknown), "ST2 close callback exactly once iff registered, with this session's id");
    __CPROVER_assert(E._atomicStats.closed == closed0 + 1 && E._atomicStats.sessionsCurrent == cur0 - 1, "ST4 closed+1, sessionsCurrent-1 exactly once");
    __CPROVER_assert(G_ep_dels == 1 && G_ep_mods == 0 && G_wfd_del_calls == 1 && G_ep_epfd == epfd, "ST5 EPOLL_CTL_DEL of the session's fd exactly once");
    __CPROVER_assert(G_fdclose_calls == 1 && G_wfd_close_calls == 1 && G_wfd_del_seq < G_wfd_close_seq, "ST6 close(fd) exactly once, after the deregistration");
    __CPROVER_assert(s0.ssl == NULL ? (G_sslshut_calls == 0 && G_sslfree_calls == 0) : (G_sslshut_calls == 1 && G_sslfree_calls == 1 && G_sslshut_arg == s0.ssl && G_sslfree_arg == s0.ssl && G_sslshut_seq < G_sslfree_seq && G_sslfree_seq < G_fdclose_seq && s->ssl == NULL),
                     "ST6 SSL_shutdown then SSL_free exactly once on the session's SSL object, before close(fd); pointer cleared");
    __CPROVER_assert(s->id == s0.id && s->fd == s0.fd && !E._cbMutex.held, "ST9 id / fd unchanged, _cbMutex released");
    IORA_CANARY("h_sd_step: closed now");
  }
}

/* ===================== (c) session identifiers: strictly increasing, never reused =====================
 * Both allocation sites (connect() on any thread, onListener() on the I/O thread) are `_nextSessionId++` on a std::atomic (one indivisible
 * fetch-add; here sequential, R10). For ANY sequence of two allocations, by either site, the second id is larger than the first; ids start
 * at 1 (declaration `_nextSessionId{1}`, checked by the source scan in plugin.py, which also checks that nothing else touches the allocator
 * or assigns Session::id). PRECONDITION: fewer than 2^64 - 2 allocations so far (64-bit wrap excluded). */
void h_id_alloc(void)
{
  TcpEngine E; TcpEngine *self = &E;
  __CPROVER_assume(E._nextSessionId >= 1 && E._nextSessionId < UINT64_MAX - 1);
  SessionId n0 = E._nextSessionId;
  SessionId a = nondet_bool() ? TcpEngine_alloc_id_connect(self) : TcpEngine_alloc_id_accept(self);
  __CPROVER_assert(a == n0 && E._nextSessionId == n0 + 1, "ID1 an allocation returns the current counter and advances it by exactly one");
  SessionId b = nondet_bool() ? TcpEngine_alloc_id_connect(self) : TcpEngine_alloc_id_accept(self);
  __CPROVER_assert(b > a && b >= 1 && E._nextSessionId > b, "ID2 a later allocation yields a strictly larger id (never reused); every future id is larger still");
  IORA_CANARY("h_id_alloc: returns");
}

/* ID3 start() (restartable engine): the prologue up to the TLS initialisation - where a "fresh run" would reset state - keeps the id allocator monotone.
 * INVARIANT of the engine: every id issued so far is < _nextSessionId (ID1/ID2). start() preserves it iff it never lowers _nextSessionId. Writes to the
 * allocator anywhere else make the run undecided (source scan in plugin.py). */
void h_id_start(void)
{
  TcpEngine E; TcpEngine *self = &E;
  IORA_TRUE = 1; G_id_store_calls = 0; E._cmdMutex.held = 0; E._running = nondet_bool(); E._cmdsClosed = nondet_bool();
  __CPROVER_assume(E._nextSessionId >= 1);
  SessionId n0 = E._nextSessionId; bool running0 = E._running;
  bool cont = TcpEngine_start_prologue(self);
  IORA_CANARY("h_id_start: returns");
  __CPROVER_assert(E._nextSessionId >= n0, "ID3 start() never moves the session-id allocator backwards (ids are not reused after stop() + start())");
  __CPROVER_assert(!running0 || (!cont && E._nextSessionId == n0 && E._running), "ID3b start() on a running engine changes nothing");
  __CPROVER_assert(!E._cmdMutex.held && (running0 || !cont || (E._running && !E._cmdsClosed)), "ID3c mutex released; a started engine has its command queue open");
}

/* ===================== (b) doConnect: failure and completion branches (block targets) =====================
 * From C02: "every session identifier the application has seen (returned by connect ...) receives exactly one close notification".
 *  DC-F  every `return false` branch: the close callback for cr.sid exactly once iff registered, NOTHING inserted (tables, gauge unchanged),
 *        no connect callback, the error callback once; a socket that was opened is closed exactly once
 *  DC-T  the tail (TLS setup, insertion, immediate-connect check), `return true`: the session IS inserted under cr.sid with its fd tag and the gauge
 *        incremented, and then it is either still open in the table (no close notification yet) or was closed through closeNow exactly once
 *        (gone from the table, tag erased, gauge back, exactly one close notification)
 *  DC-C  the connect callback fires at most once, for cr.sid, only on an established plain-TCP connection that stays open, never after a close
 *  G1    the gauge never under-counts: when the session is announced (connect callback) and when closeNow is called for it, sessionsCurrent already
 *        counts it (ghost G_w_counted: set by bumpSess once the session is in the table, asserted INSIDE the callback / closeNow stubs); a session left
 *        open is counted. (C02: "the gauge of currently open sessions never under-counts and returns to zero once every session has closed")
 *  DC-S  TLS requested and available: tlsMode Client, tlsState Handshake, SSL object present, no connect callback yet */
size_t G_dc_tags0;       /* number of fd tags before the block */
static void dc_world(TcpEngine *self)
{
  IORA_TRUE = 1;
  G_seq = 0; G_cb_calls = 0; G_cbw_calls = 0; G_wfd_close_calls = 0; G_wfd_del_calls = 0; G_err_calls = 0; G_conncb_calls = 0; G_conncbw_calls = 0; G_closeNow_calls = 0; G_freeaddr_calls = 0;
  G_fdclose_calls = 0; G_ep_dels = 0; G_ep_mods = 0; G_errno = nondet_int(); G_conncb_seq = 0; G_closeNow_seq = 0; G_w_counted = 0;
  self->_cbMutex.held = 0; self->_sessionRwMutex.held = 0; self->_cmdMutex.held = 0;
  self->_cbs.onClose = nondet_bool(); self->_cbs.onConnect = nondet_bool(); self->_cbs.onError = nondet_bool(); self->_cbs.onData = nondet_bool(); self->_cbs.onAccept = nondet_bool();
  self->_config.useEdgeTriggered = nondet_bool(); self->_config.clientTls.enabled = nondet_bool();
#ifdef SD_WITNESS
  /* ANY number of other sessions / fd tags are already there (witness containers: the witness id / fd are the NEW session's, not present yet) */
  G_OTHER_SESS = malloc(sizeof(Session)); G_OTHER_LST = malloc(sizeof(Listener)); G_WSESS = NULL; G_WSSL = NULL;
  __CPROVER_assume(G_OTHER_SESS != NULL && G_OTHER_LST != NULL); iora_canon_session(G_OTHER_SESS);
  self->_sessions.has = 0; self->_sessions.val = NULL; self->_fdTags.has = 0; self->_fdTags.val = NULL; self->_listeners.n = 0; self->_cmds.n = 0; self->_cmds.has = 0;
  __CPROVER_assume(self->_sessions.n < ((size_t)1 << 60) && self->_fdTags.n < ((size_t)1 << 60) && self->_atomicStats.sessionsCurrent < ((size_t)1 << 60));
}
#define DC_FRESH_ID(E, sid) ((void)0)          /* witness map: `has == 0` IS "the id is not in the table" (clause ID2) */
#else
  /* some other sessions are already there (bounded: <= 2), each with its tag */
  size_t ns = nondet_size_t(); __CPROVER_assume(ns <= IORA_NS - 1);
  self->_sessions.n = ns; self->_fdTags.n = 0; self->_listeners.n = 0; self->_cmds.n = 0;
  for (size_t i = 0; i < IORA_NS - 1; i++) if (i < ns)
  {
    Session *o = malloc(sizeof(Session)); __CPROVER_assume(o != NULL); iora_canon_session(o); __CPROVER_assume(!o->closed && o->fd >= 100 && o->fd < 1000);
    for (size_t j = 0; j < IORA_NS; j++) if (j < i) __CPROVER_assume(self->_sessions.v[j]->id != o->id && self->_sessions.v[j]->fd != o->fd);
    self->_sessions.v[i] = o;
    Tag *t = malloc(sizeof(Tag)); __CPROVER_assume(t != NULL); t->isListener = 0; t->lst = NULL; t->sess = o;
    self->_fdTags.fd[i] = o->fd; self->_fdTags.v[i] = t; self->_fdTags.n = i + 1;
  }
  __CPROVER_assume(self->_atomicStats.sessionsCurrent == ns);
}
#define DC_FRESH_ID(E, sid) do { for (size_t j = 0; j < IORA_NS; j++) if (j < (E)._sessions.n) __CPROVER_assume((E)._sessions.v[j]->id != (sid)); } while (0)          /* a fresh id (clause ID2) */
#endif
#define DC_UNTOUCHED(self, ns0, cur0, closed0) ((self)->_sessions.n == (ns0) && (self)->_fdTags.n == G_dc_tags0 && (self)->_atomicStats.sessionsCurrent == (cur0) && (self)->_atomicStats.closed == (closed0) \
  && !(self)->_cbMutex.held && !(self)->_sessionRwMutex.held && G_conncb_calls == 0 && G_closeNow_calls == 0)

void h_doConnect_fail_branches(void)
{
  TcpEngine E; TcpEngine *self = &E; dc_world(self);
  ConnectReq R; const ConnectReq *cr = &R; G_WSID = R.sid;
  DC_FRESH_ID(E, R.sid);
  G_dc_tags0 = E._fdTags.n; size_t ns0 = E._sessions.n, cur0 = E._atomicStats.sessionsCurrent; uint64_t closed0 = E._atomicStats.closed; bool cb = E._cbs.onClose;
  unsigned which = nondet_unsigned(); __CPROVER_assume(which <= 3);
  bool cont; int cfd = nondet_int(); bool opened_socket = 0;
  if (which == 0) { bool to = nondet_bool(); cont = TcpEngine_doConnect_dns_timeout(self, cr, to); __CPROVER_assert(cont == !to, "DC-F0 the DNS-timeout branch is taken iff the lookup timed out"); IORA_CANARY("doConnect: dns timeout branch"); }
  else if (which == 1) { int rc = nondet_int(); addrinfo *res = nondet_bool() ? NULL : (addrinfo *)malloc(1); cont = TcpEngine_doConnect_resolve_failed(self, cr, rc, res);
                         __CPROVER_assert(cont == (rc == 0 && res != NULL), "DC-F0 the resolve-failed branch is taken iff getaddrinfo failed or returned nothing"); IORA_CANARY("doConnect: resolve failed branch"); }
  else if (which == 2) { __CPROVER_assume(cfd >= 100 && cfd < 1000); G_WFD = cfd; opened_socket = 1; bool manual = nondet_bool(); addrinfo *res = (addrinfo *)malloc(1); int c = cfd;
                         cont = TcpEngine_doConnect_refused(self, cr, &c, manual, res, "80");
                         __CPROVER_assert(cont || (c == -1 && G_freeaddr_calls == (manual ? 0u : 1u) && (manual || G_freeaddr_arg == res)), "DC-F2 refused: the socket variable is reset and a heap addrinfo chain is released exactly once");
                         if (cont) opened_socket = 0; IORA_CANARY("doConnect: refused branch"); }
  else { cont = TcpEngine_doConnect_no_socket(self, cr, cfd, "errno text", nondet_int()); __CPROVER_assert(cont == (cfd >= 0), "DC-F0 the no-socket branch is taken iff no socket could be connected"); IORA_CANARY("doConnect: no socket branch"); }
  if (!cont)
  {
    __CPROVER_assert(G_cb_calls == (cb ? 1u : 0u) && G_cbw_calls == G_cb_calls, "DC-F a failing doConnect reports the close of cr.sid exactly once (iff a callback is registered)");
    __CPROVER_assert(G_err_calls == 1, "DC-F the error callback path runs exactly once");
    __CPROVER_assert(DC_UNTOUCHED(self, ns0, cur0, closed0), "DC-F nothing is inserted: tables, gauge and counters unchanged, no connect callback, no closeNow");
    __CPROVER_assert(opened_socket ? (G_fdclose_calls == 1 && G_wfd_close_calls == 1) : G_fdclose_calls == 0, "DC-F a socket that was opened is closed exactly once; no other fd is closed");
    IORA_CANARY("doConnect: failed");
  }
  else
  {
    __CPROVER_assert(G_cb_calls == 0 && G_err_calls == 0 && G_fdclose_calls == 0 && DC_UNTOUCHED(self, ns0, cur0, closed0), "DC-F1 a branch that is not taken does nothing");
    IORA_CANARY("doConnect: continues");
  }
}

void h_doConnect_tail(void)
{
  TcpEngine E; TcpEngine *self = &E; dc_world(self);
  ConnectReq R; const ConnectReq *cr = &R; G_WSID = R.sid;
  __CPROVER_assume(R.tls >= TlsMode_None && R.tls <= TlsMode_Client);
  int cfd = nondet_int(); __CPROVER_assume(cfd >= 1000 && cfd < 2000); G_WFD = cfd;            /* a descriptor the kernel just created: no live session uses it */
  DC_FRESH_ID(E, R.sid);
  /* the Session doConnect has just built (statements before the block: default member initialisers, id = cr.sid, fd = cfd, connectPending = true) */
  Session *s = malloc(sizeof(Session)); __CPROVER_assume(s != NULL); iora_canon_session(s);
  s->id = R.sid; s->fd = cfd; s->tlsMode = TlsMode_None; s->ssl = NULL; s->tlsState = TlsState_None; s->tlsWantWrite = 0; s->wq.n = 0; s->wantWrite = 0; s->closed = 0; s->connectPending = 1;
  s->connectTimeoutId = nondet_u64(); s->handshakeTimeoutId = 0; s->writeStallTimeoutId = 0;
  G_dc_tags0 = E._fdTags.n; size_t ns0 = E._sessions.n, cur0 = E._atomicStats.sessionsCurrent; uint64_t closed0 = E._atomicStats.closed, conn0 = E._atomicStats.connected; bool cb = E._cbs.onClose, ccb = E._cbs.onConnect;
  bool tls_wanted = R.tls == TlsMode_Client && E._config.clientTls.enabled && E._sslCli != NULL;
  bool r = TcpEngine_doConnect_tail(self, cr, s, cfd);
  IORA_CANARY("h_doConnect_tail: returns");
  Session *in = iora_smapN_lookup(&self->_sessions, R.sid);
  Tag *tgp = iora_tmapN_lookup(&self->_fdTags, cfd); struct { bool found; } tg = { tgp != NULL };
  __CPROVER_assert(!self->_cbMutex.held && !self->_sessionRwMutex.held, "DC-T every mutex released");
  if (!r)
  {
    __CPROVER_assert(tls_wanted, "DC-F the tail fails only when the TLS object cannot be created");
    __CPROVER_assert(G_cb_calls == (cb ? 1u : 0u) && G_cbw_calls == G_cb_calls && (!cb || G_cbw_why == TransportError_TLSHandshake), "DC-F a failing doConnect reports the close of cr.sid exactly once (iff a callback is registered)");
    __CPROVER_assert(in == NULL && !tg.found && DC_UNTOUCHED(self, ns0, cur0, closed0) && G_ep_mods == 0, "DC-F nothing is inserted or registered: tables, gauge, epoll set unchanged, no connect callback, no closeNow");
    __CPROVER_assert(G_fdclose_calls == 1 && G_wfd_close_calls == 1, "DC-F the socket is closed exactly once");
    IORA_CANARY("h_doConnect_tail: SSL_new failed");
  }
  else if (G_closeNow_calls == 0)
  {
    __CPROVER_assert(in == s && !in->closed && in->id == R.sid && in->fd == cfd, "DC-T the session is in the table under cr.sid, open");
    __CPROVER_assert(tg.found && tgp->sess == s && !tgp->isListener, "DC-T its fd tag routes the descriptor to this session");
    __CPROVER_assert(self->_sessions.n == ns0 + 1 && self->_atomicStats.sessionsCurrent == cur0 + 1 && self->_atomicStats.closed == closed0, "DC-T gauge + 1, nothing else inserted or removed");
    __CPROVER_assert(G_cb_calls == 0 && G_fdclose_calls == 0, "DC-T no close notification, fd stays open");
    __CPROVER_assert(G_w_counted, "G1 the gauge counts the session that doConnect leaves open in the table");
    __CPROVER_assert(G_ep_mods == 1 && G_ep_op == EPOLL_CTL_ADD && G_ep_fd == cfd && (G_ep_events & (EPOLLIN | EPOLLOUT)) == (EPOLLIN | EPOLLOUT), "DC-T the fd is registered with epoll for read and write readiness");
    __CPROVER_assert(G_conncb_calls <= 1 && G_conncbw_calls == G_conncb_calls && (G_conncb_calls == 0 || (ccb && R.tls == TlsMode_None && !in->connectPending)) && self->_atomicStats.connected == conn0 + G_conncb_calls,
                     "DC-C connect callback at most once, for cr.sid, only for an established plain-TCP connection");
    __CPROVER_assert(!tls_wanted || (in->tlsMode == TlsMode_Client && in->tlsState == TlsState_Handshake && in->ssl != NULL && in->tlsWantWrite && G_conncb_calls == 0), "DC-S TLS: handshake state entered, SSL object present, no connect callback before the handshake");
    __CPROVER_assert(tls_wanted || (in->tlsMode == TlsMode_None && in->tlsState == TlsState_None && in->ssl == NULL), "DC-S plain: TLS fields untouched (session invariant TLS_INV)");
    IORA_CANARY("h_doConnect_tail: inserted and open");
  }
  else
  {
    __CPROVER_assert(G_closeNow_calls == 1 && in == NULL && !tg.found, "DC-T closed through closeNow exactly once: gone from the table, fd tag erased");
    __CPROVER_assert(G_cb_calls == (cb ? 1u : 0u) && G_cbw_calls == G_cb_calls && self->_sessions.n == ns0 && self->_atomicStats.sessionsCurrent == cur0 && self->_atomicStats.closed == closed0 + 1 && G_wfd_close_calls == 1,
                     "DC-T exactly one close notification for cr.sid, gauge back, fd closed once");
    __CPROVER_assert(G_conncb_calls == 0 && R.tls == TlsMode_None, "DC-C no connect callback for a connection that failed immediately");
    IORA_CANARY("h_doConnect_tail: inserted and closed");
  }
}

/* ===================== accept path: the tail of one onListener iteration (block target) =====================
 * C02: "data events for an identifier occur only between its accept/connect callback and its close".
 *  AC-1  a session that is inserted gets its accept callback exactly once, with the id it is stored under, AFTER it is in the table
 *  AC-2  nothing in the iteration reads from the socket or delivers data (no recv/SSL_read, no data callback): the first data event can only come
 *        from a later epoll event, i.e. after the accept callback (the I/O thread runs one handler at a time - thread confinement, not proved here)
 *  AC-3  TLS listener: tlsMode Server, tlsState Handshake, SSL object present; SSL_new failure: the fd is closed once, NOTHING is inserted, no callback -
 *        the id was never shown to the application, so it needs no close
 *  AC-4  inserted: fd tag routes the descriptor to the session, gauge + 1, accepted + 1, registered with epoll for read readiness */
void h_accept_tail(void)
{
  TcpEngine E; TcpEngine *self = &E; dc_world(self);
  G_acccb_calls = 0; G_acccbw_calls = 0; G_acccb_in_table = 0; G_recv_calls = 0; G_sslr_calls = 0; G_datacb_calls = 0;
  E._config.serverTls.enabled = nondet_bool();
  Listener L; Listener *lst = &L; __CPROVER_assume(L.tls >= TlsMode_None && L.tls <= TlsMode_Client);
  SessionId sid = nondet_u64(); G_WSID = sid;
  int cfd = nondet_int(); __CPROVER_assume(cfd >= 1000 && cfd < 2000); G_WFD = cfd;
  DC_FRESH_ID(E, sid);
  Session *s = malloc(sizeof(Session)); __CPROVER_assume(s != NULL); iora_canon_session(s);
  s->id = sid; s->fd = cfd; s->tlsMode = TlsMode_None; s->ssl = NULL; s->tlsState = TlsState_None; s->tlsWantWrite = 0; s->wq.n = 0; s->wantWrite = 0; s->closed = 0; s->connectPending = 0;
  s->connectTimeoutId = 0; s->handshakeTimeoutId = 0; s->writeStallTimeoutId = 0;
  G_dc_tags0 = E._fdTags.n; size_t ns0 = E._sessions.n, cur0 = E._atomicStats.sessionsCurrent; uint64_t acc0 = E._atomicStats.accepted; bool acb = E._cbs.onAccept;
  bool tls_wanted = L.tls == TlsMode_Server && E._config.serverTls.enabled && E._sslSrv != NULL;
  TcpEngine_accept_tail(self, lst, s, sid, cfd, 0);
  IORA_CANARY("h_accept_tail: returns");
  Session *in = iora_smapN_lookup(&self->_sessions, sid);
  Tag *tgp = iora_tmapN_lookup(&self->_fdTags, cfd); struct { bool found; } tg = { tgp != NULL };
  __CPROVER_assert(G_recv_calls == 0 && G_sslr_calls == 0 && G_datacb_calls == 0 && G_cb_calls == 0 && G_closeNow_calls == 0, "AC-2 the accept iteration neither reads, nor delivers data, nor closes");
  __CPROVER_assert(!self->_cbMutex.held && !self->_sessionRwMutex.held, "AC every mutex released");
  if (in == NULL)
  {
    __CPROVER_assert(tls_wanted, "AC-3 a connection is dropped here only when the TLS object cannot be created");
    __CPROVER_assert(G_acccb_calls == 0 && !tg.found && self->_sessions.n == ns0 && self->_atomicStats.sessionsCurrent == cur0 && self->_atomicStats.accepted == acc0 && G_ep_mods == 0, "AC-3 nothing inserted or registered, no accept callback: the id was never shown to the application");
    __CPROVER_assert(G_fdclose_calls == 1 && G_wfd_close_calls == 1, "AC-3 the accepted socket is closed exactly once");
    IORA_CANARY("h_accept_tail: SSL_new failed");
  }
  else
  {
    __CPROVER_assert(in == s && in->id == sid && in->fd == cfd && !in->closed, "AC-4 the session is in the table under its id, open");
    __CPROVER_assert(G_acccb_calls == (acb ? 1u : 0u) && G_acccbw_calls == G_acccb_calls && (!acb || G_acccb_in_table), "AC-1 accept callback exactly once (iff registered), with the id the session is stored under, after the insertion");
    __CPROVER_assert(tg.found && tgp->sess == s && !tgp->isListener, "AC-4 its fd tag routes the descriptor to this session");
    __CPROVER_assert(self->_sessions.n == ns0 + 1 && self->_atomicStats.sessionsCurrent == cur0 + 1 && self->_atomicStats.accepted == acc0 + 1 && G_fdclose_calls == 0, "AC-4 gauge + 1, accepted + 1, fd stays open");
    __CPROVER_assert(G_w_counted, "G1 the gauge counts the accepted session");
    __CPROVER_assert(G_ep_mods == 1 && G_ep_op == EPOLL_CTL_ADD && G_ep_fd == cfd && (G_ep_events & EPOLLIN) != 0, "AC-4 the fd is registered with epoll for read readiness");
    __CPROVER_assert(tls_wanted ? (in->tlsMode == TlsMode_Server && in->tlsState == TlsState_Handshake && in->ssl != NULL) : (in->tlsMode == TlsMode_None && in->tlsState == TlsState_None && in->ssl == NULL), "AC-3 TLS listener: handshake state entered with an SSL object; plain listener: TLS fields untouched (TLS_INV)");
    IORA_CANARY("h_accept_tail: inserted");
  }
}


#if defined(IORA_SEARCH) && !defined(SD_WITNESS)
/* SEARCH: shutdownDrain on a small CONCRETE world (only used to obtain an input for REPLAY).
 *   NS sessions (ids 11.., fds 101..), SSLMASK bit i = session i has an SSL object, NL listeners, NCONN queued Connect commands (ids 21..),
 *   HASCB close callback registered, W = which id is the witness: 0..2 session i, 3 = first queued connect, 4 = an unknown id */
void h_search(void)
{
  size_t NS = nondet_size_t(), NL = nondet_size_t(), NCONN = nondet_size_t(), HASCB = nondet_size_t(), SSLMASK = nondet_size_t(), W = nondet_size_t(), PRE = 0; (void)PRE;   /* PRE: replay-only (connects queued before the drain) */
  __CPROVER_assume(NS <= IORA_NS && NL <= IORA_NL && NCONN <= IORA_NC && HASCB <= 1 && SSLMASK <= 7 && W <= 4);
  IORA_TRUE = 1;
  G_seq = 0; G_cb_calls = 0; G_cbw_calls = 0; G_cbw_in_table = 0; G_wfd_close_calls = 0; G_wfd_del_calls = 0; G_wfd_close_seq = 0; G_wfd_del_seq = 0; G_promise_sets = 0;
  G_fdclose_calls = 0; G_sslshut_calls = 0; G_sslfree_calls = 0; G_ep_dels = 0; G_ep_mods = 0; G_errno = 0;
  G_sd_cleared = 0; G_proc_calls = 0; G_proc_inserted = 0; IORA_PROC_MAY_INSERT = 0; G_proc_sid = 31; G_proc_fd = 2001;
  TcpEngine E = {0}; TcpEngine *self = &E;
  E._cbs.onClose = HASCB != 0; E._epollFd = 5; E._eventFd = 6; E._timerFd = 7;
  E._sessions.n = NS; E._listeners.n = NL; E._cmds.n = NCONN;
  Session z = {0};
  for (size_t i = 0; i < IORA_NS; i++) if (i < NS)
  {
    Session *s = malloc(sizeof(Session)); __CPROVER_assume(s != NULL); *s = z; s->id = 11 + i; s->fd = 101 + (int)i; s->ssl = ((SSLMASK >> i) & 1) ? (SSL *)s : NULL;
    E._sessions.v[i] = s;
    Tag *t = malloc(sizeof(Tag)); __CPROVER_assume(t != NULL); t->isListener = 0; t->lst = NULL; t->sess = s;
    E._fdTags.fd[E._fdTags.n] = s->fd; E._fdTags.v[E._fdTags.n] = t; E._fdTags.n++;
  }
  for (size_t i = 0; i < IORA_NL; i++) if (i < NL)
  {
    Listener *l = malloc(sizeof(Listener)); __CPROVER_assume(l != NULL); l->id = 1; l->fd = 1001;
    E._listeners.v[i] = l;
    Tag *t = malloc(sizeof(Tag)); __CPROVER_assume(t != NULL); t->isListener = 1; t->lst = l; t->sess = NULL;
    E._fdTags.fd[E._fdTags.n] = l->fd; E._fdTags.v[E._fdTags.n] = t; E._fdTags.n++;
  }
  iora_promise P[IORA_NC];
  for (size_t i = 0; i < IORA_NC; i++) { P[i].set_calls = 0; P[i].value = 1; if (i < NCONN) { E._cmds.v[i].t = Cmd_Connect; E._cmds.v[i].c.sid = 21 + i; E._cmds.v[i].listenerReady = NULL; } }
  G_WSID = W <= 2 ? 11 + W : (W == 3 ? 21 : 999); G_WFD = W <= 2 ? 101 + (int)W : 999;
  size_t ssl_open = 0; for (size_t i = 0; i < IORA_NS; i++) if (i < NS && ((SSLMASK >> i) & 1)) ssl_open++;
  E._atomicStats.sessionsCurrent = NS;
  sd_expect x = { HASCB != 0, W <= 2 && W < NS, W == 3 && NCONN >= 1, W <= 2 && W < NS, NS, ssl_open, NCONN, 0 };
  TcpEngine_shutdownDrain(self);
  sd_post(self, &x, P);
}
#endif
