// SD-1 native demonstration (real sockets on loopback): stop() with an open session leaves its _fdTags entry (dangling Session*); after start()
// a new connection that reuses the fd number is routed to the destroyed Session -> heap-use-after-free in onSession (ASan) / SIGSEGV.
// g++ -std=c++17 -g -fno-access-control -fsanitize=address,undefined -I/repo/include demo_SD1.cpp -lssl -lcrypto -lpthread
#include "iora/network/detail/tcp_engine.hpp"
#include <cstdio>
#include <thread>
#include <chrono>
#include <arpa/inet.h>
using namespace iora::network;
static int rawConnect(uint16_t port) {
  int fd = ::socket(AF_INET, SOCK_STREAM, 0); sockaddr_in a{}; a.sin_family = AF_INET; a.sin_port = htons(port); inet_pton(AF_INET, "127.0.0.1", &a.sin_addr);
  if (::connect(fd, (sockaddr *)&a, sizeof a) != 0) { perror("connect"); return -1; } return fd;
}
int main() {
  setvbuf(stdout, nullptr, _IONBF, 0);
  TransportConfig cfg; cfg.enableHighResolutionTimers = false;
  TcpEngine eng(cfg);
  std::atomic<int> accepts{0}, closes{0}, datas{0};
  detail::EngineBase::Callbacks cbs;
  cbs.onAccept = [&](SessionId sid, const TransportAddress &) { accepts++; printf("accept sid=%lu\n", (unsigned long)sid); };
  cbs.onClose = [&](SessionId sid, const TransportErrorInfo &e) { closes++; printf("close sid=%lu (%s)\n", (unsigned long)sid, e.message.c_str()); };
  cbs.onData = [&](SessionId sid, iora::core::BufferView v, std::chrono::steady_clock::time_point) { datas++; printf("data sid=%lu n=%zu\n", (unsigned long)sid, v.size()); };
  eng.setCallbacks(cbs);
  uint16_t port = 39471;
  if (!eng.start().isOk()) { printf("start failed\n"); return 2; }
  if (!eng.addListener("127.0.0.1", port, TlsMode::None).isOk()) { printf("listen failed\n"); return 2; }
  int c1 = rawConnect(port);
  std::this_thread::sleep_for(std::chrono::milliseconds(200));
  printf("-- stop with %d session(s) open; _fdTags.size before stop = %zu\n", accepts.load(), eng._fdTags.size());
  eng.stop();
  printf("-- after stop: _sessions=%zu _fdTags=%zu (stale tags)\n", eng._sessions.size(), eng._fdTags.size());
  ::close(c1);
  if (!eng.start().isOk()) { printf("restart failed\n"); return 2; }
  if (!eng.addListener("127.0.0.1", port, TlsMode::None).isOk()) { printf("listen2 failed\n"); return 2; }
  int c2 = rawConnect(port);
  std::this_thread::sleep_for(std::chrono::milliseconds(200));
  const char msg[] = "hello";
  ::send(c2, msg, 5, 0);
  std::this_thread::sleep_for(std::chrono::milliseconds(300));
  printf("-- after restart: accepts=%d datas=%d closes=%d (the new session must have received 5 bytes)\n", accepts.load(), datas.load(), closes.load());
  ::close(c2);
  std::this_thread::sleep_for(std::chrono::milliseconds(300));
  printf("-- after peer close: closes=%d\n", closes.load());
  eng.stop();
  printf("-- final: accepts=%d datas=%d closes=%d\n", accepts.load(), datas.load(), closes.load());
  return 0;
}
