// SD-2 native demonstration (real sockets on loopback): connect() issued from the close callback during an orderly stop() returns ok(sid);
// the command is dropped by shutdownDrain and that id never receives a close notification. Exit 1 = violated.
// g++ -std=c++17 -g -fno-access-control -I/repo/include demo_SD2.cpp -lssl -lcrypto -lpthread
#include "iora/network/detail/tcp_engine.hpp"
#include <cstdio>
#include <thread>
#include <chrono>
#include <arpa/inet.h>
#include <set>
using namespace iora::network;
int main() {
  setvbuf(stdout, nullptr, _IONBF, 0);
  TransportConfig cfg; cfg.enableHighResolutionTimers = false;
  TcpEngine eng(cfg);
  std::mutex mx; std::set<SessionId> seen, closed; uint16_t port = 39473;
  detail::EngineBase::Callbacks cbs;
  cbs.onAccept = [&](SessionId sid, const TransportAddress &) { std::lock_guard<std::mutex> g(mx); seen.insert(sid); printf("accept sid=%lu\n", (unsigned long)sid); };
  cbs.onConnect = [&](SessionId sid, const TransportAddress &) { printf("connect cb sid=%lu\n", (unsigned long)sid); };
  cbs.onClose = [&](SessionId sid, const TransportErrorInfo &e) {
    { std::lock_guard<std::mutex> g(mx); closed.insert(sid); }
    printf("close sid=%lu (%s)\n", (unsigned long)sid, e.message.c_str());
    if (e.message == "shutdown") {                       // reconnect-on-close pattern
      auto r = eng.connect("127.0.0.1", port, TlsMode::None);
      if (r.isOk()) { std::lock_guard<std::mutex> g(mx); seen.insert(r.value()); printf("  reconnect from the close callback: connect() returned ok(sid=%lu)\n", (unsigned long)r.value()); }
      else printf("  reconnect refused: %s\n", r.error().message.c_str());
    }
  };
  eng.setCallbacks(cbs);
  if (!eng.start().isOk() || !eng.addListener("127.0.0.1", port, TlsMode::None).isOk()) { printf("setup failed\n"); return 2; }
  int c = ::socket(AF_INET, SOCK_STREAM, 0); sockaddr_in a{}; a.sin_family = AF_INET; a.sin_port = htons(port); inet_pton(AF_INET, "127.0.0.1", &a.sin_addr);
  ::connect(c, (sockaddr *)&a, sizeof a);
  std::this_thread::sleep_for(std::chrono::milliseconds(200));
  eng.stop();                                            // orderly stop
  std::this_thread::sleep_for(std::chrono::milliseconds(300));
  int missing = 0;
  for (auto sid : seen) if (!closed.count(sid)) { printf("sid=%lu was handed to the application and never received a close notification\n", (unsigned long)sid); missing++; }
  printf("%s\n", missing ? "C02 VIOLATED: an identifier the application has seen got no close after an orderly stop" : "ok");
  ::close(c);
  return missing ? 1 : 0;
}
