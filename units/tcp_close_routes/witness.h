/* WITNESS (unbounded) container images, selected by -DSD_WITNESS instead of the bounded arrays of bounded.h - same type names, same API.
 *
 *   _sessions  iora_smapN  any number `n` of entries; the entry of ONE arbitrary ghost id G_WSID (if present: `has`) sits at the arbitrary
 *              position gpos < n and is the real heap object `val`; every other position holds SOME OTHER session: nth() re-draws the scratch
 *              object *G_OTHER_SESS with arbitrary content - except: its id is not G_WSID, its fd is not G_WFD, its SSL object is not G_WSSL, and
 *              it is OPEN (table invariant TABINV: closeNow erases what it closes and shutdownDrain clears the table, so a closed session is
 *              never found in the table; the bounded cross-check shutdownDrain_b3 also covers closed entries). Writes to it are forgotten
 *              (frame "other sessions": nothing is claimed about them beyond the per-iteration clauses of the step proof sd_step).
 *   toClose    iora_sptrvec  same shape: push_back() recognises the witness object by address (G_WSESS)
 *   _fdTags    iora_tmapN  count + the tag of ONE arbitrary ghost fd G_WFD; other fds are found nondeterministically (only while entries remain)
 *   _listeners iora_lmapN / iora_lptrvec  count + scratch listener *G_OTHER_LST (fd not G_WFD)
 *   _cmds      iora_cmdq   count + the command at gpos that is "the Connect carrying G_WSID" (if any); other positions: any command, a Connect
 *              among them carries another id
 * A clause proved for the unconstrained witnesses holds for every id / fd / queued connect; loops are closed by loop contracts (pre.h). */
#ifndef TCP_CLOSE_ROUTES_WITNESS_H
#define TCP_CLOSE_ROUTES_WITNESS_H
typedef struct { uint64_t id; int fd; TlsMode tls; } Listener;
typedef struct { bool isListener; Listener *lst; Session *sess; } Tag;
typedef struct { unsigned set_calls; bool value; } iora_promise;
typedef struct { Cmd t; struct { SessionId sid; } c; iora_promise *listenerReady; } Command;
SessionId G_WSID; int G_WFD; SSL *G_WSSL;
Session *G_WSESS, *G_OTHER_SESS; Session G_W0;      /* G_W0: the witness session's state at entry; it is (re)materialised when the close loop reaches it - nothing else touches it before */ Listener *G_OTHER_LST; iora_promise G_other_promise;
SessionId nondet_sid(void); 

static inline Session *iora_draw_other_session(void)
{
  Session *o = G_OTHER_SESS;
  SSL *any_ssl; o->id = nondet_u64(); o->fd = nondet_int(); o->ssl = nondet_bool() ? (SSL *)0 : any_ssl; o->tlsMode = nondet_int(); o->tlsState = nondet_int();
  o->tlsWantWrite = nondet_bool(); o->wantWrite = nondet_bool(); o->connectPending = nondet_bool(); o->closed = 0 /* TABINV */;
  o->connectTimeoutId = nondet_u64(); o->handshakeTimeoutId = nondet_u64(); o->writeStallTimeoutId = nondet_u64();
  IORA_ASSUME(o->id != G_WSID && o->fd != G_WFD && o->fd >= 0 && (o->ssl == 0 || o->ssl != G_WSSL));   /* ids, fds, SSL objects are not shared */
  return o;
}
/* unordered_map<SessionId, unique_ptr<Session>> */
typedef struct { size_t n; bool has; size_t gpos; Session *val; } iora_smapN;
static inline size_t iora_smapN_size(const iora_smapN *m) { return m->n; }
static inline Session *iora_smapN_nth(const iora_smapN *m, size_t i)
{ IORA_ASSERT(i < m->n, "map iteration inside the map"); if (m->has && i == m->gpos) return m->val; return iora_draw_other_session(); }
static inline bool iora_smapN_emplace(iora_smapN *m, SessionId id, Session *s)
{ if (id == G_WSID) { if (m->has) { free(s); return 0; } IORA_ASSERT(m->n < SIZE_MAX, "map growth"); m->has = 1; m->val = s; m->n++; m->gpos = nondet_size_t(); IORA_ASSUME(m->gpos < m->n); return 1; }
  IORA_ASSERT(m->n < SIZE_MAX, "map growth"); m->n++; if (m->has && nondet_bool() && m->gpos + 1 < m->n) m->gpos++; return 1; }     /* another (fresh) id: some position */
static inline bool iora_smapN_erase_id(iora_smapN *m, SessionId id)
{ if (id == G_WSID) { if (!m->has) return 0; m->has = 0; free(m->val); m->n--; return 1; }
  if (m->n > (m->has ? 1u : 0u) && nondet_bool()) { m->n--; if (m->has && m->gpos >= m->n) m->gpos = m->n - 1; return 1; } return 0; }
static inline Session *iora_smapN_lookup(const iora_smapN *m, SessionId id) { if (id == G_WSID) return m->has ? m->val : (Session *)0; return nondet_bool() ? G_OTHER_SESS : (Session *)0; }
static inline void iora_smapN_destroy_all(iora_smapN *m) { if (m->has) free(m->val); m->has = 0; m->n = 0; }
/* unordered_map<ListenerId, unique_ptr<Listener>> */
typedef struct { size_t n; } iora_lmapN;
static inline Listener *iora_draw_other_listener(void) { Listener *l = G_OTHER_LST; l->id = nondet_u64(); l->fd = nondet_int(); l->tls = nondet_int(); IORA_ASSUME(l->fd >= 0 && l->fd != G_WFD); return l; }
static inline size_t iora_lmapN_size(const iora_lmapN *m) { return m->n; }
static inline Listener *iora_lmapN_nth(const iora_lmapN *m, size_t i) { IORA_ASSERT(i < m->n, "map iteration inside the map"); return iora_draw_other_listener(); }
static inline void iora_lmapN_clear(iora_lmapN *m) { m->n = 0; }
/* std::vector<Session *> / std::vector<Listener *> */
typedef struct { size_t n; bool has; size_t gpos; Session *val; } iora_sptrvec;
#define iora_sptrvec_DEFAULT ((iora_sptrvec){0, 0, 0, 0})
static inline void iora_sptrvec_reserve(iora_sptrvec *v, size_t n) { (void)v; (void)n; }
static inline void iora_sptrvec_push_back(iora_sptrvec *v, Session *s) { IORA_ASSERT(v->n < SIZE_MAX, "vector growth"); if (s == G_WSESS && s != 0) { v->has = 1; v->gpos = v->n; v->val = s; } v->n++; }
static inline size_t iora_sptrvec_size(const iora_sptrvec *v) { return v->n; }
static inline Session *iora_sptrvec_nth(const iora_sptrvec *v, size_t i) { IORA_ASSERT(i < v->n, "vector iteration inside the vector"); if (v->has && i == v->gpos) { *G_WSESS = G_W0; return G_WSESS; }     /* via the global: a havocked-and-pinned pointer field is not in CBMC's value set */
  return iora_draw_other_session(); }
typedef struct { size_t n; } iora_lptrvec;
#define iora_lptrvec_DEFAULT ((iora_lptrvec){0})
static inline void iora_lptrvec_reserve(iora_lptrvec *v, size_t n) { (void)v; (void)n; }
static inline void iora_lptrvec_push_back(iora_lptrvec *v, Listener *s) { (void)s; IORA_ASSERT(v->n < SIZE_MAX, "vector growth"); v->n++; }
static inline size_t iora_lptrvec_size(const iora_lptrvec *v) { return v->n; }
static inline Listener *iora_lptrvec_nth(const iora_lptrvec *v, size_t i) { IORA_ASSERT(i < v->n, "vector iteration inside the vector"); return iora_draw_other_listener(); }
/* unordered_map<int, unique_ptr<Tag>> */
typedef struct { size_t n; bool has; Tag *val; } iora_tmapN;
typedef struct { bool found; bool is_w; } iora_tmapN_it;
static inline iora_tmapN_it iora_tmapN_find(const iora_tmapN *m, int fd)
{ iora_tmapN_it it; if (fd == G_WFD) { it.is_w = 1; it.found = m->has; } else { it.is_w = 0; it.found = m->n > (m->has ? 1u : 0u) && nondet_bool(); } return it; }
static inline bool iora_tmapN_is_end(const iora_tmapN *m, iora_tmapN_it it) { (void)m; return !it.found; }
static inline void iora_tmapN_erase_it(iora_tmapN *m, iora_tmapN_it it)
{ IORA_ASSERT(it.found && m->n > 0, "unordered_map::erase(iterator): dereferenceable iterator"); if (it.is_w) { IORA_ASSERT(m->has, "iterator still valid"); free(m->val); m->has = 0; } m->n--; }
static inline size_t iora_tmapN_erase(iora_tmapN *m, int fd) { iora_tmapN_it it = iora_tmapN_find(m, fd); if (!it.found) return 0; iora_tmapN_erase_it(m, it); return 1; }
static inline bool iora_tmapN_emplace(iora_tmapN *m, int fd, Tag *t)
{ IORA_ASSERT(m->n < SIZE_MAX, "map growth"); if (fd == G_WFD) { if (m->has) { free(t); return 0; } m->has = 1; m->val = t; m->n++; return 1; } m->n++; return 1; }
static inline void iora_tmapN_clear(iora_tmapN *m) { if (m->has) free(m->val); m->has = 0; m->n = 0; }
static inline Tag *iora_tmapN_lookup(const iora_tmapN *m, int fd) { return (fd == G_WFD && m->has) ? m->val : (Tag *)0; }
/* std::deque<Command> */
typedef struct { size_t n; bool has; size_t gpos; Command val; Command other; } iora_cmdq;
#define iora_cmdq_DEFAULT ((iora_cmdq){0})
static inline void iora_cmdq_swap(iora_cmdq *a, iora_cmdq *b) { iora_cmdq t = *a; *a = *b; *b = t; }
static inline size_t iora_cmdq_size(const iora_cmdq *q) { return q->n; }
static inline Command *iora_cmdq_nth(iora_cmdq *q, size_t i)
{ IORA_ASSERT(i < q->n, "deque iteration inside the deque"); if (q->has && i == q->gpos) return &q->val;
  q->other.t = nondet_int(); q->other.c.sid = nondet_u64(); G_other_promise.set_calls = 0; G_other_promise.value = 1; q->other.listenerReady = nondet_bool() ? &G_other_promise : (iora_promise *)0;
  IORA_ASSUME(q->other.t >= Cmd_Shutdown && q->other.t <= Cmd_Close && q->other.c.sid != G_WSID);
  return &q->other; }
#define IORA_EACH_REF_c(q, k) Command *c = iora_cmdq_nth(&(q), (k))
#endif
