// REPLAY adapter for unit tcp_close_routes (shutdownDrain): builds the scenario found by the bounded SEARCH harness on the REAL TcpEngine
// (constructed without start(); sessions, fd tags, listeners and queued commands placed by hand with -fno-access-control; epoll_ctl / close /
// SSL_shutdown / SSL_free interposed) and evaluates the clauses natively.
// PRE = number of connect() calls issued BEFORE shutdownDrain (to a live loopback listener created here): their Connect commands are in the
//       queue when the drain starts, so its own process() must execute them and the close loop must then close the new sessions.
// Inputs: NS sessions (ids 11.., fds 101..), SSLMASK, NL listeners (fd 1001), NCONN queued Connect commands (ids 21..), HASCB, W (witness; unused here: all ids are checked)
#include "iora/network/detail/tcp_engine.hpp"
#include "replay_io.h"
#include <sys/epoll.h>
#include <sys/syscall.h>
#include <map>
#include <arpa/inet.h>
using namespace iora::network;
static std::map<int, int> closes_of_fd, dels_of_fd; static unsigned shut = 0, freed = 0;
// The commands must arrive AFTER shutdownDrain's own process() call (as they do when another thread - or a close callback - calls
// connect() while the drain runs): they are injected at the first interposed system call, which happens after process().
static TcpEngine *g_eng = nullptr; static size_t g_inject = 0; static bool g_injected = false;
static void inject() {
  if (g_injected || !g_eng) return; g_injected = true;
  for (size_t i = 0; i < g_inject; i++) { TcpEngine::ConnectReq cr{21 + i, "127.0.0.1", 9, TlsMode::None}; g_eng->enqueue(TcpEngine::Command::connect(cr)); }   // what connect() does after allocating the id
}
extern "C" int epoll_ctl(int, int op, int fd, struct epoll_event *) { inject(); if (op == EPOLL_CTL_DEL) dels_of_fd[fd]++; return 0; }
extern "C" int close(int fd) { if (fd >= 100 && fd < 2000) { inject(); closes_of_fd[fd]++; return 0; } return (int)syscall(SYS_close, fd); }
extern "C" int SSL_shutdown(SSL *) { shut++; return 1; }
extern "C" void SSL_free(SSL *) { freed++; }
int main(int argc, char **argv) {
  if (argc < 2) { printf("usage: replay <inputs>\n"); return 2; }
  auto in = replay_io::load(argv[1]);
  auto U = [&](const char *k) { return (size_t)replay_io::u64(in[k]); };
  if (in.count("RESTART") && U("RESTART")) {      // ID3: ids handed out by connect() before and after stop() + start() on the REAL engine (real epoll/eventfd, no sockets needed)
    TransportConfig c2; c2.enableHighResolutionTimers = false; TcpEngine e2(c2);
    if (!e2.start().isOk()) { printf("REPLAY-SKIP: engine does not start here\n"); return 0; }
    auto a = e2.connect("127.0.0.1", 9, TlsMode::None); auto b = e2.connect("127.0.0.1", 9, TlsMode::None);
    e2.stop();
    if (!e2.start().isOk()) { printf("REPLAY-SKIP: engine does not restart here\n"); return 0; }
    auto c = e2.connect("127.0.0.1", 9, TlsMode::None);
    e2.stop();
    if (!a.isOk() || !b.isOk() || !c.isOk()) replay_io::fail("connect() refused");
    if (!(a.value() < b.value() && b.value() < c.value())) replay_io::fail("ID3 ids " + std::to_string(a.value()) + ", " + std::to_string(b.value()) + " before stop()+start(), then " + std::to_string(c.value()) + ": an identifier is reused within one transport");
    replay_io::ok("ID3 ids strictly increase across stop() + start()"); return 0;
  }
  if (in.count("GAUGE") && U("GAUGE")) {      // G1: connect to a live loopback listener through the REAL doConnect; the gauge as seen from the connect callback and afterwards
    TransportConfig c3; c3.enableHighResolutionTimers = false; TcpEngine e3(c3);
    int lfd = ::socket(AF_INET, SOCK_STREAM, 0); sockaddr_in a{}; a.sin_family = AF_INET; a.sin_port = 0; inet_pton(AF_INET, "127.0.0.1", &a.sin_addr); socklen_t al = sizeof a;
    if (::bind(lfd, (sockaddr *)&a, sizeof a) != 0 || ::listen(lfd, 8) != 0 || ::getsockname(lfd, (sockaddr *)&a, &al) != 0) { printf("REPLAY-SKIP: no loopback listener\n"); return 0; }
    long gaugeAtAnnounce = -1; int announced = 0, closedN = 0;
    e3._cbs.onConnect = [&](SessionId, const TransportAddress &) { announced++; gaugeAtAnnounce = (long)e3._atomicStats.sessionsCurrent.load(); };
    e3._cbs.onClose = [&](SessionId, const TransportErrorInfo &) { closedN++; };
    auto r = e3.connect("127.0.0.1", ntohs(a.sin_port), TlsMode::None);
    e3.process();
    std::string m;
    if (announced && gaugeAtAnnounce < 1) m += "G1 the session was announced (onConnect) while sessionsCurrent == " + std::to_string(gaugeAtAnnounce) + " (the gauge under-counts)";
    size_t inTable = e3._sessions.size(), gauge = e3._atomicStats.sessionsCurrent.load();
    if (gauge != inTable) m += (m.empty() ? "" : " || ") + std::string("G1 sessionsCurrent == ") + std::to_string(gauge) + " with " + std::to_string(inTable) + " session(s) in the table";
    for (auto it = e3._sessions.begin(); it != e3._sessions.end(); it = e3._sessions.begin()) e3.closeNow(it->second.get(), TransportError::Unknown, "replay teardown", 0);
    if (e3._atomicStats.sessionsCurrent.load() != 0) m += (m.empty() ? "" : " || ") + std::string("G1 the gauge is ") + std::to_string(e3._atomicStats.sessionsCurrent.load()) + " after every session has closed";
    syscall(SYS_close, lfd); (void)r;
    if (!m.empty()) replay_io::fail(m);
    replay_io::ok(std::string("G1 gauge consistent (announced=") + std::to_string(announced) + ")"); return 0;
  }
  size_t NS = U("NS"), NL = U("NL"), NCONN = U("NCONN"), HASCB = U("HASCB"), SSLMASK = U("SSLMASK");
  if (NS > 3) NS = 3; if (NL > 1) NL = 1; if (NCONN > 2) NCONN = 2;
  TransportConfig cfg; cfg.enableHighResolutionTimers = false;
  TcpEngine eng(cfg);
  std::map<SessionId, int> closeCount;
  if (HASCB) eng._cbs.onClose = [&](SessionId sid, const TransportErrorInfo &) { closeCount[sid]++; };
  size_t sslOpen = 0;
  for (size_t i = 0; i < NS; i++) {
    auto s = std::make_unique<TcpEngine::Session>(); s->id = 11 + i; s->fd = 101 + (int)i;
    if ((SSLMASK >> i) & 1) { s->ssl = (SSL *)0x1000; sslOpen++; }
    auto tg = std::make_unique<TcpEngine::Tag>(); tg->sess = s.get(); eng._fdTags.emplace(s->fd, std::move(tg));
    eng._sessions.emplace(s->id, std::move(s));
  }
  for (size_t i = 0; i < NL; i++) {
    auto l = std::make_unique<TcpEngine::Listener>(); l->id = 1; l->fd = 1001;
    auto tg = std::make_unique<TcpEngine::Tag>(); tg->isListener = true; tg->lst = l.get(); eng._fdTags.emplace(l->fd, std::move(tg));
    eng._listeners.emplace(l->id, std::move(l));
  }
  g_eng = &eng; g_inject = NCONN;
  size_t PRE = in.count("PRE") ? U("PRE") : 0; if (PRE > 2) PRE = 2;
  std::vector<SessionId> preIds; int lfd = -1;
  if (PRE) {
    lfd = ::socket(AF_INET, SOCK_STREAM, 0); sockaddr_in a{}; a.sin_family = AF_INET; a.sin_port = 0; inet_pton(AF_INET, "127.0.0.1", &a.sin_addr);
    socklen_t al = sizeof a; if (::bind(lfd, (sockaddr *)&a, sizeof a) != 0 || ::listen(lfd, 8) != 0 || ::getsockname(lfd, (sockaddr *)&a, &al) != 0) { printf("REPLAY-SKIP: no loopback listener\n"); return 0; }
    for (size_t i = 0; i < PRE; i++) { auto r = eng.connect("127.0.0.1", ntohs(a.sin_port), TlsMode::None); if (r.isOk()) preIds.push_back(r.value()); }   // ids now held by the application
  }
  eng._atomicStats.sessionsCurrent = NS;
  std::string msgs; auto bad = [&](const std::string &m) { msgs += (msgs.empty() ? "" : " || ") + m; };
  eng.shutdownDrain();
  for (size_t i = 0; i < NS; i++) {
    if (closeCount[11 + i] != (HASCB ? 1 : 0)) bad("SD-A session " + std::to_string(11 + i) + " got " + std::to_string(closeCount[11 + i]) + " close notifications");
    if (closes_of_fd[101 + (int)i] != 1 || dels_of_fd[101 + (int)i] != 1) bad("SD-D fd of session " + std::to_string(11 + i) + " closed/deregistered a wrong number of times");
  }
  for (auto sid : preIds) if (HASCB && closeCount[sid] != 1) bad("SD-O/SD-A id " + std::to_string(sid) + " was returned by connect() before the drain and got " + std::to_string(closeCount[sid]) + " close notifications");
  if (!eng._sessions.empty()) bad("SD-B session table not empty: " + std::to_string(eng._sessions.size()) + " session(s) created after the close loop");
  if (eng._atomicStats.sessionsCurrent.load() != 0) bad("SD-C gauge of open sessions is " + std::to_string(eng._atomicStats.sessionsCurrent.load()) + " after the drain");
  if (preIds.empty() && eng._atomicStats.closed.load() != NS) bad("SD-C closed counter");
  if (shut != sslOpen || freed != sslOpen) bad("SD-D SSL_shutdown / SSL_free count");
  if (!eng._fdTags.empty()) bad("SD-1 " + std::to_string(eng._fdTags.size()) + " fd tag(s) left behind, pointing to destroyed sessions (stale routing after start(); see demo_SD1.cpp)");
  if (HASCB && g_injected) for (size_t i = 0; i < NCONN; i++) if (closeCount[21 + i] != 1) bad("SD-2 id " + std::to_string(21 + i) + " was returned by connect() and got " + std::to_string(closeCount[21 + i]) + " close notifications (see demo_SD2.cpp)");
  if (!eng._cmdsClosed || !eng._cmds.empty()) bad("SD-E queue not closed / not empty");
  if (!msgs.empty()) replay_io::fail(msgs);
  replay_io::ok("shutdownDrain clauses hold on this scenario");
  return 0;
}
