"""Unit-local extraction plugin for tcp_close_routes.

hook_begin for the two id-allocation block targets: a SOURCE SCAN of tcp_engine.hpp that keeps the clause "identifiers are strictly
increasing, never reused" honest: the allocator `_nextSessionId` may be touched only by its declaration, by the two `_nextSessionId++`
statements under contract and by writes in the prologue of start() (block target TcpEngine_start_prologue, clause ID3), and `Session::id` may be assigned only from those two values (`s->id = sid;` in onListener, `s->id = cr.sid;`
in doConnect, where cr.sid is what connect() allocated). Anything else is an extraction break (exit 2): the contract could not vouch for it."""
import os
import re
from vt.x2c import ExtractionBreak
from vt import pipeline as pl


def hook_begin(t, rw):
    if not rw.prefix.startswith('TcpEngine_alloc_id'):
        return t
    path = os.path.join(pl.REPO, rw.unit['file'])
    src = open(path, encoding='utf-8', errors='replace').read()
    src = re.sub(r'//[^\n]*', '', src)
    src = re.sub(r'/\*.*?\*/', '', src, flags=re.S)
    uses = [m.start() for m in re.finditer(r'\b_nextSessionId\b', src)]
    incs = len(re.findall(r'\b_nextSessionId\s*\+\+', src))
    decl = len(re.findall(r'std::atomic<SessionId>\s+_nextSessionId\s*\{\s*1\s*\}\s*;', src))
    # writes `_nextSessionId.store(e)` / `_nextSessionId = e;` inside the prologue of start() are under contract (block target TcpEngine_start_prologue,
    # clause ID3: new >= old); every other use stays an extraction break
    m0 = re.search(r'StartResult\s+start\s*\(\s*\)', src)
    m1 = re.search(r'if\s*\(\s*!\s*initTls\s*\(\s*\)\s*\)', src[m0.end():]) if m0 else None
    lo, hi = (m0.end(), m0.end() + m1.start()) if (m0 and m1) else (0, 0)
    stores = [m.start() for m in re.finditer(r'\b_nextSessionId\s*(?:\.\s*store\s*\(|=[^=])', src)]
    covered = [p for p in stores if lo <= p < hi]
    unknown = len(uses) - 3 - len(covered)
    if incs != 2 or decl != 1 or unknown != 0 or len(covered) != len(stores):
        raise ExtractionBreak(f"id allocator: `_nextSessionId` is used {len(uses)} times ({incs} post-increments, {decl} declarations starting at 1, "
                              f"{len(covered)} writes inside the start() prologue that are under contract, {len(stores) - len(covered)} writes elsewhere); "
                              f"the contract covers the declaration, two post-increments and writes in the start() prologue")
    assigns = re.findall(r'(\w+)\s*->\s*id\s*=\s*([^;]+);', src)
    ok = sorted(v.strip() for r, v in assigns if v.strip() != 'lc.id')          # `l->id = lc.id;` is Listener::id (ListenerId space)
    if ok != ['cr.sid', 'sid']:
        raise ExtractionBreak(f"Session::id is assigned from {ok}; the contract covers exactly `s->id = sid;` (onListener) and `s->id = cr.sid;` (doConnect)")
    rw.R.fire('scan: _nextSessionId uses / Session::id assignments', 1)
    return t
