"""Unit-local extraction plugin for tcp_close_routes.

hook_begin for the two id-allocation block targets: a SOURCE SCAN of tcp_engine.hpp that keeps the clause "identifiers are strictly
increasing, never reused" honest: the allocator `_nextSessionId` may be touched only by its declaration and by the two `_nextSessionId++`
statements under contract, and `Session::id` may be assigned only from those two values (`s->id = sid;` in onListener, `s->id = cr.sid;`
in doConnect, where cr.sid is what connect() allocated). Anything else is an extraction break (exit 2): the contract could not vouch for it."""
import os
import re
from vt.x2c import ExtractionBreak
from vt import pipeline as pl


def hook_begin(t, rw):
    if not rw.prefix.startswith('TcpEngine_alloc_id'):
        return t
    path = os.path.join(pl.REPO, rw.unit['file'])
    src = open(path, encoding='utf-8', errors='replace').read()
    src = re.sub(r'//[^\n]*', '', src)
    src = re.sub(r'/\*.*?\*/', '', src, flags=re.S)
    uses = [m.start() for m in re.finditer(r'\b_nextSessionId\b', src)]
    incs = len(re.findall(r'\b_nextSessionId\s*\+\+', src))
    decl = len(re.findall(r'std::atomic<SessionId>\s+_nextSessionId\s*\{\s*1\s*\}\s*;', src))
    if len(uses) != 3 or incs != 2 or decl != 1:
        raise ExtractionBreak(f"id allocator: `_nextSessionId` is used {len(uses)} times ({incs} post-increments, {decl} declarations starting at 1); "
                              f"the contract covers exactly the declaration and two post-increments")
    assigns = re.findall(r'(\w+)\s*->\s*id\s*=\s*([^;]+);', src)
    ok = sorted(v.strip() for r, v in assigns if v.strip() != 'lc.id')          # `l->id = lc.id;` is Listener::id (ListenerId space)
    if ok != ['cr.sid', 'sid']:
        raise ExtractionBreak(f"Session::id is assigned from {ok}; the contract covers exactly `s->id = sid;` (onListener) and `s->id = cr.sid;` (doConnect)")
    rw.R.fire('scan: _nextSessionId uses / Session::id assignments', 1)
    return t
