/* BOUNDED container images for the whole-function view of TcpEngine::shutdownDrain (labelled bounded stand-in: at most IORA_NS sessions,
 * IORA_NL listeners, IORA_NT fd tags, IORA_NC queued commands). The iteration order of the maps is the array order (any order is
 * covered because the array content is nondeterministic). clear() of an owning map DESTROYS (frees) the mapped objects.
 * Included BEFORE iora_tcp_env.h is not possible (needs Session): this header is included from pre.h after the Session typedef. */
#ifndef TCP_CLOSE_ROUTES_BOUNDED_H
#define TCP_CLOSE_ROUTES_BOUNDED_H
#define IORA_NS 3
#define IORA_NL 1
#define IORA_NT 4
#define IORA_NC 2
typedef struct { uint64_t id; int fd; TlsMode tls; } Listener;
typedef struct { bool isListener; Listener *lst; Session *sess; } Tag;
typedef struct { unsigned set_calls; bool value; } iora_promise;          /* std::promise<bool> behind a shared_ptr */
typedef struct { Cmd t; struct { SessionId sid; } c; iora_promise *listenerReady; } Command;

/* unordered_map<SessionId, unique_ptr<Session>> */
typedef struct { size_t n; Session *v[IORA_NS]; } iora_smapN;
static inline size_t iora_smapN_size(const iora_smapN *m) { return m->n; }
static inline Session *iora_smapN_nth(const iora_smapN *m, size_t i) { IORA_ASSERT(i < m->n, "map iteration inside the map"); return m->v[i]; }
/* emplace: inserts only if the key is absent; otherwise the unique_ptr argument dies with the call (the object is destroyed) */
static inline bool iora_smapN_emplace(iora_smapN *m, SessionId id, Session *s)
{ for (size_t i = 0; i < IORA_NS; i++) if (i < m->n && m->v[i]->id == id) { free(s); return 0; }
  IORA_ASSERT(m->n < IORA_NS, "bounded stand-in: map within the bound"); m->v[m->n++] = s; return 1; }
static inline bool iora_smapN_erase_id(iora_smapN *m, SessionId id)
{ for (size_t i = 0; i < IORA_NS; i++) if (i < m->n && m->v[i]->id == id) { free(m->v[i]); for (size_t j = 0; j + 1 < IORA_NS; j++) if (j >= i && j + 1 < m->n) m->v[j] = m->v[j + 1]; m->n--; return 1; }
  return 0; }
static inline Session *iora_smapN_lookup(const iora_smapN *m, SessionId id) { for (size_t i = 0; i < IORA_NS; i++) if (i < m->n && m->v[i]->id == id) return m->v[i]; return NULL; }
static inline void iora_smapN_destroy_all(iora_smapN *m) { for (size_t i = 0; i < IORA_NS; i++) if (i < m->n) free(m->v[i]); m->n = 0; }
/* unordered_map<ListenerId, unique_ptr<Listener>> */
typedef struct { size_t n; Listener *v[IORA_NL]; } iora_lmapN;
static inline size_t iora_lmapN_size(const iora_lmapN *m) { return m->n; }
static inline Listener *iora_lmapN_nth(const iora_lmapN *m, size_t i) { IORA_ASSERT(i < m->n, "map iteration inside the map"); return m->v[i]; }
static inline void iora_lmapN_clear(iora_lmapN *m) { for (size_t i = 0; i < IORA_NL; i++) if (i < m->n) free(m->v[i]); m->n = 0; }
/* std::vector<Session *> / std::vector<Listener *> */
typedef struct { size_t n; Session *v[IORA_NS]; } iora_sptrvec;
#define iora_sptrvec_DEFAULT ((iora_sptrvec){0, {0}})
static inline void iora_sptrvec_reserve(iora_sptrvec *v, size_t n) { (void)v; (void)n; }
static inline void iora_sptrvec_push_back(iora_sptrvec *v, Session *s) { IORA_ASSERT(v->n < IORA_NS, "bounded stand-in: vector within the bound"); v->v[v->n++] = s; }
static inline size_t iora_sptrvec_size(const iora_sptrvec *v) { return v->n; }
static inline Session *iora_sptrvec_nth(const iora_sptrvec *v, size_t i) { IORA_ASSERT(i < v->n, "vector iteration inside the vector"); return v->v[i]; }
typedef struct { size_t n; Listener *v[IORA_NL]; } iora_lptrvec;
#define iora_lptrvec_DEFAULT ((iora_lptrvec){0, {0}})
static inline void iora_lptrvec_reserve(iora_lptrvec *v, size_t n) { (void)v; (void)n; }
static inline void iora_lptrvec_push_back(iora_lptrvec *v, Listener *s) { IORA_ASSERT(v->n < IORA_NL, "bounded stand-in: vector within the bound"); v->v[v->n++] = s; }
static inline size_t iora_lptrvec_size(const iora_lptrvec *v) { return v->n; }
static inline Listener *iora_lptrvec_nth(const iora_lptrvec *v, size_t i) { IORA_ASSERT(i < v->n, "vector iteration inside the vector"); return v->v[i]; }
/* unordered_map<int, unique_ptr<Tag>> */
typedef struct { size_t n; int fd[IORA_NT]; Tag *v[IORA_NT]; } iora_tmapN;
typedef struct { bool found; size_t i; } iora_tmapN_it;
static inline iora_tmapN_it iora_tmapN_find(const iora_tmapN *m, int fd)
{ iora_tmapN_it it = { 0, 0 }; for (size_t i = 0; i < IORA_NT; i++) if (i < m->n && !it.found && m->fd[i] == fd) { it.found = 1; it.i = i; } return it; }
static inline bool iora_tmapN_is_end(const iora_tmapN *m, iora_tmapN_it it) { (void)m; return !it.found; }
static inline void iora_tmapN_erase_it(iora_tmapN *m, iora_tmapN_it it)
{ IORA_ASSERT(it.found && it.i < m->n, "unordered_map::erase(iterator): dereferenceable iterator"); free(m->v[it.i]);
  for (size_t i = 0; i + 1 < IORA_NT; i++) if (i >= it.i && i + 1 < m->n) { m->fd[i] = m->fd[i + 1]; m->v[i] = m->v[i + 1]; } m->n--; }
static inline bool iora_tmapN_emplace(iora_tmapN *m, int fd, Tag *t)
{ iora_tmapN_it it = iora_tmapN_find(m, fd); if (it.found) { free(t); return 0; }
  IORA_ASSERT(m->n < IORA_NT, "bounded stand-in: map within the bound"); m->fd[m->n] = fd; m->v[m->n] = t; m->n++; return 1; }
static inline void iora_tmapN_clear(iora_tmapN *m) { for (size_t i = 0; i < IORA_NT; i++) if (i < m->n) free(m->v[i]); m->n = 0; }
static inline size_t iora_tmapN_erase(iora_tmapN *m, int fd) { iora_tmapN_it it = iora_tmapN_find(m, fd); if (!it.found) return 0; iora_tmapN_erase_it(m, it); return 1; }
static inline Tag *iora_tmapN_lookup(const iora_tmapN *m, int fd) { iora_tmapN_it it = iora_tmapN_find(m, fd); return it.found ? m->v[it.i] : (Tag *)0; }
/* std::deque<Command> */
typedef struct { size_t n; Command v[IORA_NC]; } iora_cmdq;
#define iora_cmdq_DEFAULT ((iora_cmdq){0})
static inline void iora_cmdq_swap(iora_cmdq *a, iora_cmdq *b) { iora_cmdq t = *a; *a = *b; *b = t; }
static inline size_t iora_cmdq_size(const iora_cmdq *q) { return q->n; }
static inline Command *iora_cmdq_nth(iora_cmdq *q, size_t i) { IORA_ASSERT(i < q->n, "deque iteration inside the deque"); return &q->v[i]; }
#define IORA_EACH_REF_c(q, k) Command *c = iora_cmdq_nth(&(q), (k))
#endif
