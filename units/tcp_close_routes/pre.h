/* type environment + ghost state for unit tcp_close_routes:
 *   (a) TcpEngine::shutdownDrain - whole function over BOUNDED containers (bounded.h) + its session-loop body as an unbounded step
 *   (b) TcpEngine::doConnect failure / completion branches as block targets
 *   (c) session id allocation (_nextSessionId++) */
#define IORA_TCP_CUSTOM_ENGINE
#include "iora_tcp_env.h"
#include "bounded.h"

typedef struct TcpEngine {
  TransportConfig _config; AtomicStats _atomicStats; int _epollFd, _eventFd, _timerFd;
  iora_mutex _cbMutex, _sessionRwMutex, _cmdMutex; Callbacks _cbs;
  iora_smapN _sessions; iora_lmapN _listeners; iora_tmapN _fdTags; iora_cmdq _cmds; bool _cmdsClosed;
  SessionId _nextSessionId; TimerService *_timerService; void *_sslCli, *_sslSrv;      /* SSL_CTX* of the client side */
} TcpEngine;

/* ---- witnesses: one arbitrary session id and one arbitrary fd; the stubs count the events that concern them ---- */
SessionId G_WSID; int G_WFD;
unsigned G_cb_calls, G_cbw_calls;            /* close callbacks: all / for the witness id */
bool G_cbw_in_table;                          /* the witness id was still in _sessions when its close callback ran (observation) */
unsigned G_wfd_close_calls, G_wfd_del_calls, G_wfd_close_seq, G_wfd_del_seq;
TransportError G_cbw_why;
static inline int iora_close_w(int fd) { int r = iora_close(fd); if (fd == G_WFD) { if (G_wfd_close_calls < 0x7fffffffu) G_wfd_close_calls++; G_wfd_close_seq = G_seq; } return r; }
static inline int iora_epoll_ctl_w(int epfd, int op, int fd, epoll_event *ev)
{ int r = iora_epoll_ctl(epfd, op, fd, ev); if (fd == G_WFD && op == EPOLL_CTL_DEL) { if (G_wfd_del_calls < 0x7fffffffu) G_wfd_del_calls++; G_wfd_del_seq = G_seq; } return r; }

/* R21 close callback stub. ASSUMPTION A: user code re-enters the engine only through the public command-queue API - which is exactly
 * how commands get into _cmds while shutdownDrain runs (modelled by the nondeterministic content of _cmds at entry). */
static inline void iora_cb_onClose(TcpEngine *self, SessionId sid, TransportError why, const char *msg, int sysErrno, int tlsErr)
{
  (void)msg; (void)sysErrno; (void)tlsErr;
  IORA_ASSERT(!self->_cbMutex.held, "CB1 user callback runs outside _cbMutex (copy-then-invoke)");
  IORA_ASSERT(!self->_sessionRwMutex.held && !self->_cmdMutex.held, "CB2 user callback runs outside _sessionRwMutex / _cmdMutex");
  if (G_cb_calls < 0x7fffffffu) G_cb_calls++;
  ++G_seq;
  if (sid == G_WSID)
  {
    if (G_cbw_calls < 0x7fffffffu) G_cbw_calls++;
    G_cbw_why = why; G_cbw_in_table = 0;
    for (size_t i = 0; i < IORA_NS; i++) if (i < self->_sessions.n && self->_sessions.v[i]->id == sid) G_cbw_in_table = 1;
  }
}
bool G_sd_cleared;               /* this shutdownDrain has cleared the table */
/* `_sessions.clear()`: under the write lock; destroys every session object */
static inline void TcpEngine_sessions_clear(TcpEngine *self)
{
  IORA_ASSERT(self->_sessionRwMutex.held, "LK3 _sessions is modified with _sessionRwMutex held (unique lock)");
  for (size_t i = 0; i < IORA_NS; i++) if (i < self->_sessions.n) free(self->_sessions.v[i]);
  self->_sessions.n = 0; G_sd_cleared = 1;
}
/* process(): the final drain of the command queue. Its ORDER inside shutdownDrain is an obligation (SD-O): it must run before this
 * shutdownDrain has closed any session and before the table is cleared - a command executed later (a queued Connect runs doConnect: new
 * session, gauge + 1, onConnect) would create state that nothing closes any more. Its EFFECT here: it may execute one queued Connect, i.e.
 * insert one new open session (fresh id G_proc_sid, fd G_proc_fd, with its fd tag, gauge + 1) - so a drain that runs after the close loop also
 * fails "table empty / gauge zero / every announced id closed". Commands that arrive AFTER it (other threads, close callbacks) are the
 * nondeterministic content of _cmds at entry, which it does not consume. */
unsigned G_proc_calls; bool G_proc_inserted; SessionId G_proc_sid; int G_proc_fd; bool IORA_PROC_MAY_INSERT;
static inline void TcpEngine_process(TcpEngine *self)
{
  IORA_ASSERT(!G_sd_cleared && G_cb_calls == 0 && G_fdclose_calls == 0,
              "SD-O the final process() of the command queue runs BEFORE shutdownDrain closes any session or clears the table (a Connect executed later is never closed)");
  if (G_proc_calls < 0x7fffffffu) G_proc_calls++;
  if (IORA_PROC_MAY_INSERT && !G_proc_inserted && self->_sessions.n < IORA_NS && self->_fdTags.n < IORA_NT && nondet_bool())
  {
    Session *s = malloc(sizeof(Session)); __CPROVER_assume(s != 0);
    Session z = {0}; *s = z; s->id = G_proc_sid; s->fd = G_proc_fd; s->connectPending = 1;
    self->_sessions.v[self->_sessions.n++] = s;
    Tag *t = malloc(sizeof(Tag)); __CPROVER_assume(t != 0); t->isListener = 0; t->lst = 0; t->sess = s;
    self->_fdTags.fd[self->_fdTags.n] = s->fd; self->_fdTags.v[self->_fdTags.n] = t; self->_fdTags.n++;
    self->_atomicStats.sessionsCurrent++;
    G_proc_inserted = 1;
  }
}
static inline void TcpEngine_freeTls(TcpEngine *self) { (void)self; }
unsigned G_promise_sets;
static inline void iora_promise_set(iora_promise *p, bool v) { if (p->set_calls < 1000) p->set_calls++; p->value = v; if (G_promise_sets < 0x7fffffffu) G_promise_sets++; }

/* ---- (b) doConnect blocks ---- */
typedef struct { SessionId sid; int host; uint16_t port; TlsMode tls; } ConnectReq;     /* host name: opaque */
typedef struct iora_addrinfo addrinfo;
typedef unsigned socklen_t;
struct sockaddr_storage { char b[128]; }; struct sockaddr;
#define SOL_SOCKET 1
#define SO_ERROR 4
#define ECONNREFUSED 111
#define ENETUNREACH 101
#define EHOSTUNREACH 113
#define ETIMEDOUT 110
#define IORA_MSG "message text dropped"
unsigned G_err_calls, G_conncb_calls, G_conncbw_calls, G_closeNow_calls, G_freeaddr_calls, G_conncb_seq, G_closeNow_seq; void *G_freeaddr_arg;
static inline void TcpEngine_err(TcpEngine *self, TransportError why) { (void)why; IORA_ASSERT(!self->_cbMutex.held, "CB1 error callback outside _cbMutex"); if (G_err_calls < 0x7fffffffu) G_err_calls++; }
static inline void iora_cb_onConnect(TcpEngine *self, SessionId sid)
{ IORA_ASSERT(!self->_cbMutex.held && !self->_sessionRwMutex.held, "CB1 user callback runs outside the engine mutexes");
  if (G_conncb_calls < 0x7fffffffu) G_conncb_calls++; if (sid == G_WSID && G_conncbw_calls < 0x7fffffffu) G_conncbw_calls++; G_conncb_seq = ++G_seq; }
static inline SSL *iora_SSL_new(void *ctx) { IORA_ASSERT(ctx != 0, "SSL_new(): non-null context"); return nondet_bool() ? (SSL *)0 : (SSL *)malloc(1); }   /* may fail */
static inline int iora_SSL_set_fd(SSL *ssl, int fd) { IORA_ASSERT(ssl != 0 && fd >= 0, "SSL_set_fd(): live SSL object, valid fd"); return 1; }
static inline void iora_SSL_set_connect_state(SSL *ssl) { IORA_ASSERT(ssl != 0, "SSL_set_connect_state(): live SSL object"); }
static inline Tag *iora_new_Tag(void) { Tag *t = malloc(sizeof(Tag)); __CPROVER_assume(t != 0); t->isListener = 0; t->lst = 0; t->sess = 0; return t; }   /* default member initialisers of struct Tag */
static inline int iora_getsockopt(int fd, int level, int opt, int *val, socklen_t *len) { (void)fd; (void)level; (void)opt; (void)len; G_errno = nondet_int(); int r = nondet_bool() ? -1 : 0; if (r == 0) *val = nondet_int(); return r; }
static inline int iora_getpeername(int fd, struct sockaddr *a, socklen_t *len) { (void)fd; (void)a; (void)len; G_errno = nondet_int(); return nondet_bool() ? -1 : 0; }
static inline void iora_freeaddrinfo(addrinfo *r) { if (G_freeaddr_calls < 0x7fffffffu) G_freeaddr_calls++; G_freeaddr_arg = r; }
static inline const char *TcpEngine_lastErr(TcpEngine *self) { (void)self; return IORA_MSG; }
unsigned G_acccb_calls, G_acccbw_calls; bool G_acccb_in_table; unsigned G_datacb_calls;
static inline void iora_cb_onAccept(TcpEngine *self, SessionId sid)
{ IORA_ASSERT(!self->_cbMutex.held && !self->_sessionRwMutex.held, "CB1 user callback runs outside the engine mutexes");
  if (G_acccb_calls < 0x7fffffffu) G_acccb_calls++; if (sid == G_WSID && G_acccbw_calls < 0x7fffffffu) G_acccbw_calls++;
  G_acccb_in_table = iora_smapN_lookup(&self->_sessions, sid) != 0; ++G_seq; }
/* bumpSess(): sessionsCurrent.fetch_add(1), peak = max(peak, current) (CAS loop; here sequential) */
static inline void TcpEngine_bumpSess(TcpEngine *self) { self->_atomicStats.sessionsCurrent++; if (self->_atomicStats.sessionsCurrent > self->_atomicStats.sessionsPeak) self->_atomicStats.sessionsPeak = self->_atomicStats.sessionsCurrent; }
static inline void TcpEngine_cancelConnectTimeout(TcpEngine *self, Session *s) { (void)self; if (nondet_bool()) s->connectTimeoutId = 0; }
static inline void TcpEngine_scheduleHandshakeTimeout(TcpEngine *self, Session *s) { (void)self; if (nondet_bool()) s->handshakeTimeoutId = nondet_u64(); }
/* closeNow: abstraction of the contract proved in unit tcp_close over the bounded tables: idempotent; marks closed, erases the fd tag and the
 * table entry (DESTROYING the session), closes the fd, updates the counters, reports exactly one close */
static inline void TcpEngine_closeNow(TcpEngine *self, Session *s, TransportError why, const char *msg, int tlsErr)
{
  if (!s || s->closed) return;
  s->closed = true;
  if (G_closeNow_calls < 0x7fffffffu) G_closeNow_calls++; G_closeNow_seq = ++G_seq;
  SessionId sid = s->id; int fd = s->fd;
  iora_tmapN_erase(&self->_fdTags, fd);
  iora_smapN_erase_id(&self->_sessions, sid);
  iora_close_w(fd);
  self->_atomicStats.closed++; self->_atomicStats.sessionsCurrent--;
  if (self->_cbs.onClose) iora_cb_onClose(self, sid, why, msg, 0, tlsErr);
}

#define IORA_LOOP_TcpEngine_shutdownDrain_1
#define IORA_LOOP_TcpEngine_shutdownDrain_2
#define IORA_LOOP_TcpEngine_shutdownDrain_3
#define IORA_LOOP_TcpEngine_shutdownDrain_4
#define IORA_LOOP_TcpEngine_shutdownDrain_5
