/* type environment + ghost state for unit tcp_close_routes:
 *   (a) TcpEngine::shutdownDrain - whole function over BOUNDED containers (bounded.h) + its session-loop body as an unbounded step
 *   (b) TcpEngine::doConnect failure / completion branches as block targets
 *   (c) session id allocation (_nextSessionId++) */
#define IORA_TCP_CUSTOM_ENGINE
#include "iora_tcp_env.h"
#ifdef SD_WITNESS
#include "witness.h"      /* unbounded: witness session / fd / queued connect, loops closed by loop contracts */
#else
#include "bounded.h"      /* bounded cross-check: concrete arrays */
#endif

typedef struct TcpEngine {
  TransportConfig _config; AtomicStats _atomicStats; int _epollFd, _eventFd, _timerFd;
  iora_mutex _cbMutex, _sessionRwMutex, _cmdMutex; Callbacks _cbs;
  iora_smapN _sessions; iora_lmapN _listeners; iora_tmapN _fdTags; iora_cmdq _cmds; bool _cmdsClosed;
  bool _running; SessionId _nextSessionId; TimerService *_timerService; void *_sslCli, *_sslSrv;      /* SSL_CTX* of the client side */
} TcpEngine;

/* ---- witnesses: one arbitrary session id and one arbitrary fd; the stubs count the events that concern them ---- */
#ifndef SD_WITNESS
SessionId G_WSID; int G_WFD; SSL *G_WSSL; Session *G_WSESS;
#endif
unsigned G_wssl_shut_calls, G_wssl_free_calls, G_wssl_shut_seq, G_wssl_free_seq;
unsigned G_wssl_shut_before_free, G_wfd_del_before_close, G_wssl_done_before_close;      /* 0/1: ordering of the witness events, decided when they happen (unsigned: a havocked _Bool has no canonical value) */
#ifdef SD_WITNESS
/* unbounded build: "other" SSL objects are abstract; only the witness object is tracked (used after free = obligation) */
static inline int iora_SSL_shutdown_w(SSL *ssl) { IORA_ASSERT(ssl != 0, "SSL_shutdown(): non-null SSL object"); IORA_ASSERT(ssl != G_WSSL || G_wssl_free_calls == 0, "SSL_shutdown(): object not freed yet");
  G_errno = nondet_int(); ++G_seq; if (ssl == G_WSSL) { if (G_wssl_shut_calls < 0x7fffffffu) G_wssl_shut_calls++; } return nondet_int(); }
static inline void iora_SSL_free_w(SSL *ssl) { IORA_ASSERT(ssl != G_WSSL || G_wssl_free_calls == 0, "SSL_free(): object freed once"); ++G_seq;
  if (ssl == G_WSSL) { G_wssl_shut_before_free = (G_wssl_shut_calls == 1) ? 1u : 0u; if (G_wssl_free_calls < 0x7fffffffu) G_wssl_free_calls++; } }
#else
static inline int iora_SSL_shutdown_w(SSL *ssl) { int r = iora_SSL_shutdown(ssl); if (ssl == G_WSSL) { if (G_wssl_shut_calls < 0x7fffffffu) G_wssl_shut_calls++; G_wssl_shut_seq = G_seq; } return r; }
static inline void iora_SSL_free_w(SSL *ssl) { iora_SSL_free(ssl); if (ssl == G_WSSL) { G_wssl_shut_before_free = (G_wssl_shut_calls == 1) ? 1u : 0u; if (G_wssl_free_calls < 0x7fffffffu) G_wssl_free_calls++; G_wssl_free_seq = G_seq; } }
#endif
unsigned G_cb_calls, G_cbw_calls;            /* close callbacks: all / for the witness id */
unsigned G_cbw_in_table;                          /* the witness id was still in _sessions when its close callback ran (observation) */
unsigned G_wfd_close_calls, G_wfd_del_calls, G_wfd_close_seq, G_wfd_del_seq;
TransportError G_cbw_why;
static inline int iora_close_w(int fd) { int r = iora_close(fd); if (fd == G_WFD) { G_wfd_del_before_close = (G_wfd_del_calls == 1) ? 1u : 0u; G_wssl_done_before_close = (G_WSSL == 0 || (G_wssl_shut_calls == 1 && G_wssl_free_calls == 1)) ? 1u : 0u;
  if (G_wfd_close_calls < 0x7fffffffu) G_wfd_close_calls++; G_wfd_close_seq = G_seq; } return r; }
static inline int iora_epoll_ctl_w(int epfd, int op, int fd, epoll_event *ev)
{ int r = iora_epoll_ctl(epfd, op, fd, ev); if (fd == G_WFD && op == EPOLL_CTL_DEL) { if (G_wfd_del_calls < 0x7fffffffu) G_wfd_del_calls++; G_wfd_del_seq = G_seq; } return r; }

/* R21 close callback stub. ASSUMPTION A: user code re-enters the engine only through the public command-queue API - which is exactly
 * how commands get into _cmds while shutdownDrain runs (modelled by the nondeterministic content of _cmds at entry). */
static inline void iora_cb_onClose(TcpEngine *self, SessionId sid, TransportError why, const char *msg, int sysErrno, int tlsErr)
{
  (void)msg; (void)sysErrno; (void)tlsErr;
  IORA_ASSERT(!self->_cbMutex.held, "CB1 user callback runs outside _cbMutex (copy-then-invoke)");
  IORA_ASSERT(!self->_sessionRwMutex.held && !self->_cmdMutex.held, "CB2 user callback runs outside _sessionRwMutex / _cmdMutex");
  if (G_cb_calls < 0x7fffffffu) G_cb_calls++;
  ++G_seq;
  if (sid == G_WSID)
  {
    if (G_cbw_calls < 0x7fffffffu) G_cbw_calls++;
    G_cbw_why = why; G_cbw_in_table = iora_smapN_lookup(&self->_sessions, sid) != 0 ? 1u : 0u;
  }
}
bool G_sd_cleared;               /* this shutdownDrain has cleared the table */
/* `_sessions.clear()`: under the write lock; destroys every session object */
static inline void TcpEngine_sessions_clear(TcpEngine *self)
{
  IORA_ASSERT(self->_sessionRwMutex.held, "LK3 _sessions is modified with _sessionRwMutex held (unique lock)");
  iora_smapN_destroy_all(&self->_sessions); G_sd_cleared = 1;
}
/* process(): the final drain of the command queue. Its ORDER inside shutdownDrain is an obligation (SD-O): it must run before this
 * shutdownDrain has closed any session and before the table is cleared - a command executed later (a queued Connect runs doConnect: new
 * session, gauge + 1, onConnect) would create state that nothing closes any more. Its EFFECT here: it may execute one queued Connect, i.e.
 * insert one new open session (fresh id G_proc_sid, fd G_proc_fd, with its fd tag, gauge + 1) - so a drain that runs after the close loop also
 * fails "table empty / gauge zero / every announced id closed". Commands that arrive AFTER it (other threads, close callbacks) are the
 * nondeterministic content of _cmds at entry, which it does not consume. */
#ifdef SD_WITNESS
#define IORA_SET_WITNESS(s) do { G_WSESS = (s); G_W0 = *(s); } while (0)
#define IORA_TABLES_HAVE_ROOM(self) ((self)->_sessions.n < SIZE_MAX && (self)->_fdTags.n < SIZE_MAX)
#else
#define IORA_SET_WITNESS(s) do { G_WSESS = (s); } while (0)
#define IORA_TABLES_HAVE_ROOM(self) ((self)->_sessions.n < IORA_NS && (self)->_fdTags.n < IORA_NT)
#endif
unsigned G_proc_calls; bool G_proc_inserted; SessionId G_proc_sid; int G_proc_fd; bool IORA_PROC_MAY_INSERT;
static inline void TcpEngine_process(TcpEngine *self)
{
  IORA_ASSERT(!G_sd_cleared && G_cb_calls == 0 && G_fdclose_calls == 0,
              "SD-O the final process() of the command queue runs BEFORE shutdownDrain closes any session or clears the table (a Connect executed later is never closed)");
  if (G_proc_calls < 0x7fffffffu) G_proc_calls++;
  if (IORA_PROC_MAY_INSERT && !G_proc_inserted && IORA_TABLES_HAVE_ROOM(self) && nondet_bool())
  {
    Session *s = malloc(sizeof(Session)); __CPROVER_assume(s != 0);
    Session z = {0}; *s = z; s->id = G_proc_sid; s->fd = G_proc_fd; s->connectPending = 1;
    if (s->id == G_WSID) IORA_SET_WITNESS(s);
    iora_smapN_emplace(&self->_sessions, s->id, s);
    Tag *t = malloc(sizeof(Tag)); __CPROVER_assume(t != 0); t->isListener = 0; t->lst = 0; t->sess = s;
    iora_tmapN_emplace(&self->_fdTags, s->fd, t);
    self->_atomicStats.sessionsCurrent++;
    G_proc_inserted = 1;
  }
}
static inline void TcpEngine_freeTls(TcpEngine *self) { (void)self; }
unsigned G_promise_sets;
static inline void iora_promise_set(iora_promise *p, bool v) { IORA_ASSERT(!v && p->set_calls == 0, "SD-E a pending listener promise is failed (set_value(false)), once"); if (p->set_calls < 1000) p->set_calls++; p->value = v; if (G_promise_sets < 0x7fffffffu) G_promise_sets++; }

/* ---- (c) id allocator: writes other than the post-increment (start() prologue) ---- */
static inline bool iora_cas_bool(bool *x, bool *expected, bool desired) { if (*x == *expected) { *x = desired; return 1; } *expected = *x; return 0; }
unsigned G_id_store_calls;
static inline void iora_id_store(SessionId *a, SessionId v)
{ IORA_ASSERT(v >= *a, "ID3 a write to the session-id allocator other than the post-increment never moves it backwards: new >= old (every id issued so far stays < _nextSessionId, so no id is handed out twice - also across stop() + start())");
  if (G_id_store_calls < 1000) G_id_store_calls++; *a = v; }
static inline bool TcpEngine_initTls(TcpEngine *self) { (void)self; return nondet_bool(); }
/* ---- (b) doConnect blocks ---- */
typedef struct { SessionId sid; int host; uint16_t port; TlsMode tls; } ConnectReq;     /* host name: opaque */
typedef struct iora_addrinfo addrinfo;
typedef unsigned socklen_t;
struct sockaddr_storage { char b[128]; }; struct sockaddr;
#define SOL_SOCKET 1
#define SO_ERROR 4
#define ECONNREFUSED 111
#define ENETUNREACH 101
#define EHOSTUNREACH 113
#define ETIMEDOUT 110
#define IORA_MSG "message text dropped"
bool G_w_counted;               /* G1 ghost: the gauge (sessionsCurrent) counts the witness session (set by bumpSess once it is in the table, cleared by closeNow) */
unsigned G_err_calls, G_conncb_calls, G_conncbw_calls, G_closeNow_calls, G_freeaddr_calls, G_conncb_seq, G_closeNow_seq; void *G_freeaddr_arg;
static inline void TcpEngine_err(TcpEngine *self, TransportError why) { (void)why; IORA_ASSERT(!self->_cbMutex.held, "CB1 error callback outside _cbMutex"); if (G_err_calls < 0x7fffffffu) G_err_calls++; }
static inline void iora_cb_onConnect(TcpEngine *self, SessionId sid)
{ IORA_ASSERT(!self->_cbMutex.held && !self->_sessionRwMutex.held, "CB1 user callback runs outside the engine mutexes");
  IORA_ASSERT(sid != G_WSID || G_w_counted, "G1 a session is announced (connect callback) only when the gauge of open sessions already counts it (the gauge never under-counts)");
  if (G_conncb_calls < 0x7fffffffu) G_conncb_calls++; if (sid == G_WSID && G_conncbw_calls < 0x7fffffffu) G_conncbw_calls++; G_conncb_seq = ++G_seq; }
static inline SSL *iora_SSL_new(void *ctx) { IORA_ASSERT(ctx != 0, "SSL_new(): non-null context"); return nondet_bool() ? (SSL *)0 : (SSL *)malloc(1); }   /* may fail */
static inline int iora_SSL_set_fd(SSL *ssl, int fd) { IORA_ASSERT(ssl != 0 && fd >= 0, "SSL_set_fd(): live SSL object, valid fd"); return 1; }
static inline void iora_SSL_set_connect_state(SSL *ssl) { IORA_ASSERT(ssl != 0, "SSL_set_connect_state(): live SSL object"); }
static inline Tag *iora_new_Tag(void) { Tag *t = malloc(sizeof(Tag)); __CPROVER_assume(t != 0); t->isListener = 0; t->lst = 0; t->sess = 0; return t; }   /* default member initialisers of struct Tag */
static inline int iora_getsockopt(int fd, int level, int opt, int *val, socklen_t *len) { (void)fd; (void)level; (void)opt; (void)len; G_errno = nondet_int(); int r = nondet_bool() ? -1 : 0; if (r == 0) *val = nondet_int(); return r; }
static inline int iora_getpeername(int fd, struct sockaddr *a, socklen_t *len) { (void)fd; (void)a; (void)len; G_errno = nondet_int(); return nondet_bool() ? -1 : 0; }
static inline void iora_freeaddrinfo(addrinfo *r) { if (G_freeaddr_calls < 0x7fffffffu) G_freeaddr_calls++; G_freeaddr_arg = r; }
static inline const char *TcpEngine_lastErr(TcpEngine *self) { (void)self; return IORA_MSG; }
unsigned G_acccb_calls, G_acccbw_calls; bool G_acccb_in_table; unsigned G_datacb_calls;
static inline void iora_cb_onAccept(TcpEngine *self, SessionId sid)
{ IORA_ASSERT(!self->_cbMutex.held && !self->_sessionRwMutex.held, "CB1 user callback runs outside the engine mutexes");
  IORA_ASSERT(sid != G_WSID || G_w_counted, "G1 a session is announced (accept callback) only when the gauge of open sessions already counts it (the gauge never under-counts)");
  if (G_acccb_calls < 0x7fffffffu) G_acccb_calls++; if (sid == G_WSID && G_acccbw_calls < 0x7fffffffu) G_acccbw_calls++;
  G_acccb_in_table = iora_smapN_lookup(&self->_sessions, sid) != 0; ++G_seq; }
/* bumpSess(): sessionsCurrent.fetch_add(1), peak = max(peak, current) (CAS loop; here sequential) */
static inline void TcpEngine_bumpSess(TcpEngine *self) { if (iora_smapN_lookup(&self->_sessions, G_WSID) != 0 && !G_w_counted) G_w_counted = 1; self->_atomicStats.sessionsCurrent++; if (self->_atomicStats.sessionsCurrent > self->_atomicStats.sessionsPeak) self->_atomicStats.sessionsPeak = self->_atomicStats.sessionsCurrent; }
static inline void TcpEngine_cancelConnectTimeout(TcpEngine *self, Session *s) { (void)self; if (nondet_bool()) s->connectTimeoutId = 0; }
static inline void TcpEngine_scheduleHandshakeTimeout(TcpEngine *self, Session *s) { (void)self; if (nondet_bool()) s->handshakeTimeoutId = nondet_u64(); }
/* closeNow: abstraction of the contract proved in unit tcp_close over the bounded tables: idempotent; marks closed, erases the fd tag and the
 * table entry (DESTROYING the session), closes the fd, updates the counters, reports exactly one close */
static inline void TcpEngine_closeNow(TcpEngine *self, Session *s, TransportError why, const char *msg, int tlsErr)
{
  if (!s || s->closed) return;
  IORA_ASSERT(s->id != G_WSID || (G_w_counted && self->_atomicStats.sessionsCurrent >= 1), "G1 closeNow decrements a gauge that counts this session (its contract in unit tcp_close assumes sessionsCurrent >= 1; an uncounted session would wrap / never let the gauge return to zero)");
  if (s->id == G_WSID) G_w_counted = 0;
  s->closed = true;
  if (G_closeNow_calls < 0x7fffffffu) G_closeNow_calls++; G_closeNow_seq = ++G_seq;
  SessionId sid = s->id; int fd = s->fd;
  iora_tmapN_erase(&self->_fdTags, fd);
  iora_smapN_erase_id(&self->_sessions, sid);
  iora_close_w(fd);
  self->_atomicStats.closed++; self->_atomicStats.sessionsCurrent--;
  if (self->_cbs.onClose) iora_cb_onClose(self, sid, why, msg, 0, tlsErr);
}

#ifdef SD_WITNESS
/* ---- loop contracts of shutdownDrain over the witness containers (unbounded number of sessions, listeners, queued commands) ---- */
#define SD_EVT_GHOSTS G_errno, IORA_EPOLL_GHOSTS, G_wfd_del_calls, G_wfd_del_seq, G_wfd_close_calls, G_wfd_close_seq, G_wfd_del_before_close, G_wssl_done_before_close, \
  G_fdclose_calls, G_fdclose_seq, G_fdclose_fd, \
  G_wssl_shut_calls, G_wssl_free_calls, G_wssl_shut_seq, G_wssl_free_seq, G_wssl_shut_before_free
#define SD_CB_GHOSTS G_cb_calls, G_cbw_calls, G_cbw_why, G_cbw_in_table
#define SD_WSSL_DONE (G_WSSL == NULL ? (G_wssl_shut_calls == 0 && G_wssl_free_calls == 0) : (G_wssl_shut_calls == 1 && G_wssl_free_calls == 1 && G_wssl_shut_before_free == 1 && G_wssl_done_before_close == 1))
/* the witness session has been closed by the loop: flag, one close notification, fd deregistered then closed once, SSL object shut down then freed */
#define SD_W_CLOSED(self) (G_cbw_calls == ((self)->_cbs.onClose ? 1u : 0u) && G_wfd_close_calls == 1 && G_wfd_del_calls == 1 && G_wfd_del_before_close == 1 && SD_WSSL_DONE)
#define SD_W_UNTOUCHED (G_cbw_calls == 0 && G_wfd_close_calls == 0 && G_wfd_del_calls == 0 && G_wssl_shut_calls == 0 && G_wssl_free_calls == 0)
/* 1: collect the raw pointers - the witness keeps its position */
#define IORA_LOOP_TcpEngine_shutdownDrain_1 IORA_LC( \
  __CPROVER_assigns(iora_i1, toClose, __CPROVER_object_whole(G_OTHER_SESS)) \
  __CPROVER_loop_invariant(iora_i1 <= self->_sessions.n && toClose.n == iora_i1 && toClose.has == (self->_sessions.has && self->_sessions.gpos < iora_i1)) \
  __CPROVER_loop_invariant(!toClose.has || (toClose.gpos == self->_sessions.gpos && toClose.val == G_WSESS)) \
  __CPROVER_decreases(self->_sessions.n - iora_i1))
/* 2: the close loop - gauge and closed counter follow the index; the witness is untouched before its position and closed exactly once after it */
#define IORA_LOOP_TcpEngine_shutdownDrain_2 IORA_LC( \
  __CPROVER_assigns(iora_i2, __CPROVER_object_whole(G_OTHER_SESS), __CPROVER_object_whole(G_WSESS), self->_atomicStats.closed, self->_atomicStats.sessionsCurrent, self->_cbMutex.held, \
                    G_seq, SD_EVT_GHOSTS, SD_CB_GHOSTS) \
  __CPROVER_loop_invariant(iora_i2 <= toClose.n && !self->_cbMutex.held) \
  __CPROVER_loop_invariant(self->_atomicStats.sessionsCurrent == toClose.n - iora_i2 && self->_atomicStats.closed - __CPROVER_loop_entry(self->_atomicStats.closed) == iora_i2) \
  __CPROVER_loop_invariant((toClose.has && iora_i2 > toClose.gpos) ? SD_W_CLOSED(self) \
                           : SD_W_UNTOUCHED) \
  __CPROVER_decreases(toClose.n - iora_i2))
#define IORA_LOOP_TcpEngine_shutdownDrain_3 IORA_LC( \
  __CPROVER_assigns(iora_i3, listenersToClose, __CPROVER_object_whole(G_OTHER_LST)) \
  __CPROVER_loop_invariant(iora_i3 <= self->_listeners.n && listenersToClose.n == iora_i3) \
  __CPROVER_decreases(self->_listeners.n - iora_i3))
/* 4: closing the listeners only removes (other) tags and never touches the witness fd */
#define IORA_LOOP_TcpEngine_shutdownDrain_4 IORA_LC( \
  __CPROVER_assigns(iora_i4, __CPROVER_object_whole(G_OTHER_LST), self->_fdTags.n, G_seq, SD_EVT_GHOSTS) \
  __CPROVER_loop_invariant(iora_i4 <= listenersToClose.n && self->_fdTags.n <= __CPROVER_loop_entry(self->_fdTags.n)) \
  __CPROVER_loop_invariant(G_wfd_close_calls == __CPROVER_loop_entry(G_wfd_close_calls) && G_wfd_del_calls == __CPROVER_loop_entry(G_wfd_del_calls) \
                           && G_wfd_del_before_close == __CPROVER_loop_entry(G_wfd_del_before_close) && G_wssl_done_before_close == __CPROVER_loop_entry(G_wssl_done_before_close) \
                           && G_wssl_shut_calls == __CPROVER_loop_entry(G_wssl_shut_calls) && G_wssl_free_calls == __CPROVER_loop_entry(G_wssl_free_calls) \
                           && G_wssl_shut_before_free == __CPROVER_loop_entry(G_wssl_shut_before_free)) \
  __CPROVER_decreases(listenersToClose.n - iora_i4))
/* 5: the residual commands - the queued connect that carries the witness id has been reported exactly once as soon as its position is passed (SD-2) */
#define IORA_LOOP_TcpEngine_shutdownDrain_5 IORA_LC( \
  __CPROVER_assigns(iora_i5, residual.other, G_other_promise, self->_cbMutex.held, G_seq, SD_CB_GHOSTS, G_promise_sets) \
  __CPROVER_loop_invariant(iora_i5 <= residual.n && !self->_cbMutex.held) \
  __CPROVER_loop_invariant(G_cbw_calls == __CPROVER_loop_entry(G_cbw_calls) + ((residual.has && iora_i5 > residual.gpos && self->_cbs.onClose) ? 1u : 0u)) \
  __CPROVER_decreases(residual.n - iora_i5))
#else
#define IORA_LOOP_TcpEngine_shutdownDrain_1
#define IORA_LOOP_TcpEngine_shutdownDrain_2
#define IORA_LOOP_TcpEngine_shutdownDrain_3
#define IORA_LOOP_TcpEngine_shutdownDrain_4
#define IORA_LOOP_TcpEngine_shutdownDrain_5
#endif
