/* ---------------- whole function (contract text in contracts.h) ---------------- */
DECL_decodeEntities(Parser_decodeEntities_contract, DEC_POST)
void h_decode(void) { iora_sv in; iora_ostr *o; Error *e; bool r = Parser_decodeEntities(in, o, e); IORA_CANARY("h_decode: returns"); if (r) { IORA_CANARY("h_decode: ok"); } else { IORA_CANARY("h_decode: refused"); } }

/* ---------------- one loop iteration (step) ----------------
 * precondition = loop invariant AND loop condition. Status: 2 = `continue` (plain byte), 1 = end of the body (an entity was expanded), 0 = `return false`.
 * I = index on entry, N0 = output length on entry. GK = arbitrary output index, GF = arbitrary input index (first-occurrence ghost of find),
 * GD = arbitrary index into the reference body. */
#define I OLD(*i)
#define N0 OLD(out->n)
#define AT(k) (in.p[k])
#define W(ch) (GK == N0 ==> out->gk == (char)(ch))                   /* the one appended byte is ch */
#define ENTLEN (*i - I - 2)                                          /* length of the text between '&' and ';' when status == 1 */
#define DECL_step(sym, POST) int sym(iora_sv in, iora_ostr *out, Error *err, size_t *i) \
  __CPROVER_requires(DEC_MEM && __CPROVER_is_fresh(i, sizeof(*i)) && *i < in.n && out->n <= *i) \
  __CPROVER_assigns(*i, out->n, out->gk, G_val; err != NULL: *err) POST ;
/* K0 status / frame; K1 a byte other than '&' is copied verbatim; K2 a refusal appends nothing and reports the '&' */
#define STEP_BASIC ENS(RV == 0 || RV == 1 || RV == 2) ENS((RV == 2) == (AT(I) != AMP)) ENS(GK < N0 ==> out->gk == OLD(out->gk)) \
  ENS(RV == 2 ==> (*i == I + 1 && out->n == N0 + 1 && (GK == N0 ==> out->gk == AT(I)))) \
  ENS(RV == 0 ==> (*i == I && out->n == N0 && out->gk == OLD(out->gk) && (err != NULL ==> err->offset == I))) \
  ENS(RV != 0 ==> (*i > I && *i <= in.n && out->n <= *i))
/* K3 an expanded entity ends at the FIRST ';' behind the '&' */
#define STEP_SEMI ENS(RV == 1 ==> (*i >= I + 2 && AT(*i - 1) == SEMI)) ENS((RV == 1 && GF > I && GF < *i - 1) ==> AT(GF) != SEMI) \
  ENS((AT(I) == AMP && GF > I && GF < in.n && AT(GF) == SEMI && RV == 0) ==> out->n == N0)
/* K4 ONLY the five predefined names expand (anything else that is not a numeric reference is refused), each to its character */
#define B(k) AT(I + (k))
#define STEP_NAMED ENS((RV == 1 && B(1) != HASH) ==> (out->n == N0 + 1 && ( \
     (ENTLEN == 2 && B(1) == (char)108 && B(2) == (char)116 && W(60)) || (ENTLEN == 2 && B(1) == (char)103 && B(2) == (char)116 && W(62)) \
  || (ENTLEN == 3 && B(1) == (char)97 && B(2) == (char)109 && B(3) == (char)112 && W(38)) \
  || (ENTLEN == 4 && B(1) == (char)97 && B(2) == (char)112 && B(3) == (char)111 && B(4) == (char)115 && W(39)) \
  || (ENTLEN == 4 && B(1) == (char)113 && B(2) == (char)117 && B(3) == (char)111 && B(4) == (char)116 && W(34)))))
/* K5 the five names ARE expanded (GF plays the position of the ';': the find stub's first-occurrence clause speaks about the one index GF) */
#define HAS_N(k) (I + (k) < in.n)
#define STEP_NAMED_COMPLETE \
  ENS((AT(I) == AMP && HAS_N(3) && GF == I + 3 && B(1) == (char)108 && B(2) == (char)116 && B(3) == SEMI) ==> RV == 1) \
  ENS((AT(I) == AMP && HAS_N(3) && GF == I + 3 && B(1) == (char)103 && B(2) == (char)116 && B(3) == SEMI) ==> RV == 1) \
  ENS((AT(I) == AMP && HAS_N(4) && GF == I + 4 && B(1) == (char)97 && B(2) == (char)109 && B(3) == (char)112 && B(4) == SEMI) ==> RV == 1) \
  ENS((AT(I) == AMP && HAS_N(5) && GF == I + 5 && B(1) == (char)97 && B(2) == (char)112 && B(3) == (char)111 && B(4) == (char)115 && B(5) == SEMI) ==> RV == 1) \
  ENS((AT(I) == AMP && HAS_N(5) && GF == I + 5 && B(1) == (char)113 && B(2) == (char)117 && B(3) == (char)111 && B(4) == (char)116 && B(5) == SEMI) ==> RV == 1)
/* K6 numeric references: body = '#' + digits of the base (index GD), 1..4 bytes appended; for a mathematical value G_val <= 0x10FFFF exactly utf8(value) */
#define REF_HEX (B(2) == (char)120 || B(2) == (char)88)
#define STEP_REF ENS((RV == 1 && B(1) == HASH) ==> (ENTLEN >= 2 && out->n >= N0 + 1 && out->n <= N0 + 4)) \
  ENS((RV == 1 && B(1) == HASH && REF_HEX && GD >= 2 && GD < ENTLEN) ==> IS_HEX(B(1 + GD))) \
  ENS((RV == 1 && B(1) == HASH && !REF_HEX && GD >= 1 && GD < ENTLEN) ==> IS_DEC(B(1 + GD))) \
  ENS((RV == 1 && B(1) == HASH && G_val <= 0x10FFFFull) ==> out->n == N0 + UTF8_LEN((uint32_t)G_val)) \
  ENS((RV == 1 && B(1) == HASH && G_val <= 0x10FFFFull && GK >= N0 && GK < out->n) ==> (uint8_t)out->gk == UTF8_BYTE((uint32_t)G_val, GK - N0)) \
  ENS((AT(I) == AMP && RV != 0 && B(1) == HASH && G_val <= 0xFFFFFFFFull) ==> UTF8_VALID((uint32_t)G_val))
DECL_step(Parser_decodeEntities_step_basic, STEP_BASIC)
DECL_step(Parser_decodeEntities_step_semi, STEP_SEMI)
DECL_step(Parser_decodeEntities_step_named, STEP_NAMED STEP_NAMED_COMPLETE)
DECL_step(Parser_decodeEntities_step_ref, STEP_REF)
void h_step(void) { iora_sv in; iora_ostr *o; Error *e; size_t *i; int r = Parser_decodeEntities_step(in, o, e, i); IORA_CANARY("h_step: returns");
  if (r == 2) { IORA_CANARY("h_step: plain byte"); } if (r == 1) { IORA_CANARY("h_step: entity expanded"); } if (r == 0) { IORA_CANARY("h_step: refused"); } }

#ifdef XML_STEP_PLAIN
/* ---------------- the step clauses K3..K6 in a PLAIN harness ----------------
 * (through DFCC the named/ref groups run out of memory or time: loop-free step contracts are proved with a plain harness, DESIGN 2.6.)
 * Callees = assert/havoc/assume stubs from the SAME contract text: iora_sv_find_ch (iora_sv_find.h: range, content, first occurrence at GF) and
 * appendCharRef (ACR_PRE / ACR_FRAMELIST / ACR_BASIC ACR_VALUE of ../xml_entities/contracts.h). The asserted clauses are the group macros above. */
#undef IORA_FIND_R
#define IORA_FIND_R iora_r
size_t iora_sv_find_ch(const iora_sv *s, char c, size_t pos)
{
  size_t iora_r = nondet_size_t();
  IORA_ASSUME(iora_r == IORA_NPOS || (pos <= iora_r && iora_r < s->n));
  IORA_ASSUME(iora_r != IORA_NPOS ==> s->p[iora_r] == c);
  IORA_ASSUME(IORA_FIRST_CH(GF));
  return iora_r;
}
#undef ENS
#undef RV
#undef OLD
#define ENS(...) IORA_ASSUME((__VA_ARGS__));
#define RV iora_rv
#define OLD(x) ({ const iora_ostr *out = &iora_oldo; (x); })
unsigned G_acr_calls;
ACR_SIG(Parser_appendCharRef)
{
  IORA_ASSERT(ACR_PRE, "appendCharRef: precondition (requires of its proved contract) holds at the call");
  iora_ostr iora_oldo = *out; G_acr_calls++;
  { size_t h1; out->n = h1; } { char h2; out->gk = h2; } { uint64_t h3; G_val = h3; }
  bool iora_rv = nondet_bool();
  ACR_BASIC ACR_VALUE
  return iora_rv;
}
#undef ENS
#undef RV
#undef OLD
#define ENS(...) __CPROVER_assert((__VA_ARGS__), XML_LABEL);
#define RV iora_rv
#define OLD(x) ({ size_t iora_i0 = i0; const size_t *i = &iora_i0; const iora_ostr *out = &o0; (x); })
void h_step_plain(void)
{
  iora_sv in; iora_ostr O; iora_ostr *out = &O; Error E; Error *err = nondet_bool() ? &E : NULL; size_t iv; size_t *i = &iv;
  IORA_TRUE = 1; G_acr_calls = 0;
  __CPROVER_assume((in.n >> 40) == 0);
  in.p = (const char *)malloc(in.n);
  __CPROVER_assume(in.p != NULL && *i < in.n && out->n <= *i);      /* loop invariant AND loop condition */
  size_t i0 = *i; iora_ostr o0 = *out;
  int iora_rv = Parser_decodeEntities_step(in, out, err, i);
  IORA_CANARY("h_step_plain: returns");
#define XML_LABEL "K0-K2 status, plain byte copied verbatim, refusal appends nothing and reports the '&'"
  STEP_BASIC
#undef XML_LABEL
#define XML_LABEL "K3 an expanded entity ends at the FIRST ';' behind the '&'"
  STEP_SEMI
#undef XML_LABEL
#define XML_LABEL "K4 only the five predefined names expand, each to its character"
  STEP_NAMED
#undef XML_LABEL
#define XML_LABEL "K5 each of the five predefined names IS expanded"
  STEP_NAMED_COMPLETE
#undef XML_LABEL
#define XML_LABEL "K6 numeric reference: digits of the base, 1..4 bytes, utf8(value) for value <= 0x10FFFF, invalid scalar values refused"
  STEP_REF
#undef XML_LABEL
  __CPROVER_assert(G_acr_calls <= 1 && ((G_acr_calls == 1) ==> (AT(i0) == AMP && i0 + 1 < in.n && AT(i0 + 1) == HASH)), "K6 appendCharRef runs at most once, only for '&#'");
  __CPROVER_assert((iora_rv == 1 && AT(i0 + 1) == HASH) ==> G_acr_calls == 1, "K6 a numeric reference is decoded by appendCharRef");
  if (iora_rv == 2) { IORA_CANARY("h_step_plain: plain byte"); } if (iora_rv == 0) { IORA_CANARY("h_step_plain: refused"); }
  if (iora_rv == 1) { IORA_CANARY("h_step_plain: expanded"); if (G_acr_calls) { IORA_CANARY("h_step_plain: numeric reference"); } else { IORA_CANARY("h_step_plain: named entity"); } }
}
#endif
