/* unit xml_decode: Parser::decodeEntities - the whole function (safety, termination, never grows, error position) and ONE LOOP ITERATION as an
 * outlined step function (block target, same text) with the functional clauses: what each token expands to.
 * find(';') = shared first-occurrence stub iora_sv_find_ch (iora_sv_find.h); appendCharRef = the contract proved in unit xml_entities (same text). */
#define XML_GHOST_INLINE
#ifdef XML_STEP_PLAIN            /* the plain step proof: callee contracts become assert/havoc/assume stubs (post.c) */
#define XML_STUB_MODE
#endif
#include "iora_xml.h"
#include "../xml_entities/contracts.h"
#include "contracts.h"
/* ent == "lt" etc. (string_view == const char*): same length and same bytes; literals of at most 4 bytes (asserted) */
static inline bool xsv_eq_lit(iora_sv a, iora_sv lit)
{
  IORA_ASSERT(lit.n <= 4, "shim domain: comparison with a literal of at most 4 bytes");
  if (a.n != lit.n) return false;
  if (lit.n > 0 && a.p[0] != lit.p[0]) return false;
  if (lit.n > 1 && a.p[1] != lit.p[1]) return false;
  if (lit.n > 2 && a.p[2] != lit.p[2]) return false;
  if (lit.n > 3 && a.p[3] != lit.p[3]) return false;
  return true;
}
bool Parser_appendCharRef(iora_sv entBody, iora_ostr *out);
DECL_appendCharRef(Parser_appendCharRef_c, ACR_BASIC ACR_VALUE)

/* loop of decodeEntities: the index advances, the output never gets ahead of the input (every token yields at most as many bytes as it has) */
#define IORA_LOOP_Parser_decodeEntities_1 IORA_LC( \
  __CPROVER_assigns(i, out->n, out->gk, G_val; err != NULL: *err) \
  __CPROVER_loop_invariant(i <= in.n && out->n <= i) \
  __CPROVER_decreases(in.n - i))
