/* Differential run, C side: the EXTRACTED xml::Parser::decodeEntities, compiled natively; its callee appendCharRef (contract-replaced in
 * this unit's proofs) is the extracted text of unit xml_entities, linked in ("link_units"). out is a witness accumulator (length + byte
 * at GK): one run per index. Compared: return value, length and EVERY byte of out, and on failure the Error (offset, line, column, message). */
#include "unit_native.c"
#include "diff_io.h"
static bool run(const diff_input *in, size_t gk, iora_ostr *o, Error *e)
{
  *o = iora_ostr_DEFAULT; GK = gk; G_val = 0; e->offset = 0; e->line = 1; e->column = 1; e->message = "";
  iora_sv s = { (const char *)in->bytes, in->n };
  return Parser_decodeEntities(s, o, e);
}
int main(int argc, char **argv)
{
  FILE *f = fopen(argv[1], "r"); diff_input in;
  IORA_TRUE = 1;
  while (diff_next(f, &in)) {
    iora_ostr o, o2; Error e, e2; bool r = run(&in, (size_t)-1, &o, &e);
    size_t len = o.n; unsigned char *b = (unsigned char *)malloc(len ? len : 1);
    for (size_t k = 0; k < len; k++) { run(&in, k, &o2, &e2); b[k] = (unsigned char)o2.gk; }
    printf("dec ret=%d len=%zu bytes=", r, len); diff_hex(b, len); free(b);
    if (!r) printf(" err=%zu:%zu:%zu:\"%s\"", e.offset, e.line, e.column, e.message);
    printf("\n"); fflush(stdout); diff_free(&in);
  }
  return 0;
}
