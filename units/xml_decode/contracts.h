/* Contract of the whole function Parser::decodeEntities (proved by unit xml_decode, proof "decodeEntities"); SIG / PRE / FRAMELIST / clause group
 * separately so that unit xml_dom_attrs can build an assert/havoc/assume stub from the same parts (XML_STUB_MODE: is_fresh -> r_ok / rw_ok) */
#ifndef XML_DECODE_CONTRACTS_H
#define XML_DECODE_CONTRACTS_H
#ifdef XML_STUB_MODE
#define DEC_MEM (IORA_TRUE && (in.n >> 40) == 0 && __CPROVER_r_ok(in.p, in.n) && __CPROVER_rw_ok(out, sizeof(*out)) && (err == NULL || __CPROVER_rw_ok(err, sizeof(*err))))
#else
#define DEC_MEM (IORA_TRUE && (in.n >> 40) == 0 && __CPROVER_is_fresh(in.p, in.n) && __CPROVER_is_fresh(out, sizeof(*out)) && (err == NULL || __CPROVER_is_fresh(err, sizeof(*err))))
#endif
#define AMP ((char)38)
#define SEMI ((char)59)
#define HASH ((char)35)
#define DEC_SIG(sym) bool sym(iora_sv in, iora_ostr *out, Error *err)
/* W1 decoding never grows the text; W2 a failure reports the position of the offending '&' (inside the input); W3 the empty text decodes to the empty text */
#define DEC_POST ENS(out->n <= in.n) ENS((!RV && err != NULL) ==> (err->offset < in.n && in.p[err->offset] == AMP)) ENS(in.n == 0 ==> (RV && out->n == 0))
#define DECL_decodeEntities(sym, POST) DEC_SIG(sym) __CPROVER_requires(DEC_MEM) __CPROVER_assigns(out->n, out->gk, G_val; err != NULL: *err) POST ;
#endif
