// Differential run, C++ side: the REAL xml::Parser::decodeEntities.
#include "iora/parsers/xml.hpp"
#include "diff_io.h"
using namespace iora::parsers::xml;
int main(int argc, char **argv)
{
  FILE *f = fopen(argv[1], "r"); diff_input in;
  while (diff_next(f, &in)) {
    std::string o; Error e; bool r = Parser::decodeEntities(std::string_view((const char *)in.bytes, in.n), o, &e);
    printf("dec ret=%d len=%zu bytes=", r, o.size()); diff_hex((const unsigned char *)o.data(), o.size());
    if (!r) printf(" err=%zu:%zu:%zu:\"%s\"", e.offset, e.line, e.column, e.message.c_str());
    printf("\n"); fflush(stdout); diff_free(&in);
  }
  return 0;
}
