/* unit xml_cursor: type environment (shared header), ghost indices, spec macros and the loop contracts of the cursor layer */
#include "iora_xml.h"

#include "contracts.h"

/* readText() contains `return next();` in a branch its own comment calls impossible. next() is not part of this unit:
 * the call is replaced by a contract that REQUIRES FALSE, i.e. the proof shows the call is unreachable under readText's
 * precondition (so there is no recursion readText -> next -> readText). */
bool Parser_next(Parser *self) __CPROVER_requires(0) __CPROVER_assigns() __CPROVER_ensures(1);

/* ---- loop contracts ---- */
#define XML_CUR_FRAME __CPROVER_assigns(self->_cur, self->_line, self->_col)

/* skipSpaces / skipWhitespaceOutsideText: everything skipped is white space */
#define IORA_LOOP_Parser_skipSpaces_1 IORA_LC( XML_CUR_FRAME \
  __CPROVER_loop_invariant(XML_CUR_INV(self) && self->_cur >= __CPROVER_loop_entry(self->_cur)) \
  __CPROVER_loop_invariant((GS >= __CPROVER_loop_entry(self->_cur) && GS < self->_cur) ==> XML_IS_SPACE(GSC)) \
  __CPROVER_decreases(self->_input.n - self->_cur))
#define IORA_LOOP_Parser_skipWhitespaceOutsideText_1 IORA_LOOP_Parser_skipSpaces_1

/* matchString: loop 1 compares without moving the cursor (witness index GK into the word), loop 2 moves the cursor by exactly i */
#define IORA_LOOP_Parser_matchString_1 IORA_LC( __CPROVER_assigns(i) \
  __CPROVER_loop_invariant(i <= GLEN && i <= self->_input.n - self->_cur && (GK < i ==> GIC == GWC)) \
  __CPROVER_decreases(GLEN - i))
#define IORA_LOOP_Parser_matchString_2 IORA_LC( __CPROVER_assigns(j, self->_cur, self->_line, self->_col) \
  __CPROVER_loop_invariant(j <= i && self->_cur == __CPROVER_loop_entry(self->_cur) + j && XML_CUR_INV(self)) \
  __CPROVER_decreases(i - j))
#define IORA_LOOP_Parser_matchWordCaseInsensitive_1 IORA_LC( __CPROVER_assigns(i) \
  __CPROVER_loop_invariant(i <= GLEN && i <= self->_input.n - pos && (GK < i ==> XML_CIEQ(GIC, GWC))) \
  __CPROVER_decreases(GLEN - i))
#define IORA_LOOP_Parser_matchWordCaseInsensitive_2 IORA_LOOP_Parser_matchString_2

/* readName: the scanned run consists of name characters */
#define IORA_LOOP_Parser_readName_1 IORA_LC( XML_CUR_FRAME \
  __CPROVER_loop_invariant(XML_CUR_INV(self) && self->_cur > start) \
  __CPROVER_loop_invariant((GS >= start && GS < self->_cur) ==> XML_IS_NAMECHAR(GSC)) \
  __CPROVER_decreases(self->_input.n - self->_cur))

/* readUntil: loop 1 searches (cursor fixed, no occurrence before pos), loop 2 moves the cursor behind the terminator */
#define IORA_LOOP_Parser_readUntil_1 IORA_LC( __CPROVER_assigns(pos, *startOut, *lenOut, self->_cur, self->_line, self->_col) \
  __CPROVER_loop_invariant(XML_CUR_INV(self) && self->_cur == __CPROVER_loop_entry(self->_cur) && self->_cur <= pos && pos <= self->_input.n) \
  __CPROVER_loop_invariant((GS >= self->_cur && GS < pos) ==> !XML_SEQ_GS(self, endSeq)) \
  __CPROVER_decreases(self->_input.n - pos))
#define IORA_LOOP_Parser_readUntil_2 IORA_LC( XML_CUR_FRAME \
  __CPROVER_loop_invariant(XML_CUR_INV(self) && self->_cur >= __CPROVER_loop_entry(self->_cur) && self->_cur <= pos + endSeq.n) \
  __CPROVER_decreases(pos + endSeq.n - self->_cur))

/* readQuotedValue: no byte of the scanned range equals the OPENING delimiter = the input byte at start-1 (consumed by the advance() before
 * `start = _cur`), i.e. the byte under the entry cursor = ghost GOC. Stated over the input, not over the function's temporary that holds it. */
#define IORA_LOOP_Parser_readQuotedValue_1 IORA_LC( XML_CUR_FRAME \
  __CPROVER_loop_invariant(XML_CUR_INV(self) && self->_cur >= start && start >= 1 && GOC == XML_AT(self, start - 1)) \
  __CPROVER_loop_invariant((GS >= start && GS < self->_cur) ==> GSC != GOC) \
  __CPROVER_decreases(self->_input.n - self->_cur))

/* readText: span limit tested BEFORE each step; no '<' inside; at least one byte is taken (or the limit is 0) */
#define IORA_LOOP_Parser_readText_1 IORA_LC( __CPROVER_assigns(self->_cur, self->_line, self->_col, self->_hasError, self->_error) \
  __CPROVER_loop_invariant(XML_CUR_INV(self) && self->_cur >= start && self->_cur - start <= self->_opt.maxTextSpan) \
  __CPROVER_loop_invariant(self->_hasError == __CPROVER_loop_entry(self->_hasError)) \
  __CPROVER_loop_invariant(self->_cur == start ==> (self->_cur < self->_input.n && GOC != (char)60)) \
  __CPROVER_loop_invariant((GS >= start && GS < self->_cur) ==> GSC != (char)60) \
  __CPROVER_decreases(self->_input.n - self->_cur))
