/* Contracts of the xml::Parser cursor layer (property C14: "every reported slice lies inside the input", "all configured
 * limits hold", "parsing terminates without undefined behaviour").
 *
 * Each function F has ONE precondition F_PRE, ONE frame F_FRAME and several GROUPS of ensures clauses F_<G>. A proof of this unit
 * enforces `PRE FRAME <one or two groups>` (the SAT back end cannot digest all groups of one function at once: measured > 300 s,
 * each group alone 3-25 s). Because every group is proved under the same PRE/FRAME, any conjunction of groups is a proved
 * contract; unit xml_tags #includes this file and replaces calls by such conjunctions (DECL_F(symbol, groups)).
 *
 * Helper preconditions come from the call sites: peek()/get()/advance() REQUIRE !eof(); every call site in this unit is
 * checked against that because the string_view operator[] shim asserts i < size().
 * OC = __CPROVER_old(self->_cur) (cursor on entry); GS = arbitrary ghost position ("for every position ..."). */
#ifndef XML_CURSOR_CONTRACTS_H
#define XML_CURSOR_CONTRACTS_H
/* ghosts (besides GS/GSC of iora_xml.h): GLEN = length of the C-string argument of matchString/matchWordCaseInsensitive;
 * GSC1, GSC2 = the input bytes behind GS (readUntil compares 3 bytes); each is DEFINED by the precondition that uses it */
char GSC1; char GSC2;
/* matchString/matchWordCaseInsensitive: GWC = word byte at the arbitrary index GK, GIC = input byte at cursor+GK.
 * Both DEFINED by the precondition of the proof that uses them. */
#ifdef XML_GHOST_INLINE
#define GLEN XML_SLEN(s)
#define GWC (s)[GK]
#define GIC XML_AT(self, OC + GK)
#define MATCH_GHOST_DEF 1
#else
size_t GLEN; char GWC; char GIC;
#define MATCH_GHOST_DEF (GLEN == XML_SLEN(s) && (GK < GLEN ==> (GWC == s[GK] && (GK < self->_input.n - self->_cur ==> GIC == XML_AT(self, self->_cur + GK)))))
#endif

/* ---- C-string arguments of matchString/matchWordCaseInsensitive: NUL within the first 8 bytes (all call sites pass literals of
 *      2 and 7 characters); loop-free strlen and prefix comparison ---- */
#define XML_SLEN(s) ((s)[0] == 0 ? (size_t)0 : (s)[1] == 0 ? (size_t)1 : (s)[2] == 0 ? (size_t)2 : (s)[3] == 0 ? (size_t)3 : (s)[4] == 0 ? (size_t)4 \
                    : (s)[5] == 0 ? (size_t)5 : (s)[6] == 0 ? (size_t)6 : (s)[7] == 0 ? (size_t)7 : (size_t)8)
#define XML_EQ(a, b) ((a) == (b))
/* ASCII-case-insensitive equality: equal, or the same letter in different case (differ exactly in bit 5 and are letters) */
#define XML_CIEQ(a, b) (((a) == (b)) | ((((a) ^ (b)) == 32) & (((a) | 32) >= 97) & (((a) | 32) <= 122)))
/* the first i (<= 7) bytes of the input at `base` equal s[0..i) under EQ */
#define XML_PFX(slf, base, s, i, EQ) ( ((i) <= 0 || EQ(XML_AT(slf, (base) + 0), (s)[0])) && ((i) <= 1 || EQ(XML_AT(slf, (base) + 1), (s)[1])) \
  && ((i) <= 2 || EQ(XML_AT(slf, (base) + 2), (s)[2])) && ((i) <= 3 || EQ(XML_AT(slf, (base) + 3), (s)[3])) && ((i) <= 4 || EQ(XML_AT(slf, (base) + 4), (s)[4])) \
  && ((i) <= 5 || EQ(XML_AT(slf, (base) + 5), (s)[5])) && ((i) <= 6 || EQ(XML_AT(slf, (base) + 6), (s)[6])) )
/* the whole C string s occurs at `base` */
#define XML_MATCH(slf, base, s, EQ) ((base) <= (slf)->_input.n && XML_SLEN(s) <= (slf)->_input.n - (base) && XML_PFX(slf, base, s, XML_SLEN(s), EQ))
/* word boundary demanded by matchWordCaseInsensitive: a byte is present at k and it is white space, '>' or '[' */
#define XML_BOUNDARY(slf, k) ((k) < (slf)->_input.n && (XML_IS_SPACE(XML_AT(slf, k)) || XML_AT(slf, k) == (char)62 || XML_AT(slf, k) == (char)91))

/* the 3-byte string_view E (readUntil REQUIRES endSeq.size() == 3: "-->" and "]]>") occurs in the input at position k. The three byte
 * comparisons are combined with the non-short-circuit & behind the range guard (chained && around dereferences multiplies the formula) */
#define XML_SEQ_AT(slf, k, E) ((k) <= (slf)->_input.n && (E).n <= (slf)->_input.n - (k) \
  && ((XML_AT(slf, k) == (E).p[0]) & (XML_AT(slf, (k) + 1) == (E).p[1]) & (XML_AT(slf, (k) + 2) == (E).p[2])))
/* the same at the ghost position GS, in terms of the ghost bytes */
#define XML_SEQ_GS(slf, E) (GS <= (slf)->_input.n && (E).n <= (slf)->_input.n - GS && ((GSC == (E).p[0]) & (GSC1 == (E).p[1]) & (GSC2 == (E).p[2])))
#define XML_GS_TAIL(slf) (GS < (slf)->_input.n ==> ((GS + 1 < (slf)->_input.n ==> GSC1 == XML_AT(slf, GS + 1)) && (GS + 2 < (slf)->_input.n ==> GSC2 == XML_AT(slf, GS + 2))))

#define OC __CPROVER_old(self->_cur)
#define RV __CPROVER_return_value
#define OLD(x) __CPROVER_old(x)
#define ENS(...) __CPROVER_ensures(__VA_ARGS__)
#define CUR_FRAME __CPROVER_assigns(self->_cur, self->_line, self->_col)
#define NOT_EOF (self->_cur < self->_input.n)

/* ---------------- eof / peek / get / advance ---------------- */
#define DECL_eof(sym, POST) bool sym(const Parser *self) __CPROVER_requires(XML_PRE(self)) __CPROVER_assigns() POST ;
#define EOF_C1 ENS(RV == (self->_cur >= self->_input.n))
#define DECL_peek(sym, POST) char sym(const Parser *self) __CPROVER_requires(XML_PRE(self) && NOT_EOF) __CPROVER_assigns() POST ;
#define PEEK_C2 ENS(RV == XML_AT(self, self->_cur))
/* C3 exactly one byte consumed, cursor invariant kept; C4 line/column bookkeeping; C5 the byte returned */
#define GET_C3 ENS(self->_cur == OC + 1 && XML_CUR_INV(self))
#define GET_C4 ENS(XML_AT(self, OC) == (char)10 ? (self->_line == OLD(self->_line) + 1 && self->_col == 1) \
                                                 : (self->_line == OLD(self->_line) && self->_col == OLD(self->_col) + 1))
#define GET_C5 ENS(RV == XML_AT(self, OC))
#define DECL_get(sym, POST) char sym(Parser *self) __CPROVER_requires(XML_PRE(self) && NOT_EOF) CUR_FRAME POST ;
#define DECL_advance(sym, POST) void sym(Parser *self) __CPROVER_requires(XML_PRE(self) && NOT_EOF) CUR_FRAME POST ;

/* ---------------- isNameStart / isNameChar: XML 1.0 section 2.3 `Name`, ASCII part; decided for all 256 char values ---------------- */
#define DECL_isNameStart(sym, POST) bool sym(const Parser *self, char ch) __CPROVER_requires(IORA_TRUE) __CPROVER_assigns() POST ;
#define DECL_isNameChar(sym, POST) bool sym(const Parser *self, char ch) __CPROVER_requires(IORA_TRUE) __CPROVER_assigns() POST ;
#define NAME_N1 ENS(RV == XML_IS_NAMESTART(ch))
#define NAME_N2 ENS(RV == XML_IS_NAMECHAR(ch))
/* N3 bytes >= 0x80, control bytes, white space and the markup delimiters / < = > are never name characters */
#define NAME_N3 ENS((ch < (char)45 || ch == (char)47 || ch == (char)60 || ch == (char)62 || ch == (char)61) ==> !RV)

/* ---------------- fail / produced ---------------- */
#define DECL_fail(sym, POST) bool sym(Parser *self, const char *msg) __CPROVER_requires(XML_PRE(self)) __CPROVER_assigns(self->_hasError, self->_error) POST ;
/* F1 failure => error flag set; F2 the reported error position lies inside the input (<= size) */
#define FAIL_F1 ENS(!RV && self->_hasError)
#define FAIL_F2 ENS(self->_error.offset == self->_cur && self->_error.offset <= self->_input.n && self->_error.line == self->_line && self->_error.column == self->_col)
#define DECL_produced(sym, POST) bool sym(Parser *self) __CPROVER_requires(XML_PRE(self) && self->_producedTokens < (size_t)-1) __CPROVER_assigns(self->_producedTokens) POST ;
#define PRODUCED_P1 ENS(RV && self->_producedTokens == OLD(self->_producedTokens) + 1)

/* ---------------- skipSpaces / skipWhitespaceOutsideText ---------------- */
/* (SIG / PRE / FRAMELIST are separate so that unit xml_next can generate assert/havoc/assume stubs from the SAME parts) */
#define SKIP_SIG(sym) void sym(Parser *self)
#define SKIP_PRE XML_PRE(self)
#define CUR_FRAMELIST self->_cur, self->_line, self->_col
#define DECL_skipSpaces(sym, POST) SKIP_SIG(sym) __CPROVER_requires(SKIP_PRE) __CPROVER_assigns(CUR_FRAMELIST) POST ;
/* S1 cursor monotone and <= n */
#define SKIP_SAFE ENS(XML_CUR_INV(self) && self->_cur >= OC)
/* S2 only white space is skipped; S3 all of it is skipped */
#define SKIP_CONTENT ENS((GS >= OC && GS < self->_cur) ==> XML_IS_SPACE(GSC)) \
                     ENS((GS == self->_cur && GS < self->_input.n) ==> !XML_IS_SPACE(GSC))

/* ---------------- matchString / matchWordCaseInsensitive ---------------- */
#define MATCH_PRE (XML_PRE(self) && XML_SLEN(s) <= 7 && MATCH_GHOST_DEF)
#define MATCH_SIG(sym) bool sym(Parser *self, const char *s)
#define DECL_match(sym, POST) MATCH_SIG(sym) __CPROVER_requires(MATCH_PRE) __CPROVER_assigns(CUR_FRAMELIST) POST ;
/* M1 invariant; M2 a match consumes exactly the word; M3 a mismatch consumes nothing */
#define MATCH_SAFE ENS(XML_CUR_INV(self)) ENS(RV ==> self->_cur == OC + GLEN) \
                   ENS(!RV ==> (self->_cur == OC && self->_line == OLD(self->_line) && self->_col == OLD(self->_col)))
/* M4 a reported match is real: the whole word is present at the cursor (GK = arbitrary index into the word, GWC/GIC the bytes there) */
#define MATCH_SOUND ENS(RV ==> GLEN <= self->_input.n - OC) ENS((RV && GK < GLEN) ==> GIC == GWC)
/* M5 a present word is reported (nothing beyond the end of the input is read to decide) */
#define MATCH_COMPLETE ENS((GLEN <= self->_input.n - OC && XML_PFX(self, OC, s, GLEN, XML_EQ)) ==> RV)
/* M6/M7 the same for the ASCII-case-insensitive word, which must be followed by a PRESENT boundary byte (white space, '>' or '[') */
#define MATCHWORD_SOUND ENS(RV ==> (GLEN <= self->_input.n - OC && XML_BOUNDARY(self, OC + GLEN))) ENS((RV && GK < GLEN) ==> XML_CIEQ(GIC, GWC))
/* M7 is proved for the one word the parser passes ("DOCTYPE"; for an arbitrary word the back end runs out of memory): the clause is guarded by s == "DOCTYPE" */
#define XML_S_IS_DOCTYPE(s) ((s)[0] == (char)68 && (s)[1] == (char)79 && (s)[2] == (char)67 && (s)[3] == (char)84 && (s)[4] == (char)89 && (s)[5] == (char)80 && (s)[6] == (char)69 && (s)[7] == 0)
#define MATCHWORD_COMPLETE ENS((XML_S_IS_DOCTYPE(s) && GLEN <= self->_input.n - OC && XML_PFX(self, OC, s, GLEN, XML_CIEQ) && XML_BOUNDARY(self, OC + GLEN)) ==> RV)

/* ---------------- readName ---------------- */
#define DECL_readName(sym, POST) iora_sv sym(Parser *self) __CPROVER_requires(XML_PRE(self)) \
  __CPROVER_assigns(self->_cur, self->_line, self->_col, self->_hasError, self->_error) POST ;
#define NAME_STARTS (OC < self->_input.n && XML_IS_NAMESTART(GOC))
/* R1 cursor; R6 slice containment (general form) and limit: the returned view lies inside the input and is <= maxNameLength;
 * R7 an empty result is the null view; a non-empty result never comes with a new error;
 * R8 the name was consumed (at least RV.n bytes) */
#define RNAME_SAFE ENS(XML_CUR_INV(self) && self->_cur >= OC) \
                   ENS(XML_SLICE_IN(self, RV) && RV.n <= self->_opt.maxNameLength) \
                   ENS(RV.n == 0 ? RV.p == NULL : self->_hasError == OLD(self->_hasError)) \
                   ENS(RV.n <= self->_cur - OC)
/* R2 no name here: empty view, nothing consumed, no error raised; R3 the scanned run is non-empty, consists of name characters, is maximal */
#define RNAME_RUN ENS(!NAME_STARTS ==> (RV.n == 0 && self->_cur == OC && self->_hasError == OLD(self->_hasError))) \
                  ENS(NAME_STARTS ==> self->_cur > OC) ENS((NAME_STARTS && GS == self->_cur && GS < self->_input.n) ==> !XML_IS_NAMECHAR(GSC)) \
                  ENS((NAME_STARTS && GS >= OC && GS < self->_cur) ==> XML_IS_NAMECHAR(GSC))
/* R4 exact slice: the returned view IS the scanned input range when it is within the limit; R5 limit exceeded => error flag and empty view */
#define RNAME_SLICE ENS((NAME_STARTS && self->_cur - OC <= self->_opt.maxNameLength) ==> (XML_SLICE_IS(self, RV, OC, self->_cur - OC) && self->_hasError == OLD(self->_hasError))) \
                    ENS((NAME_STARTS && self->_cur - OC > self->_opt.maxNameLength) ==> (RV.n == 0 && self->_hasError))

/* ---------------- readUntil ---------------- */
#define DECL_readUntil(sym, POST) bool sym(Parser *self, iora_sv endSeq, size_t *startOut, size_t *lenOut) \
  __CPROVER_requires(XML_PRE(self) && XML_GS_TAIL(self) && endSeq.n == 3 && __CPROVER_is_fresh(endSeq.p, endSeq.n)) \
  __CPROVER_requires(__CPROVER_is_fresh(startOut, sizeof(*startOut)) && __CPROVER_is_fresh(lenOut, sizeof(*lenOut))) \
  __CPROVER_assigns(self->_cur, self->_line, self->_col, *startOut, *lenOut) POST ;
/* U1 cursor; U5a not found => nothing consumed */
#define UNTIL_SAFE ENS(XML_CUR_INV(self) && self->_cur >= OC) ENS(!RV ==> self->_cur == OC)
/* U2 slice containment: (start,len) lies inside the input and leaves room for the terminator; U3 cursor right behind the terminator
 * (pure range facts: this is all the callers readComment/readCData need) */
#define UNTIL_RANGE ENS(RV ==> (*startOut == OC && *lenOut <= self->_input.n - OC && endSeq.n <= self->_input.n - OC - *lenOut)) \
                    ENS(RV ==> self->_cur == OC + *lenOut + endSeq.n)
/* U2b the reported content ends exactly where the terminator begins */
#define UNTIL_TERM ENS(RV ==> XML_SEQ_AT(self, OC + *lenOut, endSeq))
#define UNTIL_SLICE UNTIL_RANGE UNTIL_TERM
/* U4 FIRST occurrence: the reported content does not contain the terminator; U5b false only if the terminator does not occur at all */
#define UNTIL_FIRST ENS((RV && GS >= OC && GS < OC + *lenOut) ==> !XML_SEQ_GS(self, endSeq)) \
                    ENS((!RV && GS >= OC && GS < self->_input.n) ==> !XML_SEQ_GS(self, endSeq))

/* ---------------- readQuotedValue ---------------- */
#define DECL_readQuotedValue(sym, POST) bool sym(Parser *self, iora_sv *out) __CPROVER_requires(XML_PRE(self) && __CPROVER_is_fresh(out, sizeof(*out))) \
  __CPROVER_assigns(self->_cur, self->_line, self->_col, self->_hasError, self->_error, *out) POST ;
#define IS_QUOTE(c) ((c) == (char)34 || (c) == (char)39)
#define QUOTE_STARTS (OC < self->_input.n && IS_QUOTE(GOC))
/* Q1 cursor; Q5 failure <=> error flag raised; Q6 no opening quote: failure, nothing consumed */
#define RQV_SAFE ENS(XML_CUR_INV(self) && self->_cur >= OC) ENS(!RV ==> self->_hasError) ENS(RV ==> self->_hasError == OLD(self->_hasError)) \
                 ENS(!QUOTE_STARTS ==> (!RV && self->_cur == OC))
/* Q2 slice containment: the value is exactly the input range between the two quotes just consumed; Q4 limit */
#define RQV_SLICE ENS(RV ==> (QUOTE_STARTS && self->_cur >= OC + 2 && XML_SLICE_IS(self, *out, OC + 1, self->_cur - OC - 2))) \
                  ENS(RV ==> out->n <= self->_opt.maxTextSpan)
/* Q3 closing quote == opening quote and it is the FIRST such quote; Q7 completeness: a terminated value within the limit is accepted
 * (GS plays any matching quote; the first one is <= GS) */
#define RQV_CONTENT ENS((RV && GS == self->_cur - 1) ==> GSC == GOC) \
                    ENS((RV && GS > OC && GS < self->_cur - 1) ==> GSC != GOC) \
                    ENS((QUOTE_STARTS && GS > OC && GS < self->_input.n && GSC == GOC && GS - OC - 1 <= self->_opt.maxTextSpan) ==> RV)

/* ---------------- readText ---------------- */
/* precondition from the call site in next(): !eof() and the next byte is not '<' */
#define TOKEN_SIG(sym) bool sym(Parser *self, size_t startOffset, size_t startLine, size_t startCol)
#define RTEXT_PRE (XML_PRE(self) && NOT_EOF && GOC_PRE != (char)60 && self->_producedTokens < (size_t)-1)
#define TOKEN_FRAMELIST self->_cur, self->_line, self->_col, self->_hasError, self->_error, self->_token, self->_producedTokens
#define DECL_readText(sym, POST) TOKEN_SIG(sym) __CPROVER_requires(RTEXT_PRE) __CPROVER_assigns(TOKEN_FRAMELIST) POST ;
/* T1 cursor; T3 the span limit is tested BEFORE each step: never more than maxTextSpan bytes are taken;
 * T6 failure <=> error flag, and the only failure is the span limit; T7 token counter */
#define RTEXT_SAFE ENS(XML_CUR_INV(self) && self->_cur >= OC) ENS(self->_cur - OC <= self->_opt.maxTextSpan) \
                   ENS(!RV ==> (self->_hasError && self->_cur - OC == self->_opt.maxTextSpan && NOT_EOF)) ENS((!RV && GS == self->_cur) ==> GSC != (char)60) \
                   ENS(RV ==> self->_hasError == OLD(self->_hasError)) \
                   ENS(self->_producedTokens == OLD(self->_producedTokens) + (RV ? 1 : 0))
/* T2 slice containment: the Text token is exactly the consumed, non-empty input range; T5 token bookkeeping */
#define RTEXT_SLICE ENS(RV ==> (self->_token.kind == TokenKind_Text && self->_cur > OC && XML_SLICE_IS(self, self->_token.text, OC, self->_cur - OC))) \
                    ENS(RV ==> (self->_token.depth == self->_depth && self->_token.offset == startOffset && self->_token.line == startLine \
                         && self->_token.column == startCol && self->_token.name.n == 0 && self->_token.attributes.n == 0 && !self->_token.selfClosing))
/* T4 the text contains no '<' and extends up to the next '<' or the end */
#define RTEXT_CONTENT ENS((RV && GS >= OC && GS < self->_cur) ==> GSC != (char)60) \
                      ENS((RV && GS == self->_cur && GS < self->_input.n) ==> GSC == (char)60)
#endif
