/* unit xml_cursor: one contract symbol per proof (PRE + FRAME + one clause group, see contracts.h) and the harnesses. */

/* ---- eof ---- */
DECL_eof(Parser_eof_contract, EOF_C1)
void h_eof(void) { const Parser *p; bool r = Parser_eof(p); IORA_CANARY("h_eof: returns"); if (r) { IORA_CANARY("h_eof: at end"); } else { IORA_CANARY("h_eof: not at end"); } }

/* ---- peek ---- */
DECL_peek(Parser_peek_contract, PEEK_C2)
void h_peek(void) { const Parser *p; char c = Parser_peek(p); IORA_CANARY("h_peek: returns"); }

/* ---- get ---- */
DECL_get(Parser_get_contract, GET_C3 GET_C4 GET_C5)
void h_get(void) { Parser *p; char c = Parser_get(p); IORA_CANARY("h_get: returns"); if (c == 10) { IORA_CANARY("h_get: newline"); } }

/* ---- advance ---- */
DECL_advance(Parser_advance_contract, GET_C3 GET_C4)
void h_advance(void) { Parser *p; Parser_advance(p); IORA_CANARY("h_advance: returns"); }

/* ---- isNameStart ---- */
DECL_isNameStart(Parser_isNameStart_contract, NAME_N1)
void h_isNameStart(void) { const Parser *p; char c; bool r = Parser_isNameStart(p, c); IORA_CANARY("h_isNameStart: returns"); if (r) { IORA_CANARY("h_isNameStart: yes"); } else { IORA_CANARY("h_isNameStart: no"); } }

/* ---- isNameChar ---- */
DECL_isNameChar(Parser_isNameChar_contract, NAME_N2 NAME_N3)
void h_isNameChar(void) { const Parser *p; char c; bool r = Parser_isNameChar(p, c); IORA_CANARY("h_isNameChar: returns"); if (r) { IORA_CANARY("h_isNameChar: yes"); } else { IORA_CANARY("h_isNameChar: no"); } }

/* ---- fail ---- */
DECL_fail(Parser_fail_contract, FAIL_F1 FAIL_F2)
void h_fail(void) { Parser *p; const char *m; bool r = Parser_fail(p, m); IORA_CANARY("h_fail: returns"); }

/* ---- produced ---- */
DECL_produced(Parser_produced_contract, PRODUCED_P1)
void h_produced(void) { Parser *p; bool r = Parser_produced(p); IORA_CANARY("h_produced: returns"); }

/* ---- skipSpaces ---- */
DECL_skipSpaces(Parser_skipSpaces_safe, SKIP_SAFE)
DECL_skipSpaces(Parser_skipSpaces_content, SKIP_CONTENT)
void h_skipSpaces(void) { Parser *p; Parser_skipSpaces(p); IORA_CANARY("h_skipSpaces: returns"); }

/* ---- skipWhitespaceOutsideText ---- */
DECL_skipSpaces(Parser_skipWhitespaceOutsideText_safe, SKIP_SAFE)
DECL_skipSpaces(Parser_skipWhitespaceOutsideText_content, SKIP_CONTENT)
void h_skipWs(void) { Parser *p; Parser_skipWhitespaceOutsideText(p); IORA_CANARY("h_skipWs: returns"); }

/* ---- matchString ---- */
DECL_match(Parser_matchString_safe, MATCH_SAFE)
DECL_match(Parser_matchString_sound, MATCH_SOUND)
DECL_match(Parser_matchString_complete, MATCH_COMPLETE)
/* the harness plays the caller: an arbitrary C string of at most 7 characters in an 8-byte array */
void h_matchString(void) { Parser *p; char w[8]; w[7] = 0; bool r = Parser_matchString(p, w); IORA_CANARY("h_matchString: returns");
  if (r) { IORA_CANARY("h_matchString: matched"); } else { IORA_CANARY("h_matchString: no match"); } }

/* ---- matchWordCaseInsensitive ---- */
DECL_match(Parser_matchWordCaseInsensitive_safe, MATCH_SAFE)
DECL_match(Parser_matchWordCaseInsensitive_sound, MATCHWORD_SOUND)
void h_matchWord(void) { Parser *p; char w[8]; w[7] = 0; bool r = Parser_matchWordCaseInsensitive(p, w); IORA_CANARY("h_matchWord: returns");
  if (r) { IORA_CANARY("h_matchWord: matched"); } else { IORA_CANARY("h_matchWord: no match"); } }

/* ---- readName ---- */
DECL_readName(Parser_readName_safe, RNAME_SAFE)
DECL_readName(Parser_readName_run, RNAME_RUN)
DECL_readName(Parser_readName_slice, RNAME_SLICE)
void h_readName(void) { Parser *p; iora_sv r = Parser_readName(p); IORA_CANARY("h_readName: returns");
  if (r.n > 0) { IORA_CANARY("h_readName: name"); } else { IORA_CANARY("h_readName: none or too long"); } }

/* ---- readUntil ---- */
DECL_readUntil(Parser_readUntil_safe, UNTIL_SAFE)
DECL_readUntil(Parser_readUntil_range, UNTIL_RANGE)
DECL_readUntil(Parser_readUntil_term, UNTIL_TERM)
DECL_readUntil(Parser_readUntil_first, UNTIL_FIRST)
void h_readUntil(void) { Parser *p; iora_sv e; size_t *s; size_t *l; bool r = Parser_readUntil(p, e, s, l); IORA_CANARY("h_readUntil: returns");
  if (r) { IORA_CANARY("h_readUntil: found"); } else { IORA_CANARY("h_readUntil: not found"); } }

/* ---- readQuotedValue ---- */
DECL_readQuotedValue(Parser_readQuotedValue_safe, RQV_SAFE)
DECL_readQuotedValue(Parser_readQuotedValue_slice, RQV_SLICE)
DECL_readQuotedValue(Parser_readQuotedValue_content, RQV_CONTENT)
void h_readQuotedValue(void) { Parser *p; iora_sv *o; bool r = Parser_readQuotedValue(p, o); IORA_CANARY("h_readQuotedValue: returns");
  if (r) { IORA_CANARY("h_readQuotedValue: value"); } else { IORA_CANARY("h_readQuotedValue: error"); } }

/* ---- readText ---- */
DECL_readText(Parser_readText_safe, RTEXT_SAFE)
DECL_readText(Parser_readText_slice, RTEXT_SLICE)
DECL_readText(Parser_readText_content, RTEXT_CONTENT)
void h_readText(void) { Parser *p; size_t a, b, c; bool r = Parser_readText(p, a, b, c); IORA_CANARY("h_readText: returns");
  if (r) { IORA_CANARY("h_readText: text"); } else { IORA_CANARY("h_readText: span limit"); } }

/* ---- MATCHWORD_COMPLETE (M7) for the one word the parser passes ----
 * Through DFCC + loop contracts the back end runs out of memory on this clause (tried: arbitrary word, literal word, ghost bytes). It is decided
 * instead by a PLAIN harness that unwinds the two loops of the REAL function: the word has 7 characters, so 8 iterations exhaust both loops and
 * the unwinding assertions prove that (a complete proof for this word, reported by the framework under "bounded" because it uses --unwind).
 * The asserted text is the clause group MATCHWORD_COMPLETE itself (ENS -> assert, RV -> result, OLD -> entry snapshot). */
#undef ENS
#undef RV
#undef OLD
#undef OC
#define ENS(...) __CPROVER_assert((__VA_ARGS__), "M7 a present DOCTYPE word (any ASCII case) followed by a boundary byte is recognised");
#define RV iora_rv
#define OLD(x) ({ const Parser *self = &iora_oldv; (x); })
#define OC (iora_oldv._cur)
void h_matchWord_doctype(void)
{
  Parser PS; Parser *self = &PS;
  IORA_TRUE = 1;
  __CPROVER_assume(XML_SMALL(PS._input.n, XML_IN_BITS));
  PS._input.p = (const char *)malloc(PS._input.n);
  __CPROVER_assume(PS._input.p != NULL && XML_CUR_INV(self));
  const char *s = "DOCTYPE";
  GLEN = XML_SLEN(s);
  Parser iora_oldv = PS;
  bool iora_rv = Parser_matchWordCaseInsensitive(self, s);
  IORA_CANARY("h_matchWord_doctype: returns");
  MATCHWORD_COMPLETE
  if (iora_rv) { IORA_CANARY("h_matchWord_doctype: matched"); } else { IORA_CANARY("h_matchWord_doctype: no match"); }
}
