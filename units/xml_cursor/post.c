/* Contracts of the xml::Parser cursor layer (property C14: "every reported slice lies inside the input", "all configured
 * limits hold", "parsing terminates without undefined behaviour"). Helper preconditions come from the call sites:
 * peek()/get()/advance() REQUIRE !eof(), and every call site in this unit is checked against that because the
 * string_view operator[] shim asserts i < size().
 * OC = __CPROVER_old(self->_cur): the cursor on entry. GS is an arbitrary ghost position. */
#define OC __CPROVER_old(self->_cur)
#define CUR_FRAME __CPROVER_assigns(self->_cur, self->_line, self->_col)

/* ---------------- eof / peek / get / advance ---------------- */
bool Parser_eof_contract(const Parser *self)
__CPROVER_requires(XML_PRE(self))
__CPROVER_assigns()
/* C1 */ __CPROVER_ensures(__CPROVER_return_value == (self->_cur >= self->_input.n))
;
char Parser_peek_contract(const Parser *self)
__CPROVER_requires(XML_PRE(self) && self->_cur < self->_input.n)            /* precondition: !eof() */
__CPROVER_assigns()
/* C2 */ __CPROVER_ensures(__CPROVER_return_value == XML_AT(self, self->_cur))
;
#define GET_POST \
/* C3 exactly one byte consumed */ __CPROVER_ensures(self->_cur == OC + 1 && XML_CUR_INV(self)) \
/* C4 line/column bookkeeping */   __CPROVER_ensures(XML_AT(self, OC) == (char)10 ? (self->_line == __CPROVER_old(self->_line) + 1 && self->_col == 1) \
                                                     : (self->_line == __CPROVER_old(self->_line) && self->_col == __CPROVER_old(self->_col) + 1))
char Parser_get_contract(Parser *self)
__CPROVER_requires(XML_PRE(self) && self->_cur < self->_input.n)            /* precondition: !eof() */
CUR_FRAME
GET_POST
/* C5 */ __CPROVER_ensures(__CPROVER_return_value == XML_AT(self, OC))
;
void Parser_advance_contract(Parser *self)
__CPROVER_requires(XML_PRE(self) && self->_cur < self->_input.n)            /* precondition: !eof() */
CUR_FRAME
GET_POST
;
void h_eof(void) { const Parser *p; bool r = Parser_eof(p); IORA_CANARY("h_eof: returns"); if (r) { IORA_CANARY("h_eof: at end"); } else { IORA_CANARY("h_eof: not at end"); } }
void h_peek(void) { const Parser *p; char c = Parser_peek(p); IORA_CANARY("h_peek: returns"); }
void h_get(void) { Parser *p; char c = Parser_get(p); IORA_CANARY("h_get: returns"); if (c == '\n') { IORA_CANARY("h_get: newline"); } }
void h_advance(void) { Parser *p; Parser_advance(p); IORA_CANARY("h_advance: returns"); }

/* ---------------- isNameStart / isNameChar: XML 1.0 section 2.3 Name production, ASCII part; all 256 char values ---------------- */
bool Parser_isNameStart_contract(const Parser *self, char ch)
__CPROVER_requires(IORA_TRUE) __CPROVER_assigns()
/* N1 */ __CPROVER_ensures(__CPROVER_return_value == XML_IS_NAMESTART(ch))
;
bool Parser_isNameChar_contract(const Parser *self, char ch)
__CPROVER_requires(IORA_TRUE) __CPROVER_assigns()
/* N2 */ __CPROVER_ensures(__CPROVER_return_value == XML_IS_NAMECHAR(ch))
/* N3 bytes >= 0x80, control bytes, white space and markup delimiters are never name characters */
__CPROVER_ensures((ch < (char)45 || ch == (char)47 || ch == (char)60 || ch == (char)62 || ch == (char)61) ==> !__CPROVER_return_value)
;
void h_isNameStart(void) { const Parser *p; char c; bool r = Parser_isNameStart(p, c); IORA_CANARY("h_isNameStart: returns"); if (r) { IORA_CANARY("h_isNameStart: yes"); } else { IORA_CANARY("h_isNameStart: no"); } }
void h_isNameChar(void) { const Parser *p; char c; bool r = Parser_isNameChar(p, c); IORA_CANARY("h_isNameChar: returns"); if (r) { IORA_CANARY("h_isNameChar: yes"); } else { IORA_CANARY("h_isNameChar: no"); } }

/* ---------------- fail / produced ---------------- */
bool Parser_fail_contract(Parser *self, const char *msg)
__CPROVER_requires(XML_PRE(self))
__CPROVER_assigns(self->_hasError, self->_error)
/* F1 failure => error flag set */ __CPROVER_ensures(!__CPROVER_return_value && self->_hasError)
/* F2 the reported error position lies inside the input (<= size) */
__CPROVER_ensures(self->_error.offset == self->_cur && self->_error.offset <= self->_input.n && self->_error.line == self->_line && self->_error.column == self->_col)
;
bool Parser_produced_contract(Parser *self)
__CPROVER_requires(XML_PRE(self) && self->_producedTokens < (size_t)-1)
__CPROVER_assigns(self->_producedTokens)
/* P1 */ __CPROVER_ensures(__CPROVER_return_value && self->_producedTokens == __CPROVER_old(self->_producedTokens) + 1)
;
void h_fail(void) { Parser *p; const char *m; bool r = Parser_fail(p, m); IORA_CANARY("h_fail: returns"); }
void h_produced(void) { Parser *p; bool r = Parser_produced(p); IORA_CANARY("h_produced: returns"); }

/* ---------------- skipSpaces / skipWhitespaceOutsideText ---------------- */
#define SKIP_CONTRACT \
__CPROVER_requires(XML_PRE(self)) \
CUR_FRAME \
/* S1 cursor monotone, <= n */        __CPROVER_ensures(XML_CUR_INV(self) && self->_cur >= OC) \
/* S2 only white space is skipped */  __CPROVER_ensures((GS >= OC && GS < self->_cur) ==> XML_IS_SPACE(XML_AT(self, GS))) \
/* S3 all of it is skipped */         __CPROVER_ensures(self->_cur == self->_input.n || !XML_IS_SPACE(XML_AT(self, self->_cur)))
void Parser_skipSpaces_contract(Parser *self) SKIP_CONTRACT ;
void Parser_skipWhitespaceOutsideText_contract(Parser *self) SKIP_CONTRACT ;
void h_skipSpaces(void) { Parser *p; Parser_skipSpaces(p); IORA_CANARY("h_skipSpaces: returns"); }
void h_skipWs(void) { Parser *p; Parser_skipWhitespaceOutsideText(p); IORA_CANARY("h_skipWs: returns"); }

/* ---------------- matchString / matchWordCaseInsensitive ---------------- */
#define MATCH_FRAME \
/* M1 */ __CPROVER_ensures(XML_CUR_INV(self)) \
/* M2 a match consumes exactly the word */ __CPROVER_ensures(__CPROVER_return_value ==> self->_cur == OC + XML_SLEN(s)) \
/* M3 a mismatch consumes nothing */       __CPROVER_ensures(!__CPROVER_return_value ==> (self->_cur == OC && self->_line == __CPROVER_old(self->_line) && self->_col == __CPROVER_old(self->_col)))
bool Parser_matchString_contract(Parser *self, const char *s)
__CPROVER_requires(XML_PRE(self) && XML_SLEN(s) <= 7)
CUR_FRAME
MATCH_FRAME
/* M4 exact result: true iff the whole word is present at the cursor (never reads past the end to decide) */
__CPROVER_ensures(__CPROVER_return_value == XML_MATCH(self, OC, s, XML_EQ))
;
bool Parser_matchWordCaseInsensitive_contract(Parser *self, const char *s)
__CPROVER_requires(XML_PRE(self) && XML_SLEN(s) <= 7)
CUR_FRAME
MATCH_FRAME
/* M5 exact result: ASCII-case-insensitive match followed by a present boundary byte (space, '>' or '[') */
__CPROVER_ensures(__CPROVER_return_value == (XML_MATCH(self, OC, s, XML_CIEQ) && XML_BOUNDARY(self, OC + XML_SLEN(s))))
;
/* the harness plays the caller: an arbitrary C string of at most 7 characters in an 8-byte array */
void h_matchString(void) { Parser *p; char w[8]; w[7] = 0; bool r = Parser_matchString(p, w); IORA_CANARY("h_matchString: returns");
  if (r) { IORA_CANARY("h_matchString: matched"); } else { IORA_CANARY("h_matchString: no match"); } }
void h_matchWord(void) { Parser *p; char w[8]; w[7] = 0; bool r = Parser_matchWordCaseInsensitive(p, w); IORA_CANARY("h_matchWord: returns");
  if (r) { IORA_CANARY("h_matchWord: matched"); } else { IORA_CANARY("h_matchWord: no match"); } }

/* ---------------- readName ---------------- */
#define NAME_STARTS (OC < self->_input.n && XML_IS_NAMESTART(XML_AT(self, OC)))
iora_sv Parser_readName_contract(Parser *self)
__CPROVER_requires(XML_PRE(self))
__CPROVER_assigns(self->_cur, self->_line, self->_col, self->_hasError, self->_error)
/* R1 */ __CPROVER_ensures(XML_CUR_INV(self) && self->_cur >= OC)
/* R2 no name here: empty view, nothing consumed, no error raised */
__CPROVER_ensures(!NAME_STARTS ==> (__CPROVER_return_value.n == 0 && __CPROVER_return_value.p == NULL && self->_cur == OC && self->_hasError == __CPROVER_old(self->_hasError)))
/* R3 the scanned run: non-empty, consists of name characters, maximal */
__CPROVER_ensures(NAME_STARTS ==> (self->_cur > OC && (self->_cur == self->_input.n || !XML_IS_NAMECHAR(XML_AT(self, self->_cur)))))
__CPROVER_ensures((NAME_STARTS && GS >= OC && GS < self->_cur) ==> XML_IS_NAMECHAR(XML_AT(self, GS)))
/* R4 slice containment + limit: the returned view is exactly the scanned input range and is <= maxNameLength */
__CPROVER_ensures((NAME_STARTS && self->_cur - OC <= self->_opt.maxNameLength) ==> (XML_SLICE_IS(self, __CPROVER_return_value, OC, self->_cur - OC) && self->_hasError == __CPROVER_old(self->_hasError)))
/* R5 limit exceeded => error flag and empty view */
__CPROVER_ensures((NAME_STARTS && self->_cur - OC > self->_opt.maxNameLength) ==> (__CPROVER_return_value.n == 0 && self->_hasError))
/* R6 general form of slice containment */
__CPROVER_ensures(XML_SLICE_IN(self, __CPROVER_return_value) && __CPROVER_return_value.n <= self->_opt.maxNameLength)
;
void h_readName(void) { Parser *p; iora_sv r = Parser_readName(p); IORA_CANARY("h_readName: returns");
  if (r.n > 0) { IORA_CANARY("h_readName: name"); } else if (p->_hasError) { IORA_CANARY("h_readName: too long"); } else { IORA_CANARY("h_readName: none"); } }

/* ---------------- readUntil ---------------- */
bool Parser_readUntil_contract(Parser *self, iora_sv endSeq, size_t *startOut, size_t *lenOut)
__CPROVER_requires(XML_PRE(self) && endSeq.n >= 1 && endSeq.n <= 4 && __CPROVER_is_fresh(endSeq.p, endSeq.n))
__CPROVER_requires(__CPROVER_is_fresh(startOut, sizeof(*startOut)) && __CPROVER_is_fresh(lenOut, sizeof(*lenOut)))
__CPROVER_assigns(self->_cur, self->_line, self->_col, *startOut, *lenOut)
/* U1 */ __CPROVER_ensures(XML_CUR_INV(self) && self->_cur >= OC)
/* U2 slice containment: (start,len) lies inside the input and ends where the terminator begins */
__CPROVER_ensures(__CPROVER_return_value ==> (*startOut == OC && *lenOut <= self->_input.n - OC && XML_SEQ_AT(self, OC + *lenOut, endSeq)))
/* U3 the cursor ends right behind the terminator */
__CPROVER_ensures(__CPROVER_return_value ==> self->_cur == OC + *lenOut + endSeq.n)
/* U4 FIRST occurrence: the reported content does not contain the terminator */
__CPROVER_ensures((__CPROVER_return_value && GS >= OC && GS < OC + *lenOut) ==> !XML_SEQ_AT(self, GS, endSeq))
/* U5 false only if the terminator does not occur at all; nothing consumed */
__CPROVER_ensures(!__CPROVER_return_value ==> self->_cur == OC)
__CPROVER_ensures((!__CPROVER_return_value && GS >= OC && GS < self->_input.n) ==> !XML_SEQ_AT(self, GS, endSeq))
;
void h_readUntil(void) { Parser *p; iora_sv e; size_t *s; size_t *l; bool r = Parser_readUntil(p, e, s, l); IORA_CANARY("h_readUntil: returns");
  if (r) { IORA_CANARY("h_readUntil: found"); } else { IORA_CANARY("h_readUntil: not found"); } }

/* ---------------- readQuotedValue ---------------- */
#define IS_QUOTE(c) ((c) == (char)34 || (c) == (char)39)
#define QUOTE_STARTS (OC < self->_input.n && IS_QUOTE(XML_AT(self, OC)))
bool Parser_readQuotedValue_contract(Parser *self, iora_sv *out)
__CPROVER_requires(XML_PRE(self) && __CPROVER_is_fresh(out, sizeof(*out)))
__CPROVER_assigns(self->_cur, self->_line, self->_col, self->_hasError, self->_error, *out)
/* Q1 */ __CPROVER_ensures(XML_CUR_INV(self) && self->_cur >= OC)
/* Q2 slice containment: the value is exactly the input range between the two quotes just consumed */
__CPROVER_ensures(__CPROVER_return_value ==> (QUOTE_STARTS && self->_cur >= OC + 2 && XML_SLICE_IS(self, *out, OC + 1, self->_cur - OC - 2)))
/* Q3 closing quote == opening quote, and it is the FIRST such quote */
__CPROVER_ensures(__CPROVER_return_value ==> XML_AT(self, self->_cur - 1) == XML_AT(self, OC))
__CPROVER_ensures((__CPROVER_return_value && GS > OC && GS < self->_cur - 1) ==> XML_AT(self, GS) != XML_AT(self, OC))
/* Q4 limit */ __CPROVER_ensures(__CPROVER_return_value ==> out->n <= self->_opt.maxTextSpan)
/* Q5 failure <=> error flag raised */
__CPROVER_ensures(!__CPROVER_return_value ==> self->_hasError)
__CPROVER_ensures(__CPROVER_return_value ==> self->_hasError == __CPROVER_old(self->_hasError))
/* Q6 no opening quote: nothing consumed */
__CPROVER_ensures(!QUOTE_STARTS ==> (!__CPROVER_return_value && self->_cur == OC))
/* Q7 completeness: a terminated value within the limit is accepted (GS plays any matching quote; the first one is <= GS) */
__CPROVER_ensures((QUOTE_STARTS && GS > OC && GS < self->_input.n && XML_AT(self, GS) == XML_AT(self, OC) && GS - OC - 1 <= self->_opt.maxTextSpan) ==> __CPROVER_return_value)
;
void h_readQuotedValue(void) { Parser *p; iora_sv *o; bool r = Parser_readQuotedValue(p, o); IORA_CANARY("h_readQuotedValue: returns");
  if (r) { IORA_CANARY("h_readQuotedValue: value"); } else { IORA_CANARY("h_readQuotedValue: error"); } }

/* ---------------- readText ---------------- */
bool Parser_readText_contract(Parser *self, size_t startOffset, size_t startLine, size_t startCol)
/* call site (next()): !eof() and the next byte is not '<' */
__CPROVER_requires(XML_PRE(self) && self->_cur < self->_input.n && XML_AT(self, self->_cur) != (char)60 && self->_producedTokens < (size_t)-1)
__CPROVER_assigns(self->_cur, self->_line, self->_col, self->_hasError, self->_error, self->_token, self->_producedTokens)
/* T1 */ __CPROVER_ensures(XML_CUR_INV(self) && self->_cur >= OC)
/* T2 slice containment: the Text token is exactly the consumed, non-empty input range */
__CPROVER_ensures(__CPROVER_return_value ==> (self->_token.kind == TokenKind_Text && self->_cur > OC && XML_SLICE_IS(self, self->_token.text, OC, self->_cur - OC)))
/* T3 limit tested before each step: the span never exceeds maxTextSpan */
__CPROVER_ensures(self->_cur - OC <= self->_opt.maxTextSpan)
/* T4 the text contains no '<' and extends up to the next '<' or the end */
__CPROVER_ensures((__CPROVER_return_value && GS >= OC && GS < self->_cur) ==> XML_AT(self, GS) != (char)60)
__CPROVER_ensures(__CPROVER_return_value ==> (self->_cur == self->_input.n || XML_AT(self, self->_cur) == (char)60))
/* T5 token bookkeeping */
__CPROVER_ensures(__CPROVER_return_value ==> (self->_token.depth == self->_depth && self->_token.offset == startOffset && self->_token.line == startLine
   && self->_token.column == startCol && self->_token.name.n == 0 && self->_token.attributes.n == 0 && !self->_token.selfClosing))
__CPROVER_ensures(self->_producedTokens == __CPROVER_old(self->_producedTokens) + (__CPROVER_return_value ? 1 : 0))
/* T6 failure <=> error flag; the only failure is the span limit */
__CPROVER_ensures(!__CPROVER_return_value ==> (self->_hasError && self->_cur - OC == self->_opt.maxTextSpan && self->_cur < self->_input.n && XML_AT(self, self->_cur) != (char)60))
__CPROVER_ensures(__CPROVER_return_value ==> self->_hasError == __CPROVER_old(self->_hasError))
;
void h_readText(void) { Parser *p; size_t a, b, c; bool r = Parser_readText(p, a, b, c); IORA_CANARY("h_readText: returns");
  if (r) { IORA_CANARY("h_readText: text"); } else { IORA_CANARY("h_readText: span limit"); } }
