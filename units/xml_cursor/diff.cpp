// Differential run, C++ side: the REAL xml::Parser private members (-fno-access-control). Must print exactly what diff.c prints.
#include "iora/parsers/xml.hpp"
#include "diff_io.h"
#include <memory>
using namespace iora::parsers::xml;
static std::unique_ptr<Parser> mk(const diff_input &in, size_t start)
{
  Options o; o.permissive = diff_param(&in, "permissive", 0) != 0; o.maxNameLength = (size_t)diff_param(&in, "max_name", 1024); o.maxTextSpan = (size_t)diff_param(&in, "max_text", 1u << 20);
  auto p = std::make_unique<Parser>(std::string_view((const char *)in.bytes, in.n), o);
  while (p->_cur < start) p->advance();
  return p;
}
static void view(const Parser &p, std::string_view v) { if (v.data() == nullptr) printf("(null,%zu)", v.size()); else printf("(%zu,%zu)", (size_t)(v.data() - p._input.data()), v.size()); }
static void state(const Parser &p) { printf(" cur=%zu line=%zu col=%zu err=%d", p._cur, p._line, p._col, (int)p._hasError);
  if (p._hasError) printf(" %zu:%zu:%zu:\"%s\"", p._error.offset, p._error.line, p._error.column, p._error.message.c_str()); }
static const char *ENDS[] = { "-->", "?>", "]]>", ">", "" };
int main(int argc, char **argv)
{
  FILE *f = fopen(argv[1], "r"); diff_input in;
  while (diff_next(f, &in)) {
    size_t start = (size_t)diff_param(&in, "start", 0); if (start > in.n) start = in.n;
    size_t es = (size_t)diff_param(&in, "end", 0) % 4;
    { auto p = mk(in, start); std::string_view r = p->readName(); printf("name="); view(*p, r); state(*p); }
    { auto p = mk(in, start); size_t so = 777, lo = 777; bool r = p->readUntil(std::string_view(ENDS[es]), so, lo); printf(" | until=%d so=%zu lo=%zu", r, so, lo); state(*p); }
    { auto p = mk(in, start); std::string_view o; bool r = p->readQuotedValue(o); printf(" | quoted=%d out=", r); view(*p, o); state(*p); }
    { auto p = mk(in, start);
      if (p->_cur < p->_input.size() && p->_input[p->_cur] != '<') { bool r = p->readText(p->_cur, p->_line, p->_col);
        printf(" | text=%d kind=%d tv=", r, (int)p->_token.kind); view(*p, p->_token.text); printf(" depth=%zu off=%zu tl=%zu tc=%zu produced=%zu", p->_token.depth, p->_token.offset, p->_token.line, p->_token.column, p->_producedTokens); state(*p); } }
    printf("\n"); fflush(stdout); diff_free(&in);
  }
  return 0;
}
