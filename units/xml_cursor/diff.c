/* Differential run, C side: the EXTRACTED cursor layer of xml::Parser (eof/peek/get/advance/isNameStart/isNameChar/fail/produced and
 * readName, readUntil, readQuotedValue, readText), compiled natively. For each input a fresh parser is moved to offset `start` with
 * advance() (so line/column are the real ones) and each of the four readers is run from there. Views are printed as (offset into the
 * input, length). Compared per reader: result, returned view / out-parameters, cursor, line, column, error flag + Error fields, and for
 * readText the Text token (kind, text view, depth, offset, line, column) and _producedTokens.
 * readText is only called on non-empty text (otherwise it calls next(), which this unit does not extract). */
#include "unit_native.c"
#include "diff_io.h"
#ifndef XML_DIFF_HAVE_NEXT
bool Parser_next(Parser *self) { (void)self; fprintf(stderr, "Parser_next is not part of this unit\n"); abort(); }
#endif
static void init(Parser *p, const diff_input *in, size_t start)
{
  memset(p, 0, sizeof *p);
  p->_input.p = (const char *)in->bytes; p->_input.n = in->n;
  p->_opt = (Options){ diff_param(in, "permissive", 0) != 0, true, 256, 256, (size_t)diff_param(in, "max_name", 1024), (size_t)diff_param(in, "max_text", 1u << 20), 0 };
  p->_cur = 0; p->_line = 1; p->_col = 1; p->_depth = 0; p->_token = Token_DEFAULT; p->_hasError = false;
  p->_error = (Error){ 0, 1, 1, "" }; p->_emittedEof = false; p->_producedTokens = 0;
  while (p->_cur < start) Parser_advance(p);
}
static void view(const Parser *p, iora_sv v) { if (v.p == NULL) printf("(null,%zu)", v.n); else printf("(%zu,%zu)", (size_t)(v.p - p->_input.p), v.n); }
static void state(const Parser *p) { printf(" cur=%zu line=%zu col=%zu err=%d", p->_cur, p->_line, p->_col, p->_hasError);
  if (p->_hasError) printf(" %zu:%zu:%zu:\"%s\"", p->_error.offset, p->_error.line, p->_error.column, p->_error.message); }
static const char *ENDS[] = { "-->", "?>", "]]>", ">", "" };
int main(int argc, char **argv)
{
  FILE *f = fopen(argv[1], "r"); diff_input in;
  IORA_TRUE = 1;
  while (diff_next(f, &in)) {
    size_t start = (size_t)diff_param(&in, "start", 0); if (start > in.n) start = in.n;
    size_t es = (size_t)diff_param(&in, "end", 0) % 4;
    Parser p;
    init(&p, &in, start); { iora_sv r = Parser_readName(&p); printf("name="); view(&p, r); state(&p); }
    init(&p, &in, start); { size_t so = 777, lo = 777; iora_sv e = { ENDS[es], strlen(ENDS[es]) }; bool r = Parser_readUntil(&p, e, &so, &lo); printf(" | until=%d so=%zu lo=%zu", r, so, lo); state(&p); }
    init(&p, &in, start); { iora_sv o = { NULL, 0 }; bool r = Parser_readQuotedValue(&p, &o); printf(" | quoted=%d out=", r); view(&p, o); state(&p); }
    init(&p, &in, start);
    if (p._cur < p._input.n && p._input.p[p._cur] != '<') { bool r = Parser_readText(&p, p._cur, p._line, p._col);
      printf(" | text=%d kind=%d tv=", r, (int)p._token.kind); view(&p, p._token.text); printf(" depth=%zu off=%zu tl=%zu tc=%zu produced=%zu", p._token.depth, p._token.offset, p._token.line, p._token.column, p._producedTokens); state(&p); }
    printf("\n"); fflush(stdout); diff_free(&in);
  }
  return 0;
}
