/* unit transport_onclose (property C02): the whole Transport `onClose` engine callback (lambda in Impl::setupEngineCallbacks) and the
 * observer registration functions. Type environment: shims/iora_tsync.h + onclose_types.h. This file: ghost callback sequence, stubs,
 * the map cursor of the tombstone GC loop, loop contracts. */
_Static_assert(ReadMode_Async == 0, "ReadMode::Async is the value-initialised ReadMode");
typedef struct { int code; } iora_errinfo;      /* const TransportErrorInfo &reason: the code (message text dropped, R20) */
Impl *G_impl; size_t G_arrived; SessionId G_closing_sid;        /* ghost: the session whose close is being handled */

/* ---- "other key" havoc of the witness-key maps ---- */
static inline void iora_rmmap_havoc_other(iora_rmmap *m) { m->other = nondet_u8(); }
static inline void iora_rbmap_havoc_other(iora_rbmap *m)
{
  SyncReceiveBuffer *o = m->other;
  o->data.lo = nondet_size_t(); o->data.hi = nondet_size_t(); o->hasData = nondet_bool(); o->closed = nondet_bool();
  o->waiters = nondet_size_t(); o->flushing = nondet_bool(); o->overflow = nondet_bool();
  IORA_ASSUME(o->data.lo <= o->data.hi && o->hasData == (o->data.hi > o->data.lo));
}
static inline void iora_pcmap_havoc_other(iora_pcmap *m) { SyncConnectOp *o = m->other; o->done = false; o->abandoned = nondet_bool(); o->cv.n_one = 0; }
static inline void iora_obmap_havoc_other(iora_obmap *m) { m->other.n = nondet_size_t(); IORA_ASSUME(m->other.n <= ((size_t)1 << 40)); m->other.w.id = nondet_u64(); m->other.w.cb_set = nondet_bool(); m->other.w.seq = nondet_size_t(); m->other.w2.id = nondet_u64(); m->other.w2.cb_set = nondet_bool(); m->other.w2.seq = nondet_size_t(); IORA_ASSUME(OBS_SORTED(m->other)); }
static inline void iora_o2smap_havoc_other(iora_o2smap *m) { m->other = nondet_u64(); }
static inline void iora_udmap_havoc_other(iora_udmap *m) { m->other.data = nondet_u64(); m->other.cleanup = nondet_bool(); }
static inline size_t iora_rbmap_size(const iora_rbmap *m) { IORA_GMAP1_GUARDED(m); size_t n = nondet_size_t(); IORA_ASSUME(n >= (m->present ? 1 : 0)); return n; }

/* ---- std::make_shared<SyncReceiveBuffer>() (tombstone): one fresh object supplied by the harness, default member initialisers ---- */
SyncReceiveBuffer *G_fresh; unsigned G_made;
static inline SyncReceiveBuffer *iora_make_srb(Impl *im)
{
  IORA_ASSERT(G_made == 0, "at most one allocation per call (harness supplies one object)");
  G_made++;
  SyncReceiveBuffer *b = G_fresh;
  b->data.lo = G_arrived; b->data.hi = G_arrived; b->data.guard = &im->syncMutex; b->guard = &im->syncMutex;
  b->cv.n_one = 0; b->cv.n_all = 0; b->hasData = false; b->closed = false; b->waiters = 0; b->flushing = false; b->overflow = false;
  return b;
}

/* ---- iteration over receiveBuffers (tombstone GC): an abstract CURSOR over the witness-key map.
 * The map has N entries (arbitrary, >= 1 if the witness entry is present); the witness entry sits at an arbitrary position wpos; every other
 * position answers with an arbitrary other key and an arbitrary buffer (chosen when the cursor arrives). erase(it) removes the entry at the
 * cursor and moves to the next one; ++it advances. Each entry of the map is visited exactly once. ---- */
#define RBCUR_NONE ((size_t)-1)
typedef struct { size_t k, N, wpos; } iora_rbcur;      /* positions refer to the sequence of entries at begin(); an erased entry keeps its position */
SyncReceiveBuffer G_gc_other;          /* the buffer of the non-witness entry under the cursor: arbitrary, re-chosen when the cursor moves */
static inline void iora_rbcur_load(const iora_rbcur *c)
{
  if (c->k < c->N && c->k != c->wpos)
  {
    SyncReceiveBuffer *o = &G_gc_other;
    o->data.lo = nondet_size_t(); o->data.hi = nondet_size_t(); o->hasData = nondet_bool(); o->closed = nondet_bool();
    o->waiters = nondet_size_t(); o->flushing = nondet_bool(); o->overflow = nondet_bool();
    IORA_ASSUME(o->data.lo <= o->data.hi && o->hasData == (o->data.hi > o->data.lo));
  }
}
static inline iora_rbcur iora_rbcur_begin(iora_rbmap *m)
{
  IORA_GMAP1_GUARDED(m);
  iora_rbcur c; c.k = 0; c.N = nondet_size_t(); c.wpos = RBCUR_NONE;
  IORA_ASSUME(c.N < RBCUR_NONE);
  if (m->present) { c.wpos = nondet_size_t(); IORA_ASSUME(c.wpos < c.N); }
  G_gc_other.guard = m->guard; G_gc_other.data.guard = m->guard;
  iora_rbcur_load(&c);
  return c;
}
static inline bool iora_rbcur_more(const iora_rbcur *c) { return c->k < c->N; }
static inline SessionId iora_rbcur_first(const iora_rbcur *c)
{ IORA_ASSERT(c->k < c->N, "map iterator dereferenced only when it is not end()"); IORA_GMAP1_GUARDED(&G_impl->receiveBuffers);
  if (c->k == c->wpos) return G_impl->receiveBuffers.wkey;
  SessionId o = nondet_u64(); IORA_ASSUME(o != G_impl->receiveBuffers.wkey); return o; }
static inline SyncReceiveBuffer *iora_rbcur_second(const iora_rbcur *c)
{ IORA_ASSERT(c->k < c->N, "map iterator dereferenced only when it is not end()"); IORA_GMAP1_GUARDED(&G_impl->receiveBuffers);
  return c->k == c->wpos ? G_impl->receiveBuffers.wval : &G_gc_other; }
/* it = m.erase(it): removes the entry at the cursor, the cursor then stands on the next entry */
static inline void iora_rbcur_erase(iora_rbmap *m, iora_rbcur *c)
{ IORA_GMAP1_GUARDED(m); IORA_ASSERT(c->k < c->N, "erase(iterator): dereferenceable iterator");
  if (c->k == c->wpos)
  {
    const SyncReceiveBuffer *w = m->wval;
    IORA_ASSERT(m->wkey != G_closing_sid && w->closed && !w->hasData && w->data.lo == w->data.hi && w->waiters == 0 && !w->flushing,
                "GCW the tombstone GC erases an entry only if it is closed, has NO UNDRAINED DATA (hasData false, buffer empty), no parked waiter, no flush in progress, and is not the closing session's own entry");
    m->present = 0;
  }
  c->k++; iora_rbcur_load(c); }
static inline void iora_rbcur_next(iora_rbcur *c) { IORA_ASSERT(c->k < c->N, "++ on an iterator that is not end()"); c->k++; iora_rbcur_load(c); }

/* ---- ghost callback sequence (DESIGN C02: a sequence number per callback class). Every user callback asserts that NO Transport lock is held. ---- */
#define LOCKFREE(im) (!(im)->syncMutex.held && !(im)->callbackMutex.held && !(im)->observerMutex.held && !(im)->userDataMutex.held)
size_t G_seq, G_obs_calls, G_global_seq, G_w_seq, G_cleanup_seq; unsigned G_global_calls, G_w_calls, G_cleanup_calls;
size_t G_obs_next; SessionId G_cb_sid; int G_cb_code; uint64_t G_cleanup_data; bool G_global_registered;
/* The global close callback is USER CODE running with no Transport lock held: it may call back into the Transport. Modelled as an environment step that may
 * unobserve() an arbitrary observer id and may observe() a new observer on the CLOSING session - through the REAL (extracted) Transport::unobserve / observe, so the
 * observerMutex discipline is theirs. The state of the witness session's observer list when the callback RETURNS is recorded (G_ag_*): "still registered" in C02's
 * "then each still-registered per-session observer" means registered at that moment. */
uint64_t Transport_observe(Impl *_impl, SessionId sid, iora_fn cb);
bool Transport_unobserve(Impl *_impl, uint64_t id);
bool G_ag_valid, G_ag_present; iora_obsvec G_ag_vec; bool G_ag_o2s_present; uint64_t G_w_called_id;
static inline void iora_call_CloseCallback(Impl *im, iora_fn f, SessionId sid, iora_errinfo reason)
{
  IORA_ASSERT(f.set, "CB1 an empty std::function is never invoked");
  IORA_ASSERT(LOCKFREE(im), "CB2 user callback invoked with no Transport lock held (HR-6)");
  IORA_ASSERT(G_obs_calls == 0 && G_cleanup_calls == 0, "ORD0 the global close callback runs before every observer and before the cleanup");
  if (G_global_calls < 1000) G_global_calls++;
  G_global_seq = ++G_seq; G_cb_sid = sid; G_cb_code = reason.code;
  if (nondet_bool()) { (void)Transport_unobserve(im, nondet_u64()); }
  if (nondet_bool()) { iora_fn c; c.set = nondet_bool(); IORA_ASSUME(im->nextObserverId < (uint64_t)-1); (void)Transport_observe(im, sid, c); }
  G_ag_valid = 1; G_ag_present = im->observers.present; G_ag_vec = im->observers.wval; G_ag_o2s_present = im->observerToSession.present;
}
static inline void iora_call_Observer(Impl *im, const iora_obsvec *v, size_t i, SessionId sid, iora_errinfo reason)
{
  (void)reason;
  IORA_ASSERT(LOCKFREE(im), "CB2 observer invoked with no Transport lock held (HR-7)");
  IORA_ASSERT(i < v->n && (i != GI || v->w.cb_set) && (i != GJ || v->w2.cb_set), "CB1 an empty observer callback is never invoked");
  IORA_ASSERT(!(i == GJ && GI < v->n && v->w.cb_set) || G_w_calls == 1, "ORD4 for ANY two registered observers: the one registered earlier (lower vector index; the vector is sorted by registration, OBS_SORTED) has already run when the later one runs");
  IORA_ASSERT(G_global_calls == (G_global_registered ? 1u : 0u), "ORD1 observers run after the global close callback");
  IORA_ASSERT(G_cleanup_calls == 0, "ORD3 observers run before the user-data cleanup");
  IORA_ASSERT(i >= G_obs_next, "ORD2 observers run in vector (registration) order, each at most once");
  G_obs_next = i + 1;
  G_obs_calls++;
  if (i == GI) { if (G_w_calls < 1000) G_w_calls++; G_w_seq = ++G_seq; G_w_called_id = v->w.id; } else { ++G_seq; }
  IORA_ASSERT(sid == G_cb_sid || G_global_calls == 0, "observer receives the closing session id");
}
static inline void iora_call_Cleanup(Impl *im, uint64_t data)
{
  IORA_ASSERT(LOCKFREE(im), "CB2 cleanup invoked with no Transport lock held");
  if (G_cleanup_calls < 1000) G_cleanup_calls++;
  G_cleanup_seq = ++G_seq; G_cleanup_data = data;
}

/* ---- the data callback as invoked by the setReadMode flush loop (clause AC1) ---- */
static inline iora_time iora_now(void) { iora_time t = { 0 }; return t; }
static inline iora_chunk iora_mk_chunk(iora_spos p, size_t n) { iora_chunk c = { p, n }; return c; }
unsigned G_data_calls;
static inline void iora_call_DataCallback(Impl *im, iora_fn f, SessionId sid, iora_chunk data, iora_time t)
{ (void)t; (void)sid; (void)data; IORA_ASSERT(f.set, "CB1 an empty std::function is never invoked"); IORA_ASSERT(LOCKFREE(im), "CB2 user callback invoked with no Transport lock held"); if (G_data_calls < 1000) G_data_calls++; }

/* R10: nextObserverId.fetch_add(1, relaxed): sequential semantics (atomicity / ordering not modelled) */
static inline uint64_t iora_afetch_add_u64(uint64_t *x, uint64_t n) { uint64_t o = *x; IORA_ASSERT(o <= (uint64_t)-1 - n, "observer id counter does not wrap"); *x = o + n; return o; }

/* ---- loop contracts ---- */
/* the non-DFCC loop-contract instrumentation counts the `do { } while (0)` of the disabled canary macro as an inner loop without contract */
#if !defined(IORA_CANARIES)
#undef IORA_CANARY_LOOP
#define IORA_CANARY_LOOP(msg) ((void)0)
#endif
/* loop 1: remove the reverse index of every registered observer of the session (under observerMutex) */
#define OC_VEC1 (*(it).second)
#define IORA_LOOP_Impl_onClose_1 IORA_LC( \
  __CPROVER_assigns(iora_k, self->observerToSession.present) \
  __CPROVER_loop_invariant(iora_k <= OC_VEC1.n) \
  __CPROVER_loop_invariant((self->observerToSession.present == 0 || self->observerToSession.present == 1) && (!self->observerToSession.present || __CPROVER_loop_entry(self->observerToSession.present))) \
  __CPROVER_loop_invariant(!(GI < iora_k && OC_VEC1.w.id == self->observerToSession.wkey) || !self->observerToSession.present) \
  __CPROVER_decreases(OC_VEC1.n - iora_k))
/* loop 2: invoke the copied observers, outside every lock */
#define IORA_LOOP_Impl_onClose_2 IORA_LC( \
  __CPROVER_assigns(iora_i, G_seq, G_obs_calls, G_w_calls, G_w_seq, G_obs_next, G_w_called_id) \
  __CPROVER_loop_invariant(iora_i <= sessionObservers.n && G_obs_next <= iora_i && G_obs_calls <= iora_i) \
  __CPROVER_loop_invariant(GI < iora_i ==> G_w_calls == (sessionObservers.w.cb_set ? 1u : 0u)) \
  __CPROVER_loop_invariant(GI >= iora_i ==> G_w_calls == 0) \
  __CPROVER_loop_invariant(G_w_calls == 0 || G_w_called_id == sessionObservers.w.id) \
  __CPROVER_loop_invariant(G_w_calls == 0 || (G_w_seq > G_global_seq && G_w_seq <= G_seq)) \
  __CPROVER_loop_invariant(G_seq == __CPROVER_loop_entry(G_seq) + G_obs_calls && G_global_seq <= __CPROVER_loop_entry(G_seq)) \
  __CPROVER_decreases(sessionObservers.n - iora_i))
/* loop 3: GC of stale tombstones (under syncMutex) */
#define OC_WB (self->receiveBuffers.wval)
#define IORA_LOOP_Impl_onClose_3 IORA_LC( \
  __CPROVER_assigns(it.k, self->receiveBuffers.present, G_gc_other.data.lo, G_gc_other.data.hi, G_gc_other.hasData, G_gc_other.closed, G_gc_other.waiters, G_gc_other.flushing, G_gc_other.overflow) \
  __CPROVER_loop_invariant(it.k <= it.N) \
  __CPROVER_loop_invariant((self->receiveBuffers.present == 0 || self->receiveBuffers.present == 1) && (!self->receiveBuffers.present || __CPROVER_loop_entry(self->receiveBuffers.present))) \
  __CPROVER_loop_invariant(self->receiveBuffers.present == __CPROVER_loop_entry(self->receiveBuffers.present) \
       || (self->receiveBuffers.wkey != sid && OC_WB->closed && !OC_WB->hasData && OC_WB->waiters == 0 && !OC_WB->flushing)) \
  __CPROVER_decreases(it.N - it.k))

/* the same three loops, as they appear in the block targets (fan-out: loops 1-2; tombstone + GC: loop 3) */
#define IORA_LOOP_Impl_onClose_fanout_1 IORA_LOOP_Impl_onClose_1
#define IORA_LOOP_Impl_onClose_fanout_2 IORA_LOOP_Impl_onClose_2
#define IORA_LOOP_Impl_onClose_tombstone_gc_1 IORA_LOOP_Impl_onClose_3
