/* unit transport_onclose: members of Transport::Impl for the close fan-out (observer maps, user data), added to the shared Impl image
 * (shims/iora_tsync.h, IORA_IMPL_EXTRA). Included BEFORE iora_tsync.h, after iora_monitor.h / iora_gmap1.h.
 *
 * iora_obsvec - std::vector<std::pair<ObserverId, CloseCallback>> as a GHOST-INDEXED vector with ONE witness index GI (arbitrary, fixed):
 *   length n is exact; the element at index GI is stored (w); every other index answers with an arbitrary element whose id differs from
 *   w.id (observer ids are unique: nextObserverId.fetch_add). A clause proved for arbitrary GI holds for every element.  */
#ifndef ONCLOSE_TYPES_H
#define ONCLOSE_TYPES_H
size_t GI;
typedef struct { uint64_t id; bool cb_set; } iora_obs;          /* pair<ObserverId, CloseCallback>: id + "callback holds a callable" */
typedef struct { size_t n; iora_obs w; } iora_obsvec;
#define iora_obsvec_DEFAULT ((iora_obsvec){0, {0, 0}})
static inline size_t iora_obsvec_size(const iora_obsvec *v) { return v->n; }
static inline bool iora_obsvec_empty(const iora_obsvec *v) { return v->n == 0; }
static inline iora_obs iora_obsvec_at(const iora_obsvec *v, size_t i)
{
  IORA_ASSERT(i < v->n, "vector element access in range");
  if (i == GI) return v->w;
  iora_obs o; o.id = nondet_u64(); o.cb_set = nondet_bool(); IORA_ASSUME(!(GI < v->n) || o.id != v->w.id);
  return o;
}
static inline void iora_obsvec_emplace_back(iora_obsvec *v, uint64_t id, bool cb_set)
{ IORA_ASSERT(v->n < (size_t)-1, "vector growth"); if (v->n == GI) { v->w.id = id; v->w.cb_set = cb_set; } v->n++; }
/* vec.erase(std::remove_if(vec.begin(), vec.end(), [id](const auto &p){ return p.first == id; }), vec.end()): STABLE removal of every element whose
 * id is X; ids are unique, so at most one element goes. If it sits before the witness index the elements shift down and the witness slot
 * now holds the former next element (arbitrary, id != X). Returns the number of removed elements. */
static inline size_t iora_obsvec_remove_id(iora_obsvec *v, uint64_t X)
{
  size_t removed = 0; bool shift = 0;
  if (GI < v->n && v->w.id == X) { removed = 1; shift = 1; }
  else if (v->n > 0 && nondet_bool()) { removed = 1; shift = nondet_bool(); IORA_ASSUME(v->n >= 2 || !(GI < v->n)); }
  if (removed) { v->n--; if (shift && GI < v->n) { v->w.id = nondet_u64(); v->w.cb_set = nondet_bool(); IORA_ASSUME(v->w.id != X); } }
  return removed;
}
/* struct Impl::UserData { void *data; SessionCleanupCallback cleanup; } */
typedef struct { uint64_t data; bool cleanup; } UserData;
#define UserData_DEFAULT ((UserData){0, 0})
IORA_GMAP1(iora_obmap, uint64_t, iora_obsvec, iora_obsvec_DEFAULT)          /* observers: SessionId -> vector */
IORA_GMAP1(iora_o2smap, uint64_t, uint64_t, 0)                                /* observerToSession: ObserverId -> SessionId */
IORA_GMAP1(iora_udmap, uint64_t, UserData, UserData_DEFAULT)                  /* sessionData */
#define iora_obmap_erase(m, x) _Generic((x), iora_obmap_iter: iora_obmap_erase_it, default: iora_obmap_erase_key)((m), (x))
#define iora_o2smap_erase(m, x) _Generic((x), iora_o2smap_iter: iora_o2smap_erase_it, default: iora_o2smap_erase_key)((m), (x))
#define iora_udmap_erase(m, x) _Generic((x), iora_udmap_iter: iora_udmap_erase_it, default: iora_udmap_erase_key)((m), (x))
#define IORA_IMPL_EXTRA iora_mutex observerMutex; iora_obmap observers; iora_o2smap observerToSession; uint64_t nextObserverId; \
                        iora_mutex userDataMutex; iora_udmap sessionData;
#endif
