/* unit transport_onclose: members of Transport::Impl for the close fan-out (observer maps, user data), added to the shared Impl image
 * (shims/iora_tsync.h, IORA_IMPL_EXTRA). Included BEFORE iora_tsync.h, after iora_monitor.h / iora_gmap1.h.
 *
 * iora_obsvec - std::vector<std::pair<ObserverId, CloseCallback>> as a GHOST-INDEXED vector with TWO witness indices GI < GJ (arbitrary, fixed) and a ghost
 *   registration sequence number per element. A clause proved for arbitrary GI < GJ holds for every pair of elements (relative order!).  */
#ifndef ONCLOSE_TYPES_H
#define ONCLOSE_TYPES_H
size_t GI, GJ;                                    /* two witness indices, GI < GJ (assumed by every harness) */
size_t G_next_seq;                                /* ghost: registration sequence number handed to the next observe() - larger than that of every registered observer */
/* pair<ObserverId, CloseCallback>: id + "callback holds a callable" + GHOST registration sequence number (the order in which observe() was called) */
typedef struct { uint64_t id; bool cb_set; size_t seq; } iora_obs;
/* length n is exact; the elements at the indices GI (w) and GJ (w2) are stored; every other index answers with an arbitrary element whose id differs
 * from both and whose seq is consistent with the vector being SORTED by seq (the representation invariant OBS_SORTED: registration order == vector order) */
typedef struct { size_t n; iora_obs w; iora_obs w2; } iora_obsvec;
#define iora_obsvec_DEFAULT ((iora_obsvec){0, {0, 0, 0}, {0, 0, 0}})
#define OBS_SORTED(v) ((!(GJ < (v).n) || (v).w.seq < (v).w2.seq) && (!(GI < (v).n) || (v).w.seq < G_next_seq) && (!(GJ < (v).n) || (v).w2.seq < G_next_seq) \
                       && (!(GJ < (v).n) || (v).w.id != (v).w2.id))
static inline size_t iora_obsvec_size(const iora_obsvec *v) { return v->n; }
static inline bool iora_obsvec_empty(const iora_obsvec *v) { return v->n == 0; }
static inline iora_obs iora_obsvec_other(const iora_obsvec *v, size_t i)
{
  iora_obs o; o.id = nondet_u64(); o.cb_set = nondet_bool(); o.seq = nondet_size_t();
  IORA_ASSUME(o.seq < G_next_seq);
  IORA_ASSUME(!(GI < v->n) || (o.id != v->w.id && (i < GI ? o.seq < v->w.seq : o.seq > v->w.seq)));
  IORA_ASSUME(!(GJ < v->n) || (o.id != v->w2.id && (i < GJ ? o.seq < v->w2.seq : o.seq > v->w2.seq)));
  return o;
}
static inline iora_obs iora_obsvec_at(const iora_obsvec *v, size_t i)
{
  IORA_ASSERT(i < v->n, "vector element access in range");
  if (i == GI) return v->w;
  if (i == GJ) return v->w2;
  return iora_obsvec_other(v, i);
}
static inline void iora_obsvec_set(iora_obsvec *v, size_t i, iora_obs o) { if (i == GI) v->w = o; else if (i == GJ) v->w2 = o; }
static inline void iora_obsvec_emplace_back(iora_obsvec *v, uint64_t id, bool cb_set)
{ IORA_ASSERT(v->n < (size_t)-1 && G_next_seq < (size_t)-1, "vector growth"); iora_obs o = { id, cb_set, G_next_seq }; G_next_seq++; iora_obsvec_set(v, v->n, o); v->n++; }
/* vec.erase(std::remove_if(vec.begin(), vec.end(), [id](const auto &p){ return p.first == id; }), vec.end()): STABLE removal (std::remove_if keeps the relative
 * order of the kept elements) of the element whose id is X - ids are unique, so at most one goes. Everything behind it moves down by one: a witness slot at
 * or behind the removed position now holds the former NEXT element. Returns the number of removed elements. */
static inline size_t iora_obsvec_remove_id(iora_obsvec *v, uint64_t X)
{
  size_t p = v->n;                                                     /* position of the element with id X, or n */
  if (GI < v->n && v->w.id == X) p = GI;
  else if (GJ < v->n && v->w2.id == X) p = GJ;
  else if (nondet_bool()) { p = nondet_size_t(); IORA_ASSUME(p < v->n && p != GI && p != GJ); }
  if (p == v->n) return 0;
  iora_obsvec old = *v;
  if (p <= GI) { iora_obs nx = (GI + 1 < old.n) ? iora_obsvec_at(&old, GI + 1) : old.w; IORA_ASSUME(nx.id != X); v->w = nx; }
  if (p <= GJ) { iora_obs nx = (GJ + 1 < old.n) ? iora_obsvec_at(&old, GJ + 1) : old.w2; IORA_ASSUME(nx.id != X); v->w2 = nx; }
  v->n--;
  IORA_ASSUME(!(GJ < v->n) || v->w.id != v->w2.id);        /* ids are unique also among the non-witness elements that moved into the witness slots */
  return 1;
}
/* ---- the same removal written as find_if + swap-with-back + pop_back: element-level operations, so that what they do to the ORDER is decided by the contract ---- */
/* std::find_if(vec.begin(), vec.end(), [id](const auto &p){ return p.first == id; }) as an index (n == end()) */
static inline size_t iora_obsvec_find_id(const iora_obsvec *v, uint64_t X)
{
  if (GI < v->n && v->w.id == X) return GI;
  if (GJ < v->n && v->w2.id == X) return GJ;
  if (nondet_bool()) { size_t p = nondet_size_t(); IORA_ASSUME(p < v->n && p != GI && p != GJ); return p; }
  return v->n;
}
/* std::swap(*pos, vec.back()) */
static inline void iora_obsvec_swap_with_back(iora_obsvec *v, size_t p)
{
  IORA_ASSERT(p < v->n, "swap: dereferenceable iterator, non-empty vector");
  size_t b = v->n - 1;
  if (p == b) return;
  iora_obs ep = iora_obsvec_at(v, p), eb = iora_obsvec_at(v, b);
  iora_obsvec_set(v, p, eb); iora_obsvec_set(v, b, ep);
}
static inline void iora_obsvec_pop_back(iora_obsvec *v) { IORA_ASSERT(v->n > 0, "pop_back on a non-empty vector"); v->n--; }
/* struct Impl::UserData { void *data; SessionCleanupCallback cleanup; } */
typedef struct { uint64_t data; bool cleanup; } UserData;
#define UserData_DEFAULT ((UserData){0, 0})
IORA_GMAP1(iora_obmap, uint64_t, iora_obsvec, iora_obsvec_DEFAULT)          /* observers: SessionId -> vector */
IORA_GMAP1(iora_o2smap, uint64_t, uint64_t, 0)                                /* observerToSession: ObserverId -> SessionId */
IORA_GMAP1(iora_udmap, uint64_t, UserData, UserData_DEFAULT)                  /* sessionData */
#define iora_obmap_erase(m, x) _Generic((x), iora_obmap_iter: iora_obmap_erase_it, default: iora_obmap_erase_key)((m), (x))
#define iora_o2smap_erase(m, x) _Generic((x), iora_o2smap_iter: iora_o2smap_erase_it, default: iora_o2smap_erase_key)((m), (x))
#define iora_udmap_erase(m, x) _Generic((x), iora_udmap_iter: iora_udmap_erase_it, default: iora_udmap_erase_key)((m), (x))
#define IORA_IMPL_EXTRA iora_mutex observerMutex; iora_obmap observers; iora_o2smap observerToSession; uint64_t nextObserverId; \
                        iora_mutex userDataMutex; iora_udmap sessionData;
#endif
