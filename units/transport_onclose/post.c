/* Contract of the Transport onClose handler, written from property C02:
 *   "On close the global close callback runs first, then each still-registered per-session observer exactly once in registration order, then the
 *    session's user-data cleanup exactly once ... nothing is delivered for it after the close"
 * plus the C04 suppression clause (a pending connectSync session produces NO user-visible callback) and the C03 tombstone clauses, which are the
 * other two parts of the same lambda.  W = witness session of every per-session map (arbitrary), GI = witness index of the observer vector,
 * GOID = witness key of observerToSession.  Loops are closed by loop contracts (pre.h). */
#define OC_SETUP \
 \
  Impl impl; SyncConnectOp wop, oop; SyncReceiveBuffer wbuf, obuf, fresh; iora_engine eng; Impl *self = &impl; \
  SessionId W = nondet_u64(), sid = nondet_u64(); uint64_t GOID = nondet_u64(); iora_errinfo reason; reason.code = nondet_int(); \
  G_impl = self; impl.engine = &eng; G_fresh = &fresh; G_made = 0; IORA_TRUE = 1; G_closing_sid = sid; \
  impl.syncMutex.held = 0; impl.callbackMutex.held = 0; impl.observerMutex.held = 0; impl.userDataMutex.held = 0;      \
  impl.pendingConnects.guard = &impl.syncMutex; impl.readModes.guard = &impl.syncMutex; impl.receiveBuffers.guard = &impl.syncMutex; \
  impl.observers.guard = &impl.observerMutex; impl.observerToSession.guard = &impl.observerMutex; impl.sessionData.guard = &impl.userDataMutex; \
  impl.pendingConnects.wkey = W; impl.readModes.wkey = W; impl.receiveBuffers.wkey = W; impl.observers.wkey = W; impl.sessionData.wkey = W; \
  impl.observerToSession.wkey = GOID; \
  impl.pendingConnects.wval = &wop; impl.pendingConnects.other = &oop; impl.receiveBuffers.wval = &wbuf; impl.receiveBuffers.other = &obuf; \
  wop.guard = &impl.syncMutex; oop.guard = &impl.syncMutex; \
  wbuf.guard = &impl.syncMutex; wbuf.data.guard = &impl.syncMutex; obuf.guard = &impl.syncMutex; obuf.data.guard = &impl.syncMutex; \
   \
  impl.pendingConnects.present = nondet_bool(); impl.readModes.present = nondet_bool(); impl.receiveBuffers.present = nondet_bool(); \
  impl.observers.present = nondet_bool(); impl.observerToSession.present = nondet_bool(); impl.sessionData.present = nondet_bool(); \
  impl.onCloseCb.set = nondet_bool(); impl.shuttingDown = nondet_bool(); impl.observers.wval.w.cb_set = nondet_bool(); impl.observers.wval.w2.cb_set = nondet_bool(); impl.sessionData.wval.cleanup = nondet_bool(); \
  G_next_seq = nondet_size_t(); __CPROVER_assume(GI < GJ && G_next_seq < ((size_t)1 << 62) && impl.observers.wval.n <= ((size_t)1 << 40) && OBS_SORTED(impl.observers.wval)); \
  wop.done = nondet_bool(); wop.result.ok = nondet_bool(); wop.abandoned = nondet_bool(); \
  wbuf.hasData = nondet_bool(); wbuf.closed = nondet_bool(); wbuf.flushing = nondet_bool(); wbuf.overflow = nondet_bool(); \
  __CPROVER_assume(impl.readModes.wval <= ReadMode_Disabled && wbuf.cv.n_all < 1000 && wop.cv.n_one < 1000); \
  __CPROVER_assume(!impl.pendingConnects.present || !wop.done); \
  G_arrived = nondet_size_t(); __CPROVER_assume(G_arrived <= STREAM_LIMIT); \
  __CPROVER_assume(impl.observers.wval.n <= ((size_t)1 << 40));        \
  __CPROVER_assume(SRB_INV(&wbuf, G_arrived, impl.shuttingDown, impl.config.maxSyncReceiveBuffer)); \
  G_seq = 0; G_global_calls = 0; G_obs_calls = 0; G_w_calls = 0; G_cleanup_calls = 0; G_obs_next = 0; G_global_seq = 0; G_w_seq = 0; G_cleanup_seq = 0; \
  G_global_registered = impl.onCloseCb.set; G_ag_valid = 0; \
  __CPROVER_assume(impl.nextObserverId < (uint64_t)-1 && (!(GI < impl.observers.wval.n) || impl.observers.wval.w.id < impl.nextObserverId) && (!(GJ < impl.observers.wval.n) || impl.observers.wval.w2.id < impl.nextObserverId)); \
  Impl impl0 = impl; SyncReceiveBuffer w0 = wbuf; SyncConnectOp wop0 = wop; \
  iora_obsvec vec0 = impl.observers.wval; UserData ud0 = impl.sessionData.wval;

#define OC_DEFS \
   \
  bool presentR = G_ag_valid ? G_ag_present : impl0.observers.present; iora_obsvec vecR = G_ag_valid ? G_ag_vec : vec0; \
  size_t n0 = presentR ? vecR.n : 0; \
  bool w_live = presentR && GI < vecR.n; \
  bool cleanup_due = impl0.sessionData.present && ud0.cleanup && ud0.data != 0;


/* ---- steps 1-5 (block target Impl_onClose_fanout): connectSync suppression, global close callback, observers ---- */
void h_fanout(void)
{
  OC_SETUP
  int st = Impl_onClose_fanout(self, sid, reason);
  IORA_CANARY("h_fanout: returns");
  __CPROVER_assert(LOCKFREE(&impl), "LK5 no Transport lock is held at the end of the part");
  __CPROVER_assert(G_cleanup_calls == 0 && impl.sessionData.present == impl0.sessionData.present && impl.receiveBuffers.present == impl0.receiveBuffers.present && impl.readModes.present == impl0.readModes.present && SAME_BUF(wbuf, w0), "F2 this part touches neither the buffers / modes nor the user data");
  if (sid != W)
  {
    IORA_CANARY("h_fanout: other session");
    __CPROVER_assert(impl.pendingConnects.present == impl0.pendingConnects.present && wop.done == wop0.done, "F3a pending connect of every other session untouched");
    __CPROVER_assert(G_ag_valid ? (impl.observers.present == G_ag_present && impl.observers.wval.n == G_ag_vec.n && impl.observers.wval.w.id == G_ag_vec.w.id) : (impl.observers.present == impl0.observers.present && impl.observers.wval.n == vec0.n && impl.observers.wval.w.id == vec0.w.id), "F3b the handler itself leaves the observers of every other session untouched (the user's global callback may have changed them)");
    return;
  }
  __CPROVER_assert((st == 0) == impl0.pendingConnects.present, "S0 the handler stops after the first step exactly for a session with a pending connectSync");
  if (impl0.pendingConnects.present)
  {
    IORA_CANARY("h_fanout: pending connectSync");
    __CPROVER_assert(G_global_calls == 0 && G_obs_calls == 0 && G_cleanup_calls == 0, "S1 a session connectSync never handed out: NO global callback, NO observer (and the handler returns: no tombstone, no cleanup)");
    __CPROVER_assert(wop.done && !wop.result.ok && wop.result.code == reason.code && !impl.pendingConnects.present && wop.cv.n_one == wop0.cv.n_one + 1, "S2 the waiter gets err(reason), entry erased, notified");
    __CPROVER_assert(impl.observers.present == impl0.observers.present, "S3 observers untouched");
    return;
  }
  OC_DEFS
  __CPROVER_assert(G_global_calls == (impl0.onCloseCb.set ? 1u : 0u) && (!impl0.onCloseCb.set || (G_cb_sid == sid && G_cb_code == reason.code)), "G1 the global close callback runs exactly once (iff registered), with sid and reason");
  __CPROVER_assert(G_obs_calls <= n0, "O0 at most one call per registered observer");
  __CPROVER_assert(G_w_calls == ((w_live && vecR.w.cb_set) ? 1u : 0u) && (G_w_calls == 0 || G_w_called_id == vecR.w.id), "O1 the observer at (arbitrary) position GI of the session's list AS IT IS WHEN THE GLOBAL CALLBACK HAS RETURNED - still registered - runs exactly once; an observer the global callback unregistered does not run, one it registered does");
  __CPROVER_assert(!(G_w_calls == 1 && impl0.onCloseCb.set) || G_global_seq < G_w_seq, "O2 ... after the global close callback");
  __CPROVER_assert(!impl.observers.present, "O3 after the fan-out NO observer of the closing session remains in the maps (also none the global callback registered)");
  __CPROVER_assert(!(w_live && vecR.w.id == GOID) || !impl.observerToSession.present, "O4 ... and the reverse index of each of its observers");
  __CPROVER_assert(!impl.observerToSession.present || (G_ag_valid ? G_ag_o2s_present : impl0.observerToSession.present), "O5 the handler itself only shrinks the reverse index");
  if (impl0.onCloseCb.set) { IORA_CANARY("h_fanout: global callback"); }
  if (G_w_calls == 1) { IORA_CANARY("h_fanout: witness observer called"); }
  if (w_live && !vecR.w.cb_set) { IORA_CANARY("h_fanout: empty observer skipped"); }
  if (G_obs_calls >= 2) { IORA_CANARY("h_fanout: several observers"); }
}

/* ---- step 6 (block target Impl_onClose_tombstone_gc): closed flag / tombstone, read mode, GC of stale tombstones ---- */
void h_tombgc(void)
{
  OC_SETUP
  Impl_onClose_tombstone_gc(self, sid);
  IORA_CANARY("h_tombgc: returns");
  __CPROVER_assert(LOCKFREE(&impl), "LK5 no Transport lock is held at the end of the part");
  __CPROVER_assert(G_global_calls == 0 && G_obs_calls == 0 && G_cleanup_calls == 0 && impl.observers.present == impl0.observers.present && impl.sessionData.present == impl0.sessionData.present && impl.pendingConnects.present == impl0.pendingConnects.present, "F2 no callback; observers, user data, pending connects untouched");
  if (sid != W)
  {
    IORA_CANARY("h_tombgc: other session");
    __CPROVER_assert(impl.readModes.present == impl0.readModes.present && impl.readModes.wval == impl0.readModes.wval && SAME_BUF(wbuf, w0), "F3d read mode and buffer contents of every other session untouched");
    __CPROVER_assert(impl.receiveBuffers.present == impl0.receiveBuffers.present || (!impl.receiveBuffers.present && w0.closed && !w0.hasData && w0.waiters == 0 && !w0.flushing),
                     "GC1 the tombstone GC erases another session's entry only if it is closed, drained, with no parked waiter and no flush in progress");
    __CPROVER_assert(!(impl0.receiveBuffers.present && (w0.hasData || w0.data.hi > w0.data.lo)) || (impl.receiveBuffers.present && impl.receiveBuffers.wval == &wbuf && wbuf.data.lo == w0.data.lo && wbuf.data.hi == w0.data.hi),
                     "GC2 (C03) an entry with UNDRAINED bytes survives every close of another session, bytes intact: a late receiveSync still gets every byte that arrived before the close, then PeerClosed");
    if (impl.receiveBuffers.present != impl0.receiveBuffers.present) { IORA_CANARY("h_tombgc: stale tombstone collected"); }
    return;
  }
  /* tombstone (C03) */
  __CPROVER_assert(!impl.readModes.present && impl.receiveBuffers.present, "K1/K2 read mode forgotten; an entry (buffer or tombstone) exists afterwards - never erased by the GC of this very close");
  __CPROVER_assert(impl0.receiveBuffers.present ? (impl.receiveBuffers.wval == &wbuf && wbuf.closed && wbuf.data.lo == w0.data.lo && wbuf.data.hi == w0.data.hi && wbuf.hasData == w0.hasData && wbuf.overflow == w0.overflow && wbuf.waiters == w0.waiters && wbuf.flushing == w0.flushing && wbuf.cv.n_all == w0.cv.n_all + 1)
                                                 : (impl.receiveBuffers.wval == &fresh && fresh.closed && fresh.data.lo == fresh.data.hi && !fresh.hasData),
                   "K3-K6 existing buffer: closed set, bytes kept, readers notified; none: closed empty tombstone");
}

/* ---- step 7 (block target Impl_onClose_userdata) ---- */
void h_userdata(void)
{
  OC_SETUP
  Impl_onClose_userdata(self, sid);
  IORA_CANARY("h_userdata: returns");
  __CPROVER_assert(LOCKFREE(&impl), "LK5 no Transport lock is held at the end of the part");
  __CPROVER_assert(G_global_calls == 0 && G_obs_calls == 0 && impl.observers.present == impl0.observers.present && impl.receiveBuffers.present == impl0.receiveBuffers.present && SAME_BUF(wbuf, w0), "F2 nothing else touched");
  if (sid != W) { IORA_CANARY("h_userdata: other session"); __CPROVER_assert(impl.sessionData.present == impl0.sessionData.present && impl.sessionData.wval.data == ud0.data && G_cleanup_calls <= 1, "F3c user data of every other session untouched"); return; }
  OC_DEFS
  __CPROVER_assert(G_cleanup_calls == (cleanup_due ? 1u : 0u) && (!cleanup_due || G_cleanup_data == ud0.data), "U1 the user-data cleanup runs exactly once (iff data and cleanup are registered), with the data");
  __CPROVER_assert(!impl.sessionData.present, "U3 the user-data entry is removed");
  if (cleanup_due) { IORA_CANARY("h_userdata: cleanup"); }
}

/* ---- the WHOLE lambda, as one function: the same clauses plus the order across the parts ---- */
void h_onclose(void)
{
  OC_SETUP
  Impl_onClose(self, sid, reason);
  IORA_CANARY("h_onclose: returns");
  __CPROVER_assert(LOCKFREE(&impl), "LK5 no Transport lock is held when the handler returns");
  __CPROVER_assert(impl.shuttingDown == impl0.shuttingDown && impl.activeConnects == impl0.activeConnects && impl.activeReceives == impl0.activeReceives && impl.activeFlushes == impl0.activeFlushes, "F1 teardown state untouched");
  if (sid != W)
  {
    IORA_CANARY("h_onclose: other session");
    __CPROVER_assert(impl.pendingConnects.present == impl0.pendingConnects.present && wop.done == wop0.done, "F3a pending connect of every other session untouched");
    __CPROVER_assert(G_ag_valid ? (impl.observers.present == G_ag_present && impl.observers.wval.n == G_ag_vec.n && impl.observers.wval.w.id == G_ag_vec.w.id) : (impl.observers.present == impl0.observers.present && impl.observers.wval.n == vec0.n && impl.observers.wval.w.id == vec0.w.id), "F3b the handler itself leaves the observers of every other session untouched (the user's global callback may have changed them)");
    __CPROVER_assert(impl.sessionData.present == impl0.sessionData.present && impl.sessionData.wval.data == ud0.data, "F3c user data of every other session untouched");
    __CPROVER_assert(impl.readModes.present == impl0.readModes.present && impl.readModes.wval == impl0.readModes.wval && SAME_BUF(wbuf, w0), "F3d read mode and buffer contents of every other session untouched");
    __CPROVER_assert(impl.receiveBuffers.present == impl0.receiveBuffers.present || (!impl.receiveBuffers.present && w0.closed && !w0.hasData && w0.waiters == 0 && !w0.flushing),
                     "GC1 the tombstone GC erases another session's entry only if it is closed, drained, with no parked waiter and no flush in progress");
    __CPROVER_assert(!(impl0.receiveBuffers.present && (w0.hasData || w0.data.hi > w0.data.lo)) || (impl.receiveBuffers.present && impl.receiveBuffers.wval == &wbuf && wbuf.data.lo == w0.data.lo && wbuf.data.hi == w0.data.hi),
                     "GC2 (C03) an entry with UNDRAINED bytes survives every close of another session, bytes intact: a late receiveSync still gets every byte that arrived before the close, then PeerClosed");
    return;
  }
  if (impl0.pendingConnects.present)
  {
    IORA_CANARY("h_onclose: pending connectSync");
    __CPROVER_assert(G_global_calls == 0 && G_obs_calls == 0 && G_cleanup_calls == 0, "S1 a session connectSync never handed out: NO global callback, NO observer, NO cleanup");
    __CPROVER_assert(wop.done && !wop.result.ok && wop.result.code == reason.code && !impl.pendingConnects.present && wop.cv.n_one == wop0.cv.n_one + 1, "S2 the waiter gets err(reason), entry erased, notified");
    __CPROVER_assert(impl.observers.present == impl0.observers.present && impl.sessionData.present == impl0.sessionData.present && impl.receiveBuffers.present == impl0.receiveBuffers.present
                     && impl.readModes.present == impl0.readModes.present && SAME_BUF(wbuf, w0), "S3 nothing else is touched (no tombstone, no cleanup)");
    return;
  }
  OC_DEFS
  __CPROVER_assert(G_global_calls == (impl0.onCloseCb.set ? 1u : 0u) && (!impl0.onCloseCb.set || (G_cb_sid == sid && G_cb_code == reason.code)), "G1 the global close callback runs exactly once (iff registered), with sid and reason");
  __CPROVER_assert(G_obs_calls <= n0, "O0 at most one call per registered observer");
  __CPROVER_assert(G_w_calls == ((w_live && vecR.w.cb_set) ? 1u : 0u) && (G_w_calls == 0 || G_w_called_id == vecR.w.id), "O1 the observer at (arbitrary) position GI of the session's list AS IT IS WHEN THE GLOBAL CALLBACK HAS RETURNED - still registered - runs exactly once; an observer the global callback unregistered does not run, one it registered does");
  __CPROVER_assert(!(G_w_calls == 1 && impl0.onCloseCb.set) || G_global_seq < G_w_seq, "O2 ... after the global close callback");
  __CPROVER_assert(!impl.observers.present, "O3 after the fan-out NO observer of the closing session remains in the maps (also none the global callback registered)");
  __CPROVER_assert(!(w_live && vecR.w.id == GOID) || !impl.observerToSession.present, "O4 ... and the reverse index of each of its observers");
  __CPROVER_assert(!impl.observerToSession.present || (G_ag_valid ? G_ag_o2s_present : impl0.observerToSession.present), "O5 the handler itself only shrinks the reverse index");
  __CPROVER_assert(G_cleanup_calls == (cleanup_due ? 1u : 0u) && (!cleanup_due || G_cleanup_data == ud0.data), "U1 the user-data cleanup runs exactly once (iff data and cleanup are registered), with the data");
  __CPROVER_assert(!cleanup_due || ((!impl0.onCloseCb.set || G_global_seq < G_cleanup_seq) && (G_w_calls == 0 || G_w_seq < G_cleanup_seq) && G_cleanup_seq == G_seq), "U2 ... LAST: after the global callback and after every observer (highest sequence number)");
  __CPROVER_assert(!impl.sessionData.present, "U3 the user-data entry is removed");
  /* tombstone (C03) */
  __CPROVER_assert(!impl.readModes.present && impl.receiveBuffers.present, "K1/K2 read mode forgotten; an entry (buffer or tombstone) exists afterwards - never erased by the GC of this very close");
  __CPROVER_assert(impl0.receiveBuffers.present ? (impl.receiveBuffers.wval == &wbuf && wbuf.closed && wbuf.data.lo == w0.data.lo && wbuf.data.hi == w0.data.hi && wbuf.hasData == w0.hasData && wbuf.overflow == w0.overflow && wbuf.waiters == w0.waiters && wbuf.flushing == w0.flushing && wbuf.cv.n_all == w0.cv.n_all + 1)
                                                 : (impl.receiveBuffers.wval == &fresh && fresh.closed && fresh.data.lo == fresh.data.hi && !fresh.hasData),
                   "K3-K6 existing buffer: closed set, bytes kept, readers notified; none: closed empty tombstone");
  if (impl0.onCloseCb.set) { IORA_CANARY("h_onclose: global callback"); }
  if (G_w_calls == 1) { IORA_CANARY("h_onclose: witness observer called"); }
  if (cleanup_due) { IORA_CANARY("h_onclose: cleanup"); }
  if (G_obs_calls >= 2 && cleanup_due && impl0.onCloseCb.set) { IORA_CANARY("h_onclose: global, several observers, cleanup"); }
}

/* ---- Transport::observe / unobserve ("still-registered" and "registration order" are defined by these two) ---- */
void h_observe(void)
{
  OC_SETUP
  iora_fn cb; cb.set = nondet_bool();
  __CPROVER_assume(impl.nextObserverId < (uint64_t)-1 && impl.observers.wval.n < ((size_t)1 << 40));
  /* ids handed out so far are below the counter: the new id is not yet in the reverse index */
  __CPROVER_assume(!(impl.observerToSession.present && GOID >= impl.nextObserverId));
  __CPROVER_assume((!(GI < impl.observers.wval.n) || impl.observers.wval.w.id < impl.nextObserverId) && (!(GJ < impl.observers.wval.n) || impl.observers.wval.w2.id < impl.nextObserverId));
  Impl impl1 = impl; size_t seq1 = G_next_seq;
  uint64_t id = Transport_observe(self, sid, cb);
  IORA_CANARY("h_observe: returns");
  __CPROVER_assert(LOCKFREE(&impl), "LK5 no Transport lock held at return");
  __CPROVER_assert(id == impl1.nextObserverId && impl.nextObserverId == id + 1, "OB1 observer ids are handed out strictly increasing (never reused)");
  __CPROVER_assert(GOID == id ? (impl.observerToSession.present && impl.observerToSession.wval == sid) : (impl.observerToSession.present == impl1.observerToSession.present && impl.observerToSession.wval == impl1.observerToSession.wval), "OB2 the reverse index maps the new id to sid; other ids untouched");
  if (sid != W) { IORA_CANARY("h_observe: other session"); __CPROVER_assert(impl.observers.present == impl1.observers.present && impl.observers.wval.n == vec0.n && impl.observers.wval.w.id == vec0.w.id, "F3b observers of every other session untouched"); return; }
  size_t n1 = impl1.observers.present ? vec0.n : 0;
  __CPROVER_assert(impl.observers.present && impl.observers.wval.n == n1 + 1, "OB3 exactly one element is added to the session's list");
  __CPROVER_assert(GI != n1 || (impl.observers.wval.w.id == id && impl.observers.wval.w.cb_set == cb.set), "OB4 ... at the END (registration order == vector order), holding this id and callback");
  __CPROVER_assert(!(GI < n1) || (impl.observers.wval.w.id == vec0.w.id && impl.observers.wval.w.cb_set == vec0.w.cb_set), "OB5 earlier registrations keep their position");
  __CPROVER_assert(OBS_SORTED(impl.observers.wval) && G_next_seq == seq1 + 1 && (GI != n1 || impl.observers.wval.w.seq == seq1) && (GJ != n1 || (impl.observers.wval.w2.seq == seq1 && impl.observers.wval.w2.id == id)), "OB6 the new registration gets the next sequence number and the list stays sorted by registration (for arbitrary GI < GJ)");
  if (!impl1.observers.present) { IORA_CANARY("h_observe: first observer of the session"); }
}
void h_unobserve(void)
{
  OC_SETUP
  uint64_t id = nondet_u64();
  __CPROVER_assume(impl.observers.wval.n <= ((size_t)1 << 40));
  Impl impl1 = impl;
  bool r = Transport_unobserve(self, id);
  IORA_CANARY("h_unobserve: returns");
  __CPROVER_assert(LOCKFREE(&impl), "LK5 no Transport lock held at return");
  if (id != GOID)
  {
    IORA_CANARY("h_unobserve: other id");
    __CPROVER_assert(impl.observerToSession.present == impl1.observerToSession.present && impl.observerToSession.wval == impl1.observerToSession.wval, "F3 reverse-index entries of other ids untouched");
    return;
  }
  __CPROVER_assert(r == impl1.observerToSession.present, "UN1 true iff the id was registered");
  if (!impl1.observerToSession.present)
  {
    IORA_CANARY("h_unobserve: unknown id");
    __CPROVER_assert(impl.observers.present == impl1.observers.present && impl.observers.wval.n == vec0.n && impl.observers.wval.w.id == vec0.w.id && !impl.observerToSession.present, "UN2 unknown id: nothing is modified");
    return;
  }
  __CPROVER_assert(!impl.observerToSession.present, "UN3 the id leaves the reverse index");
  if (impl1.observerToSession.wval == W)
  {
    IORA_CANARY("h_unobserve: observer of the witness session");
    __CPROVER_assert(!(impl.observers.present && GI < impl.observers.wval.n) || impl.observers.wval.w.id != id, "UN4 no element of the session's list carries the id any more (so the close fan-out will not call it)");
    __CPROVER_assert(!(impl.observers.present && GJ < impl.observers.wval.n) || impl.observers.wval.w2.id != id, "UN4b (second witness)");
    __CPROVER_assert(!impl.observers.present || OBS_SORTED(impl.observers.wval), "UN8 the RELATIVE ORDER of the remaining observers is unchanged: for arbitrary positions GI < GJ of the list afterwards, the observer at GI was registered before the one at GJ (C02: observers run in registration order - the fan-out's increasing-index order rests on this)");
    __CPROVER_assert(!impl1.observers.present || (impl.observers.wval.n <= vec0.n && vec0.n - impl.observers.wval.n <= 1), "UN5 at most that one element is removed");
    __CPROVER_assert(!impl.observers.present || impl.observers.wval.n > 0, "UN6 an emptied list is removed from the map");
    __CPROVER_assert(!(impl1.observers.present && GI < vec0.n && vec0.w.id != id && impl.observers.wval.n == vec0.n) || (impl.observers.wval.w.id == vec0.w.id), "UN7 nothing removed: elements keep their position");
  }
  else
  {
    IORA_CANARY("h_unobserve: observer of another session");
    __CPROVER_assert(impl.observers.present == impl1.observers.present && impl.observers.wval.n == vec0.n && impl.observers.wval.w.id == vec0.w.id, "F3b the witness session's list is untouched");
  }
}

/* ---- C02 "nothing is delivered for it after the close", at the Transport level.  Data reaches the application's data callback on two paths:
 * (i) the engine's onData in Async mode - after the close the Transport has no filter (sync_ondata Y2), so this part rests on the engine never firing
 *     a data event after the close of an id (tcp_close / udp_close_sites; natively: 60 rounds of stop() against active senders, TCP and UDP: 0 events);
 * (ii) the Sync->Async flush loop of setReadMode, driven by an APPLICATION thread from the buffer. Clause AC1: an iteration that finds the buffer
 *     closed (onClose has run its tombstone step: the close callback, the observers and the user-data cleanup have been delivered) invokes no data callback. ---- */
void h_no_data_after_close(void)
{
  OC_SETUP
  iora_fn cb; cb.set = nondet_bool(); G_data_calls = 0;
  wbuf.flushing = 1;
  __CPROVER_assume(impl.receiveBuffers.present && wbuf.closed);
  int st = setReadMode_flush_step(self, W, &wbuf, cb);
  IORA_CANARY("h_no_data_after_close: returns");
  __CPROVER_assert(G_data_calls == 0, "AC1 after the close of a session its buffered bytes are not pushed to the data callback (they remain readable through receiveSync until PeerClosed)");
  (void)st;
}
