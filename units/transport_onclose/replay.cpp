// REPLAY adapter for unit transport_onclose: the REAL Transport over a scripted engine; the engine's onClose is fired as the I/O thread would.
// SCEN 1: global onClose + three observers (the second one unobserved before the close) + user data with cleanup -> order and multiplicity (C02)
// SCEN 2: a session with a pending connectSync that fails -> no user-visible callback at all
// SCEN 3 (observation): onData for an id whose close has been processed
#include "../sync_ondata/scripted_engine.h"
#include "replay_io.h"
#include <thread>
int main(int argc, char **argv) {
  auto in = replay_io::load(argv[1]); int scen = (int)replay_io::u64(in["SCEN"]);
  auto eng = std::make_unique<ScriptedEngine>(); ScriptedEngine *e = eng.get();
  auto t = Transport::withEngine(std::move(eng), TransportConfig{});
  std::vector<std::string> log; const SessionId sid = 7; int payload = 42;
  t->onClose([&](SessionId s, const TransportErrorInfo &) { log.push_back("global:" + std::to_string(s)); });
  t->onData([&](SessionId s, iora::core::BufferView, std::chrono::steady_clock::time_point) { log.push_back("data:" + std::to_string(s)); });
  if (scen == 1) {
    auto o1 = t->observe(sid, [&](SessionId, const TransportErrorInfo &) { log.push_back("obs1"); });
    auto o2 = t->observe(sid, [&](SessionId, const TransportErrorInfo &) { log.push_back("obs2"); });
    auto o3 = t->observe(sid, [&](SessionId, const TransportErrorInfo &) { log.push_back("obs3"); });
    t->observe(sid + 1, [&](SessionId, const TransportErrorInfo &) { log.push_back("obs-other-session"); });
    (void)o1; (void)o3;
    if (!t->unobserve(o2) || t->unobserve(o2)) replay_io::fail("UN1 unobserve: true once, false afterwards");
    t->setSessionData(sid, &payload, [&](void *p) { log.push_back(p == &payload ? "cleanup" : "cleanup:wrong-data"); });
    e->cbs.onClose(sid, TransportErrorInfo{TransportError::PeerClosed, "peer closed"});
    std::string got; for (auto &l : log) got += l + " "; printf("onClose(%llu) -> %s\n", (unsigned long long)sid, got.c_str());
    std::vector<std::string> want = {"global:7", "obs1", "obs3", "cleanup"};
    if (log != want) replay_io::fail("C02: expected exactly: global close callback, then the still-registered observers in registration order, then the cleanup");
    if (t->getSessionData(sid) != nullptr) replay_io::fail("U3 user data entry must be removed");
    { std::lock_guard<std::mutex> lk(t->_impl->observerMutex); if (t->_impl->observers.count(sid) || t->_impl->observerToSession.size() != 1) replay_io::fail("O3/O4 observer list and reverse index of the session must be removed"); }
    replay_io::ok("close fan-out order and multiplicity hold");
  } else if (scen == 2) {
    t->observe(e->next, [&](SessionId, const TransportErrorInfo &) { log.push_back("obs"); });
    const SessionId csid = e->next;
    std::thread io([&] { for (;;) { std::this_thread::sleep_for(std::chrono::milliseconds(2)); std::lock_guard<std::mutex> lk(t->_impl->syncMutex); if (t->_impl->pendingConnects.count(csid)) break; }
                         e->cbs.onClose(csid, TransportErrorInfo{TransportError::Connect, "refused"}); });
    auto r = t->connectSync("peer", 1, TlsMode::None, std::chrono::milliseconds(5000)); io.join();
    if (r.isOk() || !log.empty()) replay_io::fail("S1 a session connectSync never handed out must produce no global callback and no observer call");
    replay_io::ok("suppressed");
  } else if (scen == 7) {
    // clause O1/O3 with a re-entrant global callback: it unobserves B and registers D on the closing session
    ObserverId bId = 0; bool unobsB = false;
    auto eng2 = std::make_unique<ScriptedEngine>(); ScriptedEngine *e2 = eng2.get();
    auto t2 = Transport::withEngine(std::move(eng2), TransportConfig{});
    std::vector<std::string> lg;
    t2->observe(sid, [&](SessionId, const TransportErrorInfo &) { lg.push_back("A"); });
    bId = t2->observe(sid, [&](SessionId, const TransportErrorInfo &) { lg.push_back("B"); });
    t2->observe(sid, [&](SessionId, const TransportErrorInfo &) { lg.push_back("C"); });
    t2->onClose([&](SessionId s, const TransportErrorInfo &) { lg.push_back("global"); unobsB = t2->unobserve(bId); t2->observe(s, [&](SessionId, const TransportErrorInfo &) { lg.push_back("D"); }); });
    e2->cbs.onClose(sid, TransportErrorInfo{TransportError::PeerClosed, "peer closed"});
    std::string got; for (auto &l : lg) got += l + " "; size_t left; { std::lock_guard<std::mutex> lk(t2->_impl->observerMutex); left = t2->_impl->observers.count(sid) + t2->_impl->observerToSession.size(); }
    printf("observers A,B,C; global callback unobserves B (-> %s) and registers D; onClose -> %s; entries left in the maps: %zu\n", unobsB ? "true" : "false", got.c_str(), left);
    std::vector<std::string> want = {"global", "A", "C", "D"};
    if (lg != want || !unobsB) replay_io::fail("O1 (C02): exactly the observers STILL REGISTERED when the global callback has returned must run (A, C, D - not B), in registration order");
    if (left != 0) replay_io::fail("O3 (C02): after the fan-out no observer of the closing session may remain in the maps");
    replay_io::ok("still-registered observers ran; maps clean");
  } else if (scen == 6) {
    // clauses GCW / GC2 (C03): session 7 is closed with bytes AB still unread; the close of ANOTHER session runs the stale-tombstone GC; a late receiveSync(7) must still
    // get AB and then PeerClosed
    TransportConfig cfg; cfg.syncBufferGcThreshold = 0;                 // the GC runs on every close
    auto eng2 = std::make_unique<ScriptedEngine>(); ScriptedEngine *e2 = eng2.get();
    auto t2 = Transport::withEngine(std::move(eng2), cfg);
    t2->setReadMode(7, ReadMode::Sync);
    e2->cbs.onData(7, iora::core::BufferView((const uint8_t *)"AB", 2), std::chrono::steady_clock::now());
    e2->cbs.onClose(7, TransportErrorInfo{TransportError::PeerClosed, "peer closed"});
    e2->cbs.onClose(8, TransportErrorInfo{TransportError::PeerClosed, "peer closed"});      // another session closes: GC
    uint8_t b[8]; size_t len = 8; auto r1 = t2->receiveSync(7, b, len, std::chrono::milliseconds(50));
    printf("7: Sync, AB buffered, closed; 8 closes (GC); receiveSync(7) -> %s", r1.isOk() ? "ok " : "err "); if (r1.isOk()) printf("%zu bytes\n", r1.value()); else printf("code=%d\n", (int)r1.error().code);
    if (!r1.isOk() || r1.value() != 2 || b[0] != 'A' || b[1] != 'B') replay_io::fail("GCW/GC2 (C03): the bytes that arrived before the close were lost - the GC of another session's close erased the undrained tombstone");
    len = 8; auto r2 = t2->receiveSync(7, b, len, std::chrono::milliseconds(50));
    if (r2.isOk() || r2.error().code != TransportError::PeerClosed) replay_io::fail("D3 after the drain the close must be reported (PeerClosed)");
    replay_io::ok("undrained tombstone survives the GC: AB, then PeerClosed");
  } else if (scen == 5) {
    // clause UN8: observe A, B, C; unobserve A; close -> the remaining observers run in REGISTRATION order: B then C
    auto a = t->observe(sid, [&](SessionId, const TransportErrorInfo &) { log.push_back("A"); });
    t->observe(sid, [&](SessionId, const TransportErrorInfo &) { log.push_back("B"); });
    t->observe(sid, [&](SessionId, const TransportErrorInfo &) { log.push_back("C"); });
    t->unobserve(a);
    e->cbs.onClose(sid, TransportErrorInfo{TransportError::PeerClosed, "peer closed"});
    std::string got; for (auto &l : log) got += l + " "; printf("observe A,B,C; unobserve A; onClose -> %s\n", got.c_str());
    std::vector<std::string> want = {"global:7", "B", "C"};
    if (log != want) replay_io::fail("UN8 (C02): after unobserve the remaining observers must still run in registration order (global, B, C)");
    replay_io::ok("registration order kept");
  } else if (scen == 4) {
    // clause AC1: bytes buffered in Sync mode, the peer closes, then the application switches Sync -> Async
    int ud = 1; t->setSessionData(sid, &ud, [&](void *) { log.push_back("cleanup"); });
    t->setReadMode(sid, ReadMode::Sync);
    e->cbs.onData(sid, iora::core::BufferView((const uint8_t *)"AB", 2), std::chrono::steady_clock::now());
    e->cbs.onClose(sid, TransportErrorInfo{TransportError::PeerClosed, "peer closed"});
    t->setReadMode(sid, ReadMode::Sync); t->setReadMode(sid, ReadMode::Async);
    std::string got; for (auto &l : log) got += l + " "; printf("Sync; onData(AB); onClose; setReadMode(Sync); setReadMode(Async) -> %s\n", got.c_str());
    bool closed = false; for (auto &l : log) { if (l.rfind("global:", 0) == 0) closed = true; else if (closed && l.rfind("data:", 0) == 0) replay_io::fail("AC1 (C02): a data callback was delivered for the id AFTER its close callback (and after its user-data cleanup)"); }
    uint8_t b[8]; size_t len = 8; auto r = t->receiveSync(sid, b, len, std::chrono::milliseconds(20));
    if (!r.isOk() || r.value() != 2) replay_io::fail("the bytes buffered before the close must stay readable through receiveSync (C03 drain before EOF)");
    replay_io::ok("no data callback after the close; buffered bytes still readable through receiveSync");
  } else {
    e->cbs.onClose(sid, TransportErrorInfo{TransportError::PeerClosed, "peer closed"});
    uint8_t b[2] = {1, 2}; e->cbs.onData(sid, iora::core::BufferView(b, 2), std::chrono::steady_clock::now());
    std::string got; for (auto &l : log) got += l + " "; printf("onClose(7); onData(7) -> %s\n", got.c_str());
    printf("OBSERVATION: Transport itself does not filter data for an id whose close it has processed (mode entry erased => Async => global data callback);\n"
           "             'nothing after the close' rests on the engine erasing the session before it fires the close callback (units tcp_close / udp_close)\n");
    replay_io::ok("observation recorded");
  }
  return 0;
}
