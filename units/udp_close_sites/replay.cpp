// Native cross-check for unit udp_close_sites: the REAL UdpEngine through its public API on loopback - Close command for unknown / known / already
// closed ids, the GC sweep (idle timeout), and an orderly stop() with sessions still open.  Per session id: exactly one close notification, never
// two, none for unknown ids; the gauge returns to zero.  No input needed (no obligation of the unit fails on the current tree); an input file
// with `SCENARIO gc|stop|close` restricts the run.
#include "iora/network/detail/udp_engine.hpp"
#include "replay_io.h"
#include <arpa/inet.h>
#include <sys/socket.h>
#include <thread>
using namespace iora::network;
using namespace std::chrono_literals;

struct Rig {
  std::mutex mx; std::map<SessionId, int> closes; std::vector<SessionId> opened; std::map<SessionId, bool> inTableAtClose;
  std::unique_ptr<UdpEngine> eng; ListenerId lid{}; sockaddr_in to{};
  bool up(const TransportConfig &cfg) {
    eng = std::make_unique<UdpEngine>(cfg);
    detail::EngineBase::Callbacks cbs{};
    cbs.onAccept = [this](SessionId s, const TransportAddress &) { std::lock_guard<std::mutex> g(mx); opened.push_back(s); };
    cbs.onConnect = [this](SessionId s, const TransportAddress &) { std::lock_guard<std::mutex> g(mx); opened.push_back(s); };
    cbs.onData = [](SessionId, iora::core::BufferView, std::chrono::steady_clock::time_point) {};
    cbs.onClose = [this](SessionId s, const TransportErrorInfo &) { std::lock_guard<std::mutex> g(mx); closes[s]++; };
    eng->setCallbacks(cbs);
    if (!eng->start().isOk()) return false;
    auto lr = eng->addListener("127.0.0.1", 0, TlsMode::None);
    if (!lr.isOk()) return false;
    lid = lr.value(); to.sin_family = AF_INET; to.sin_addr.s_addr = htonl(INADDR_LOOPBACK); to.sin_port = htons(eng->getListenerAddress(lid).port);
    return true; }
  size_t nOpened() { std::lock_guard<std::mutex> g(mx); return opened.size(); }
  int nCloses(SessionId s) { std::lock_guard<std::mutex> g(mx); return closes.count(s) ? closes[s] : 0; }
  template <class P> bool wait(P p, int ms = 4000) { for (int i = 0; i < ms / 10; i++) { if (p()) return true; std::this_thread::sleep_for(10ms); } return false; }
  // two listener-side sessions (two raw peers) and one connected client session
  bool populate(int &p1, int &p2) {
    auto peer = [] { int p = ::socket(AF_INET, SOCK_DGRAM, 0); sockaddr_in me{}; me.sin_family = AF_INET; me.sin_addr.s_addr = htonl(INADDR_LOOPBACK); ::bind(p, (sockaddr *)&me, sizeof(me)); return p; };
    p1 = peer(); p2 = peer();
    ::sendto(p1, "a", 1, 0, (sockaddr *)&to, sizeof(to)); ::sendto(p2, "b", 1, 0, (sockaddr *)&to, sizeof(to));
    eng->connect("127.0.0.1", ntohs(to.sin_port), TlsMode::None);
    return wait([&] { return nOpened() >= 3; }); }
};
static bool g_failed = false;
#define FAIL(msg) do { printf("REPLAY-FAIL: %s\n", std::string(msg).c_str()); fflush(stdout); g_failed = true; return; } while (0)

static void scenario_close_and_stop()
{
  Rig r; TransportConfig cfg{}; int p1, p2;
  if (!r.up(cfg) || !r.populate(p1, p2)) { printf("skipped: cannot start the engine / bind loopback UDP in this sandbox\n"); return; }
  std::vector<SessionId> ids; { std::lock_guard<std::mutex> g(r.mx); ids = r.opened; }
  r.eng->close(987654);                                  // unknown id
  r.eng->close(ids[0]); r.eng->close(ids[0]);            // same id twice
  if (!r.wait([&] { return r.nCloses(ids[0]) >= 1; })) FAIL("Q3 close(id) was never notified");
  std::this_thread::sleep_for(200ms);
  if (r.nCloses(ids[0]) != 1) FAIL("Q3/Q1 close(id) issued twice: " + std::to_string(r.nCloses(ids[0])) + " notifications");
  if (r.nCloses(987654) != 0) FAIL("Q1 close of an unknown id was notified");
  if (r.eng->getStats().sessionsCurrent != 2) FAIL("Q5 gauge after one close: " + std::to_string(r.eng->getStats().sessionsCurrent));
  r.eng->stop();                                         // orderly stop with two sessions still open -> shutdownDrain
  for (auto id : ids) if (r.nCloses(id) != 1) FAIL("D1/D3 after stop(): session " + std::to_string(id) + " has " + std::to_string(r.nCloses(id)) + " close notifications (must be exactly 1)");
  { std::lock_guard<std::mutex> g(r.mx); if (r.closes.size() != ids.size()) FAIL("D5 close notification for an id that was never announced"); }
  if (r.eng->getStats().sessionsCurrent != 0) FAIL("D7 gauge after stop(): " + std::to_string(r.eng->getStats().sessionsCurrent));
  ::close(p1); ::close(p2);
  printf("close/stop: 3 sessions, close(unknown), close(id) x2, stop(): exactly one close per session, gauge 0\n");
}
static void scenario_gc()
{
  Rig r; TransportConfig cfg{}; cfg.idleTimeout = std::chrono::seconds(1); cfg.gcInterval = std::chrono::seconds(1); int p1, p2;
  if (!r.up(cfg) || !r.populate(p1, p2)) { printf("skipped: cannot start the engine / bind loopback UDP in this sandbox\n"); return; }
  std::vector<SessionId> ids; { std::lock_guard<std::mutex> g(r.mx); ids = r.opened; }
  if (!r.wait([&] { for (auto id : ids) if (r.nCloses(id) < 1) return false; return true; }, 6000)) FAIL("G1 idle sessions were not closed by the GC sweep within 6 s (idleTimeout 1 s, gcInterval 1 s)");
  std::this_thread::sleep_for(2500ms);                   // two more sweeps
  for (auto id : ids) if (r.nCloses(id) != 1) FAIL("G1 session " + std::to_string(id) + " closed " + std::to_string(r.nCloses(id)) + " times by the GC");
  if (r.eng->getStats().sessionsCurrent != 0) FAIL("G7 gauge after GC: " + std::to_string(r.eng->getStats().sessionsCurrent));
  r.eng->stop();
  for (auto id : ids) if (r.nCloses(id) != 1) FAIL("D3 stop() notified an already closed session again");
  ::close(p1); ::close(p2);
  printf("gc: 3 idle sessions closed exactly once each by the sweep, not again by later sweeps or stop(), gauge 0\n");
}
int main(int argc, char **argv)
{
  std::string which = "all";
  if (argc > 1) { auto in = replay_io::load(argv[1]); if (in.count("SCENARIO")) which = in["SCENARIO"]; }
  if (which == "all" || which == "close" || which == "stop") scenario_close_and_stop();
  if (which == "all" || which == "gc") scenario_gc();
  if (g_failed) return 1;
  replay_io::ok("close routes: exactly one close notification per session on every route exercised");
  return 0;
}
