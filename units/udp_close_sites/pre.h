/* type environment for unit udp_close_sites: the UDP type environment with the BOUNDED session table (at most 3 sessions, real objects),
 * because shutdownDrain and runGc iterate over the table.  Per-slot observation of the close callback through the stub's hook. */
#define IORA_UDP_TABLE3
#define IORA_RECORD_NOW
/* ghost: ids of the three table slots at the start, and what the close callback saw for each */
uint64_t T_id[3]; unsigned T_cnt[3]; _Bool T_in_table_at_cb[3]; _Bool T_closed_flag_at_cb[3]; int T_why[3]; _Bool T_locked_at_cb[3];
#define IORA_ON_CLOSE_HOOK(self, sid) do { for (unsigned iora_k = 0; iora_k < 3; iora_k++) if ((sid) == T_id[iora_k]) { \
    if (T_cnt[iora_k] < 1000u) T_cnt[iora_k]++; iora_sess_it iora_f = iora_tbl3_find(&(self)->_sessions, (sid)); T_in_table_at_cb[iora_k] = !iora_f.end; \
    T_closed_flag_at_cb[iora_k] = !iora_f.end && iora_f.second->closed; T_why[iora_k] = (int)why; T_locked_at_cb[iora_k] = !IORA_NO_LOCK_HELD(self); } } while (0)
#include "iora_udp.h"
typedef struct { SessionId closeSid; } Cmd;       /* the part of UdpEngine::Cmd the Close case reads */
/* loops are unwound (bounded stand-in, labelled in unit.json) */
#define IORA_LOOP_UdpEngine_runGc_1
#define IORA_LOOP_UdpEngine_runGc_2
#define IORA_LOOP_drain_sessions_1
#define IORA_LOOP_drain_sessions_2
