/* unit udp_close_sites (C02, UDP side): the close routes besides closeNow itself - the Close command (process()), the GC sweep (runGc) and the
 * session part of shutdownDrain.  Clauses from C02: "every session identifier the application has seen receives exactly one close notification -
 * never two, and never none while the transport ... is stopped in an orderly way; ... nothing is delivered for it after the close; ... the gauge of
 * currently open sessions never under-counts and returns to zero once every session has closed".
 *
 * Plain harnesses over a BOUNDED session table (at most 3 sessions as real objects, every field symbolic): runGc and shutdownDrain iterate over
 * the unordered_map, which the witness-key map cannot express.  closeNow is the REAL extracted function here (not its contract). */

typedef struct { UdpEngine E; Session *S[3]; bool present0[3], closed0[3], client0[3]; size_t open0; size_t clients0; } Rig3;

static void setup3(Rig3 *r)
{
  IORA_TRUE = 1; G = (struct iora_udp_ghost){0};
  GPK = nondet_u64(); GSID = nondet_u64(); GFD = nondet_int();
  UdpEngine E; r->E = E;
  r->E._peerIndex.has = nondet_bool(); r->E._tags.has = nondet_bool(); r->E._listeners.has = nondet_bool(); r->E._cbMutex.held = 0; r->E._sessionRwMutex.held = 0;
  r->E._cbs.onAccept.set = nondet_bool(); r->E._cbs.onConnect.set = nondet_bool(); r->E._cbs.onData.set = nondet_bool(); r->E._cbs.onClose.set = nondet_bool(); r->E._cbs.onError.set = nondet_bool();
  r->open0 = 0; r->clients0 = 0;
  for (unsigned k = 0; k < 3; k++) {
    Session *s = (Session *)malloc(sizeof(Session)); __CPROVER_assume(s != NULL);
    Session init; *s = init;                                   /* every field arbitrary ... */
    s->closed = nondet_bool(); s->wantWrite = nondet_bool(); s->connectPending = nondet_bool();       /* ... bools as proper truth values */
    __CPROVER_assume(s->wq.lo <= s->wq.hi);
    r->S[k] = s; r->E._sessions.e[k] = s; r->E._sessions.present[k] = nondet_bool();
    T_id[k] = s->id; T_cnt[k] = 0; T_in_table_at_cb[k] = 0; T_closed_flag_at_cb[k] = 0; T_why[k] = -1; T_locked_at_cb[k] = 0;
    r->present0[k] = r->E._sessions.present[k]; r->closed0[k] = s->closed; r->client0[k] = s->role == Role_ClientConnected;
    if (r->present0[k] && !r->closed0[k]) { r->open0++; if (r->client0[k]) r->clients0++; }
  }
  /* map keys are distinct */
  __CPROVER_assume(T_id[0] != T_id[1] && T_id[0] != T_id[2] && T_id[1] != T_id[2]);
  /* GAUGE (engine invariant): every open session in the table is counted */
  __CPROVER_assume(r->E._atomicStats.sessionsCurrent >= r->open0);
}

/* ============================ process(): case CmdType::Close ============================ */
void h_close_cmd(void)
{
  Rig3 r; setup3(&r); UdpEngine *E = &r.E;
  Cmd c; const SessionId sid = c.closeSid;
  const size_t cur0 = E->_atomicStats.sessionsCurrent; const uint64_t closed0 = E->_atomicStats.closed; const bool xset = E->_cbs.onClose.set;
  const bool idxhas0 = E->_peerIndex.has; const SessionId idxval0 = E->_peerIndex.val;
  int hit = -1; for (int k = 0; k < 3; k++) if (r.present0[k] && T_id[k] == sid) hit = k;
  /* INVb for the target (see closenow_contract.h): an index entry that maps to it carries its key */
  __CPROVER_assume(hit < 0 || !(idxhas0 && idxval0 == sid) || (r.S[hit]->pkey == GPK && r.S[hit]->role == Role_ServerPeer));

  close_cmd(E, &c);

  __CPROVER_assert(IORA_NO_LOCK_HELD(E), "L1 no lock left held");
  if (hit < 0 || r.closed0[hit]) {
    IORA_CANARY("h_close_cmd: unknown id or closed session");
    __CPROVER_assert(G_closeCb_calls == 0 && E->_atomicStats.sessionsCurrent == cur0 && E->_atomicStats.closed == closed0 && G_close_calls == 0,
                     "Q1 Close for an unknown id or an already closed session: no notification, no counter, no descriptor touched");
    __CPROVER_assert(E->_sessions.present[0] == r.present0[0] && E->_sessions.present[1] == r.present0[1] && E->_sessions.present[2] == r.present0[2] && E->_peerIndex.has == idxhas0 && E->_peerIndex.val == idxval0,
                     "Q2 ... and the table and the peer index are unchanged");
  } else {
    IORA_CANARY("h_close_cmd: open session closed");
    __CPROVER_assert(G_closeCb_calls == (xset ? 1u : 0u) && T_cnt[hit] == (xset ? 1u : 0u), "Q3 exactly one close notification, for the named id");
    __CPROVER_assert(!xset || (!T_in_table_at_cb[hit] && T_why[hit] == TransportError_Unknown && !T_locked_at_cb[hit]), "Q4 the session was out of the table when the application was told; reason 'closed by app'; no lock held");
    __CPROVER_assert(!E->_sessions.present[hit] && E->_atomicStats.sessionsCurrent == cur0 - 1 && E->_atomicStats.closed == closed0 + 1, "Q5 erased, counted once");
    for (int k = 0; k < 3; k++) if (k != hit) __CPROVER_assert(E->_sessions.present[k] == r.present0[k] && T_cnt[k] == 0 && r.S[k]->closed == r.closed0[k], "Q6 no other session is touched");
    __CPROVER_assert(!(idxhas0 && idxval0 != sid) || (E->_peerIndex.has && E->_peerIndex.val == idxval0), "Q7 (U1) an index entry of another session is left alone");
  }
  IORA_CANARY("h_close_cmd: returns");
}

/* ============================ runGc ============================ */
#define GC_EXPIRED(s, now, C) ( ((C).idleTimeout > 0 && (now) - (s)->lastActivity > (C).idleTimeout) || ((C).maxConnAge > 0 && (now) - (s)->created > (C).maxConnAge) \
  || ((C).connectTimeout > 0 && (s)->connectPending && (now) - (s)->connectStart > (C).connectTimeout) \
  || ((C).writeStallTimeout > 0 && (s)->wq.lo != (s)->wq.hi && (now) - (s)->lastWriteProgress > (C).writeStallTimeout) )
void h_runGc(void)
{
  Rig3 r; setup3(&r); UdpEngine *E = &r.E;
  /* A: a monotone clock: stored time stamps are not in the future and fit the subtraction (the stub's `now` is constrained through them below) */
  const size_t cur0 = E->_atomicStats.sessionsCurrent; const uint64_t closed0 = E->_atomicStats.closed, runs0 = E->_atomicStats.gcRuns; const bool xset = E->_cbs.onClose.set;
  const bool idxhas0 = E->_peerIndex.has; const SessionId idxval0 = E->_peerIndex.val;
  Session snap[3]; for (int k = 0; k < 3; k++) { snap[k] = *r.S[k];
    __CPROVER_assume(snap[k].lastActivity >= 0 && snap[k].created >= 0 && snap[k].connectStart >= 0 && snap[k].lastWriteProgress >= 0); }
  /* INVb for every session: an index entry that maps to a session carries that session's key */
  for (int k = 0; k < 3; k++) __CPROVER_assume(!(r.present0[k] && idxhas0 && idxval0 == T_id[k]) || (snap[k].pkey == GPK && snap[k].role == Role_ServerPeer));

  UdpEngine_runGc(E);

  const MonoTime now = G.misc.now_first;
  __CPROVER_assume(now >= 0);      /* filters the runs: the clock value the sweep read (recorded by the stub) is a non-negative tick count */
  __CPROVER_assert(G.misc.now_calls == 1, "G0 the sweep reads the clock once (all sessions are judged against the same instant)");
  __CPROVER_assert(IORA_NO_LOCK_HELD(E) && E->_atomicStats.gcRuns == runs0 + 1, "L1 no lock left held; one run counted");
  size_t expired = 0;
  for (int k = 0; k < 3; k++) {
    const bool exp = r.present0[k] && !r.closed0[k] && GC_EXPIRED(&snap[k], now, E->_config);
    if (exp) {
      IORA_CANARY("h_runGc: a session expired");
      expired++;
      __CPROVER_assert(T_cnt[k] == (xset ? 1u : 0u), "G1 an expired session gets exactly one close notification");
      __CPROVER_assert(!xset || (!T_in_table_at_cb[k] && T_why[k] == TransportError_GCClosed && !T_locked_at_cb[k]), "G2 after it left the table, reason GCClosed, no lock held");
      __CPROVER_assert(!E->_sessions.present[k], "G3 and is erased");
    } else {
      __CPROVER_assert(T_cnt[k] == 0 && E->_sessions.present[k] == r.present0[k], "G4 a session that is not expired (or closed, or absent) is neither notified nor erased");
      if (r.present0[k]) __CPROVER_assert(r.S[k]->closed == snap[k].closed && r.S[k]->id == snap[k].id && r.S[k]->lastActivity == snap[k].lastActivity, "G5 ... nor modified");
    }
  }
  __CPROVER_assert(G_closeCb_calls == (xset ? expired : 0), "G6 no notification for anything else");
  __CPROVER_assert(E->_atomicStats.closed == closed0 + expired && E->_atomicStats.sessionsCurrent == cur0 - expired, "G7 closed counter and gauge move by exactly the number of expired sessions");
  __CPROVER_assert(!(idxhas0 && !(r.present0[0] && idxval0 == T_id[0] && !E->_sessions.present[0]) && !(r.present0[1] && idxval0 == T_id[1] && !E->_sessions.present[1]) && !(r.present0[2] && idxval0 == T_id[2] && !E->_sessions.present[2]))
                   || (E->_peerIndex.has && E->_peerIndex.val == idxval0), "G8 (U1) the index entry of a session that was not closed is left alone");
  IORA_CANARY("h_runGc: returns");
}

/* ============================ shutdownDrain, session part ============================ */
void h_drain(void)
{
  Rig3 r; setup3(&r); UdpEngine *E = &r.E;
  const size_t cur0 = E->_atomicStats.sessionsCurrent; const uint64_t closed0 = E->_atomicStats.closed; const bool xset = E->_cbs.onClose.set;
  const bool idxhas0 = E->_peerIndex.has; const bool thas0 = E->_tags.has;
  /* INV Ia in the pre-state (udp_recv): the index entry for the witness key, if any, names an open listener-side session of the table keyed by that key */
  bool inv0 = !idxhas0; for (int k = 0; k < 3; k++) if (idxhas0 && r.present0[k] && !r.closed0[k] && !r.client0[k] && T_id[k] == E->_peerIndex.val && r.S[k]->pkey == GPK) inv0 = true;
  bool idx_owner_open = false;      /* some open listener-side session carries the witness peer key */
  for (int k = 0; k < 3; k++) if (r.present0[k] && !r.closed0[k] && !r.client0[k] && r.S[k]->pkey == GPK) idx_owner_open = true;

  drain_sessions(E);

  __CPROVER_assert(IORA_NO_LOCK_HELD(E), "L1 no lock left held");
  for (int k = 0; k < 3; k++) {
    if (r.present0[k] && !r.closed0[k]) {
      IORA_CANARY("h_drain: an open session");
      __CPROVER_assert(T_cnt[k] == (xset ? 1u : 0u), "D1 every session still open in the table gets exactly one close notification");
      __CPROVER_assert(!xset || (T_closed_flag_at_cb[k] && T_why[k] == TransportError_Unknown && !T_locked_at_cb[k]), "D2 it was already marked closed when the application was told; no lock held");
    } else {
      __CPROVER_assert(T_cnt[k] == 0, "D3 a session that was already closed (or is not in the table) is not notified again");
    }
    __CPROVER_assert(!E->_sessions.present[k], "D4 the table is empty afterwards");
  }
  __CPROVER_assert(G_closeCb_calls == (xset ? r.open0 : 0), "D5 no notification for anything else");
  __CPROVER_assert(E->_atomicStats.closed == closed0 + r.open0 && E->_atomicStats.sessionsCurrent == cur0 - r.open0, "D6 closed counter and gauge move by exactly the number of open sessions");
  __CPROVER_assert(cur0 != r.open0 || E->_atomicStats.sessionsCurrent == 0, "D7 the gauge returns to zero when it counted exactly the open sessions");
  __CPROVER_assert(G_close_calls == r.clients0 && G_delEpoll_calls == r.clients0, "D8 exactly the connected-client sockets are unregistered and closed, once each; the shared listener sockets are not");
  __CPROVER_assert(!inv0 || !E->_peerIndex.has, "D16 shutdownDrain re-establishes the index invariant: an entry that named an open listener-side session of the table (INV Ia) does not survive - no entry points at a session it closed");
  __CPROVER_assert(!G.cl.gfd_closed || !E->_tags.has, "D13 (stale tag) a descriptor that shutdownDrain closed keeps no tag");
  __CPROVER_assert(G.cl.gfd_closed || E->_tags.has == thas0, "D14 a descriptor that was not closed keeps its tag (listener-shared sessions)");
  __CPROVER_assert(!idx_owner_open || !E->_peerIndex.has, "D9 the peer index entry of a closed listener-side session is removed");
  __CPROVER_assert(idx_owner_open || E->_peerIndex.has == idxhas0, "D10 no other index entry is touched");
  IORA_CANARY("h_drain: returns");
}
