/* type environment for unit assets_fs (C20): Assets, FsState, GetStaticResult as C structs over the fs_model.h ghost types */
typedef struct { iora_entry entry; } iora_blob;                 /* StaticBlob: what matters is which entry its views point into */
typedef struct { Status status; iora_blob blob; } GetStaticResult;
static inline GetStaticResult IORA_GSR(Status s, iora_blob b) { GetStaticResult r; r.status = s; r.blob = b; return r; }
static inline GetStaticResult IORA_GSR_EMPTY(Status s) { GetStaticResult r; r.status = s; r.blob.entry = NULL; return r; }
/* blobFromEntry(entry, path): dereferences the entry (b._entry->bytes) */
static inline iora_blob blobFromEntry(iora_entry e, iora_sv path) { (void)path; IORA_ASSERT(e != NULL, "blobFromEntry dereferences a non-null entry"); iora_blob b; b.entry = e; return b; }

typedef struct { iora_path root; iora_path templatesRoot; iora_path staticsRoot; bool perRequestRead; int mutex; iora_scache staticCache; iora_tcache templateCache; } FsState;
typedef struct { iora_strobj bytes; } EmbeddedTemplate;        /* registry entry: bytes compiled into the binary */
#define IORA_EMBEDDED_BYTES(v) (&(v))
typedef struct { iora_sv externalDir; } EmbeddedAssetRegistry;
typedef struct { int id; } EmbeddedAsset;
typedef struct { Mode _mode; const EmbeddedAssetRegistry *_registry; FsState *_fs; } Assets;

/* callees that are not extracted into this unit: body-less, replaced by their contracts (post.c) */
iora_optstr Assets_readFile(const iora_path *p);
bool lexicallyRejected(iora_sv p);                                   /* proved in unit assets_lexical */
GetStaticResult Assets_getStaticEmbedded(const Assets *self, iora_sv path);      /* embedded mode: not under contract */
const EmbeddedTemplate *Assets_findTemplate(const Assets *self, iora_sv name);     /* embedded mode: not under contract */

/* loop 1 of the read loop of readFile. No variant: the number of reads is up to the file (a file being appended to, or EINTR for ever);
 * termination is not decided. */
#define IORA_LOOP_Assets_readFile_loop_1 IORA_LC( \
  __CPROVER_assigns(data, G_errno, G_file_pos, G_chunk_lo, G_chunk_n, G_read_calls, G_last_read, G_eintr_seen, G_short_seen) \
  __CPROVER_loop_invariant(data.n == G_file_pos && G_file_pos <= IORA_FILE_MAX && G_chunk_n == 0 && G_read_calls >= 0))

/* embedded-mode helpers (registry lookups over compiled-in tables): not under contract */
const EmbeddedAsset *Assets_findStatic(const Assets *self, iora_sv path);
bool Assets_isExternalPath(const Assets *self, iora_sv path);
StaticCacheEntry G_embedded_entry;                              /* stands for the compiled-in bytes of an embedded asset */
static inline iora_blob embeddedBlob(EmbeddedAsset a, iora_sv path) { (void)a; (void)path; iora_blob b; b.entry = &G_embedded_entry; return b; }

/* readFile(<path expression>): by-value wrapper so that an rvalue argument (e.g. the result of a filesystem call) can be handed on; the call
 * inside is replaced by readFile's contract, i.e. the ordering clause O1 is checked for WHATEVER path value is passed */
static inline iora_optstr Assets_readFile_v(iora_path p) { return Assets_readFile(&p); }
/* non-POSIX arm of readFile: std::ifstream f(p, mode) opens BY NAME and follows a symlinked final component: open(2) without O_NOFOLLOW */
static inline int iora_ifstream_open(iora_path p) { int fd = iora_sys_open(&p, O_RDONLY); return fd >= 0; }
static inline void iora_read_loop_absent(const char *what) { (void)what; }
