/* Contracts for unit assets_fs (C20, call-order part). */

/* isContained(base, target): exact over the (arbitrary) result of target.lexically_relative(base):
 * true  iff  the relative path is non-empty and its first component is not "..". */
#define IC_REL (G_path[target->id].last_rel - 1)
bool Assets_isContained_contract(const iora_path *base, const iora_path *target)
__CPROVER_requires(IORA_TRUE && __CPROVER_is_fresh(base, sizeof(*base)) && __CPROVER_is_fresh(target, sizeof(*target)))
__CPROVER_requires(G_npaths <= 4 && base->id < G_npaths && target->id < G_npaths)
__CPROVER_assigns(__CPROVER_object_whole(G_path), G_npaths)
/* I1 the relative path examined is target relative to base */
__CPROVER_ensures(G_path[target->id].last_rel != 0 && G_path[target->id].last_rel <= IORA_NP && G_path[IC_REL].rel_base == base->id + 1)
/* I2 exact */
__CPROVER_ensures(__CPROVER_return_value == (!G_path[IC_REL].empty && !G_path[IC_REL].first_dotdot))
/* I3 nothing but lexical work: no filesystem access */
__CPROVER_ensures(G_fs_calls == __CPROVER_old(G_fs_calls))
;
void h_isContained(void)
{
  const iora_path *b; const iora_path *t;
  bool r = Assets_isContained(b, t);
  IORA_CANARY("h_isContained: returns");
  if (r) { IORA_CANARY("h_isContained: contained"); } else { IORA_CANARY("h_isContained: not contained"); }
}
