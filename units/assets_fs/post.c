/* Contracts for unit assets_fs (C20, call-order part). Top-level clauses are written from the property: "the bytes returned are those
 * of a regular file whose resolved location lies inside the configured static (or template) root, or the request is refused; ... also when
 * the file named by the final path component is replaced by a symbolic link while the lookup runs" (-> O_NOFOLLOW on the checked path). */

/* ------------------------------------------------------------------------------------------------------------------------------
 * isContained(base, target): exact over the (arbitrary) result of target.lexically_relative(base):
 * true  iff  the relative path is non-empty and its first component is not "..". */
#define IC_REL (G_path[target->id].last_rel - 1)
bool Assets_isContained_contract(const iora_path *base, const iora_path *target)
__CPROVER_requires(IORA_TRUE && __CPROVER_is_fresh(base, sizeof(*base)) && __CPROVER_is_fresh(target, sizeof(*target)))
__CPROVER_requires(G_npaths <= 4 && base->id < G_npaths && target->id < G_npaths)
__CPROVER_assigns(__CPROVER_object_whole(G_path), G_npaths)
/* I1 the relative path examined is target relative to base */
__CPROVER_ensures(G_path[target->id].last_rel != 0 && G_path[target->id].last_rel <= IORA_NP && G_path[IC_REL].rel_base == base->id + 1)
/* I2 exact */
__CPROVER_ensures(__CPROVER_return_value == (!G_path[IC_REL].empty && !G_path[IC_REL].first_dotdot))
/* I3 nothing but lexical work: no filesystem access */
__CPROVER_ensures(G_fs_calls == __CPROVER_old(G_fs_calls))
;
void h_isContained(void)
{
  const iora_path *b; const iora_path *t;
  bool r = Assets_isContained(b, t);
  IORA_CANARY("h_isContained: returns");
  if (r) { IORA_CANARY("h_isContained: contained"); } else { IORA_CANARY("h_isContained: not contained"); }
}

/* ------------------------------------------------------------------------------------------------------------------------------
 * readFile(p): assumed contract of the reader. Its REQUIRES is the ordering clause of the property; replacing the call by this
 * contract makes it an obligation at every call site:  (i) p came out of weakly_canonical, (ii) lexically_relative(p, root) was
 * non-empty and did not start with "..", root being the one canonicalised at construction, (iii) is_regular_file(p) said yes
 * (or p is the ".gz" sibling of such a path and is_regular_file(sibling) said yes). */
iora_optstr Assets_readFile_contract(const iora_path *p)
__CPROVER_requires(IORA_TRUE && G_root_kind != 0)
/* O1 */ __CPROVER_requires(P_OPEN_OK(p->id))
__CPROVER_assigns(G_fs_calls)
__CPROVER_ensures(G_fs_calls == __CPROVER_old(G_fs_calls) + 1)
__CPROVER_ensures(__CPROVER_return_value == NULL || (__CPROVER_is_fresh(__CPROVER_return_value, sizeof(iora_strobj))
    && __CPROVER_return_value->present && __CPROVER_return_value->read_ok && __CPROVER_return_value->src == p->id))
;

/* the first two statements of readFile (POSIX branch): under readFile's precondition, ::open receives exactly p with O_NOFOLLOW, read-only */
bool Assets_readFile_open_contract(const iora_path *p, iora_strobj *iora_ret)
__CPROVER_requires(IORA_TRUE && __CPROVER_is_fresh(p, sizeof(*p)) && __CPROVER_is_fresh(iora_ret, sizeof(*iora_ret)))
__CPROVER_requires(G_root_kind != 0 && P_OPEN_OK(p->id) && G_open_calls == 0 && G_fs_calls < 1000)
__CPROVER_assigns(*iora_ret, G_fs_calls, G_open_calls, G_open_id, G_open_flags)
/* O2 */ __CPROVER_ensures(G_open_calls == 1 && G_open_id == p->id)
/* O3 */ __CPROVER_ensures((G_open_flags & O_NOFOLLOW) != 0 && (G_open_flags & O_ACCMODE) == O_RDONLY)
;
void h_readFile_open(void)
{
  const iora_path *p; iora_strobj *r;
  Assets_readFile_open(p, r);
  IORA_CANARY("h_readFile_open: returns");
}

/* ------------------------------------------------------------------------------------------------------------------------------
 * buildEntry(file): called with a fully checked path; reads it and (if is_regular_file says yes) its ".gz" sibling; nothing else. */
iora_entry Assets_buildEntry_contract(const iora_path *file)
__CPROVER_requires(IORA_TRUE && __CPROVER_is_fresh(file, sizeof(*file)) && G_npaths <= 8 && file->id < G_npaths && G_root_kind != 0 && G_fs_calls < 1000)
/* O4 the ordering clause again, one level up */
__CPROVER_requires(P_READ_OK(file->id))
__CPROVER_assigns(G_fs_calls, G_npaths, __CPROVER_object_whole(G_path), G_new_entry)
/* B1 */ __CPROVER_ensures(__CPROVER_return_value == NULL || (__CPROVER_return_value == &G_new_entry
    && ENTRY_OK(__CPROVER_return_value) && __CPROVER_return_value->bytes.src == file->id))
/* B2 */ __CPROVER_ensures(G_fs_calls > __CPROVER_old(G_fs_calls))
;
void h_buildEntry(void)
{
  const iora_path *f;
  iora_entry e = Assets_buildEntry(f);
  IORA_CANARY("h_buildEntry: returns");
  if (e) { IORA_CANARY("h_buildEntry: entry"); if (e->gzipBytes.present) { IORA_CANARY("h_buildEntry: gzip variant"); } } else { IORA_CANARY("h_buildEntry: null"); }
}

/* ------------------------------------------------------------------------------------------------------------------------------
 * getStaticFilesystem / getTemplateFilesystem */
#define FS_STATE_PRE(kind) \
__CPROVER_requires(IORA_TRUE && __CPROVER_is_fresh(self, sizeof(*self)) && __CPROVER_is_fresh(self->_fs, sizeof(FsState))) \
__CPROVER_requires(G_npaths == 3 && self->_fs->root.id == 0 && self->_fs->templatesRoot.id == 1 && self->_fs->staticsRoot.id == 2) \
__CPROVER_requires(G_path[0].root_kind == 0 && G_path[1].root_kind == 2 && G_path[2].root_kind == 1 && G_root_kind == (kind)) \
__CPROVER_requires(G_path[0].last_rel == 0 && G_path[1].last_rel == 0 && G_path[2].last_rel == 0 && G_fs_calls == 0 && G_locks == 0)

GetStaticResult Assets_getStaticFilesystem_contract(const Assets *self, iora_sv path)
FS_STATE_PRE(1)
__CPROVER_assigns(G_fs_calls, G_npaths, __CPROVER_object_whole(G_path), G_locks, G_new_entry, G_cached_entry, G_scache_slot)
/* F1 content is returned only from an entry whose bytes were read under the full check (fresh read or cache, see the cache invariant) */
__CPROVER_ensures(__CPROVER_return_value.status == Status_Found ==> (__CPROVER_return_value.blob.entry != NULL && ENTRY_OK(__CPROVER_return_value.blob.entry)))
/* F2 a refused / missing request carries no content */
__CPROVER_ensures(__CPROVER_return_value.status != Status_Found ==> __CPROVER_return_value.blob.entry == NULL)
__CPROVER_ensures(__CPROVER_return_value.status == Status_Found || __CPROVER_return_value.status == Status_NotFound || __CPROVER_return_value.status == Status_Rejected)
;
void h_getStaticFilesystem(void)
{
  const Assets *a; iora_sv p;
  GetStaticResult r = Assets_getStaticFilesystem(a, p);
  IORA_CANARY("h_getStaticFilesystem: returns");
  if (r.status == Status_Found) { IORA_CANARY("h_getStaticFilesystem: found"); }
  if (r.status == Status_Rejected) { IORA_CANARY("h_getStaticFilesystem: rejected"); }
  if (r.status == Status_NotFound) { IORA_CANARY("h_getStaticFilesystem: not found"); }
}

bool Assets_getTemplateFilesystem_contract(const Assets *self, iora_sv name, iora_strp *iora_ret)
FS_STATE_PRE(2)
__CPROVER_requires(__CPROVER_is_fresh(iora_ret, sizeof(*iora_ret)))
__CPROVER_assigns(*iora_ret, G_fs_calls, G_npaths, __CPROVER_object_whole(G_path), G_locks, G_shared_str, G_cached_str, G_tcache_slot)
/* T1 */ __CPROVER_ensures(__CPROVER_return_value ==> (*iora_ret != NULL && (*iora_ret)->present && (*iora_ret)->read_ok))
;
void h_getTemplateFilesystem(void)
{
  const Assets *a; iora_sv n; iora_strp *r;
  bool ok = Assets_getTemplateFilesystem(a, n, r);
  IORA_CANARY("h_getTemplateFilesystem: returns");
  if (ok) { IORA_CANARY("h_getTemplateFilesystem: found"); } else { IORA_CANARY("h_getTemplateFilesystem: nullopt"); }
}

/* ------------------------------------------------------------------------------------------------------------------------------
 * getStatic / getTemplate: a lexically rejected name is refused BEFORE any filesystem (or registry) access.
 * lexicallyRejected is replaced by the contract proved in unit assets_lexical (same macro text, lex_contract.h). */
bool lexicallyRejected_contract(iora_sv p)
LEX_PRE
LEX_ENS_EMPTY
LEX_ENS_SOUND
LEX_ENS_COMPLETE
;
/* spec(p) at the arbitrary ghost indices GN, GS (so: for every index) */
#define LEXSPEC(q) (((q).n > 0 && (q).p[0] == (char)47) || (GN < (q).n && (((q).p[GN] == (char)0) | ((q).p[GN] == (char)92))) || DOTDOT_AT(q, GS))

/* the two back ends, as seen from getStatic: "the filesystem / registry is touched" */
GetStaticResult Assets_getStaticEmbedded_touch(const Assets *self, iora_sv path)
__CPROVER_requires(IORA_TRUE) __CPROVER_assigns(G_fs_calls) __CPROVER_ensures(G_fs_calls == __CPROVER_old(G_fs_calls) + 1);
GetStaticResult Assets_getStaticFilesystem_touch(const Assets *self, iora_sv path)
__CPROVER_requires(IORA_TRUE) __CPROVER_assigns(G_fs_calls) __CPROVER_ensures(G_fs_calls == __CPROVER_old(G_fs_calls) + 1);

GetStaticResult Assets_getStatic_contract(const Assets *self, iora_sv path)
__CPROVER_requires(IORA_TRUE && __CPROVER_is_fresh(self, sizeof(*self)) && path.n <= IORA_SV_MAXLEN && __CPROVER_is_fresh(path.p, path.n) && G_fs_calls < 1000)
__CPROVER_assigns(G_fs_calls, G_find_r, G_sub_pos)
/* S1 */ __CPROVER_ensures(LEXSPEC(path) ==> (__CPROVER_return_value.status == Status_Rejected && __CPROVER_return_value.blob.entry == NULL))
/* S2 */ __CPROVER_ensures(LEXSPEC(path) ==> G_fs_calls == __CPROVER_old(G_fs_calls))
/* S3 an accepted name goes to exactly one back end */
__CPROVER_ensures(G_fs_calls == __CPROVER_old(G_fs_calls) || G_fs_calls == __CPROVER_old(G_fs_calls) + 1)
;
void h_getStatic(void)
{
  const Assets *a; iora_sv p;
  GetStaticResult r = Assets_getStatic(a, p);
  IORA_CANARY("h_getStatic: returns");
  if (r.status == Status_Rejected) { IORA_CANARY("h_getStatic: rejected"); } else { IORA_CANARY("h_getStatic: passed on"); }
}

const EmbeddedTemplate *Assets_findTemplate_contract(const Assets *self, iora_sv name)
__CPROVER_requires(IORA_TRUE) __CPROVER_assigns(G_fs_calls) __CPROVER_ensures(G_fs_calls == __CPROVER_old(G_fs_calls) + 1)
__CPROVER_ensures(__CPROVER_return_value == NULL || __CPROVER_is_fresh(__CPROVER_return_value, sizeof(EmbeddedTemplate)));
bool Assets_getTemplateFilesystem_touch(const Assets *self, iora_sv name, iora_strp *iora_ret)
__CPROVER_requires(IORA_TRUE) __CPROVER_assigns(G_fs_calls, *iora_ret) __CPROVER_ensures(G_fs_calls == __CPROVER_old(G_fs_calls) + 1);

bool Assets_getTemplate_contract(const Assets *self, iora_sv name, iora_strp *iora_ret)
__CPROVER_requires(IORA_TRUE && __CPROVER_is_fresh(self, sizeof(*self)) && name.n <= IORA_SV_MAXLEN && __CPROVER_is_fresh(name.p, name.n) && G_fs_calls < 1000)
__CPROVER_requires(__CPROVER_is_fresh(iora_ret, sizeof(*iora_ret)))
__CPROVER_assigns(G_fs_calls, G_find_r, G_sub_pos, *iora_ret)
/* M1 */ __CPROVER_ensures(LEXSPEC(name) ==> !__CPROVER_return_value)
/* M2 */ __CPROVER_ensures(LEXSPEC(name) ==> G_fs_calls == __CPROVER_old(G_fs_calls))
;
void h_getTemplate(void)
{
  const Assets *a; iora_sv n; iora_strp *r;
  bool ok = Assets_getTemplate(a, n, r);
  IORA_CANARY("h_getTemplate: returns");
  if (ok) { IORA_CANARY("h_getTemplate: found"); } else { IORA_CANARY("h_getTemplate: nullopt"); }
}

/* ------------------------------------------------------------------------------------------------------------------------------
 * the read loop of readFile (POSIX branch, after the open): the content handed back is exactly the byte stream of the opened file
 * descriptor - for ANY pattern of short reads and EINTR interruptions; any other error gives nullopt (never partial content). */
bool Assets_readFile_loop_contract(int fd, iora_fstr *iora_ret)
__CPROVER_requires(IORA_TRUE && __CPROVER_is_fresh(iora_ret, sizeof(*iora_ret)))
__CPROVER_requires(G_file_pos == 0 && G_chunk_n == 0 && G_read_calls == 0 && !G_eintr_seen && !G_short_seen)
__CPROVER_assigns(*iora_ret, G_errno, G_file_pos, G_chunk_lo, G_chunk_n, G_read_calls, G_last_read, G_eintr_seen, G_short_seen)
/* RL1 (asserted in the append stub) every chunk is appended exactly once, at the stream position it was read from */
/* RL2 a result is returned only at end of file and holds the whole stream [0, file_pos) */
__CPROVER_ensures(__CPROVER_return_value ==> (G_last_read == 0 && iora_ret->n == G_file_pos))
/* RL3 nullopt only for a read error other than EINTR */
__CPROVER_ensures(!__CPROVER_return_value ==> (G_last_read == -1 && G_errno != EINTR))
__CPROVER_ensures(G_read_calls >= 1)
;
void h_readFile_loop(void)
{
  int fd; iora_fstr *r;
  bool ok = Assets_readFile_loop(fd, r);
  IORA_CANARY("h_readFile_loop: returns");
  if (ok && G_eintr_seen && G_short_seen && G_file_pos > 65536) { IORA_CANARY("h_readFile_loop: content after EINTR and short reads"); }
  if (!ok && G_file_pos > 0) { IORA_CANARY("h_readFile_loop: error after partial content"); }
}

/* ------------------------------------------------------------------------------------------------------------------------------
 * getStaticEmbedded incl. its EXTERNAL_DIR branch (RD-11): the same ordering clause as getStaticFilesystem, the containment base being
 * weakly_canonical(EXTERNAL_DIR) computed in this call (root_kind 3). The path handed to buildEntry must be the one that came out of
 * weakly_canonical AND was the argument of the isContained(base, .) that returned true AND passed is_regular_file (O4, requires of buildEntry). */
const EmbeddedAsset *Assets_findStatic_contract(const Assets *self, iora_sv path)
__CPROVER_requires(IORA_TRUE) __CPROVER_assigns()
__CPROVER_ensures(__CPROVER_return_value == NULL || __CPROVER_is_fresh(__CPROVER_return_value, sizeof(EmbeddedAsset)));
bool Assets_isExternalPath_contract(const Assets *self, iora_sv path)
__CPROVER_requires(IORA_TRUE) __CPROVER_assigns() __CPROVER_ensures(1);

GetStaticResult Assets_getStaticEmbedded_contract(const Assets *self, iora_sv path)
__CPROVER_requires(IORA_TRUE && __CPROVER_is_fresh(self, sizeof(*self)) && __CPROVER_is_fresh(self->_registry, sizeof(EmbeddedAssetRegistry)))
__CPROVER_requires(G_npaths == 0 && G_root_kind == 3 && G_fs_calls == 0)
/* compiled-in content is, by construction, not read from the filesystem */
__CPROVER_requires(ENTRY_OK(&G_embedded_entry))
__CPROVER_assigns(G_fs_calls, G_npaths, __CPROVER_object_whole(G_path), G_new_entry)
/* X1 */ __CPROVER_ensures(__CPROVER_return_value.status == Status_Found ==> (__CPROVER_return_value.blob.entry != NULL && ENTRY_OK(__CPROVER_return_value.blob.entry)))
/* X2 */ __CPROVER_ensures(__CPROVER_return_value.status != Status_Found ==> __CPROVER_return_value.blob.entry == NULL)
/* X3 an embedded hit touches no filesystem stub */
__CPROVER_ensures((__CPROVER_return_value.status == Status_Found && __CPROVER_return_value.blob.entry == &G_embedded_entry) ==> G_fs_calls == 0)
;
void h_getStaticEmbedded(void)
{
  const Assets *a; iora_sv p;
  GetStaticResult r = Assets_getStaticEmbedded_real(a, p);
  IORA_CANARY("h_getStaticEmbedded: returns");
  if (r.status == Status_Found && r.blob.entry == &G_embedded_entry) { IORA_CANARY("h_getStaticEmbedded: embedded hit"); }
  if (r.status == Status_Found && r.blob.entry == &G_new_entry) { IORA_CANARY("h_getStaticEmbedded: served from the external directory"); }
  if (r.status == Status_Rejected) { IORA_CANARY("h_getStaticEmbedded: rejected"); }
}
