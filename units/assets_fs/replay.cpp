// REPLAY / native cross-check adapter for unit assets_fs (C20): the REAL Assets on a real directory tree with a secret outside the root and
// inside-/outside-pointing symlinks. For the name in the input (key IN, hex bytes; optional) and a built-in traversal corpus, the bytes
// returned by getStatic()/getTemplate() must never be the secret. (The proofs of this unit are about call order over arbitrary
// filesystem answers; their counterexamples are call sequences, not inputs, so this adapter is a cross-check, not a SEARCH target.)
#include "iora/web/assets.hpp"
#include "replay_io.h"
#include <filesystem>
#include <fstream>
#include <unistd.h>
namespace fs = std::filesystem;
static void put(const fs::path &p, const std::string &s) { fs::create_directories(p.parent_path()); std::ofstream(p, std::ios::binary) << s; }
int main(int argc, char **argv) {
  std::vector<std::string> names = {"a.txt", "sub/b.txt", "../secret.txt", "sub/../../secret.txt", "/etc/hostname", "out.txt", "outdir/secret.txt",
    "sub/..", "..", "...", "sub//b.txt", "sub/./b.txt", "a.txt/", "..\\secret.txt", std::string("a.txt\0x", 7), "in.txt", "a.txt.gz", "evil.js", ""};
  if (argc > 1) { auto in = replay_io::load(argv[1]); if (in.count("IN")) { auto d = replay_io::bytes(in["IN"]); names.emplace_back(d.begin(), d.end()); } }
  fs::path base = fs::temp_directory_path() / ("iora_assets_replay_" + std::to_string(::getpid()));
  fs::remove_all(base);
  const std::string SECRET = "TOP-SECRET-OUTSIDE-ROOT";
  put(base / "secret.txt", SECRET); put(base / "secretdir/secret.txt", SECRET);
  for (const char *r : {"static", "templates"}) {
    fs::path root = base / "root" / r;
    put(root / "a.txt", "A"); put(root / "sub/b.txt", "B"); put(root / "evil.js", "E");
    fs::create_symlink(base / "secret.txt", root / "out.txt");            // leaf symlink leading outside
    fs::create_directory_symlink(base / "secretdir", root / "outdir");    // directory symlink leading outside
    fs::create_symlink(root / "a.txt", root / "in.txt");                  // symlink staying inside
    fs::create_symlink(base / "secret.txt", root / "evil.js.gz");         // .gz sibling that is a symlink leading outside
  }
  int bad = 0;
  for (bool perRequest : {false, true}) {
    auto assets = iora::web::Assets::fromDirectory(base / "root", perRequest);
    for (const auto &n : names) {
      auto r = assets.getStatic(n);
      if (r.status == iora::web::GetStaticResult::Status::Found) {
        if (std::string(r.blob.bytes) == SECRET) { printf("getStatic(\"%s\") returned the secret\n", n.c_str()); bad++; }
        if (r.blob.gzipBytes && std::string(*r.blob.gzipBytes) == SECRET) { printf("getStatic(\"%s\") returned the secret as gzip variant\n", n.c_str()); bad++; }
      }
      auto t = assets.getTemplate(n);
      if (t && std::string(*t) == SECRET) { printf("getTemplate(\"%s\") returned the secret\n", n.c_str()); bad++; }
    }
  }
  // embedded mode with an EXTERNAL_DIR (RD-11): externalized names that are symlinks leading outside the directory must not be served
  {
    fs::path ext = base / "ext";
    put(ext / "img/ok.png", "OK");
    fs::create_symlink(base / "secret.txt", ext / "logo.png");              // leaf link leading outside
    fs::create_directory_symlink(base / "secretdir", ext / "priv");         // directory link leading outside
    static std::string extDirStr; extDirStr = ext.string();
    static const std::string_view extPaths[] = {"img/ok.png", "logo.png", "priv/secret.txt"};   // sorted
    iora::web::EmbeddedAssetRegistry reg; reg.externalDir = extDirStr; reg.externalPaths = extPaths; reg.externalPathsCount = 3;
    auto assets = iora::web::Assets::fromEmbedded(reg);
    for (auto n : extPaths) {
      auto r = assets.getStatic(n);
      if (r.status == iora::web::GetStaticResult::Status::Found && std::string(r.blob.bytes) == SECRET) { printf("embedded/external getStatic(\"%s\") returned the secret\n", std::string(n).c_str()); bad++; }
    }
    auto ok = assets.getStatic("img/ok.png");
    if (ok.status != iora::web::GetStaticResult::Status::Found) { printf("embedded/external: the regular externalized asset is not served (adapter problem)\n"); }
  }
  fs::remove_all(base);
  if (bad) replay_io::fail("content from outside the root was returned");
  replay_io::ok("no lookup returned content from outside the root");
  return 0;
}
