"""Unit-local block cutting for Assets::readFile (unit assets_fs).

The extractor now keeps only the conditional-compilation arm that g++ compiles on this platform. readFile has two arms (POSIX: ::open with
O_NOFOLLOW + read loop; otherwise: std::ifstream). The two readFile targets must follow WHATEVER ARM IS LIVE, so they cannot use fixed
`block` anchors (a disappeared POSIX arm would be an extraction break = undecided instead of a violation of the O_NOFOLLOW obligation):

  Assets_readFile_open : the first two statements of the live arm = "open the leaf" + "if it failed return nullopt"
  Assets_readFile_loop : POSIX arm: `std::string data; ... return data;` (the read loop). Other arm: there is no read loop in the text
                         (an istreambuf_iterator copy inside the library); the target then consists of a marker call that names the missing
                         loop contract, so that the proof of the read-loop clauses FAILS (violation), not the extraction.
"""
from vt import x2c
from vt.lexer import lex, match_close, text_of


def _stmt_end(t, i):
    """index of the last token of the statement starting at i"""
    if t[i].text in ('if', 'while', 'for'):
        rp = match_close(t, i + 1)
        if t[rp + 1].text == '{':
            return match_close(t, rp + 1)
        return _stmt_end(t, rp + 1)
    j = i
    while j < len(t):
        if t[j].kind not in ('str', 'chr') and t[j].text in ('(', '[', '{'):
            j = match_close(t, j)
        elif t[j].text == ';':
            return j
        j += 1
    raise x2c.ExtractionBreak("readFile: statement without terminator")


def _find(body, seq, start=0):
    n = len(seq)
    for i in range(start, len(body) - n + 1):
        if all(body[i + k].text == seq[k].text for k in range(n)):
            return i
    return -1


def hook_begin(tokens, rw):
    cname = rw.fn.get('cname')
    if cname == 'Assets_readFile_open':
        e1 = _stmt_end(tokens, 0)
        if e1 + 1 >= len(tokens) or tokens[e1 + 1].text != 'if':
            raise x2c.ExtractionBreak("readFile: the live arm does not start with `<open the leaf>; if (<failed>) ...`: " + text_of(tokens[:12]))
        e2 = _stmt_end(tokens, e1 + 1)
        head = text_of(tokens[:e1 + 1])
        if ':: open (' not in head and 'std :: ifstream' not in head:
            raise x2c.ExtractionBreak("readFile: first statement of the live arm is neither ::open nor std::ifstream: " + head[:120])
        rw.R.notes.append({"readFile live arm": "POSIX (::open)" if ':: open (' in head else "non-POSIX (std::ifstream)"})
        return tokens[:e2 + 1]
    if cname == 'Assets_readFile_loop':
        a = _find(tokens, lex('std :: string data ;'))
        b = _find(tokens, lex('return data ;'), max(a, 0))
        if a >= 0 and b >= 0 and _find(tokens, lex(':: read ('), a) >= 0:
            return tokens[a:b + 3]
        # no POSIX read loop in the live arm
        L = tokens[0].line if tokens else 0
        out = lex('iora_read_loop_absent ( "IORA_LOOP_Assets_readFile_loop_1: the live arm of readFile has no read(2) loop" ) ; return std :: nullopt ;')
        for t in out:
            t.line = L
        rw.R.notes.append({"readFile read loop": "absent in the live arm (marker emitted)"})
        return out
    return None
