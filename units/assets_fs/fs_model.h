/* Environment model of std::filesystem / the asset cache for unit assets_fs (C20 call-order contract).
 *
 * A path VALUE is an id into a ghost tag table. Every std::filesystem operation is a nondeterministic stub: it returns an
 * ARBITRARY result (any error code, any answer) and only records, as tags, which operation produced which value. Nothing about
 * what the OS would answer is assumed. The contracts then speak about provenance: "open is reached only with a value that came
 * out of weakly_canonical, for which lexically_relative against the construction-time root gave a non-empty result not starting
 * with '..', and for which is_regular_file answered true". */
#ifndef ASSETS_FS_MODEL_H
#define ASSETS_FS_MODEL_H
#include "../assets_lexical/lex_contract.h"   /* the contract of lexicallyRejected: PROVED in unit assets_lexical, ASSUMED here */
#include <fcntl.h>      /* the platform's real O_RDONLY / O_NOFOLLOW / O_CLOEXEC values */


#define IORA_NP 12                       /* model capacity: path values created during one call (straight-line code: 6 at most) */
typedef struct { unsigned id; } iora_path;
typedef int iora_ec;                     /* std::error_code: 0 == no error */
#define iora_ec_DEFAULT 0
typedef struct {
  unsigned root_kind;                    /* 1 = FsState::staticsRoot, 2 = FsState::templatesRoot (canonicalised at construction), 3 = weakly_canonical(EXTERNAL_DIR) of this call, 0 = not a root */
  bool ext_dir;                          /* the path built from the registry's EXTERNAL_DIR string */
  bool canon;                            /* result of weakly_canonical(...) with ec == 0 */
  bool empty;                            /* path::empty() */
  unsigned ncomp;                        /* number of components (begin()==end() iff 0 iff empty) */
  bool first_dotdot;                     /* *begin() == ".." */
  unsigned rel_base;                     /* for a lexically_relative result: id + 1 of the base it was computed against */
  unsigned last_rel;                     /* for a target: id + 1 of the latest target.lexically_relative(.) result */
  bool regular;                          /* latest is_regular_file(this) answered true */
  unsigned sibling_of;                   /* id + 1 of the value this one was made from by `+= "suffix"` (same directory, longer leaf name) */
} iora_path_tags;
iora_path_tags G_path[IORA_NP];
unsigned G_npaths;
unsigned G_fs_calls;                     /* number of std::filesystem / open / readFile stubs reached */
unsigned G_root_kind;                    /* which root the function under proof must stay inside (bound by its requires) */

bool nondet_bool(void); int nondet_int(void); unsigned nondet_unsigned(void);

static inline iora_path iora_path_new(void)
{
  IORA_ASSERT(G_npaths < IORA_NP, "model capacity: path values per call");
  iora_path r; r.id = G_npaths;
  iora_path_tags t = {0};
  t.ncomp = nondet_unsigned(); t.empty = (t.ncomp == 0); t.first_dotdot = nondet_bool();
  G_path[r.id] = t;
  G_npaths++;
  return r;
}
/* fs::path(std::string(sv)) */
static inline iora_path iora_path_from_sv(iora_sv s) { (void)s; return iora_path_new(); }
/* fs::path externalDir(std::string(_registry->externalDir)) */
static inline iora_path iora_path_external_dir(iora_sv s) { (void)s; iora_path r = iora_path_new(); G_path[r.id].ext_dir = true; return r; }
/* a / b */
static inline iora_path iora_path_join(iora_path a, iora_path b) { (void)a; (void)b; return iora_path_new(); }
/* p += "lit": same directory, leaf name extended */
static inline void iora_path_append_lit(iora_path *p, const char *lit) { (void)lit; unsigned old = p->id; *p = iora_path_new(); G_path[p->id].sibling_of = old + 1; }
/* fs::weakly_canonical(p, ec): any error code; the result is tagged canonical only when no error is reported */
static inline iora_path iora_fs_weakly_canonical(iora_path p, iora_ec *ec)
{ G_fs_calls++; *ec = nondet_int(); IORA_ASSERT(p.id < IORA_NP, "path id"); bool ext = G_path[p.id].ext_dir; iora_path r = iora_path_new(); G_path[r.id].canon = (*ec == 0);
  if (ext && *ec == 0) G_path[r.id].root_kind = 3;      /* the containment base of the external-directory branch: EXTERNAL_DIR canonicalised in this call */
  return r; }
/* fs::is_regular_file(p, ec): any answer */
static inline bool iora_fs_is_regular_file(iora_path p, iora_ec *ec)
{ G_fs_calls++; *ec = nondet_int(); bool r = nondet_bool(); IORA_ASSERT(p.id < IORA_NP, "path id"); G_path[p.id].regular = r; return r; }
/* target.lexically_relative(base): any result (empty, starting with "..", or not) */
static inline iora_path iora_path_lexically_relative(const iora_path *target, iora_path base)
{ iora_path r = iora_path_new(); IORA_ASSERT(target->id < IORA_NP && base.id < IORA_NP, "path id");
  G_path[r.id].rel_base = base.id + 1; G_path[target->id].last_rel = r.id + 1; return r; }
static inline bool iora_path_empty(const iora_path *p) { IORA_ASSERT(p->id < IORA_NP, "path id"); return G_path[p->id].empty; }
typedef struct { unsigned id; unsigned idx; } iora_path_it;
static inline iora_path_it iora_path_begin(const iora_path *p) { iora_path_it i = { p->id, 0 }; return i; }
static inline iora_path_it iora_path_end(const iora_path *p) { IORA_ASSERT(p->id < IORA_NP, "path id"); iora_path_it i = { p->id, G_path[p->id].ncomp }; return i; }
static inline bool iora_path_it_eq(iora_path_it a, iora_path_it b) { IORA_ASSERT(a.id == b.id, "iterators of the same path"); return a.idx == b.idx; }
/* *it == path(lit): the model knows the first component's relation to ".." only */
static inline bool iora_path_it_is_lit(iora_path_it it, const char *lit, size_t len)
{
  IORA_ASSERT(it.id < IORA_NP && it.idx < G_path[it.id].ncomp, "dereference of a path iterator that is not end()");
  IORA_ASSERT(len == 2 && lit[0] == 46 && lit[1] == 46, "model: path components are compared with \"..\" only");
  return it.idx == 0 ? G_path[it.id].first_dotdot : nondet_bool();
}
#define IORA_PATH_IT_IS_LIT(it, s) iora_path_it_is_lit((it), (s), sizeof(s) - 1)
static inline const iora_path *iora_path_c_str(const iora_path *p) { return p; }

/* ---- the ordering predicates (by-value macros over ids) ---- */
#define P_REL(id) (G_path[id].last_rel - 1)
#define P_CONTAINED(id) (G_npaths <= IORA_NP && G_path[id].last_rel != 0 && G_path[id].last_rel <= G_npaths \
   && G_path[P_REL(id)].rel_base != 0 && G_path[P_REL(id)].rel_base <= G_npaths \
   && G_path[G_path[P_REL(id)].rel_base - 1].root_kind == G_root_kind && G_root_kind != 0 \
   && !G_path[P_REL(id)].empty && !G_path[P_REL(id)].first_dotdot)
/* (i) came out of weakly_canonical, (ii) inside the construction-time root, (iii) is_regular_file said yes */
#define P_READ_OK(id) ((id) < IORA_NP && G_path[id].canon && P_CONTAINED(id) && G_path[id].regular)
/* the ".gz" sibling of such a value: same (canonical, contained) directory; regular; a symlinked leaf is refused by O_NOFOLLOW */
#define P_SIB(id) (G_path[id].sibling_of - 1)
#define P_SIB_OK(id) ((id) < IORA_NP && G_npaths <= IORA_NP && G_path[id].sibling_of != 0 && G_path[id].sibling_of <= G_npaths \
   && G_path[P_SIB(id)].canon && P_CONTAINED(P_SIB(id)) && G_path[id].regular)
#define P_OPEN_OK(id) (P_READ_OK(id) || P_SIB_OK(id))

/* ---- ::open ---- */
int G_open_calls; unsigned G_open_id; int G_open_flags;
static inline int iora_sys_open(const iora_path *p, int flags)
{
  G_fs_calls++;
  IORA_ASSERT(P_OPEN_OK(p->id), "open reached only with a weakly_canonical, contained, regular path (or its .gz sibling)");
  IORA_ASSERT((flags & O_NOFOLLOW) != 0, "open flags include O_NOFOLLOW");
  IORA_ASSERT((flags & O_ACCMODE) == O_RDONLY, "open is read-only");
  G_open_calls++; G_open_id = p->id; G_open_flags = flags;
  int fd = nondet_int(); if (fd < -1) fd = -1; return fd;
}

/* ---- file contents / cache entries: what matters is where the bytes came from ---- */
typedef struct { bool present; bool read_ok; unsigned src; } iora_strobj;     /* std::string / optional<string> holding file bytes */
typedef const iora_strobj *iora_optstr;                                        /* std::optional<std::string> returned by readFile: NULL == nullopt */
typedef const iora_strobj *iora_strp;                                          /* shared_ptr<const std::string> / the string_view onto it */
typedef struct { iora_strobj bytes; int etag; iora_strobj gzipBytes; int gzipEtag; } StaticCacheEntry;
typedef const StaticCacheEntry *iora_entry;                                    /* shared_ptr<[const] StaticCacheEntry> */
#define ENTRY_OK(e) ((e)->bytes.present && (e)->bytes.read_ok && (!(e)->gzipBytes.present || (e)->gzipBytes.read_ok))
static inline int computeEtag(iora_strobj s) { (void)s; return nondet_int(); }
/* make_shared: one ghost object per kind is enough (each function under proof allocates at most one of each per call) */
StaticCacheEntry G_new_entry; iora_strobj G_shared_str;
static inline StaticCacheEntry *iora_make_entry(void) { StaticCacheEntry z = {{0,0,0},0,{0,0,0},0}; G_new_entry = z; return &G_new_entry; }
static inline iora_strp iora_make_shared_str(iora_strobj s) { G_shared_str = s; return &G_shared_str; }

typedef struct { iora_sv s; } iora_key;
static inline iora_key iora_key_from_sv(iora_sv s) { iora_key k; k.s = s; return k; }
unsigned G_locks;
#define IORA_LOCK_GUARD(m) (G_locks++)

/* the caches. Invariant of the monitor (asserted at every emplace, assumed at every hit; caches start empty and reload() clears them):
 * every cached entry/template holds bytes that were read through readFile under the full check. */
typedef struct { iora_entry second; } iora_scache_slot;
typedef const iora_scache_slot *iora_scache_it;
typedef struct { int dummy; } iora_scache;
StaticCacheEntry nondet_entry(void); iora_strobj nondet_strobj(void);
StaticCacheEntry G_cached_entry; iora_scache_slot G_scache_slot;      /* the slot a cache hit points at */
static inline iora_scache_it iora_scache_find(iora_scache *c, iora_key k)
{
  (void)c; (void)k;
  if (nondet_bool()) return NULL;
  G_cached_entry = nondet_entry(); IORA_ASSUME(ENTRY_OK(&G_cached_entry));
  G_scache_slot.second = &G_cached_entry; return &G_scache_slot;
}
static inline iora_scache_it iora_scache_end(iora_scache *c) { (void)c; return NULL; }
static inline void iora_scache_emplace(iora_scache *c, iora_key k, iora_entry e)
{ (void)c; (void)k; IORA_ASSERT(e != NULL && ENTRY_OK(e), "cache invariant: only entries read under the full check are cached"); }

typedef struct { iora_strp second; } iora_tcache_slot;
typedef const iora_tcache_slot *iora_tcache_it;
typedef struct { int dummy; } iora_tcache;
iora_strobj G_cached_str; iora_tcache_slot G_tcache_slot;
static inline iora_tcache_it iora_tcache_find(iora_tcache *c, iora_key k)
{
  (void)c; (void)k;
  if (nondet_bool()) return NULL;
  G_cached_str = nondet_strobj(); IORA_ASSUME(G_cached_str.present && G_cached_str.read_ok);
  G_tcache_slot.second = &G_cached_str; return &G_tcache_slot;
}
static inline iora_tcache_it iora_tcache_end(iora_tcache *c) { (void)c; return NULL; }
static inline void iora_tcache_emplace(iora_tcache *c, iora_key k, iora_strp e)
{ (void)c; (void)k; IORA_ASSERT(e != NULL && e->present && e->read_ok, "cache invariant: only templates read under the full check are cached"); }
#define IORA_VIEW_OF(sp) (sp)

/* ---- ::read and the read loop of readFile: the file is a byte stream, the buffer a window onto it ---- */
#include <errno.h>
#include <sys/types.h>
#undef errno
int G_errno;
#define errno G_errno
#define IORA_FILE_MAX ((size_t)1 << 62)      /* stated bound on the number of bytes a file delivers */
size_t G_file_pos;                           /* kernel file offset = number of bytes delivered so far */
size_t G_chunk_lo, G_chunk_n;                /* stream position / length of the bytes the last successful read() left in the buffer */
int G_read_calls; ssize_t G_last_read;       /* read() calls, last result */
bool G_eintr_seen, G_short_seen;
typedef struct { size_t cap; } iora_rbuf;    /* std::vector<char> buf(N): only data()/size() are used */
static inline iora_rbuf iora_rbuf_make(size_t n) { iora_rbuf b; b.cap = n; return b; }
static inline const iora_rbuf *iora_rbuf_data(const iora_rbuf *b) { return b; }
static inline size_t iora_rbuf_size(const iora_rbuf *b) { return b->cap; }
/* read(fd, buf, count): -1 with any errno, 0 at end of file, or ANY k in 1..count (short reads) */
static inline ssize_t iora_sys_read(int fd, const iora_rbuf *buf, size_t count)
{
  (void)fd; IORA_ASSERT(count >= 1 && count <= buf->cap, "read(2) count within the buffer");
  if (G_read_calls < 1000000) G_read_calls++;
  int kind = nondet_int();
  if (kind == 0) { G_last_read = 0; return 0; }
  if (kind < 0) { G_errno = nondet_int(); if (G_errno == EINTR) G_eintr_seen = true; G_last_read = -1; return -1; }
  size_t k = nondet_unsigned(); IORA_ASSUME(k >= 1 && k <= count && k <= IORA_FILE_MAX - G_file_pos);
  if (k < count) G_short_seen = true;
  G_chunk_lo = G_file_pos; G_chunk_n = k; G_file_pos += k; G_last_read = (ssize_t)k; return (ssize_t)k;
}
/* std::string data as a stream interval [0, n): append(buf, k) must append exactly the bytes the last read delivered, at the right position */
typedef struct { size_t n; } iora_fstr;
#define iora_fstr_DEFAULT ((iora_fstr){0})
static inline void iora_fstr_append(iora_fstr *d, const iora_rbuf *buf, size_t k)
{ (void)buf; IORA_ASSERT(k == G_chunk_n && d->n == G_chunk_lo, "RL1 exactly the bytes of the last read are appended, at the stream position they came from (none lost, duplicated or reordered)");
  d->n += k; G_chunk_n = 0; }
#endif
