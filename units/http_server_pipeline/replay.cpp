// REPLAY adapter for unit http_server_pipeline: pushes a byte stream into the REAL HttpServer::handleIncomingData (protected; reached with
// -fno-access-control) for a synthetic session, in ONE read (true pipelining), and compares what is left in the session buffer with an
// independent reference framing (RFC 9112 6.3: header block up to the first CRLF CRLF, body = exactly Content-Length octets, decided from the
// request's OWN header fields). A request whose length information is invalid (non-numeric, or several Content-Length lines that differ) must
// not be framed. Scenario used for clause F1 (framing state re-initialised per request): POST with Content-Length 3 followed by a body-less GET.
#include "iora/network/http_server.hpp"
#include "replay_io.h"
#include <thread>
using namespace iora::network;

static std::string lower(std::string s) { for (auto &c : s) if (c >= 'A' && c <= 'Z') c = (char)(c + 32); return s; }
static std::string trim(const std::string &s) { size_t a = s.find_first_not_of(" \t"); if (a == std::string::npos) return ""; size_t b = s.find_last_not_of(" \t"); return s.substr(a, b - a + 1); }
struct Ref { size_t consumed; int requests; bool invalid; std::string why; bool chunked = false; };
static Ref refscan(const std::string &d) {
  Ref r{0, 0, false, ""};
  for (;;) {
    size_t he = d.find("\r\n\r\n", r.consumed);
    if (he == std::string::npos) return r;
    std::string hs = d.substr(r.consumed, he - r.consumed);
    bool have = false, chunked = false; unsigned long long cl = 0; size_t pos = 0;
    while (pos <= hs.size()) {
      size_t e = hs.find("\r\n", pos); std::string line = hs.substr(pos, e == std::string::npos ? std::string::npos : e - pos);
      size_t c = line.find(':');
      if (c != std::string::npos) {
        std::string k = lower(trim(line.substr(0, c))), v = trim(line.substr(c + 1));
        if (k == "content-length") {
          if (v.empty() || v.size() > 19 || v.find_first_not_of("0123456789") != std::string::npos) { r.invalid = true; r.why = "non-numeric Content-Length \"" + v + "\""; return r; }
          unsigned long long x = strtoull(v.c_str(), nullptr, 10);
          if (have && x != cl) { r.invalid = true; r.why = "conflicting Content-Length lines"; return r; }
          have = true; cl = x;
        } else if (k == "transfer-encoding") chunked = true;
      }
      if (e == std::string::npos) break; pos = e + 2;
    }
    if (chunked) { r.chunked = true; return r; }   // the chunked layer is unit http_chunked_server's business
    if (cl > 10ull * 1024 * 1024) { r.invalid = true; r.why = "Content-Length above MAX_BODY_SIZE"; return r; }
    size_t end = he + 4 + (size_t)cl;
    if (d.size() < end) return r;
    r.consumed = end; r.requests++;
  }
}

int main(int argc, char **argv) {
  std::string d = "POST /a HTTP/1.1\r\nHost: h\r\nContent-Length: 3\r\n\r\nabcGET /b HTTP/1.1\r\nHost: h\r\n\r\n";
  if (argc > 1) { auto in = replay_io::load(argv[1]); if (in.count("IN")) { auto b = replay_io::bytes(in["IN"]); if (in.count("IN_N")) b.resize(std::min<size_t>(b.size(), replay_io::u64(in["IN_N"]))); d.assign(b.begin(), b.end()); } }
  HttpServer srv;
  SessionId sid = 7;
  { std::lock_guard<std::mutex> lk(srv._sessionMutex); srv._sessionInfo[sid].peerAddress = "127.0.0.1"; }
  printf("feeding %zu bytes in one read\n", d.size()); fflush(stdout);
  try { srv.handleIncomingData(sid, reinterpret_cast<const std::uint8_t *>(d.data()), d.size()); }
  catch (const std::exception &e) { replay_io::fail(std::string("K1 exception escapes the data callback: ") + e.what()); }
  std::string left; bool present = false;
  { std::lock_guard<std::mutex> lk(srv._sessionMutex); auto it = srv._sessionInfo.find(sid); if (it != srv._sessionInfo.end()) { present = true; left = it->second.buffer; } }
  std::this_thread::sleep_for(std::chrono::milliseconds(200));      // let the worker threads finish with the dispatched requests
  Ref ref = refscan(d);
  printf("reference: %d complete request(s), %zu bytes consumed%s%s; server left %zu bytes buffered\n", ref.requests, ref.consumed, ref.invalid ? ", then INVALID: " : "", ref.why.c_str(), left.size());
  if (!present) { replay_io::ok("session closed by the server"); return 0; }
  if (ref.chunked) { replay_io::ok("stream continues with a chunked request: not judged by this adapter"); return 0; }
  if (ref.invalid) {
    if (left.size() < d.size() - ref.consumed) replay_io::fail("a request with invalid length information (" + ref.why + ") was framed instead of rejected");
  } else {
    std::string want = d.substr(ref.consumed);
    if (left != want) replay_io::fail("F1/X4 pipelined framing: server buffer holds " + std::to_string(left.size()) + " bytes, the request stream says " + std::to_string(want.size()) + " (a request was framed with state that is not its own, or the remainder is not the bytes after the extracted requests)");
  }
  replay_io::ok("extraction matches the reference framing on this stream");
  return 0;
}
