/* Contracts for unit http_server_pipeline (property C15, server side): the framing skeleton of HttpServer::handleIncomingData.
 * "pipelined or not ... the body bytes handed to the application are exactly those encoded"; "can never ... buffer beyond its configured caps";
 * "sizes that overflow are rejected". The clauses X1-X5 are ghost assertions in the dispatch stub (srv_model.h), F1/F2 are preconditions of the
 * header-scan stub (pre.h). */
#define R __CPROVER_return_value

/* ============ (b) the buffer-cap block ============ */
void hid_cap_contract(hs_sess_cap *it, hs_str *dataStr, bool *bufferLimitExceeded)
__CPROVER_requires(IORA_TRUE)
__CPROVER_requires(__CPROVER_is_fresh(it, sizeof(*it)))
__CPROVER_requires(__CPROVER_is_fresh(dataStr, sizeof(*dataStr)))
__CPROVER_requires(__CPROVER_is_fresh(bufferLimitExceeded, sizeof(*bufferLimitExceeded)))
/* both are std::string sizes (<= max_size() < 2^62): the sum cannot wrap */
__CPROVER_requires(it->second.buffer.n <= ((size_t)1 << 62) && dataStr->n <= ((size_t)1 << 62) && *bufferLimitExceeded == 0)
__CPROVER_assigns(it->second.buffer.n, dataStr->n, *bufferLimitExceeded)
/* C1 over the cap (mathematical sum): the flag is raised and NOTHING is appended */
__CPROVER_ensures((__CPROVER_old(it->second.buffer.n) + __CPROVER_old(dataStr->n) > MAX_BUFFER_SIZE) ==> (*bufferLimitExceeded != 0 && it->second.buffer.n == __CPROVER_old(it->second.buffer.n) && dataStr->n == __CPROVER_old(dataStr->n)))
/* C2 within the cap: the data is appended, the work string is the complete buffer, and the buffer never exceeds MAX_BUFFER_SIZE */
__CPROVER_ensures((__CPROVER_old(it->second.buffer.n) + __CPROVER_old(dataStr->n) <= MAX_BUFFER_SIZE) ==> (*bufferLimitExceeded == 0 && it->second.buffer.n == __CPROVER_old(it->second.buffer.n) + __CPROVER_old(dataStr->n) && dataStr->n == it->second.buffer.n))
/* C3 */ __CPROVER_ensures(*bufferLimitExceeded != 0 || it->second.buffer.n <= MAX_BUFFER_SIZE)
;
void h_cap(void) { hs_sess_cap *it; hs_str *d; bool *f; hid_cap(it, d, f); IORA_CANARY("h_cap: returns"); }

/* ============ the Content-Length conversion inside the header scan (the only writer of contentLength) ============ */
void hid_cl_value_contract(HttpServer *self, SessionId sid, hs_val value, size_t *contentLength)
__CPROVER_requires(IORA_TRUE && iora_exc == EXC_NONE && G.closed == 0 && G.cl_fell == 0)
__CPROVER_requires(__CPROVER_is_fresh(contentLength, sizeof(*contentLength)))
__CPROVER_requires(HS_VAL_WF(value))
__CPROVER_assigns(*contentLength, iora_exc, iora_exc_caught, G.closed, G.cl_fell)
/* V1 nothing is thrown out of the I/O thread (invalid / overflowing digits are caught) */
__CPROVER_ensures(iora_exc == EXC_NONE)
/* V2 the block is left by `return` exactly when the session was closed; otherwise the length is within the body cap */
__CPROVER_ensures((G.cl_fell != 0) == (G.closed == 0))
__CPROVER_ensures(G.closed != 0 || *contentLength <= MAX_BODY_SIZE)
;
void h_clv(void) { HttpServer *s; SessionId sid; hs_val v; size_t *cl; hid_cl_value(s, sid, v, cl); IORA_CANARY("h_clv: returns"); if (G.cl_fell) { IORA_CANARY("h_clv: accepted"); } else { IORA_CANARY("h_clv: closed"); } }

/* ============ the whole Content-Length block of the header scan: `if (key == "content-length") { validation; duplicate test; try {...} catch (...) {...} }` ============ */
#define OLD_CL __CPROVER_old(*contentLength)
#define OLD_HAVE __CPROVER_old(*haveContentLength)
#define ACCEPTED (G.cl_fell != 0 && key.is_cl)
void hid_cl_block_contract(HttpServer *self, SessionId sid, hs_key key, hs_val value, size_t *contentLength, bool *haveContentLength)
__CPROVER_requires(IORA_TRUE && iora_exc == EXC_NONE && G.closed == 0 && G.cl_fell == 0)
__CPROVER_requires(__CPROVER_is_fresh(contentLength, sizeof(*contentLength)))
__CPROVER_requires(__CPROVER_is_fresh(haveContentLength, sizeof(*haveContentLength)))
__CPROVER_requires(HS_VAL_WF(value))
__CPROVER_assigns(*contentLength, *haveContentLength, iora_exc, iora_exc_caught, G.closed, G.cl_fell)
/* W1 NOTHING THROWN LEAVES THE BLOCK (the block runs on the server's only I/O thread: an escaping std::out_of_range / invalid_argument kills it) */
__CPROVER_ensures(iora_exc == EXC_NONE)
/* W2 the block is left by `return` exactly when the session was closed */
__CPROVER_ensures((G.cl_fell != 0) == (G.closed == 0))
/* W3 a value is accepted only if it is 1*DIGIT whose number fits 64 bits ... */
__CPROVER_ensures(ACCEPTED ==> (value.n >= 1 && value.all_digits && value.fits64))
/* W4 ... it becomes the request's length, within the body cap ... */
__CPROVER_ensures(ACCEPTED ==> (*haveContentLength != 0 && *contentLength == value.num && *contentLength <= MAX_BODY_SIZE))
/* W5 ... and, when a Content-Length was already seen in this header block, it is EQUAL to that one (conflicting duplicates are rejected) */
__CPROVER_ensures((ACCEPTED && OLD_HAVE) ==> OLD_CL == value.num)
/* W6 any other field leaves the framing state alone */
__CPROVER_ensures(!key.is_cl ==> (G.cl_fell != 0 && *contentLength == OLD_CL && *haveContentLength == OLD_HAVE))
/* W7 a rejected length closes the connection and is never framed: not all digits / empty / conflicting / above the cap => closed */
__CPROVER_ensures((key.is_cl && (value.n == 0 || !value.all_digits || !value.fits64 || value.num > MAX_BODY_SIZE || (OLD_HAVE && OLD_CL != value.num))) ==> G.closed != 0)
;
void h_clb(void)
{
  HttpServer *s; SessionId sid; hs_key k; hs_val v; size_t *cl; bool *have;
  hid_cl_block(s, sid, k, v, cl, have);
  IORA_CANARY("h_clb: returns");
  if (G.cl_fell && k.is_cl) { IORA_CANARY("h_clb: length accepted"); }
  if (G.closed) { IORA_CANARY("h_clb: closed"); }
}

/* ============ (a)+(c) the pipelining loop skeleton ============ */
void hid_pipeline_contract(HttpServer *self, SessionId sid, bool bufferLimitExceeded, iora_sv dataStr)
__CPROVER_requires(IORA_TRUE && iora_exc == EXC_NONE)
__CPROVER_requires(dataStr.n <= ((size_t)1 << 62))
__CPROVER_requires(__CPROVER_is_fresh(dataStr.p, dataStr.n))
__CPROVER_requires(G.p0 == dataStr.p && G.n0 == dataStr.n && G.off == 0 && G.count == 0 && G.closed == 0)
__CPROVER_assigns(G.off, G.count, G.closed, G.hs_n, G.cl, G.chunked, G_sess)
/* K1 nothing is thrown */
__CPROVER_ensures(iora_exc == EXC_NONE)
/* K2 over the buffer cap: the connection is closed and no request is extracted */
__CPROVER_ensures(bufferLimitExceeded ==> (G.closed != 0 && G.count == 0))
/* K3 the extracted requests are consecutive, disjoint ranges of the buffer (X1-X4 per request): together they cover exactly [0, off) */
__CPROVER_ensures(G.off <= G.n0)
;
void h_pipe(void)
{
  HttpServer *s; SessionId sid; bool lim; iora_sv d;
  hid_pipeline(s, sid, lim, d);
  IORA_CANARY("h_pipe: returns");
  if (G.count >= 2) { IORA_CANARY("h_pipe: two requests extracted in one call"); }
  if (G.closed) { IORA_CANARY("h_pipe: closed"); }
}
