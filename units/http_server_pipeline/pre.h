/* contracts of the environment stubs + loop contract for unit http_server_pipeline (C15, server side) */

/* HttpServer::findChunkedRequestEnd: the contract PROVED in unit http_chunked_server (proof `safety`, clauses S1/S2), used here by replacement.
 * The call-site precondition of that unit (bodyStart <= data.size()) is a requires clause here, i.e. it is checked at this call site. */
size_t hs_fcre(HttpServer *self, iora_sv data, size_t bodyStart)
  __CPROVER_requires(IORA_TRUE && bodyStart <= data.n)
  __CPROVER_assigns()
  __CPROVER_ensures(__CPROVER_return_value == IORA_NPOS || (bodyStart < __CPROVER_return_value && __CPROVER_return_value <= data.n));

/* R1, the header-field scan (istringstream / getline / stoull glue, replaced by plugin.py). What the stub promises is exactly what is checked about
 * the region: it writes nothing but contentLength / isChunked (structural, plugin.py); it leaves the handler only after closeSession (structural);
 * the only assignment to contentLength is the one in the try block, for which proof `cl_value` shows: closed, or contentLength <= MAX_BODY_SIZE. */
bool hid_parse_headers(HttpServer *self, SessionId sid, iora_sv headerSection, size_t *contentLength, bool *isChunked)
  /* F1 the framing decision for request k depends only on request k's own header block: when the scan of its header fields starts, the framing
   *    state is the INITIAL state - in EVERY iteration of the request-extraction loop */
  __CPROVER_requires(IORA_TRUE && *contentLength == 0 && *isChunked == 0)
  /* F2 the header block handed to the scan is exactly the bytes from the start of the current request up to its CRLF CRLF, at most MAX_HEADER_SIZE */
  __CPROVER_requires(headerSection.p == G.p0 + G.off && headerSection.n <= MAX_HEADER_SIZE && headerSection.n <= G.n0 - G.off)
  __CPROVER_requires(G.closed == 0)
  __CPROVER_assigns(*contentLength, *isChunked, G.closed, G.hs_n, G.cl, G.chunked)
  __CPROVER_ensures(__CPROVER_return_value == (G.closed != 0))
  __CPROVER_ensures(!__CPROVER_return_value ==> *contentLength <= MAX_BODY_SIZE)
  __CPROVER_ensures(G.hs_n == headerSection.n && G.cl == *contentLength && G.chunked == (*isChunked != 0));

/* loop 1: the request-extraction loop. dataStr is always the suffix of the original buffer that starts after the requests extracted so far;
 * variant: its length (every extracted request removes at least 4 bytes) => termination */
#define IORA_LOOP_hid_pipeline_1 IORA_LC( \
  __CPROVER_assigns(dataStr, contentLength, isChunked, G.off, G.count, G.closed, G.hs_n, G.cl, G.chunked, G_sess) \
  __CPROVER_loop_invariant(G.closed == 0 && iora_exc == EXC_NONE) \
  __CPROVER_loop_invariant(G.off <= G.n0 && dataStr.n == G.n0 - G.off && dataStr.p == G.p0 + G.off) \
  __CPROVER_loop_invariant(G.count <= 3 && (G.count == 0) == (G.off == 0)) \
  __CPROVER_decreases(dataStr.n))
