/* Environment model for unit http_server_pipeline (C15, server side): the pipelining skeleton of HttpServer::handleIncomingData.
 * The session buffer `dataStr` is an iora_sv VIEW (p,n) over the received bytes; substr(0,k) / substr(k) are views, so "the remainder is
 * exactly the bytes after the extracted request" is a pointer/length fact. No byte is ever read here: find("\r\n\r\n") is a range-only
 * nondeterministic model, findChunkedRequestEnd is replaced by the contract proved in unit http_chunked_server (S1), the header-field
 * scan and the thread-pool dispatch are stubs (see plugin.py for what is checked about the replaced regions). */
#ifndef SRV_MODEL_H
#define SRV_MODEL_H
typedef uint64_t SessionId;
typedef struct { int dummy; } HttpServer;
size_t nondet_size_t(void); _Bool nondet_bool(void);

/* ONE ghost object */
struct hs_ghost {
  const char *p0; size_t n0;       /* the complete buffer the loop started with */
  size_t off;                      /* bytes consumed by the requests extracted so far */
  size_t count;                    /* requests handed to the dispatcher (saturates at 3) */
  bool closed;                     /* closeSession(sid) was called */
  size_t hs_n, cl; bool chunked;   /* current request: length of its header block, framing state after its header-field scan */
  bool sess_present;               /* _sessionInfo.find(sid) != end() */
  bool cl_fell;                    /* hid_cl_value / hid_cl_block: the block was left by falling off its end (not by `return`) */
} G;
typedef struct { struct { iora_sv buffer; } second; } hs_sess;
hs_sess G_sess;                    /* the SessionInfo entry of sid */

/* ---- strings ---- */
static inline iora_sv hs_substr(const iora_sv *s, size_t pos, size_t len)
{
  IORA_ASSERT(pos <= s->n, "substr: pos <= size() (std::out_of_range otherwise)");
  iora_sv r; r.p = s->p + pos; r.n = IORA_MIN(len, s->n - pos);
  return r;
}
/* dataStr.find("\r\n\r\n"): npos or an index with 4 bytes available (range-only model; first-occurrence semantics are libstdc++'s) */
static inline size_t hs_find_crlf2(const iora_sv *s)
{
  size_t r = nondet_size_t();
  IORA_ASSUME(r == IORA_NPOS || (r < s->n && s->n - r >= 4));
  return r;
}
/* ---- session table / transport ---- */
static inline void hs_lock(HttpServer *self) { (void)self; }
static inline hs_sess *hs_sess_find(HttpServer *self, SessionId sid) { (void)self; (void)sid; return G.sess_present ? &G_sess : NULL; }
static inline void hs_closeSession(HttpServer *self, SessionId sid) { (void)self; (void)sid; G.closed = 1; }

/* ---- length-only strings of the buffer-cap block (std::string::size / operator+= / copy assignment) ---- */
typedef struct { size_t n; } hs_str;
typedef struct { struct { hs_str buffer; } second; } hs_sess_cap;
static inline size_t hs_str_size(const hs_str *s) { return s->n; }
static inline void hs_str_append(hs_str *x, const hs_str *y) { IORA_ASSERT(y->n <= ((size_t)1 << 62) - x->n, "string growth below max_size()"); x->n += y->n; }

/* ---- the header field value handed to the Content-Length block: an ABSTRACT string (no bytes): its length, whether every character is a
 * decimal digit, whether the digit string's numeric value fits 64 bits, and that value. Well-formedness (arithmetic fact, HS_VAL_WF, required by the
 * contracts): a non-empty all-digit string of at most 19 characters is < 10^19 < 2^64, so it fits. (Longer all-digit strings may or may not fit:
 * leading zeros.) ---- */
#define EXC_invalid_argument 1
#define EXC_out_of_range 2
typedef struct { size_t n; bool all_digits; bool fits64; uint64_t num; } hs_val;
typedef struct { bool is_cl; } hs_key;
#define HS_VAL_WF(v_) (!((v_).all_digits && (v_).n >= 1 && (v_).n <= 19) || (v_).fits64)
static inline bool hs_val_empty(const hs_val *v) { return v->n == 0; }
static inline size_t hs_val_size(const hs_val *v) { return v->n; }
/* value.find_first_not_of("0123456789"): npos iff every character is a digit (vacuously for the empty string), else an index inside the string */
static inline size_t hs_val_first_non_digit(const hs_val *v)
{
  if (v->all_digits || v->n == 0) return IORA_NPOS;
  size_t r = nondet_size_t(); IORA_ASSUME(r < v->n); return r;
}
static inline bool hs_key_is_cl(hs_key k) { return k.is_cl; }          /* key == "content-length" (key was lower-cased by the scan) */
/* std::stoull(value) (libstdc++ over strtoull, base 10). A non-empty all-digit string: its value, or std::out_of_range when the value exceeds
 * 2^64-1 - a FUNCTION of the string (two calls on the same value agree). Anything else (sign, whitespace, junk, empty): any value or
 * std::invalid_argument / std::out_of_range. */
static inline unsigned long long hs_stoull(hs_val v)
{
  if (v.all_digits && v.n >= 1) {
    if (!v.fits64) { iora_exc = EXC_out_of_range; return 0; }
    return v.num;
  }
  if (nondet_bool()) { iora_exc = nondet_bool() ? EXC_invalid_argument : EXC_out_of_range; return 0; }
  return (unsigned long long)nondet_size_t();
}

/* ---- R2: the dispatch of one extracted request (ghost checks = the extraction clauses) ---- */
static inline void hid_dispatch(HttpServer *self, SessionId sid, iora_sv requestData, iora_sv dataStr)
{
  (void)self; (void)sid;
  IORA_ASSERT(requestData.p == G.p0 + G.off, "X1 the extracted request starts exactly where the previous one ended");
  IORA_ASSERT(G.chunked || requestData.n == G.hs_n + 4 + G.cl, "X2 Content-Length framing is exact: header block + CRLF CRLF + exactly contentLength body bytes (mathematical sum)");
  IORA_ASSERT(!G.chunked || requestData.n > G.hs_n + 4, "X2c a chunked request ends after its header block (boundary from findChunkedRequestEnd)");
  IORA_ASSERT(requestData.n >= 4 && requestData.n <= G.n0 - G.off, "X3 the request is non-empty and lies inside the buffered bytes");
  IORA_ASSERT(dataStr.p == requestData.p + requestData.n && dataStr.n == (G.n0 - G.off) - requestData.n, "X4 the remainder is exactly the bytes after the extracted request");
  IORA_ASSERT(!G.sess_present || (G_sess.second.buffer.p == dataStr.p && G_sess.second.buffer.n == dataStr.n), "X5 the session buffer is replaced by exactly that remainder");
  G.off += requestData.n;
  if (G.count < 3) G.count++;
}
#endif
