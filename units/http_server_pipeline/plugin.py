"""Unit-local extractor hook for http_server_pipeline: the pipelining loop SKELETON of HttpServer::handleIncomingData.

The block target `hid_pipeline` is the statement range from `if (bufferLimitExceeded)` to the end of the function (unit.json "block").
Two regions of the request-extraction loop are outside the extractable subset and are replaced by calls to environment stubs; what the stubs
may assume about them is CHECKED - partly structurally here (every run, on the real header; a failed check is an extraction break = exit 2),
partly by CBMC on separately extracted text:

 R1  header-field scan: `std::istringstream headerStream(headerSection); std::string line; while (std::getline(headerStream, line)) {...}`
     -> `if (hid_parse_headers(self, sid, headerSection, &contentLength, &isChunked)) return;`
     structural: R1 does not mention dataStr / headerEnd / requestEndPos / requestData / _sessionInfo / _sessionMutex; headerSection occurs only
     as the istringstream argument; `contentLength` is assigned exactly once, by the statement that opens the try block extracted as
     `hid_cl_value` (CBMC proves on that text: the handler returns with the session closed, or contentLength <= MAX_BODY_SIZE);
     `isChunked` occurs only as `isChunked = true;`; every `return` directly follows `closeSession(sid);` and vice versa; no goto/throw.
 R2  dispatch tail: `if (!_threadPool.tryEnqueue([this, sid, requestData]() {...})) {...} else if (...) {...}` up to the end of the loop body
     -> `hid_dispatch(self, sid, requestData, dataStr);`
     structural: R2 does not mention dataStr / contentLength / isChunked / headerEnd / requestEndPos / _sessionInfo and contains no
     break / continue / return / goto / throw.

 Declaration normalisation (semantics preserving for scalars, done for WHEREVER the two declarations stand): `std::size_t contentLength = 0;` and
 `bool isChunked = false;` are split into a function-level declaration (prepended) and the assignment `contentLength = 0;` / `isChunked = false;`
 left at the ORIGINAL place. Both variables are thereby loop-carried C variables in every version of the code, they are in the loop's assigns
 clause, and the obligation "the framing state is the initial state when request k's header fields are scanned" (precondition F1 of the R1 stub)
 is discharged by CBMC on the extracted text: it holds iff the two assignments are executed in every iteration before R1.
 Nothing else is added, removed or reordered.
"""
from vt.lexer import Tok, lex, match_close, text_of
from vt.x2c import ExtractionBreak


def _find_seq(t, seq, start=0, end=None):
    n = len(seq)
    hits = []
    end = len(t) if end is None else end
    for i in range(start, end - n + 1):
        if all(t[i + k].text == seq[k] for k in range(n)):
            hits.append(i)
    return hits


def _fin(text, line):
    out = lex(text)
    for x in out:
        x.line = line
        if x.kind == 'id':
            x.final = True
    return out


def hook_begin(t, rw):
    if rw.prefix != 'hid_pipeline':
        return t
    t = list(t)
    # ---- the request-extraction loop
    ws = [i for i, x in enumerate(t) if x.kind == 'id' and x.text in ('while', 'for', 'do')]
    if not ws or t[ws[0]].text != 'while' or text_of(t[ws[0] + 1:ws[0] + 4]) != '( true )' or t[ws[0] + 4].text != '{':
        raise ExtractionBreak("hid_pipeline: the first loop after the buffer-cap block is not `while (true) {`")
    wl = ws[0]
    lb = wl + 4
    rb = match_close(t, lb)
    if rb != len(t) - 1:
        raise ExtractionBreak("hid_pipeline: statements after the request-extraction loop are not under contract: " + text_of(t[rb + 1:])[:80])
    # ---- R1
    a = _find_seq(t, ['std', '::', 'istringstream', 'headerStream', '('], lb, rb)
    if len(a) != 1:
        raise ExtractionBreak(f"hid_pipeline: {len(a)} header-scan regions (std::istringstream headerStream) found")
    r1s = a[0]
    g = _find_seq(t, ['while', '(', 'std', '::', 'getline', '(', 'headerStream', ',', 'line', ')', ')', '{'], r1s, rb)
    if len(g) != 1:
        raise ExtractionBreak("hid_pipeline: header-scan loop `while (std::getline(headerStream, line)) {` not found exactly once")
    r1e = match_close(t, g[0] + 11)          # closing brace of the getline loop
    between = text_of(t[r1s:g[0]])
    if between != 'std :: istringstream headerStream ( headerSection ) ; std :: string line ;':
        raise ExtractionBreak("hid_pipeline: text between the istringstream declaration and the getline loop changed: " + between[:120])
    R1 = t[r1s:r1e + 1]
    ids = [x.text for x in R1 if x.kind == 'id']
    for bad in ('dataStr', 'headerEnd', 'requestEndPos', 'requestData', '_sessionInfo', '_sessionMutex', 'goto', 'throw', 'bufferLimitExceeded'):
        if bad in ids:
            raise ExtractionBreak(f"hid_pipeline: header-scan region now mentions `{bad}`; the stub contract of hid_parse_headers no longer describes it")
    if ids.count('headerSection') != 1:
        raise ExtractionBreak("hid_pipeline: header-scan region uses headerSection other than as the istringstream argument")
    cl_assign = [i for i in range(len(R1) - 1) if R1[i].text == 'contentLength' and R1[i + 1].text in ('=', '+=', '-=', '*=', '++', '--', '|=', '&=', '<<=', '>>=')]
    cl_assign += [i for i in range(1, len(R1)) if R1[i].text == 'contentLength' and R1[i - 1].text in ('++', '--', '&')]
    want = ['try', '{', 'contentLength', '=', 'std', '::', 'stoull', '(', 'value', ')', ';']
    if len(cl_assign) != 1 or [x.text for x in R1[cl_assign[0] - 2:cl_assign[0] + 9]] != want:
        raise ExtractionBreak("hid_pipeline: contentLength is not assigned exactly once by `try { contentLength = std::stoull(value);` (the block proved as hid_cl_value)")
    for i, x in enumerate(R1):
        if x.text == 'isChunked' and text_of(R1[i:i + 4]) != 'isChunked = true ;':
            raise ExtractionBreak("hid_pipeline: isChunked is used other than as `isChunked = true;` in the header-scan region")
        if x.kind == 'id' and x.text == 'return' and text_of(R1[i - 5:i + 2]) != 'closeSession ( sid ) ; return ;':
            raise ExtractionBreak("hid_pipeline: a `return` in the header-scan region does not follow `closeSession(sid);`")
        if x.kind == 'id' and x.text == 'closeSession' and text_of(R1[i:i + 7]) != 'closeSession ( sid ) ; return ;':
            raise ExtractionBreak("hid_pipeline: a `closeSession` in the header-scan region is not followed by `return;`")
    # ---- R2
    d = _find_seq(t, ['if', '(', '!', '_threadPool', '.', 'tryEnqueue', '('], r1e, rb)
    if len(d) != 1:
        raise ExtractionBreak("hid_pipeline: dispatch statement `if (!_threadPool.tryEnqueue(` not found exactly once after the header scan")
    r2s = d[0]
    R2 = t[r2s:rb]
    ids2 = [x.text for x in R2 if x.kind == 'id']
    # requestData is captured BY VALUE by the lambda (checked), everything else of the framing state must not occur
    for bad in ('dataStr', 'contentLength', 'isChunked', 'headerEnd', 'requestEndPos', '_sessionInfo', 'break', 'continue', 'return', 'goto', 'throw'):
        if bad in ids2:
            raise ExtractionBreak(f"hid_pipeline: dispatch region now mentions `{bad}`; the stub hid_dispatch no longer describes it")
    if text_of(R2[6:15]) != '( [ this , sid , requestData ] (':
        raise ExtractionBreak("hid_pipeline: the dispatch lambda no longer captures [this, sid, requestData] by value: " + text_of(R2[6:16]))
    # ---- declaration normalisation
    decls = []
    for seq, asg in ((['std', '::', 'size_t', 'contentLength', '=', '0', ';'], 'contentLength = 0 ;'), (['bool', 'isChunked', '=', 'false', ';'], 'isChunked = false ;')):
        h = _find_seq(t, seq)
        if len(h) != 1:
            raise ExtractionBreak("hid_pipeline: declaration `" + ' '.join(seq) + f"` found {len(h)} times between the buffer-cap block and the end of the function")
        if not (h[0] < r1s):
            raise ExtractionBreak("hid_pipeline: declaration `" + ' '.join(seq) + "` stands after the header-scan region")
        decls.append((h[0], len(seq), asg))
    where = ["inside the loop body" if lb < p < rb else "BEFORE the loop" for p, _, _ in decls]
    rw.R.notes.append({"hid_pipeline": {"loop": f"while (true) lines {t[wl].line}-{t[rb].line}", "R1 header scan (stub hid_parse_headers)": f"lines {t[r1s].line}-{t[r1e].line}",
                                        "R2 dispatch (stub hid_dispatch)": f"lines {t[r2s].line}-{t[rb - 1].line}",
                                        "contentLength / isChunked declared": where}})
    # build the new stream back to front so that indices stay valid
    out = list(t)
    L2 = t[r2s].line
    out[r2s:rb] = _fin('hid_dispatch ( self , sid , requestData , dataStr ) ;', L2)
    L1 = t[r1s].line
    out[r1s:r1e + 1] = _fin('if ( hid_parse_headers ( self , sid , headerSection , & contentLength , & isChunked ) ) return ;', L1)
    for p, n, asg in sorted(decls, reverse=True):
        new = lex(asg)
        for x in new:
            x.line = t[p].line
        out[p:p + n] = new
    head = _fin('size_t contentLength ; bool isChunked ;', t[0].line)
    return head + out


def hook_mid(t, rw):
    """hid_cl_block: exception propagation (R8) for a may-throw call inside an `if (...)` header that is NOT inside a try block.
    `if ( E ) S [else ...]` with the may-throw stub `hs_stoull` in E becomes `_Bool iora_ck = E ; if ( iora_ck ) S [else ...]`; the new declaration is a
    simple statement, so the extractor's R8 pass adds `if (iora_exc) return;` right after it (the exception leaves the function before S runs) -
    or `goto catch` if the statement stands inside a try body. Evaluation order and short-circuiting of E are unchanged."""
    if rw.prefix != 'hid_cl_block':
        return t
    out = list(t)
    k = 0
    i = 0
    while i < len(out):
        x = out[i]
        if x.kind == 'id' and x.text == 'if' and out[i + 1].text == '(':
            rp = match_close(out, i + 1)
            if any(y.kind == 'id' and y.text == 'hs_stoull' for y in out[i + 2:rp]):
                if i > 0 and out[i - 1].text not in (';', '{', '}'):
                    raise ExtractionBreak("hid_cl_block: a may-throw call stands in the header of an `if` that is not a plain statement of a block")
                k += 1
                L = x.line
                name = f"iora_c{k}"
                decl = [Tok('id', '_Bool', L, final=True), Tok('id', name, L, final=True), Tok('op', '=', L)] + out[i + 2:rp] + [Tok('op', ';', L)]
                new = decl + [x, out[i + 1], Tok('id', name, L, final=True), out[rp]]
                out[i:rp + 1] = new
                i += len(decl)
        i += 1
    for j, y in enumerate(out):
        if y.kind == 'id' and y.text in ('while', 'for') and any(z.kind == 'id' and z.text == 'hs_stoull' for z in out[j + 2:match_close(out, j + 1)]):
            raise ExtractionBreak("hid_cl_block: a may-throw call stands in a loop header")
    rw.R.notes.append(f"hid_cl_block: {k} `if` header(s) with a may-throw call split into declaration + test (R8 propagation)")
    return out
