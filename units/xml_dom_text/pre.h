#include "../xml_dom_attrs/pre.h"
typedef struct { NodeType type; iora_ostr value; } iora_domnode;
#define iora_domnode_DEFAULT ((iora_domnode){ NodeType_Element, {0, 0} })
typedef struct { size_t n; iora_domnode last; } iora_domchildren;
static inline void iora_domchildren_push(iora_domchildren *c, iora_domnode n) { c->last = n; IORA_ASSERT(c->n < (size_t)-1, "vector growth"); c->n++; }
