// REPLAY adapter for the C14 units: feeds the verifier's input bytes (IN, optionally IN_N and the limits) to the REAL xml::Parser pull loop
// under ASan/UBSan and evaluates the property clauses natively: every reported slice inside the input, limits, balance, cursor <= size.
#include "iora/parsers/xml.hpp"
#include "replay_io.h"
using namespace iora::parsers::xml;
static std::string g; 
static void inside(std::string_view v, const char *what) {
  if (v.data() == nullptr && v.size() == 0) return;
  if (v.data() < g.data() || v.data() + v.size() > g.data() + g.size()) replay_io::fail(std::string("slice outside the input: ") + what);
}
int main(int argc, char **argv) {
  auto in = replay_io::load(argv[1]);
  std::vector<uint8_t> d = replay_io::bytes(in["IN"]);
  if (in.count("IN_N")) d.resize(std::min<size_t>(d.size(), replay_io::u64(in["IN_N"])));
  g.assign(d.begin(), d.end());
  Options opt;
  if (in.count("maxDepth")) opt.maxDepth = replay_io::u64(in["maxDepth"]);
  if (in.count("maxAttrsPerElement")) opt.maxAttrsPerElement = replay_io::u64(in["maxAttrsPerElement"]);
  if (in.count("maxNameLength")) opt.maxNameLength = replay_io::u64(in["maxNameLength"]);
  if (in.count("maxTextSpan")) opt.maxTextSpan = replay_io::u64(in["maxTextSpan"]);
  if (in.count("maxTotalTokens")) opt.maxTotalTokens = replay_io::u64(in["maxTotalTokens"]);
  Parser p(std::string_view(g.data(), g.size()), opt);
  std::vector<std::string> open; size_t tokens = 0;
  while (p.next()) {
    const Token &t = p.current(); ++tokens;
    inside(t.name, "token.name"); inside(t.text, "token.text");
    for (auto &a : t.attributes) { inside(a.name, "attribute name"); inside(a.value, "attribute value"); if (a.value.size() > opt.maxTextSpan) replay_io::fail("attribute value longer than maxTextSpan"); }
    if (t.name.size() > opt.maxNameLength) replay_io::fail("name longer than maxNameLength");
    if (t.kind == TokenKind::Text && t.text.size() > opt.maxTextSpan) replay_io::fail("text longer than maxTextSpan");
    if (t.attributes.size() > opt.maxAttrsPerElement) replay_io::fail("more attributes than maxAttrsPerElement");
    if (opt.maxTotalTokens && tokens > opt.maxTotalTokens) replay_io::fail("more tokens than maxTotalTokens");
    if (t.kind == TokenKind::StartElement) { open.emplace_back(t.name); if (open.size() > opt.maxDepth) replay_io::fail("depth beyond maxDepth"); if (t.depth != open.size()) replay_io::fail("depth != stack size"); }
    if (t.kind == TokenKind::EndElement) { if (open.empty() || open.back() != t.name) replay_io::fail("EndElement does not match the open element"); open.pop_back(); }
    if (p._cur > g.size()) replay_io::fail("cursor beyond the input");
  }
  if (p._cur > g.size()) replay_io::fail("cursor beyond the input");
  if (!p.error()) { if (p.current().kind != TokenKind::Eof) replay_io::fail("no error but no Eof token"); if (!open.empty()) replay_io::fail("Eof with open elements"); }
  else if (p.error()->offset > g.size()) replay_io::fail("error offset beyond the input");
  replay_io::ok("property clauses hold on this input");
  return 0;
}
