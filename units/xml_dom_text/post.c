/* ---------- decodeEntities: assert / havoc / assume stub from the contract proved in unit xml_decode + ghost call counter + record ---------- */
#undef ENS
#undef RV
#undef OLD
#define ENS(...) IORA_ASSUME((__VA_ARGS__));
#define RV iora_rv
#define OLD(x) ({ const iora_ostr *out = &iora_oldo; (x); })
DEC_SIG(Parser_decodeEntities)
{
  IORA_ASSERT(DEC_MEM, "decodeEntities: precondition (requires of its proved contract) holds at the call");
  iora_ostr iora_oldo = *out;
  G_dec_calls++;
  { size_t h; out->n = h; } { char h; out->gk = h; } { uint64_t h; G_val = h; } if (err != NULL) { Error h; *err = h; }
  bool iora_rv = nondet_bool();
  DEC_POST
  G_rec_seen = 1; G_rec_in = in; G_rec_ok = iora_rv ? 1 : 0; G_rec_out = *out;        /* the (last) call: argument slice, result, output */
  if (!iora_rv && err != NULL) G_last_err = *err;
  return iora_rv;
}

#define CK(c, label) __CPROVER_assert((c), label)
void h_chardata(void)
{
  Token T; iora_domchildren C; Error E; Error *errOut = nondet_bool() ? &E : NULL; int failed = 0;
  IORA_TRUE = 1;
  __CPROVER_assume((G_input.n >> 40) == 0);
  G_input.p = (const char *)malloc(G_input.n);
  __CPROVER_assume(G_input.p != NULL);
  /* what next() guarantees about the token (xml_next N9): its text slice lies inside the input */
  size_t o = nondet_size_t(), l = nondet_size_t();
  __CPROVER_assume(o <= G_input.n && l <= G_input.n - o);
  T.text.p = G_input.p + o; T.text.n = l;
  __CPROVER_assume(C.n < (size_t)-1);
  size_t n0 = C.n; iora_domnode last0 = C.last;
  G_dec_calls = 0; G_rec_seen = 0;
  DomBuilder_chardata(&T, &C, errOut, &failed);
  IORA_CANARY("h_chardata: returns");
  /* DC1 CDATA content is literal */
  CK(T.kind == TokenKind_CData ==> (!failed && G_dec_calls == 0), "DC1 a CData token never goes through decodeEntities and cannot fail");
  CK(T.kind == TokenKind_CData ==> (C.n == n0 + 1 && C.last.type == NodeType_CData), "DC1 a CData token yields exactly one child node of type CData (also when its slice is empty)");
  CK(T.kind == TokenKind_CData ==> (C.last.value.n == T.text.n && (GK < T.text.n ==> C.last.value.gk == T.text.p[GK])), "DC1 the CData node's value is the token's raw slice, byte for byte (length + witness byte GK)");
  /* DT1 Text is decoded */
  CK(T.kind == TokenKind_Text ==> (G_dec_calls == 1 && G_rec_in.p == T.text.p && G_rec_in.n == T.text.n), "DT1 a Text token is decoded exactly once, and exactly its text slice");
  CK(T.kind == TokenKind_Text ==> (failed == (G_rec_ok == 0)), "DT1 decoding failure <=> error");
  CK((T.kind == TokenKind_Text && G_rec_ok == 1 && G_rec_out.n > 0) ==> (C.n == n0 + 1 && C.last.type == NodeType_Text && C.last.value.n == G_rec_out.n && C.last.value.gk == G_rec_out.gk),
     "DT1 decoded non-empty text yields exactly one Text node carrying the DECODED value (length + witness byte GK)");
  CK((T.kind == TokenKind_Text && (G_rec_ok == 0 || G_rec_out.n == 0)) ==> C.n == n0, "DT1 empty decoded text or a decoding failure yields no node");
  CK((T.kind == TokenKind_Text && failed && errOut != NULL) ==> (errOut->offset == G_last_err.offset && errOut->message == G_last_err.message), "DT1 the decoding error is reported as decodeEntities produced it");
  /* other kinds are not handled by this region */
  CK((T.kind != TokenKind_Text && T.kind != TokenKind_CData) ==> (!failed && C.n == n0 && G_dec_calls == 0), "other token kinds: nothing happens in the Text/CData region");
  if (T.kind == TokenKind_CData) { IORA_CANARY("h_chardata: CData"); if (T.text.n == 0) { IORA_CANARY("h_chardata: empty CData"); } }
  if (T.kind == TokenKind_Text) { if (failed) { IORA_CANARY("h_chardata: Text decode failure"); } else if (C.n == n0) { IORA_CANARY("h_chardata: Text decoded to empty"); } else { IORA_CANARY("h_chardata: Text node"); } }
}
