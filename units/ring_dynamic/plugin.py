"""Unit-local extraction plugin for ring_dynamic.

nextPowerOfTwo() is a pure bit-smear over one 64-bit word. If it is written with a loop whose control variable is a compile-time
sequence (e.g. `for (shift = 1; shift < sizeof(v) * 8; shift <<= 1)`), no loop contract is needed: CBMC's symbolic execution
unrolls such a loop completely by constant propagation (the guard is decided concretely in every iteration), so the proof of
the contract NP0-NP5 stays a COMPLETE proof over all 2^64 inputs - not a bounded one (no --unwind is passed; a loop whose bound is
not concrete makes symbolic execution run into the proof's time-out, i.e. exit 2, never a wrong verdict).
So for this one function the loop-contract macro the extractor splices after each loop header is removed again, which keeps the
"loops in source == loop contracts in pre.h" mapping check meaningful for every other function of the unit."""


def hook_end(t, rw):
    if rw.prefix != 'DynamicRingBuffer_nextPowerOfTwo':
        return t
    pre = 'IORA_LOOP_' + rw.prefix + '_'
    out = [x for x in t if not (x.kind == 'id' and x.text.startswith(pre))]
    n = len(t) - len(out)
    if n:
        rw.R.fire('nextPowerOfTwo: loop left to complete unrolling by symbolic execution (no loop contract)', n)
        rw.R.notes.append(f"{rw.prefix}: {n} loop(s) without loop contract; the proof is complete only because CBMC unrolls them by constant propagation")
    return out
