// Native demonstration of finding M1 (property C10, "no data race under the C++ memory model" for SPSC use of the ring buffers).
//
//   g++ -std=c++17 -O1 -g -fsanitize=thread -I/repo/include /verif/units/ring_dynamic/demo_M1.cpp -o /tmp/demo_M1 -lpthread && /tmp/demo_M1
//
// One producer thread, one consumer thread, i.e. exactly the documented usage contract. On the unrepaired header ThreadSanitizer
// reports
//     WARNING: ThreadSanitizer: data race
//       Write of size 8 ... RingBuffer<unsigned long, 2ul>::tryPush(unsigned long const&)  ring_buffer.hpp:60
//       Previous read of size 8 ... RingBuffer<unsigned long, 2ul>::tryPop(unsigned long&)   ring_buffer.hpp:88
//   (and the same for DynamicRingBuffer::tryPushBatch :253 vs tryPopBatch :268):
// tryPush/tryPushBatch load `_tail` with memory_order_relaxed, so the consumer's release store of `_tail` (made AFTER it read the
// slot) does not synchronise with the producer, and the producer's overwrite of the recycled slot is unordered with that read.
// With repair_M1.diff (`_tail.load(std::memory_order_acquire)` at the six producer-side sites) ThreadSanitizer is silent.
// The FIFO check at the end passes in both cases on x86 (strong hardware ordering hides the defect from functional tests).
#include "iora/core/ring_buffer.hpp"
#include <cstdio>
#include <thread>
template <class RB> static bool single(RB &rb, uint64_t N)
{
  std::thread prod([&] { for (uint64_t i = 1; i <= N;) if (rb.tryPush(i)) ++i; });
  uint64_t expect = 1; bool ok = true;
  for (uint64_t got = 0; got < N;) { uint64_t v; if (rb.tryPop(v)) { ok &= (v == expect); ++expect; ++got; } }
  prod.join();
  return ok;
}
template <class RB> static bool batch(RB &rb, uint64_t N)
{
  std::thread prod([&] { uint64_t b[3]; for (uint64_t i = 1; i <= N;) { b[0] = i; b[1] = i + 1; b[2] = i + 2;
                         size_t n = (N - i + 1) < 3 ? (size_t)(N - i + 1) : 3; i += rb.tryPushBatch(b, n); } });
  uint64_t expect = 1; bool ok = true;
  for (uint64_t got = 0; got < N;) { uint64_t v[2]; size_t n = rb.tryPopBatch(v, 2); for (size_t k = 0; k < n; k++) { ok &= (v[k] == expect); ++expect; ++got; } }
  prod.join();
  return ok;
}
int main()
{
  const uint64_t N = 200000;
  iora::core::RingBuffer<uint64_t, 2> a; iora::core::DynamicRingBuffer<uint64_t> b(2);
  iora::core::RingBuffer<uint64_t, 2> c; iora::core::DynamicRingBuffer<uint64_t> d(2);
  bool ok = single(a, N) & single(b, N) & batch(c, N) & batch(d, N);
  printf("FIFO order %s (the data race, if any, is reported by ThreadSanitizer above)\n", ok ? "ok" : "BROKEN");
  return ok ? 0 : 1;
}
