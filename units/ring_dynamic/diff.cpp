// Differential run, C++ side: the REAL iora::core::DynamicRingBuffer<uint64_t>; same op-stream interpreter as diff.c.
#include "iora/core/ring_buffer.hpp"
#include "diff_io.h"
#include <memory>
using namespace iora::core;
static std::unique_ptr<DynamicRingBuffer<uint64_t>> rb;
#define PUSH(v) rb->tryPush((const uint64_t &)(v))
#define PUSHMOVE(v) rb->tryPush(std::move(v))
#define POP(o) rb->tryPop(o)
#define PEEK(o) rb->peek(o)
#define PUSHBATCH(p, n) rb->tryPushBatch((p), (n))
#define POPBATCH(p, n) rb->tryPopBatch((p), (n))
#define SIZE() rb->size()
#define EMPTY() rb->empty()
#define FULL() rb->full()
#define CAPACITY() rb->capacity()
#define CLEAR() rb->clear()
#define RESIZE(n) rb->resize(n)
int main(int argc, char **argv)
{
  FILE *f = fopen(argv[1], "r"); diff_input in;
  while (diff_next(f, &in)) {
    size_t cap = (size_t)diff_param(&in, "cap", 4);
    rb = std::make_unique<DynamicRingBuffer<uint64_t>>(cap);
    printf("ops cap=%zu: ", rb->capacity());
  /* op stream: each op is one byte (low nibble = opcode), some ops take the next byte as an argument. Values pushed are a running
   * counter mixed with the input so that every slot content is distinguishable. */
  size_t i = 0; uint64_t ctr = 1; uint64_t tmp[8];
  while (i < in.n) {
    unsigned op = in.bytes[i++] & 15u; unsigned arg = i < in.n ? in.bytes[i] : 0;
    switch (op) {
    case 0: { uint64_t v = (ctr++ << 8) | arg; printf("P%d ", (int)PUSH(v)); break; }
    case 1: { uint64_t v = (ctr++ << 8) | 0xEE; int r = (int)PUSHMOVE(v); printf("M%d:%llx ", r, (unsigned long long)v); break; }
    case 2: { uint64_t o = 0xDEAD; int r = (int)POP(o); printf("O%d:%llx ", r, (unsigned long long)o); break; }
    case 3: { uint64_t o = 0xBEEF; int r = (int)PEEK(o); printf("K%d:%llx ", r, (unsigned long long)o); break; }
    case 4: { size_t n = arg % 9; i++; for (size_t k = 0; k < 8; k++) tmp[k] = (ctr++ << 8) | k; printf("PB%zu ", (size_t)PUSHBATCH(tmp, n > 8 ? 8 : n)); break; }
    case 5: { size_t n = arg % 9; i++; for (size_t k = 0; k < 8; k++) tmp[k] = 0xAAAA; size_t r = (size_t)POPBATCH(tmp, n > 8 ? 8 : n); printf("OB%zu:", r); for (size_t k = 0; k < 8; k++) printf("%llx,", (unsigned long long)tmp[k]); printf(" "); break; }
    case 6: printf("S%zu/%d/%d/%zu ", (size_t)SIZE(), (int)EMPTY(), (int)FULL(), (size_t)CAPACITY()); break;
    case 7: CLEAR(); printf("C "); break;
#ifdef RESIZE
    case 8: { size_t n = arg % 40; i++; printf("R%zu>%zu ", n, (size_t)RESIZE(n)); break; }
#endif
    default: printf("S%zu ", (size_t)SIZE()); break;
    }
  }
  { uint64_t o; printf("| drain:"); while (POP(o)) printf("%llx,", (unsigned long long)o); printf(" S%zu/%d/%zu", (size_t)SIZE(), (int)EMPTY(), (size_t)CAPACITY()); }

    printf("\n"); fflush(stdout); diff_free(&in);
  }
  return 0;
}
