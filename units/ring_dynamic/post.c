/* Contracts of DynamicRingBuffer<uint64_t>, written from property C10 (FIFO, lossless, capacity-bounded), not from the code.
 *
 * Abstract view of a ring r with WF(r): the sequence of LOGICAL indices [r->_tail, r->_head); the item with logical index i is
 * r->_buffer[i & r->_mask]. Every operation requires and ensures WF and states the exact update of the view:
 *   - which logical indices enter / leave ([tail,head) moves only at its two ends, by the returned amount),
 *   - the value at every index that enters (== the argument) or leaves (== the result),
 *   - the FRAME: for the arbitrary ghost logical index GI, a slot that is live before and after keeps its value.
 * NOWRAP: the producing operations require that _head does not pass SIZE_MAX (fewer than 2^64 items over the object's lifetime);
 * see NOTES.md (tryPop/peek compare `tail >= head`, which is not wrap-tolerant, unlike tryPush/size). */

#define RB_PRE(self) \
  __CPROVER_requires(IORA_TRUE) \
  __CPROVER_requires(__CPROVER_is_fresh(self, sizeof(*self)) && WF(self)) \
  __CPROVER_requires(__CPROVER_is_fresh(self->_buffer, self->_capacity * sizeof(uint64_t)))

#define RB_GHOST G_ld, G_st      /* R10 ghost records of the last load/store order; written by every atomic access */
#define SLOT(r, i) ((r)->_buffer[(i) & (r)->_mask])
#define OLD_LIVE(gi) (__CPROVER_old(self->_tail) <= (gi) && (gi) < __CPROVER_old(self->_head))

/* ---------------- nextPowerOfTwo: loop-free, full domain 2^64 ----------------
 * Proved once against the real body (proof nextPowerOfTwo); ctor and resize then use this contract in place of the call. */
#define NP_TOP ((size_t)1 << 63)
size_t DynamicRingBuffer_nextPowerOfTwo_contract(size_t v)
__CPROVER_requires(IORA_TRUE)
__CPROVER_assigns()
/* NP0 nextPowerOfTwo(0) == 1 */ __CPROVER_ensures(v == 0 ==> __CPROVER_return_value == 1)
/* NP1 v in 1..2^63: the result is a power of two */ __CPROVER_ensures((v >= 1 && v <= NP_TOP) ==> POW2(__CPROVER_return_value))
/* NP2 ... not below v */ __CPROVER_ensures((v >= 1 && v <= NP_TOP) ==> v <= __CPROVER_return_value)
/* NP3 ... and the least such (result < 2v) */ __CPROVER_ensures((v >= 1 && v <= NP_TOP) ==> (__CPROVER_return_value >> 1) < v)
/* NP4 a power of two is a fixed point */ __CPROVER_ensures((v >= 1 && v <= NP_TOP && POW2(v)) ==> __CPROVER_return_value == v)
/* NP5 above 2^63 the result wraps to 0 (excluded by the allocation precondition of ctor/resize) */ __CPROVER_ensures(v > NP_TOP ==> __CPROVER_return_value == 0)
;
void h_nextPowerOfTwo(void)
{
  size_t v;
  size_t r = DynamicRingBuffer_nextPowerOfTwo(v);
  IORA_CANARY("h_nextPowerOfTwo: returns");
  if (r == 0) { IORA_CANARY("h_nextPowerOfTwo: wraps"); }
}

/* ---------------- Lemma: slot injectivity (loop-free, full domain) ---------------- */
void h_lemma_slot_injective(void)
{
  size_t cap = nondet_size_t(), head = nondet_size_t(), tail = nondet_size_t(), i = nondet_size_t(), j = nondet_size_t();
  __CPROVER_assume(POW2(cap) && tail <= head && head - tail <= cap && tail <= i && i < j && j < head);
  size_t mask = cap - 1;
  __CPROVER_assert((i & mask) != (j & mask), "LEM1 distinct live logical indices occupy distinct slots");
  __CPROVER_assert((i & mask) < cap && (j & mask) < cap, "LEM2 slots are inside the buffer");
  /* the slot the producer writes next (logical index head) is not a live slot unless the ring is full */
  __CPROVER_assert(head - tail == cap || (i & mask) != (head & mask), "LEM3 the next write slot is free unless full");
  /* wrap-tolerant form: the same with modular distances (does not need tail <= head) */
  size_t h2 = nondet_size_t(), t2 = nondet_size_t(), a = nondet_size_t(), b = nondet_size_t();
  __CPROVER_assume(POW2(cap) && (size_t)(h2 - t2) <= cap && a < b && b < (size_t)(h2 - t2));
  __CPROVER_assert(((t2 + a) & mask) != ((t2 + b) & mask), "LEM4 injectivity with modular indices");
  IORA_CANARY("h_lemma_slot_injective: reachable");
}

/* ---------------- constructor ---------------- */
#define NEWCAP_OK(c, req) (POW2(c) && (req) <= (c) && (((c) >> 1) < (req) || (req) == 0))
#define CTOR_PRE \
__CPROVER_requires(IORA_TRUE && __CPROVER_is_fresh(self, sizeof(*self))) \
__CPROVER_requires(requestedCapacity <= RB_MAXCAP)      /* allocation succeeds */ \
__CPROVER_assigns(self->_capacity, self->_mask, self->_buffer, self->_head, self->_tail)

/* proof "ctor_safety": built-in obligations, frame, allocation-size precondition of the stub */
void DynamicRingBuffer_ctor_safety(DynamicRingBuffer *self, size_t requestedCapacity)
CTOR_PRE
/* CT0 */ __CPROVER_ensures(self->_head == 0 && self->_tail == 0)
;
/* proof "ctor": functional clauses */
void DynamicRingBuffer_ctor_contract(DynamicRingBuffer *self, size_t requestedCapacity)
CTOR_PRE
/* CT1 the invariant is established, the view is empty */ __CPROVER_ensures(WF(self) && self->_head == self->_tail)
/* CT2 capacity is the least power of two >= request   */ __CPROVER_ensures(NEWCAP_OK(self->_capacity, requestedCapacity))
/* CT3 the buffer has capacity slots                   */ __CPROVER_ensures(__CPROVER_is_fresh(self->_buffer, self->_capacity * sizeof(uint64_t)))
;
void h_ctor(void)
{
  DynamicRingBuffer *s; size_t n;
  DynamicRingBuffer_ctor(s, n);
  IORA_CANARY("h_ctor: returns");
}

/* ---------------- tryPush (copy / move) ---------------- */
bool DynamicRingBuffer_tryPush_contract(DynamicRingBuffer *self, const uint64_t *item)
RB_PRE(self)
__CPROVER_requires(__CPROVER_is_fresh(item, sizeof(*item)))
__CPROVER_requires(self->_head < SIZE_MAX) /* NOWRAP */
__CPROVER_assigns(RB_GHOST, self->_head, self->_buffer[self->_head & self->_mask])   /* exactly one slot: the one of logical index head */
/* PU1 */ __CPROVER_ensures(WF(self))
/* PU2 accepted iff not full */ __CPROVER_ensures(__CPROVER_return_value == (__CPROVER_old(self->_head) - __CPROVER_old(self->_tail) < self->_capacity))
/* PU3 accepted: the view grows by one at the back */ __CPROVER_ensures(__CPROVER_return_value ==> self->_head == __CPROVER_old(self->_head) + 1)
/* PU4 ... and the new last item is the argument */ __CPROVER_ensures(__CPROVER_return_value ==> SLOT(self, __CPROVER_old(self->_head)) == *item)
/* PU5 refused: the view is unchanged */ __CPROVER_ensures(!__CPROVER_return_value ==> self->_head == __CPROVER_old(self->_head))
/* PU6 frame: every live item keeps its value */ __CPROVER_ensures(OLD_LIVE(GI) ==> SLOT(self, GI) == __CPROVER_old(self->_buffer[GI & self->_mask]))
/* PU7 capacity bound */ __CPROVER_ensures(COUNT(self) <= self->_capacity)
;
bool DynamicRingBuffer_tryPushMove_contract(DynamicRingBuffer *self, uint64_t *item)
RB_PRE(self)
__CPROVER_requires(__CPROVER_is_fresh(item, sizeof(*item)))
__CPROVER_requires(self->_head < SIZE_MAX) /* NOWRAP */
__CPROVER_assigns(RB_GHOST, self->_head, self->_buffer[self->_head & self->_mask])   /* exactly one slot: the one of logical index head */
/* PU1 */ __CPROVER_ensures(WF(self))
/* PU2 accepted iff not full */ __CPROVER_ensures(__CPROVER_return_value == (__CPROVER_old(self->_head) - __CPROVER_old(self->_tail) < self->_capacity))
/* PU3 accepted: the view grows by one at the back */ __CPROVER_ensures(__CPROVER_return_value ==> self->_head == __CPROVER_old(self->_head) + 1)
/* PU4 ... and the new last item is the argument */ __CPROVER_ensures(__CPROVER_return_value ==> SLOT(self, __CPROVER_old(self->_head)) == *item)
/* PU5 refused: the view is unchanged */ __CPROVER_ensures(!__CPROVER_return_value ==> self->_head == __CPROVER_old(self->_head))
/* PU6 frame: every live item keeps its value */ __CPROVER_ensures(OLD_LIVE(GI) ==> SLOT(self, GI) == __CPROVER_old(self->_buffer[GI & self->_mask]))
/* PU7 capacity bound */ __CPROVER_ensures(COUNT(self) <= self->_capacity)
;

void h_tryPush(void)
{
  DynamicRingBuffer *s; const uint64_t *it;
  bool r = DynamicRingBuffer_tryPush(s, it);
  IORA_CANARY("h_tryPush: returns");
  if (r) { IORA_CANARY("h_tryPush: pushed"); } else { IORA_CANARY("h_tryPush: full"); }
}
void h_tryPushMove(void)
{
  DynamicRingBuffer *s; uint64_t *it;
  bool r = DynamicRingBuffer_tryPushMove(s, it);
  IORA_CANARY("h_tryPushMove: returns");
  if (r) { IORA_CANARY("h_tryPushMove: pushed"); } else { IORA_CANARY("h_tryPushMove: full"); }
}

/* ---------------- tryPop / peek ---------------- */
bool DynamicRingBuffer_tryPop_contract(DynamicRingBuffer *self, uint64_t *out)
RB_PRE(self)
__CPROVER_requires(__CPROVER_is_fresh(out, sizeof(*out)))
__CPROVER_assigns(RB_GHOST, self->_tail, *out)          /* the ring's slots, _head, _capacity, _mask are not assignable at all */
/* PO1 */ __CPROVER_ensures(WF(self))
/* PO2 */ __CPROVER_ensures(__CPROVER_return_value == (__CPROVER_old(self->_head) != __CPROVER_old(self->_tail)))
/* PO3 */ __CPROVER_ensures(__CPROVER_return_value ==> self->_tail == __CPROVER_old(self->_tail) + 1)
/* PO4 */ __CPROVER_ensures(__CPROVER_return_value ==> *out == SLOT(self, __CPROVER_old(self->_tail)))
/* PO5 */ __CPROVER_ensures(!__CPROVER_return_value ==> (self->_tail == __CPROVER_old(self->_tail) && *out == __CPROVER_old(*out)))
;
void h_tryPop(void)
{
  DynamicRingBuffer *s; uint64_t *o;
  bool r = DynamicRingBuffer_tryPop(s, o);
  IORA_CANARY("h_tryPop: returns");
  if (r) { IORA_CANARY("h_tryPop: popped"); } else { IORA_CANARY("h_tryPop: empty"); }
}

bool DynamicRingBuffer_peek_contract(const DynamicRingBuffer *self, uint64_t *out)
RB_PRE(self)
__CPROVER_requires(__CPROVER_is_fresh(out, sizeof(*out)))
__CPROVER_assigns(RB_GHOST, *out)
/* PK1 */ __CPROVER_ensures(__CPROVER_return_value == (self->_head != self->_tail))
/* PK2 */ __CPROVER_ensures(__CPROVER_return_value ==> *out == SLOT(self, self->_tail))
/* PK3 */ __CPROVER_ensures(!__CPROVER_return_value ==> *out == __CPROVER_old(*out))
;
void h_peek(void)
{
  DynamicRingBuffer *s; uint64_t *o;
  bool r = DynamicRingBuffer_peek(s, o);
  IORA_CANARY("h_peek: returns");
  if (r) { IORA_CANARY("h_peek: item"); } else { IORA_CANARY("h_peek: empty"); }
}

/* ---------------- size / empty / full / capacity: pure observers of the view ---------------- */
void h_observers_contract(DynamicRingBuffer *self)
RB_PRE(self)
__CPROVER_assigns(RB_GHOST)
;
void h_observers_body(DynamicRingBuffer *self)
{
  size_t n = DynamicRingBuffer_size(self);
  bool e = DynamicRingBuffer_empty(self);
  bool f = DynamicRingBuffer_full(self);
  size_t c = DynamicRingBuffer_capacity(self);
  __CPROVER_assert(n == self->_head - self->_tail, "OB1 size() is the length of the view");
  __CPROVER_assert(n <= c, "OB2 size() <= capacity()");
  __CPROVER_assert(e == (self->_head == self->_tail), "OB3 empty() iff the view is empty");
  __CPROVER_assert(f == (n == c), "OB4 full() iff size() == capacity()");
  __CPROVER_assert(c == self->_capacity, "OB5 capacity()");
  if (e) { IORA_CANARY("h_observers: empty"); }
  if (f) { IORA_CANARY("h_observers: full"); }
}
void h_observers(void)
{
  DynamicRingBuffer *s;
  h_observers_body(s);
  IORA_CANARY("h_observers: returns");
}

/* ---------------- clear ---------------- */
void DynamicRingBuffer_clear_contract(DynamicRingBuffer *self)
RB_PRE(self)
__CPROVER_assigns(RB_GHOST, self->_head, self->_tail)
/* CL1 */ __CPROVER_ensures(WF(self) && self->_head == self->_tail)
;
void h_clear(void)
{
  DynamicRingBuffer *s;
  DynamicRingBuffer_clear(s);
  IORA_CANARY("h_clear: returns");
}

/* ---------------- tryPushBatch ---------------- */
size_t DynamicRingBuffer_tryPushBatch_contract(DynamicRingBuffer *self, const uint64_t *items, size_t count)
RB_PRE(self)
__CPROVER_requires(count <= RB_MAXCAP && __CPROVER_is_fresh(items, count * sizeof(uint64_t)))
__CPROVER_requires(self->_head <= SIZE_MAX - self->_capacity) /* NOWRAP */
__CPROVER_assigns(RB_GHOST, self->_head, __CPROVER_object_whole(self->_buffer))
/* PB1 */ __CPROVER_ensures(WF(self))
/* PB2 */ __CPROVER_ensures(__CPROVER_return_value == RB_MIN(count, self->_capacity - (__CPROVER_old(self->_head) - __CPROVER_old(self->_tail))))
/* PB3 */ __CPROVER_ensures(self->_head == __CPROVER_old(self->_head) + __CPROVER_return_value)
/* PB4 */ __CPROVER_ensures(GJ < __CPROVER_return_value ==> SLOT(self, __CPROVER_old(self->_head) + GJ) == items[GJ])
/* PB5 */ __CPROVER_ensures(OLD_LIVE(GI) ==> SLOT(self, GI) == __CPROVER_old(self->_buffer[GI & self->_mask]))
;
void h_tryPushBatch(void)
{
  DynamicRingBuffer *s; const uint64_t *it; size_t n;
  size_t r = DynamicRingBuffer_tryPushBatch(s, it, n);
  IORA_CANARY("h_tryPushBatch: returns");
  if (r < n) { IORA_CANARY("h_tryPushBatch: partial"); }
  if (r > 1) { IORA_CANARY("h_tryPushBatch: several"); }
}

/* ---------------- tryPopBatch ---------------- */
size_t DynamicRingBuffer_tryPopBatch_contract(DynamicRingBuffer *self, uint64_t *out, size_t maxCount)
RB_PRE(self)
__CPROVER_requires(maxCount <= RB_MAXCAP && __CPROVER_is_fresh(out, maxCount * sizeof(uint64_t)))
__CPROVER_assigns(RB_GHOST, self->_tail, __CPROVER_object_whole(out))
/* QB1 */ __CPROVER_ensures(WF(self))
/* QB2 */ __CPROVER_ensures(__CPROVER_return_value == RB_MIN(maxCount, __CPROVER_old(self->_head) - __CPROVER_old(self->_tail)))
/* QB3 */ __CPROVER_ensures(self->_tail == __CPROVER_old(self->_tail) + __CPROVER_return_value)
/* QB4 */ __CPROVER_ensures(GJ < __CPROVER_return_value ==> out[GJ] == SLOT(self, __CPROVER_old(self->_tail) + GJ))
;
void h_tryPopBatch(void)
{
  DynamicRingBuffer *s; uint64_t *o; size_t n;
  size_t r = DynamicRingBuffer_tryPopBatch(s, o, n);
  IORA_CANARY("h_tryPopBatch: returns");
  if (r < n) { IORA_CANARY("h_tryPopBatch: partial"); }
  if (r > 1) { IORA_CANARY("h_tryPopBatch: several"); }
}

/* ---------------- resize ---------------- */
#define KEPT RB_MIN(__CPROVER_old(self->_head) - __CPROVER_old(self->_tail), self->_capacity)
#define RESIZE_PRE \
RB_PRE(self) \
__CPROVER_requires(newRequestedCapacity <= RB_MAXCAP)      /* allocation succeeds (else std::bad_alloc before any state change) */ \
__CPROVER_assigns(RB_GHOST, self->_head, self->_tail, self->_capacity, self->_mask, self->_buffer, __CPROVER_object_whole(self->_buffer)) \
__CPROVER_frees(self->_buffer)

/* proof "resize_safety": every built-in obligation (bounds, pointers incl. use of the released array, overflow), frame, loop
 * invariant/variant, and the representation invariant */
size_t DynamicRingBuffer_resize_safety(DynamicRingBuffer *self, size_t newRequestedCapacity)
RESIZE_PRE
/* RS0 */ __CPROVER_ensures(WF(self))
;
/* proof "resize": the functional clauses (built-in checks are in resize_safety) */
size_t DynamicRingBuffer_resize_contract(DynamicRingBuffer *self, size_t newRequestedCapacity)
RESIZE_PRE
/* RS1 */ __CPROVER_ensures(WF(self) && NEWCAP_OK(self->_capacity, newRequestedCapacity))
/* RS2 */ __CPROVER_ensures(self->_tail == 0 && self->_head == KEPT)
/* RS3 */ __CPROVER_ensures(__CPROVER_return_value == (__CPROVER_old(self->_head) - __CPROVER_old(self->_tail)) - KEPT)
/* RS4: the kept items are the NEWEST ones, in order. GO is an arbitrary OLD logical index: if it was live and is among the newest
 *      head' items, it is now at new logical index GO - (old_head - head'), with its old value. (Bijection between the old indices
 *      [old_head - head', old_head) and the new indices [0, head'), so order and multiplicity are preserved.) */
__CPROVER_ensures((OLD_LIVE(GO) && GO >= __CPROVER_old(self->_head) - self->_head) ==>
    SLOT(self, GO - (__CPROVER_old(self->_head) - self->_head)) == __CPROVER_old(self->_buffer[GO & self->_mask]))
/* RS5: nothing but the oldest items is dropped: the dropped ones are exactly the old indices below old_head - head' */
__CPROVER_ensures(__CPROVER_return_value + self->_head == __CPROVER_old(self->_head) - __CPROVER_old(self->_tail))
;
void h_resize(void)
{
  DynamicRingBuffer *s; size_t n;
  size_t d = DynamicRingBuffer_resize(s, n);
  IORA_CANARY("h_resize: returns");
  if (d > 0) { IORA_CANARY("h_resize: dropped"); } else { IORA_CANARY("h_resize: all kept"); }
}

/* ---------------- ordering discipline (proofs mo_discipline_*, built with -DIORA_MO_DISCIPLINE) ----------------
 * The real operations run with the MO1/MO2 hooks of pre.h active; MO3/MO4 are asserted after each call.
 * This decides the DISCIPLINE (sufficient, syntactic), not data-race freedom under the C++ memory model. */
#define MO_RESET() do { G_ld._head = G_ld._tail = G_st._head = G_st._tail = IORA_MO_NONE; } while (0)
void h_mo_producer_contract(DynamicRingBuffer *self, const uint64_t *item, uint64_t *item2, const uint64_t *items, size_t count)
RB_PRE(self)
__CPROVER_requires(__CPROVER_is_fresh(item, sizeof(*item)) && __CPROVER_is_fresh(item2, sizeof(*item2)))
__CPROVER_requires(count <= RB_MAXCAP && __CPROVER_is_fresh(items, count * sizeof(uint64_t)))
__CPROVER_requires(self->_head <= SIZE_MAX - self->_capacity - 2) /* NOWRAP */
__CPROVER_assigns(RB_GHOST, self->_head, __CPROVER_object_whole(self->_buffer))
;
void h_mo_producer_body(DynamicRingBuffer *self, const uint64_t *item, uint64_t *item2, const uint64_t *items, size_t count)
{
  MO_RESET();
  bool r1 = DynamicRingBuffer_tryPush(self, item);
  __CPROVER_assert(!r1 || IORA_MO_IS_RELEASE(G_st._head), "MO3 tryPush publishes the item with a release store of _head");
  __CPROVER_assert(G_st._tail == IORA_MO_NONE, "MO4 a producer operation never stores _tail");
  if (r1) { IORA_CANARY("h_mo_producer: tryPush pushed"); }
  MO_RESET();
  bool r2 = DynamicRingBuffer_tryPushMove(self, item2);
  __CPROVER_assert(!r2 || IORA_MO_IS_RELEASE(G_st._head), "MO3 tryPush(T&&) publishes the item with a release store of _head");
  __CPROVER_assert(G_st._tail == IORA_MO_NONE, "MO4 a producer operation never stores _tail");
  if (r2) { IORA_CANARY("h_mo_producer: tryPushMove pushed"); }
  MO_RESET();
  size_t r3 = DynamicRingBuffer_tryPushBatch(self, items, count);
  __CPROVER_assert(r3 == 0 || IORA_MO_IS_RELEASE(G_st._head), "MO3 tryPushBatch publishes the items with a release store of _head");
  __CPROVER_assert(G_st._tail == IORA_MO_NONE, "MO4 a producer operation never stores _tail");
  if (r3 > 0) { IORA_CANARY("h_mo_producer: tryPushBatch pushed"); }
}
void h_mo_producer(void)
{
  DynamicRingBuffer *s; const uint64_t *it; uint64_t *it2; const uint64_t *its; size_t n;
  h_mo_producer_body(s, it, it2, its, n);
  IORA_CANARY("h_mo_producer: returns");
}
void h_mo_consumer_contract(DynamicRingBuffer *self, uint64_t *out, uint64_t *outs, size_t maxCount)
RB_PRE(self)
__CPROVER_requires(__CPROVER_is_fresh(out, sizeof(*out)))
__CPROVER_requires(maxCount <= RB_MAXCAP && __CPROVER_is_fresh(outs, maxCount * sizeof(uint64_t)))
__CPROVER_assigns(RB_GHOST, self->_tail, *out, __CPROVER_object_whole(outs))
;
void h_mo_consumer_body(DynamicRingBuffer *self, uint64_t *out, uint64_t *outs, size_t maxCount)
{
  MO_RESET();
  bool r0 = DynamicRingBuffer_peek(self, out);
  __CPROVER_assert(G_st._tail == IORA_MO_NONE && G_st._head == IORA_MO_NONE, "MO4 peek stores no index");
  MO_RESET();
  bool r1 = DynamicRingBuffer_tryPop(self, out);
  __CPROVER_assert(!r1 || IORA_MO_IS_RELEASE(G_st._tail), "MO3 tryPop frees the slot with a release store of _tail");
  __CPROVER_assert(G_st._head == IORA_MO_NONE, "MO4 a consumer operation never stores _head");
  if (r1) { IORA_CANARY("h_mo_consumer: tryPop popped"); }
  MO_RESET();
  size_t r2 = DynamicRingBuffer_tryPopBatch(self, outs, maxCount);
  __CPROVER_assert(r2 == 0 || IORA_MO_IS_RELEASE(G_st._tail), "MO3 tryPopBatch frees the slots with a release store of _tail");
  __CPROVER_assert(G_st._head == IORA_MO_NONE, "MO4 a consumer operation never stores _head");
  if (r2 > 0) { IORA_CANARY("h_mo_consumer: tryPopBatch popped"); }
}
void h_mo_consumer(void)
{
  DynamicRingBuffer *s; uint64_t *o; uint64_t *os; size_t n;
  h_mo_consumer_body(s, o, os, n);
  IORA_CANARY("h_mo_consumer: returns");
}
