/* type environment + ghost state + spec macros + loop contracts for unit ring_dynamic (DynamicRingBuffer<T>, T = uint64_t)
 *
 * C struct = the data members of DynamicRingBuffer<uint64_t> in declaration order. std::unique_ptr<T[]> is a raw pointer to real
 * memory (made symbolic with __CPROVER_is_fresh, so every slot access of the extracted code is bounds-checked);
 * std::atomic<size_t> members are plain size_t (R10, shims/iora_atomic.h: sequential semantics only). */
typedef struct { size_t _capacity; size_t _mask; uint64_t *_buffer; size_t _head; size_t _tail; } DynamicRingBuffer;

/* R10 ghost: memory order of the last load (G_ld) / store (G_st) of each atomic member in the current operation (shims/iora_atomic.h) */
struct { int _head, _tail; } G_ld, G_st;
/* Ordering DISCIPLINE hooks (checked only in the mo_discipline proofs, which define IORA_MO_DISCIPLINE):
 *   MO1 a producer operation writes a slot only after loading _tail with acquire (or stronger) in the same operation
 *   MO2 a consumer operation reads a slot only after loading _head with acquire (or stronger) in the same operation
 * These are SUFFICIENT SYNTACTIC conditions for a happens-before edge between the two sides' accesses to one slot under the SPSC
 * usage contract; they do not decide data-race freedom under the C++ memory model (see NOTES.md, finding M1). */
#ifdef IORA_MO_DISCIPLINE
#define IORA_SLOT_WRITE(i) (__CPROVER_assert(IORA_MO_IS_ACQUIRE(G_ld._tail), "MO1 a slot is written only after an acquire load of _tail in the same operation (else the overwrite races with the consumer's read of that slot)"), (i))
#define IORA_SLOT_READ(i) (__CPROVER_assert(IORA_MO_IS_ACQUIRE(G_ld._head), "MO2 a slot is read only after an acquire load of _head in the same operation"), (i))
#else
#define IORA_SLOT_WRITE(i) (i)
#define IORA_SLOT_READ(i) (i)
#endif

/* ghost witness indices (unconstrained globals: a clause proved for arbitrary GI/GJ holds for every index) */
size_t GI;   /* a LOGICAL index: the i-th item ever pushed lives at _buffer[i & _mask] while _tail <= i < _head */
size_t GJ;   /* an offset into a batch array / into the resized buffer */
size_t GO;   /* an OLD logical index (resize: relates the old view to the new one) */

/* size bound of the proof: capacities up to 2^40 elements (8 TiB of uint64_t); needed so that the buffer is one CBMC object */
#define RB_MAXCAP ((size_t)1 << 40)
#define POW2(c) ((c) >= 1 && (((c) & ((c) - 1)) == 0))
/* representation invariant */
#define WF(r) (POW2((r)->_capacity) && (r)->_capacity <= RB_MAXCAP && (r)->_mask == (r)->_capacity - 1 \
            && (r)->_tail <= (r)->_head && (r)->_head - (r)->_tail <= (r)->_capacity)
#define COUNT(r) ((r)->_head - (r)->_tail)
#define RB_MIN(a, b) ((a) < (b) ? (a) : (b))

/* unique_ptr<T[]> move-assignment: the old array is released, then the pointer is taken over */
#define IORA_UPTR_MOVE_ASSIGN(dst, src) do { free(dst); (dst) = (src); } while (0)

/* std::make_unique<T[]>(n): allocation of symbolic size (contract-replaced environment stub).
 * requires = "the allocation succeeds" is only granted for 1..RB_MAXCAP elements, so the caller must show n is in that range. */
uint64_t *iora_make_array_u64(size_t n)
  __CPROVER_requires(n >= 1 && n <= RB_MAXCAP)
  __CPROVER_assigns()
  __CPROVER_ensures(__CPROVER_is_fresh(__CPROVER_return_value, n * sizeof(uint64_t)));

/* ---- loop contracts ---- */
/* tryPushBatch loop 1: items[0..i) are at logical indices head..head+i; every live slot [tail, head) keeps its entry value */
#define IORA_LOOP_DynamicRingBuffer_tryPushBatch_1 IORA_LC( \
  __CPROVER_assigns(i, __CPROVER_object_whole(self->_buffer)) \
  __CPROVER_loop_invariant(i <= toPush) \
  __CPROVER_loop_invariant(GJ < i ==> self->_buffer[(head + GJ) & self->_mask] == items[GJ]) \
  __CPROVER_loop_invariant((tail <= GI && GI < head) ==> self->_buffer[GI & self->_mask] == __CPROVER_loop_entry(self->_buffer[GI & self->_mask])) \
  __CPROVER_decreases(toPush - i))

/* tryPopBatch loop 1: out[0..i) are the items at logical indices tail..tail+i (the ring itself is not written) */
#define IORA_LOOP_DynamicRingBuffer_tryPopBatch_1 IORA_LC( \
  __CPROVER_assigns(i, __CPROVER_object_whole(out)) \
  __CPROVER_loop_invariant(i <= toPop) \
  __CPROVER_loop_invariant(GJ < i ==> out[GJ] == self->_buffer[(tail + GJ) & self->_mask]) \
  __CPROVER_decreases(toPop - i))

/* resize loop 1: for the arbitrary OLD logical index GO: once copied (GO - startTail < i) it sits at newBuffer[GO - startTail] */
#define IORA_LOOP_DynamicRingBuffer_resize_1 IORA_LC( \
  __CPROVER_assigns(i, __CPROVER_object_whole(newBuffer)) \
  __CPROVER_loop_invariant(i <= toCopy) \
  __CPROVER_loop_invariant((GO >= startTail && GO - startTail < i) ==> newBuffer[GO - startTail] == self->_buffer[GO & self->_mask]) \
  __CPROVER_decreases(toCopy - i))
