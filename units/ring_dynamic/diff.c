/* Differential run, C side: the EXTRACTED DynamicRingBuffer<uint64_t> (constructor, tryPush x2, tryPop, peek, tryPushBatch, tryPopBatch,
 * size/empty/full/capacity, clear, resize, nextPowerOfTwo), compiled natively. std::make_unique<T[]>(n) (a contract-only allocation stub
 * in pre.h) is calloc here (value-initialised array). The input bytes are an op stream run against ONE buffer created with capacity cap;
 * compared: the result of every operation, every value popped/peeked, and the drained contents at the end. */
#include "unit_native.c"
#include "diff_io.h"
uint64_t *iora_make_array_u64(size_t n) { return (uint64_t *)calloc(n ? n : 1, sizeof(uint64_t)); }
static DynamicRingBuffer rb;
#define PUSH(v) DynamicRingBuffer_tryPush(&rb, &(v))
#define PUSHMOVE(v) DynamicRingBuffer_tryPushMove(&rb, &(v))
#define POP(o) DynamicRingBuffer_tryPop(&rb, &(o))
#define PEEK(o) DynamicRingBuffer_peek(&rb, &(o))
#define PUSHBATCH(p, n) DynamicRingBuffer_tryPushBatch(&rb, (p), (n))
#define POPBATCH(p, n) DynamicRingBuffer_tryPopBatch(&rb, (p), (n))
#define SIZE() DynamicRingBuffer_size(&rb)
#define EMPTY() DynamicRingBuffer_empty(&rb)
#define FULL() DynamicRingBuffer_full(&rb)
#define CAPACITY() DynamicRingBuffer_capacity(&rb)
#define CLEAR() DynamicRingBuffer_clear(&rb)
#define RESIZE(n) DynamicRingBuffer_resize(&rb, (n))
int main(int argc, char **argv)
{
  FILE *f = fopen(argv[1], "r"); diff_input in;
  IORA_TRUE = 1;
  while (diff_next(f, &in)) {
    size_t cap = (size_t)diff_param(&in, "cap", 4);
    DynamicRingBuffer_ctor(&rb, cap);
    printf("ops cap=%zu: ", DynamicRingBuffer_capacity(&rb));
  /* op stream: each op is one byte (low nibble = opcode), some ops take the next byte as an argument. Values pushed are a running
   * counter mixed with the input so that every slot content is distinguishable. */
  size_t i = 0; uint64_t ctr = 1; uint64_t tmp[8];
  while (i < in.n) {
    unsigned op = in.bytes[i++] & 15u; unsigned arg = i < in.n ? in.bytes[i] : 0;
    switch (op) {
    case 0: { uint64_t v = (ctr++ << 8) | arg; printf("P%d ", (int)PUSH(v)); break; }
    case 1: { uint64_t v = (ctr++ << 8) | 0xEE; int r = (int)PUSHMOVE(v); printf("M%d:%llx ", r, (unsigned long long)v); break; }
    case 2: { uint64_t o = 0xDEAD; int r = (int)POP(o); printf("O%d:%llx ", r, (unsigned long long)o); break; }
    case 3: { uint64_t o = 0xBEEF; int r = (int)PEEK(o); printf("K%d:%llx ", r, (unsigned long long)o); break; }
    case 4: { size_t n = arg % 9; i++; for (size_t k = 0; k < 8; k++) tmp[k] = (ctr++ << 8) | k; printf("PB%zu ", (size_t)PUSHBATCH(tmp, n > 8 ? 8 : n)); break; }
    case 5: { size_t n = arg % 9; i++; for (size_t k = 0; k < 8; k++) tmp[k] = 0xAAAA; size_t r = (size_t)POPBATCH(tmp, n > 8 ? 8 : n); printf("OB%zu:", r); for (size_t k = 0; k < 8; k++) printf("%llx,", (unsigned long long)tmp[k]); printf(" "); break; }
    case 6: printf("S%zu/%d/%d/%zu ", (size_t)SIZE(), (int)EMPTY(), (int)FULL(), (size_t)CAPACITY()); break;
    case 7: CLEAR(); printf("C "); break;
#ifdef RESIZE
    case 8: { size_t n = arg % 40; i++; printf("R%zu>%zu ", n, (size_t)RESIZE(n)); break; }
#endif
    default: printf("S%zu ", (size_t)SIZE()); break;
    }
  }
  { uint64_t o; printf("| drain:"); while (POP(o)) printf("%llx,", (unsigned long long)o); printf(" S%zu/%d/%zu", (size_t)SIZE(), (int)EMPTY(), (size_t)CAPACITY()); }

    printf("\n"); fflush(stdout); free(rb._buffer); diff_free(&in);
  }
  return 0;
}
