// Differential run, C++ side: the REAL KVStore::crc32 / writeLogEntry (private) on a store in a temp directory; the bytes the call
// appended to the log file are read back from the file.
#include "iora/storage/kvstore.hpp"
#include "diff_io.h"
#include <filesystem>
#include <unistd.h>
using namespace iora::storage;
namespace fs = std::filesystem;
static const char OPS[4] = { 'S', 'D', 'E', 'X' };
int main(int argc, char **argv)
{
  FILE *f = fopen(argv[1], "r"); diff_input in;
  fs::path dir = fs::temp_directory_path() / ("iora_diff_kv_codec_" + std::to_string(getpid()));
  fs::remove_all(dir); fs::create_directories(dir);
  {
    KVStoreConfig cfg; cfg.enableBackgroundCompaction = false;
    std::string path = (dir / "a.bin").string(); KVStore s(path, cfg);
    while (diff_next(f, &in)) {
      size_t klen = (size_t)diff_param(&in, "klen", 1); if (klen > in.n) klen = in.n;
      char op = OPS[diff_param(&in, "op", 0) % 4];
      int64_t exp = (int64_t)diff_param(&in, "exp", 0); if (diff_param(&in, "expneg", 0)) exp = -exp;
      std::string key((const char *)in.bytes, klen); std::vector<uint8_t> val(in.bytes + klen, in.bytes + in.n);
      printf("crc=%lu", (unsigned long)s.crc32(val));
      std::error_code ec; size_t before = fs::exists(path + ".log", ec) ? (size_t)fs::file_size(path + ".log", ec) : 0;
      bool threw = false; try { s.writeLogEntry(op, key, val, exp); } catch (const std::exception &) { threw = true; }
      if (threw) { printf(" threw=1\n"); fflush(stdout); diff_free(&in); continue; }
      std::ifstream lf(path + ".log", std::ios::binary); lf.seekg((std::streamoff)before);
      std::vector<uint8_t> got((std::istreambuf_iterator<char>(lf)), std::istreambuf_iterator<char>());
      printf(" threw=0 good=%d flushed=%zu log=", (int)s._logStream.good(), got.size()); diff_hex(got.data(), got.size()); printf("\n"); fflush(stdout);
      diff_free(&in);
    }
  }
  fs::remove_all(dir);
  return 0;
}
