/* Differential run, C side: the EXTRACTED KVStore::crc32 and KVStore::writeLogEntry (+ appendRaw), compiled natively.
 * Input: the first klen bytes are the key, the rest the value; op=0..3 selects S/D/E/X; exp (expneg=1: negated) is expiryMs.
 * The log stream is the ghost byte sink of shims/iora_fstream.h (natively: every write and flush succeeds) with ONE witness byte at GW,
 * the record payload is a witness accumulator (byte at GK) and its checksum comes from the ghost G_crc_ret (pre.h). So the record is
 * reassembled in passes: (1) total length; (2) payload byte j with GK = j, GW = 4 + j; (3) crc = the extracted crc32 over those bytes
 * -> G_crc_ret; (4) the four length bytes and the four checksum bytes with GW on them. EVERY byte of the record is compared with what
 * the real store appends to its log file, plus crc32(value). */
#include "unit_native.c"
#include "diff_io.h"
static const char OPS[4] = { 'S', 'D', 'E', 'X' };
static iora_ofs run(char op, iora_sv key, iora_bv val, int64_t exp, size_t gk, size_t gw, uint32_t crc)
{
  KVStore s; memset(&s, 0, sizeof s); s._logStream.open = true;
  GK = gk; GW = gw; G_crc_ret = crc; G_crc_calls = 0; iora_exc = 0;
  KVStore_writeLogEntry(&s, op, key, val, exp);
  return s._logStream;
}
int main(int argc, char **argv)
{
  FILE *f = fopen(argv[1], "r"); diff_input in;
  IORA_TRUE = 1;
  while (diff_next(f, &in)) {
    size_t klen = (size_t)diff_param(&in, "klen", 1); if (klen > in.n) klen = in.n;
    char op = OPS[diff_param(&in, "op", 0) % 4];
    int64_t exp = (int64_t)diff_param(&in, "exp", 0); if (diff_param(&in, "expneg", 0)) exp = -exp;
    iora_sv key = { (const char *)in.bytes, klen }; iora_bv val = { in.bytes + klen, in.n - klen };
    printf("crc=%lu", (unsigned long)KVStore_crc32(val));
    iora_ofs s0 = run(op, key, val, exp, (size_t)-1, (size_t)-1, 0);
    if (iora_exc) { printf(" threw=1\n"); fflush(stdout); diff_free(&in); continue; }
    size_t total = s0.n, plen = total - 8; unsigned char *rec = (unsigned char *)malloc(total);
    for (size_t j = 0; j < plen; j++) rec[4 + j] = run(op, key, val, exp, j, 4 + j, 0).gw;
    iora_bv pay = { rec + 4, plen }; uint32_t crc = KVStore_crc32(pay);
    for (size_t w = 0; w < 4; w++) rec[w] = run(op, key, val, exp, (size_t)-1, w, crc).gw;
    for (size_t w = total - 4; w < total; w++) rec[w] = run(op, key, val, exp, (size_t)-1, w, crc).gw;
    printf(" threw=0 good=%d flushed=%zu log=", !s0.failed, s0.flushed); diff_hex(rec, total); printf("\n"); fflush(stdout);
    free(rec); diff_free(&in);
  }
  return 0;
}
