/* type environment + ghost state + spec macros + loop contracts for unit kv_codec
 * (KVStore::crc32, KVStore::appendRaw, KVStore::writeLogEntry) */
typedef struct { iora_ofs _logStream; } KVStore;     /* the only member writeLogEntry touches */
#define EXC_KVStoreException 1
uint32_t nondet_u32(void);

/* ---- crc32 stub used INSIDE writeLogEntry (the real crc32 is proved separately in this unit: it is a pure function of
 * the bytes, assigns nothing).  The stub returns one arbitrary 32-bit value and records what it was asked about, so the
 * contract can say "the trailer is crc32 of exactly the payload": called once, on a vector whose length and witness byte
 * (arbitrary GK) are the payload's. */
uint32_t G_crc_ret; unsigned G_crc_calls; size_t G_crc_arg_n; uint8_t G_crc_arg_gk;
static inline uint32_t KVStore_crc32_acc(const iora_ovec *v)
{ IORA_ASSERT(G_crc_calls < 1000, "ghost counter"); G_crc_calls++; G_crc_arg_n = v->n; G_crc_arg_gk = v->gk; return G_crc_ret; }

/* ---- CRC-32 specification (reflected polynomial 0xEDB88320), written from the definition, not from the code:
 * one bit step S1, its k-fold iterate, the 256-entry table T[i] = S1^8(i) and the table-driven byte step
 *     step(c, b) = T[(c ^ b) & 0xFF] ^ (c >> 8)      crc32(d[0..n)) = ~ fold(step, 0xFFFFFFFF, d)  */
#define CRC_POLY 0xEDB88320u
#define CRC_S1(x) ((uint32_t)((((uint32_t)(x)) >> 1) ^ ((((uint32_t)(x)) & 1u) ? CRC_POLY : 0u)))
#define CRC_S2(x) CRC_S1(CRC_S1(x))
#define CRC_S3(x) CRC_S1(CRC_S2(x))
#define CRC_S4(x) CRC_S1(CRC_S3(x))
#define CRC_S5(x) CRC_S1(CRC_S4(x))
#define CRC_S6(x) CRC_S1(CRC_S5(x))
#define CRC_S7(x) CRC_S1(CRC_S6(x))
#define CRC_S8(x) CRC_S1(CRC_S7(x))
#define CRC_SK(x, k) ((k) == 0 ? (uint32_t)(x) : (k) == 1 ? CRC_S1(x) : (k) == 2 ? CRC_S2(x) : (k) == 3 ? CRC_S3(x) : (k) == 4 ? CRC_S4(x) \
                     : (k) == 5 ? CRC_S5(x) : (k) == 6 ? CRC_S6(x) : (k) == 7 ? CRC_S7(x) : CRC_S8(x))
#define CRC_T(i) CRC_S8((uint32_t)(i))
#define CRC_STEP(c, b) ((uint32_t)(CRC_T((((uint32_t)(c)) ^ ((uint32_t)(b))) & 0xFFu) ^ (((uint32_t)(c)) >> 8)))

/* loop 1 of crc32: bytes of the vector (range-for, index made explicit by the declared rule).  The witness invariant pins the
 * first iteration exactly; every further iteration is the same text, whose effect on (crc, b) is proved for ALL crc, b by the
 * step lemma (proof crc_step_lemma on the block target KVStore_crc32_step). */
#define IORA_LOOP_KVStore_crc32_1 IORA_LC( \
  __CPROVER_assigns(iora_i_b, crc) \
  __CPROVER_loop_invariant(iora_i_b <= data.n) \
  __CPROVER_loop_invariant(iora_i_b == 0 ==> crc == 0xFFFFFFFFu) \
  __CPROVER_loop_invariant(iora_i_b == 1 ==> crc == CRC_STEP(0xFFFFFFFFu, data.p[0])) \
  __CPROVER_decreases(data.n - iora_i_b))
/* loop 2 of crc32: the eight bit steps */
#define IORA_LOOP_KVStore_crc32_2 IORA_LC( \
  __CPROVER_assigns(i, crc) \
  __CPROVER_loop_invariant(0 <= i && i <= 8) \
  __CPROVER_loop_invariant(crc == CRC_SK(__CPROVER_loop_entry(crc), i)) \
  __CPROVER_decreases(8 - i))
/* the same inner loop inside the block target (crc is the by-reference state of the block) */
#define IORA_LOOP_KVStore_crc32_step_1 IORA_LC( \
  __CPROVER_assigns(i, *crc) \
  __CPROVER_loop_invariant(0 <= i && i <= 8) \
  __CPROVER_loop_invariant(*crc == CRC_SK(__CPROVER_loop_entry(*crc), i)) \
  __CPROVER_decreases(8 - i))

/* ---- the record format enc(op,key,exp,val) (OP_*, PAY_*, ENC_* macros) lives in shims/iora_kvlog_format.h: it is shared with unit kv_replay,
 * whose proof codec_roundtrip checks dec(enc(r)) == r between these writer-side macros and its reader-side macros. */
