// REPLAY adapter for unit kv_codec: runs the REAL KVStore::writeLogEntry / crc32 (private; -fno-access-control) on the verifier's input and
// evaluates the contract clauses natively:
//   (1) the bytes that arrive in <path>.log are exactly enc(op,key,exp,val) with an independently computed (table-driven) CRC-32;
//   (2) ACK2: "acknowledged => reached the OS" - the log is a symlink to /dev/full (every write(2) fails with ENOSPC, i.e. a full disk);
//       a normal return of writeLogEntry then means an operation was acknowledged whose record never reached the OS (finding K3).
#include "iora/storage/kvstore.hpp"
#include "replay_io.h"
#include <filesystem>
#include <unistd.h>
using namespace iora::storage;
namespace fs = std::filesystem;
static uint32_t T[256];
static void mkT() { for (uint32_t i = 0; i < 256; i++) { uint32_t c = i; for (int k = 0; k < 8; k++) c = (c >> 1) ^ ((c & 1) ? 0xEDB88320u : 0u); T[i] = c; } }
static uint32_t crc_ref(const std::vector<uint8_t> &d) { if (d.empty()) return 0; uint32_t c = 0xFFFFFFFFu; for (uint8_t b : d) c = T[(c ^ b) & 0xFF] ^ (c >> 8); return ~c; }
static void le(std::vector<uint8_t> &o, uint64_t v, int n) { for (int i = 0; i < n; i++) o.push_back((uint8_t)(v >> (8 * i))); }
int main(int argc, char **argv) {
  mkT();
  auto in = replay_io::load(argv[1]);
  std::vector<uint8_t> kb = replay_io::bytes(in["KEY"]), val = replay_io::bytes(in["VAL"]);
  if (in.count("KEY_N")) kb.resize(std::min<size_t>(std::max<size_t>(kb.size(), replay_io::u64(in["KEY_N"])), replay_io::u64(in["KEY_N"])));
  if (in.count("VAL_N")) val.resize(std::min<size_t>(std::max<size_t>(val.size(), replay_io::u64(in["VAL_N"])), replay_io::u64(in["VAL_N"])));
  if (kb.empty()) kb.push_back('k');
  char op = in.count("OP") ? (char)replay_io::u64(in["OP"]) : 'S';
  if (op != 'S' && op != 'D' && op != 'E' && op != 'X') op = 'S';
  int64_t exp = in.count("EXP") ? replay_io::i64(in["EXP"]) : 0;
  std::string key(kb.begin(), kb.end());
  fs::path dir = fs::temp_directory_path() / ("iora_replay_kv_codec_" + std::to_string(getpid()));
  fs::remove_all(dir); fs::create_directories(dir);
  KVStoreConfig cfg; cfg.enableBackgroundCompaction = false;
  // (1) codec
  {
    std::string path = (dir / "a.bin").string();
    { KVStore s(path, cfg); s.writeLogEntry(op, key, val, exp);
      if (s.crc32(val) != crc_ref(val)) replay_io::fail("CRC crc32(value) differs from the table-driven CRC-32 definition"); }
    std::ifstream f(path + ".log", std::ios::binary); std::vector<uint8_t> got((std::istreambuf_iterator<char>(f)), std::istreambuf_iterator<char>());
    std::vector<uint8_t> pay; pay.push_back((uint8_t)op); le(pay, key.size(), 4); pay.insert(pay.end(), key.begin(), key.end());
    if (op == 'E' || op == 'X') le(pay, (uint64_t)exp, 8);
    if (op == 'E' || op == 'S') { le(pay, val.size(), 4); pay.insert(pay.end(), val.begin(), val.end()); }
    std::vector<uint8_t> want; le(want, pay.size() + 4, 4); want.insert(want.end(), pay.begin(), pay.end()); le(want, crc_ref(pay), 4);
    if (got != want) { fs::remove_all(dir); replay_io::fail("ENC bytes in the log differ from enc(op,key,exp,val): got " + std::to_string(got.size()) + " bytes, want " + std::to_string(want.size())); }
  }
  // (2) acknowledged => reached the OS
  bool acked = false, setacked = false;
  {
    std::string path = (dir / "b.bin").string();
    fs::create_symlink("/dev/full", path + ".log");
    try { KVStore s(path, cfg);
      try { s.writeLogEntry(op, key, val, exp); acked = true; } catch (const std::exception &) { }
    } catch (const std::exception &) { }
  }
  {
    std::string path = (dir / "c.bin").string();
    fs::create_symlink("/dev/full", path + ".log");
    try { KVStore s(path, cfg);
      try { s.set(key, val); setacked = true; } catch (const std::exception &) { }
    } catch (const std::exception &) { }
  }
  fs::remove_all(dir);
  if (acked) replay_io::fail(std::string("ACK2 writeLogEntry returned normally although every write(2) to the log failed with ENOSPC (log -> /dev/full); ")
                             + (setacked ? "KVStore::set() acknowledged the operation too" : "set() threw") + ": an acknowledged write that never reached the OS");
  replay_io::ok("enc(op,key,exp,val) bytes exact; failed flush reported");
  return 0;
}
