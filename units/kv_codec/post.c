/* Contracts of unit kv_codec, written from property C11 ("length-prefixed, CRC-protected log records flushed per operation";
 * "the effect of the last operation that had returned before the crash") - not from the code. */

/* ------------------------------------------------------------------ crc32 */
/* pure function of the bytes: assigns nothing; empty -> 0; one byte -> ~step(0xFFFFFFFF, d0).  (The n-byte value is the fold of
 * `step`: initial value and final complement are pinned here, the per-byte step by crc_step_lemma for every state.) */
uint32_t KVStore_crc32_contract(iora_bv data)
__CPROVER_requires(IORA_TRUE && data.n <= ((size_t)1 << 50) && __CPROVER_is_fresh(data.p, data.n))
__CPROVER_assigns()
/* CRC0 */ __CPROVER_ensures(data.n == 0 ==> __CPROVER_return_value == 0)
/* CRC1 */ __CPROVER_ensures(data.n == 1 ==> __CPROVER_return_value == (uint32_t)~CRC_STEP(0xFFFFFFFFu, data.p[0]))
;
void h_crc32(void)
{
  iora_bv d;
  uint32_t r = KVStore_crc32(d);
  IORA_CANARY("h_crc32: returns");
  if (d.n == 1) { IORA_CANARY("h_crc32: one byte"); }
  if (d.n > 1) { IORA_CANARY("h_crc32: many bytes"); }
}

/* lemma on one byte (block target = the real loop body): for EVERY crc and byte the bit-serial code equals the table-driven
 * definition with the reflected polynomial 0xEDB88320 */
void h_crc_step(void)
{
  uint32_t c = nondet_u32(); uint8_t b = nondet_u8();
  uint32_t c0 = c;
  KVStore_crc32_step(&c, b);
  __CPROVER_assert(c == CRC_STEP(c0, b), "CRCSTEP one byte: bit-serial loop == T[(c^b)&0xFF] ^ (c>>8), T from the reflected 0xEDB88320 definition");
  IORA_CANARY("h_crc_step: returns");
}

/* bounded sanity check of the specification itself against the published CRC-32 check value (not counted as proof) */
void h_crc_check_value(void)
{
  uint8_t m[9] = {49, 50, 51, 52, 53, 54, 55, 56, 57};          /* "123456789" */
  iora_bv d = { m, 9 };
  IORA_TRUE = 1;
  uint32_t r = KVStore_crc32(d);
  __CPROVER_assert(r == 0xCBF43926u, "CRCCHK crc32(\"123456789\") == 0xCBF43926");
  uint32_t s = 0xFFFFFFFFu;
  for (int k = 0; k < 9; k++) s = CRC_STEP(s, m[k]);
  __CPROVER_assert((uint32_t)~s == 0xCBF43926u, "CRCCHK fold of the spec step over \"123456789\" == 0xCBF43926");
  IORA_CANARY("h_crc_check_value: returns");
}

/* ------------------------------------------------------------------ writeLogEntry */
/* writeLogEntry is loop-free once crc32 is its stub, so plain harnesses over fully symbolic inputs are complete proofs (UNITS.md;
 * measured: the same clauses through DFCC: 1.5 M clauses, > 270 s; plain, one clause group per proof: seconds).
 * Frame: the type environment gives the function exactly one member (_logStream); anything else would not compile (exit 2).
 *
 * The ghost stream counts the bytes it accepted; the harness puts its origin at the call (n == 0): no shim behaviour depends on the
 * absolute count (only on GW - n), so this is no restriction, and it keeps the 64-bit position arithmetic cheap for the SAT back end
 * (measured: arbitrary origin 70 s per clause, origin 0: 3 s).  GW is therefore the index of the witness byte INSIDE the record. */
#define WLE_SETUP \
  KVStore st; KVStore *self = &st; \
  st._logStream.open = nondet_bool(); st._logStream.failed = nondet_bool(); st._logStream.gw = nondet_u8(); \
  st._logStream.n = 0; st._logStream.flushed = 0; st._logStream.flush_at = 0; st._logStream.nflush = 0; \
  char op = (char)nondet_u8(); iora_sv key; iora_bv value; int64_t expiryMs = nondet_i64(); \
  key.n = nondet_size_t(); value.n = nondet_size_t(); \
  GW = nondet_size_t(); GK = nondet_size_t(); G_crc_ret = nondet_u32(); G_crc_calls = 0; G_crc_arg_n = nondet_size_t(); G_crc_arg_gk = nondet_u8(); \
  /* call sites: op is one of the four literals; validateKeyValue / keys taken from _kv bound the sizes */ \
  __CPROVER_assume(op == OP_S || op == OP_D || op == OP_E || op == OP_X); \
  __CPROVER_assume(key.n >= 1 && key.n <= MAX_KEY_LENGTH); \
  __CPROVER_assume(value.n <= MAX_VALUE_LENGTH); \
  key.p = malloc(key.n); value.p = malloc(value.n); \
  __CPROVER_assume(key.p != NULL && value.p != NULL);      /* fresh, separate, fully symbolic contents */ \
  /* witness coupling: the payload vector is written at record offset 4, so its witness index is GW - 4 */ \
  __CPROVER_assume(GW >= 4 ==> GK == GW - 4); \
  bool was_open = st._logStream.open; \
  IORA_TRUE = 1; iora_exc = EXC_NONE; \
  KVStore_writeLogEntry(self, op, key, value, expiryMs); \
  IORA_CANARY("h_wle: returns"); \
  if (iora_exc == EXC_NONE) { IORA_CANARY("h_wle: acknowledged"); } else { IORA_CANARY("h_wle: exception"); } \
  if (iora_exc == EXC_NONE && op == OP_E && value.n > 0) { IORA_CANARY("h_wle: E record with a value"); } \
  if (iora_exc == EXC_NONE && op == OP_D) { IORA_CANARY("h_wle: D record"); } \
  if (iora_exc != EXC_NONE && st._logStream.n > 4) { IORA_CANARY("h_wle: torn record (a write failed after some bytes)"); }
#define S (st._logStream)
#define IMPL(a, b) (!(a) || (b))

/* proof "wle_safety": built-in checks (bounds, pointers, conversions, signed+unsigned overflow), shim preconditions, exception discipline */
void h_wle_safety(void)
{
  WLE_SETUP
  __CPROVER_assert(iora_exc == EXC_NONE || iora_exc == EXC_KVStoreException, "X1 only KVStoreException is raised");
  __CPROVER_assert(IMPL(!was_open, iora_exc == EXC_KVStoreException && S.n == 0), "X2 a closed stream is an error and nothing is written");
}

/* proof "wle_len": lengths, CRC call, flush order */
void h_wle_len(void)
{
  WLE_SETUP
  __CPROVER_assert(IMPL(iora_exc == EXC_NONE, S.n == ENC_N(op, key, value)), "ENC1 on success exactly |enc(op,key,exp,val)| bytes were handed to the stream");
  __CPROVER_assert(S.n <= ENC_N(op, key, value), "ENC2 on every path (also a failed write) at most |enc| bytes are handed over: a torn record is a prefix of a valid one");
  __CPROVER_assert(IMPL(was_open, G_crc_calls == 1 && G_crc_arg_n == PAY_N(op, key, value)), "CRC1 crc32 is computed once, over a vector of exactly |payload| bytes");
  __CPROVER_assert(IMPL(iora_exc == EXC_NONE, S.nflush == 1 && S.flush_at == S.n), "ACK1 acknowledged => flush() called once, after the last byte of the record was handed over");
}

/* proof "wle_frame": the byte at the arbitrary witness index GW of the record - length prefix and trailer */
void h_wle_frame(void)
{
  WLE_SETUP
  __CPROVER_assert(IMPL(GW < S.n && GW < 4, S.gw == LE_BYTE((uint32_t)(PAY_N(op, key, value) + 4), GW)),
                   "ENC3a length prefix: len32 == |payload| + 4, little-endian (all paths, for bytes handed over)");
  __CPROVER_assert(IMPL(GW < S.n && GW >= 4 && GW - 4 >= PAY_N(op, key, value), S.gw == LE_BYTE(G_crc_ret, GW - 4 - PAY_N(op, key, value))),
                   "ENC3c trailer: the value crc32 returned, little-endian");
}

/* proof "wle_payload": payload layout, both as given to crc32 and as handed to the stream */
void h_wle_payload(void)
{
  WLE_SETUP
  __CPROVER_assert(IMPL(was_open && GK < PAY_N(op, key, value), G_crc_arg_gk == PAY_BYTE(GK, op, key, value, expiryMs)),
                   "CRC2 the vector crc32 is computed over is op | klen32 | key | [exp64] | [vlen32 | val] (arbitrary byte GK)");
  __CPROVER_assert(IMPL(GW < S.n && GW >= 4 && GW - 4 < PAY_N(op, key, value), S.gw == PAY_BYTE(GK, op, key, value, expiryMs)),
                   "ENC3b payload bytes handed to the stream at record offset 4.. are op | klen32 | key | [exp64] | [vlen32 | val]");
}

/* proof "wle_ack": acknowledged => the whole record reached the OS (property C11: "the last operation ... that had returned before the crash").
 * ACK2 fails on the unchanged tree: the result of flush() is not examined (finding K3, see NOTES.md). */
void h_wle_ack(void)
{
  WLE_SETUP
  __CPROVER_assert(IMPL(iora_exc == EXC_NONE, !S.failed && S.flushed == S.n && S.n == ENC_N(op, key, value)),
                   "ACK2 acknowledged (normal return) => stream not failed and every byte of the record flushed to the OS");
}

#ifdef IORA_SEARCH
/* SEARCH: the same function and clauses on small concrete-size buffers, to obtain an input for REPLAY (bounded; never counted as proof) */
void h_search(void)
{
  uint8_t KEY[4]; size_t KEY_N = nondet_size_t(); uint8_t VAL[4]; size_t VAL_N = nondet_size_t(); size_t OP = nondet_size_t(); int64_t EXP = nondet_i64();
  IORA_NONDET_BYTES(KEY, 4); IORA_NONDET_BYTES(VAL, 4);
  __CPROVER_assume(KEY_N >= 1 && KEY_N <= 4 && VAL_N <= 4 && (OP == 83 || OP == 68 || OP == 69 || OP == 88));
  KVStore st; KVStore *self = &st;
  st._logStream.open = true; st._logStream.failed = false; st._logStream.gw = 0;
  st._logStream.n = 0; st._logStream.flushed = 0; st._logStream.flush_at = 0; st._logStream.nflush = 0;
  char op = (char)OP; iora_sv key = { (const char *)KEY, KEY_N }; iora_bv value = { VAL, VAL_N }; int64_t expiryMs = EXP;
  GW = nondet_size_t(); GK = nondet_size_t(); G_crc_ret = nondet_u32(); G_crc_calls = 0;
  __CPROVER_assume(GW >= 4 ==> GK == GW - 4);
  IORA_TRUE = 1; iora_exc = EXC_NONE;
  KVStore_writeLogEntry(self, op, key, value, expiryMs);
  __CPROVER_assert(IMPL(iora_exc == EXC_NONE, S.n == ENC_N(op, key, value)), "ENC1 on success exactly |enc(op,key,exp,val)| bytes were handed to the stream");
  __CPROVER_assert(IMPL(GW < S.n && GW < 4, S.gw == LE_BYTE((uint32_t)(PAY_N(op, key, value) + 4), GW)),
                   "ENC3a length prefix: len32 == |payload| + 4, little-endian (all paths, for bytes handed over)");
  __CPROVER_assert(IMPL(GW < S.n && GW >= 4 && GW - 4 < PAY_N(op, key, value), S.gw == PAY_BYTE(GK, op, key, value, expiryMs)),
                   "ENC3b payload bytes handed to the stream at record offset 4.. are op | klen32 | key | [exp64] | [vlen32 | val]");
  __CPROVER_assert(IMPL(iora_exc == EXC_NONE, !S.failed && S.flushed == S.n && S.n == ENC_N(op, key, value)),
                   "ACK2 acknowledged (normal return) => stream not failed and every byte of the record flushed to the OS");
}
#endif
