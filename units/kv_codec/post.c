/* Contracts of unit kv_codec, written from property C11 ("length-prefixed, CRC-protected log records flushed per operation";
 * "the effect of the last operation that had returned before the crash") - not from the code. */

/* ------------------------------------------------------------------ crc32 */
/* pure function of the bytes: assigns nothing; empty -> 0; one byte -> ~step(0xFFFFFFFF, d0).  (The n-byte value is the fold of
 * `step`: initial value and final complement are pinned here, the per-byte step by crc_step_lemma for every state.) */
uint32_t KVStore_crc32_contract(iora_bv data)
__CPROVER_requires(IORA_TRUE && data.n <= ((size_t)1 << 50) && __CPROVER_is_fresh(data.p, data.n))
__CPROVER_assigns()
/* CRC0 */ __CPROVER_ensures(data.n == 0 ==> __CPROVER_return_value == 0)
/* CRC1 */ __CPROVER_ensures(data.n == 1 ==> __CPROVER_return_value == (uint32_t)~CRC_STEP(0xFFFFFFFFu, data.p[0]))
;
void h_crc32(void)
{
  iora_bv d;
  uint32_t r = KVStore_crc32(d);
  IORA_CANARY("h_crc32: returns");
  if (d.n == 1) { IORA_CANARY("h_crc32: one byte"); }
  if (d.n > 1) { IORA_CANARY("h_crc32: many bytes"); }
}

/* lemma on one byte (block target = the real loop body): for EVERY crc and byte the bit-serial code equals the table-driven
 * definition with the reflected polynomial 0xEDB88320 */
void h_crc_step(void)
{
  uint32_t c = nondet_u32(); uint8_t b = nondet_u8();
  uint32_t c0 = c;
  KVStore_crc32_step(&c, b);
  __CPROVER_assert(c == CRC_STEP(c0, b), "CRCSTEP one byte: bit-serial loop == T[(c^b)&0xFF] ^ (c>>8), T from the reflected 0xEDB88320 definition");
  IORA_CANARY("h_crc_step: returns");
}

/* bounded sanity check of the specification itself against the published CRC-32 check value (not counted as proof) */
void h_crc_check_value(void)
{
  uint8_t m[9] = {49, 50, 51, 52, 53, 54, 55, 56, 57};          /* "123456789" */
  iora_bv d = { m, 9 };
  IORA_TRUE = 1;
  uint32_t r = KVStore_crc32(d);
  __CPROVER_assert(r == 0xCBF43926u, "CRCCHK crc32(\"123456789\") == 0xCBF43926");
  uint32_t s = 0xFFFFFFFFu;
  for (int k = 0; k < 9; k++) s = CRC_STEP(s, m[k]);
  __CPROVER_assert((uint32_t)~s == 0xCBF43926u, "CRCCHK fold of the spec step over \"123456789\" == 0xCBF43926");
  IORA_CANARY("h_crc_check_value: returns");
}

/* ------------------------------------------------------------------ writeLogEntry */
#define S (self->_logStream)
/* The ghost stream counts the bytes it accepted; the contract puts its origin at the call (S.n == 0): no shim behaviour depends on
 * the absolute count (only on GW - n), so this is no restriction - and it keeps the 64-bit position arithmetic cheap for the SAT back end
 * (measured: arbitrary origin 70 s per clause, origin 0: 3 s).  GW is therefore the index of the witness byte INSIDE the record. */
#define WLE_PRE \
__CPROVER_requires(IORA_TRUE && iora_exc == EXC_NONE && __CPROVER_is_fresh(self, sizeof(*self))) \
/* call sites: op is one of the four literals; validateKeyValue / keys taken from _kv bound the sizes */ \
__CPROVER_requires(op == OP_S || op == OP_D || op == OP_E || op == OP_X) \
__CPROVER_requires(key.n >= 1 && key.n <= MAX_KEY_LENGTH && __CPROVER_is_fresh(key.p, key.n)) \
__CPROVER_requires(value.n <= MAX_VALUE_LENGTH && __CPROVER_is_fresh(value.p, value.n)) \
__CPROVER_requires(S.n == 0 && S.flushed == 0 && S.nflush == 0 && G_crc_calls == 0) \
/* witness coupling: the payload vector is written at record offset 4, so its witness index is GW - 4 */ \
__CPROVER_requires(GW >= 4 ==> GK == GW - 4) \
__CPROVER_assigns(iora_exc, self->_logStream, G_crc_calls, G_crc_arg_n, G_crc_arg_gk)

/* proof "wle_safety": built-in checks, shim preconditions, frame, and the exception discipline */
void KVStore_writeLogEntry_safety(KVStore *self, char op, iora_sv key, iora_bv value, int64_t expiryMs)
WLE_PRE
/* X1 */ __CPROVER_ensures(iora_exc == EXC_NONE || iora_exc == EXC_KVStoreException)
/* X2 a closed stream is an error and nothing is written */
__CPROVER_ensures(!__CPROVER_old(self->_logStream.open) ==> (iora_exc == EXC_KVStoreException && S.n == 0))
;

/* proof "wle_functional": the bytes handed to the stream are exactly enc(op,key,exp,val) */
void KVStore_writeLogEntry_contract(KVStore *self, char op, iora_sv key, iora_bv value, int64_t expiryMs)
WLE_PRE
/* ENC1 on success exactly |enc| bytes were handed to the stream */
__CPROVER_ensures(iora_exc == EXC_NONE ==> S.n == ENC_N(op, key, value))
/* ENC2 on EVERY path (also a failed write) the bytes handed over are a prefix of enc: a torn record is a prefix of a valid one */
__CPROVER_ensures(S.n <= ENC_N(op, key, value))
/* ENC3 the byte at the arbitrary witness index GW of the record, by region (all paths, for the bytes that were handed over):
 *  a) length prefix: len32 == |payload| + 4, little-endian */
__CPROVER_ensures((GW < S.n && GW < 4) ==> S.gw == LE_BYTE((uint32_t)(PAY_N(op, key, value) + 4), GW))
/*  b) payload: op | klen32 | key | [exp64] | [vlen32 | val]   (GK == GW - 4 by the coupling above) */
__CPROVER_ensures((GW < S.n && GW >= 4 && GW - 4 < PAY_N(op, key, value)) ==> S.gw == PAY_BYTE(GK, op, key, value, expiryMs))
/*  c) trailer: the value crc32 returned, little-endian */
__CPROVER_ensures((GW < S.n && GW >= 4 && GW - 4 >= PAY_N(op, key, value)) ==> S.gw == LE_BYTE(G_crc_ret, GW - 4 - PAY_N(op, key, value)))
/* CRC the trailer value is crc32 of exactly the payload: one call, on a vector whose length and (arbitrary GK) byte are the payload's */
__CPROVER_ensures(__CPROVER_old(self->_logStream.open) ==> (G_crc_calls == 1 && G_crc_arg_n == PAY_N(op, key, value)))
__CPROVER_ensures((__CPROVER_old(self->_logStream.open) && GK < PAY_N(op, key, value)) ==> G_crc_arg_gk == PAY_BYTE(GK, op, key, value, expiryMs))
/* ACK1 acknowledged => flush() was called, once, after the last byte of the record was handed over */
__CPROVER_ensures(iora_exc == EXC_NONE ==> (S.nflush == 1 && S.flush_at == S.n))
;

/* proof "wle_ack": acknowledged => the whole record reached the OS (property C11: "the last operation ... that had returned before the crash").
 * ACK2 fails on the unchanged tree: the result of flush() is not examined (finding K3, see NOTES.md). */
void KVStore_writeLogEntry_ack(KVStore *self, char op, iora_sv key, iora_bv value, int64_t expiryMs)
WLE_PRE
/* ACK2 */ __CPROVER_ensures(iora_exc == EXC_NONE ==> (!S.failed && S.flushed == S.n && S.n == ENC_N(op, key, value)))
;

void h_wle(void)
{
  KVStore *self; char op; iora_sv key; iora_bv value; int64_t exp;
  KVStore_writeLogEntry(self, op, key, value, exp);
  IORA_CANARY("h_wle: returns");
  if (iora_exc == EXC_NONE) { IORA_CANARY("h_wle: acknowledged"); } else { IORA_CANARY("h_wle: exception"); }
  if (iora_exc == EXC_NONE && op == OP_E) { IORA_CANARY("h_wle: E record"); }
  if (iora_exc == EXC_NONE && op == OP_D) { IORA_CANARY("h_wle: D record"); }
}
