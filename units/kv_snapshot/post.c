/* Contracts of unit kv_snapshot (C11): the snapshot phase of KVStore::load() and the snapshot writer.
 * Snapshot format (no checksum; written to a temporary file and renamed, unit kv_compact):  magic32 | version32 | count32 | entry*count
 *   entry v2:  klen32 | key | exp64 | vlen32 | val          entry v1:  klen32 | key | vlen32 | val            integers little-endian */
#define IMPL(a, b) (!(a) || (b))
#define U32AT(o) ((uint32_t)((uint32_t)LOG[(o)] | ((uint32_t)LOG[(o) + 1] << 8) | ((uint32_t)LOG[(o) + 2] << 16) | ((uint32_t)LOG[(o) + 3] << 24)))
#define U64AT(o) ((uint64_t)U32AT(o) | ((uint64_t)U32AT((o) + 4) << 32))
#define VAL_CAP ((uint32_t)(100 * 1024 * 1024))
#define AVAIL (LOG_N - b)
#define XB ((size_t)(version == 2 ? 8 : 0))                 /* bytes of the expiry field */
#define KL ((size_t)U32AT(b))
#define KL_OK (AVAIL >= 4 && KL >= 1 && KL <= 65536)
#define HDR_OK (KL_OK && AVAIL - 4 >= KL + XB + 4)          /* klen32, key, [exp64], vlen32 present */
#define S_EXP ((int64_t)U64AT(b + 4 + KL))
#define S_VL ((size_t)U32AT(b + 4 + KL + XB))
#define ENTRY_OK (HDR_OK && S_VL <= VAL_CAP && AVAIL - 4 - KL - XB - 4 >= S_VL)
#define ENTRY_N (4 + KL + XB + 4 + S_VL)
/* WRITE-SIDE bounds, from the real validation in set()/setBatch (validateKeyValue; constants extracted from the header): every (key, value) the store can hold and
 * therefore every entry compactLocked -> writeKeyValue can emit.  The reader must not be tighter (clauses SRw1..SRw3), incl. the boundaries vlen == 0 and vlen == MAX_VALUE_LENGTH. */
#define W_HDR (AVAIL >= 4 && KL >= 1 && KL <= MAX_KEY_LENGTH && AVAIL - 4 >= KL + XB + 4)
#define W_ENTRY (W_HDR && S_VL <= MAX_VALUE_LENGTH && AVAIL - 4 - KL - XB - 4 >= S_VL)
#define PLAUSIBLE(ms) ((ms) > 0 && (ms) <= kMaxPlausibleEpochMs)
#define KV (st._kv)
#define EX (st._expiry)
#define SNAP_SETUP(BPRE) \
  size_t LOG_N = nondet_size_t(); __CPROVER_assume(LOG_N <= ((size_t)1 << 40)); \
  uint8_t *LOG = (uint8_t *)malloc(LOG_N); __CPROVER_assume(LOG != NULL); \
  size_t b = nondet_size_t(); __CPROVER_assume(b <= LOG_N); __CPROVER_assume(BPRE); \
  iora_ifs snap; snap.open = true; snap.fail = false; snap.eof = false; snap.p = LOG; snap.n = LOG_N; snap.pos = b; \
  KVStore st; \
  KV.has = nondet_bool(); KV.val.n = nondet_size_t(); KV.touched = false; KV.gtouched = false; \
  EX.has = nondet_bool(); EX.val.expiry = nondet_i64(); EX.val.timerId = nondet_u64(); EX.touched = false; EX.gtouched = false; \
  bool kv_has0 = KV.has; iora_vec kv_val0 = KV.val; bool ex_has0 = EX.has; ExpiryEntry ex_val0 = EX.val; \
  uint32_t version = nondet_u32(); __CPROVER_assume(version == 1 || version == 2);      /* checked by the header part (proof snap_loop) */ \
  uint32_t count = nondet_u32(); uint32_t i = nondet_u32(); \
  GK = nondet_size_t(); G_alloc_cap = VAL_CAP; G_skey_made = false; G_fromms_called = false; iora_exc = EXC_NONE; IORA_TRUE = 1; \
  KVStore_load_snap_step(&st, &snap, version, count, i); \
  bool touched = KV.touched || EX.touched; bool isg = G_skey_made && G_skey_last.is_g; \
  IORA_CANARY("h_snap: returns");
#define UNCHANGED_KV (KV.has == kv_has0 && KV.val.p == kv_val0.p && KV.val.n == kv_val0.n)
#define UNCHANGED_EX (EX.has == ex_has0 && EX.val.expiry == ex_val0.expiry && EX.val.timerId == ex_val0.timerId)

/* proof "snap_step_safety": every built-in check on one entry: reads land inside the key/value buffers that were sized from the SAME length fields,
 * allocation <= 100 MiB (value) / 64 KiB (key), conversions, overflow */
void h_snap_step_safety(void)
{
  SNAP_SETUP(b <= LOG_N)
  __CPROVER_assert(iora_exc == EXC_NONE || iora_exc == EXC_KVStoreException, "X1 only KVStoreException");
}
/* proof "snap_step_framing" */
void h_snap_step_framing(void)
{
  SNAP_SETUP(b == 0)      /* the file viewed from the entry boundary: the stream shim depends on (p + pos, n - pos) only (arbitrary b: 296 s) */
  if (i < count && ENTRY_OK) { IORA_CANARY("h_snap: complete entry"); }
  if (i < count && !ENTRY_OK) { IORA_CANARY("h_snap: damaged entry"); }
  __CPROVER_assert(IMPL(i >= count, iora_exc == EXC_NONE && !touched && snap.pos == b), "N0 after the last entry nothing is read or changed");
  __CPROVER_assert(IMPL(i < count && !ENTRY_OK, iora_exc == EXC_KVStoreException && !touched), "N1 a truncated or out-of-range entry is REFUSED with an exception (the store does not open on half a snapshot) and is not applied");
  __CPROVER_assert(IMPL(i < count && ENTRY_OK, iora_exc == EXC_NONE && snap.pos == b + ENTRY_N && !snap.fail && snap.open), "N2 a complete entry is consumed exactly (next entry at b + 4 + klen [+ 8] + 4 + vlen)");
  __CPROVER_assert(IMPL(touched, i < count && ENTRY_OK), "N3 an entry is applied only if it is complete");
  __CPROVER_assert(IMPL(i < count && W_ENTRY, iora_exc == EXC_NONE && snap.pos == b + ENTRY_N && !snap.fail), "SRw1 every entry the snapshot writer emits for a (key, value) set() accepts (1 <= klen <= MAX_KEY_LENGTH, 0 <= vlen <= MAX_VALUE_LENGTH) is ACCEPTED by the reader and consumed exactly - the store opens");
  __CPROVER_assert(IMPL(i < count && W_ENTRY && (version == 1 || S_EXP == IORA_LIMIT_int64_t_min || PLAUSIBLE(S_EXP)), KV.touched), "SRw2 ... and LOADED (sentinel or plausible expiry, as the writer emits for a live key)");
}
/* proof "snap_step_decode" */
void h_snap_step_decode(void)
{
  SNAP_SETUP(b == 0)
  iora_skey LK = KV.lastkey;
  __CPROVER_assert(IMPL(EX.touched, KV.touched && EX.lastkey.p == KV.lastkey.p && EX.lastkey.n == KV.lastkey.n && EX.lastkey.is_g == KV.lastkey.is_g), "K0 an expiry is stored only together with the value, under the same key");
  __CPROVER_assert(IMPL(KV.touched, LK.n == KL && LK.is_g == G_skey_last.is_g), "K1 decoded key length == klen32");
  __CPROVER_assert(IMPL(KV.touched && GK < KL, (uint8_t)LK.p[GK] == LOG[b + 4 + GK]), "K2 decoded key bytes == entry bytes (arbitrary byte GK)");
  __CPROVER_assert(IMPL(KV.touched && isg, KV.has && KV.val.n == S_VL), "K3 value length == vlen32");
  __CPROVER_assert(IMPL(KV.touched && isg && GK < S_VL, KV.val.p[GK] == LOG[b + 4 + KL + XB + 4 + GK]), "K4 value bytes == entry bytes (arbitrary byte GK)");
  __CPROVER_assert(IMPL(i < count && W_ENTRY && KV.touched && isg, KV.has && KV.val.n == S_VL && IMPL(GK < S_VL, KV.val.p[GK] == LOG[b + 4 + KL + XB + 4 + GK])), "SRw3 ... with the same value bytes (any length from 0 to MAX_VALUE_LENGTH)");
  __CPROVER_assert(IMPL(touched && !isg, UNCHANGED_KV && UNCHANGED_EX), "K5 frame: an entry for another key leaves the ghost key untouched");
}
/* proof "snap_step_apply": v1 / v2 semantics */
void h_snap_step_apply(void)
{
  SNAP_SETUP(b == 0)
  bool ok = i < count && ENTRY_OK;
  __CPROVER_assert(IMPL(ok && version == 1, KV.touched && !EX.touched), "A1 v1 entry: applied, eternal (expiry metadata not touched)");
  __CPROVER_assert(IMPL(ok && version == 2 && S_EXP == IORA_LIMIT_int64_t_min, KV.touched && !EX.touched), "A2 v2 entry with the no-expiry sentinel: applied, eternal");
  __CPROVER_assert(IMPL(ok && version == 2 && S_EXP != IORA_LIMIT_int64_t_min && PLAUSIBLE(S_EXP), KV.touched && EX.touched && G_fromms_called && G_fromms_arg == S_EXP), "A3 v2 entry with a plausible expiry: applied, the expiry handed to fromEpochMs is the entry's exp64");
  __CPROVER_assert(IMPL(EX.touched && isg, EX.has && EX.val.expiry == G_fromms_ret && EX.val.timerId == 0), "A4 stored expiry == fromEpochMs(exp64), no timer armed (judged later by dropExpiredAfterLoad)");
  __CPROVER_assert(IMPL(ok && version == 2 && S_EXP != IORA_LIMIT_int64_t_min && !PLAUSIBLE(S_EXP), !touched && iora_exc == EXC_NONE), "A5 v2 entry with an implausible expiry is dropped - never kept as an eternal key");
}

/* ---- writer side (used by compactLocked): bytes handed to the stream */
#define LE_BYTE(v, k) ((uint8_t)(((uint64_t)(v)) >> (8 * (k))))
#define SENC_N(key, value) ((size_t)(4 + (key).n + 8 + 4 + (value).n))
#define SENC_BYTE(j, key, exp, value) ( \
    (j) < 4 ? LE_BYTE((uint32_t)(key).n, (j)) \
  : (j) < 4 + (key).n ? (uint8_t)(key).p[(j) - 4] \
  : (j) < 4 + (key).n + 8 ? LE_BYTE((uint64_t)(exp), (j) - 4 - (key).n) \
  : (j) < 4 + (key).n + 12 ? LE_BYTE((uint32_t)(value).n, (j) - 4 - (key).n - 8) \
  : (value).p[(j) - 4 - (key).n - 12])
/* proof "snap_writer": writeHeader and writeKeyValue (ghost stream origin at the call, as in unit kv_codec) */
void h_snap_writer(void)
{
  KVStore st; st._config.magicNumber = nondet_u32();
  iora_ofs out; out.open = nondet_bool(); out.failed = nondet_bool(); out.n = 0; out.gw = nondet_u8(); out.flushed = 0; out.flush_at = 0; out.nflush = 0;
  GW = nondet_size_t();
  if (nondet_bool()) {
    bool ok = KVStore_writeHeader(&st, &out);
    IORA_CANARY("h_snap_writer: header written");
    __CPROVER_assert(ok == (!out.failed && out.n == 8), "W1 writeHeader: true iff all 8 bytes were accepted");
    __CPROVER_assert(out.n <= 8 && IMPL(GW < out.n, out.gw == (GW < 4 ? LE_BYTE(st._config.magicNumber, GW) : LE_BYTE((uint32_t)2, GW - 4))), "W2 header bytes: magic32 | version32 == 2");
  } else {
    iora_sv key; iora_bv value; int64_t exp = nondet_i64();
    key.n = nondet_size_t(); value.n = nondet_size_t(); __CPROVER_assume(key.n >= 1 && key.n <= MAX_KEY_LENGTH && value.n <= MAX_VALUE_LENGTH);      /* keys/values of the live maps (validateKeyValue, extracted constants) */
    key.p = (const char *)malloc(key.n); value.p = (const uint8_t *)malloc(value.n); __CPROVER_assume(key.p != NULL && value.p != NULL);
    bool ok = KVStore_writeKeyValue(&st, &out, key, exp, value);
    IORA_CANARY("h_snap_writer: entry written");
    __CPROVER_assert(ok == (!out.failed && out.n == SENC_N(key, value)), "W3 writeKeyValue: true iff the whole entry was accepted");
    __CPROVER_assert(out.n <= SENC_N(key, value) && IMPL(GW < out.n, out.gw == SENC_BYTE(GW, key, exp, value)), "W4 entry bytes: klen32 | key | exp64 | vlen32 | val (arbitrary byte GW; on failure a prefix)");
  }
}
/* proof "snap_roundtrip": reader macros applied to an entry laid out by the writer macros give back (key, exp, val) and accept it (version 2) */
void h_snap_roundtrip(void)
{
  iora_sv key; iora_bv value; int64_t exp = nondet_i64(); uint32_t version = 2;
  key.n = nondet_size_t(); value.n = nondet_size_t(); GK = nondet_size_t();
  __CPROVER_assume(key.n >= 1 && key.n <= MAX_KEY_LENGTH && value.n <= MAX_VALUE_LENGTH);      /* what set() accepts */
  key.p = (const char *)malloc(key.n); value.p = (const uint8_t *)malloc(value.n); __CPROVER_assume(key.p != NULL && value.p != NULL);
  size_t LOG_N = SENC_N(key, value); uint8_t *LOG = (uint8_t *)malloc(LOG_N); __CPROVER_assume(LOG != NULL); size_t b = 0;
#define SENC_AT(j) __CPROVER_assume(!((j) < LOG_N) || LOG[(j)] == SENC_BYTE((j), key, exp, value))
#define SENC_AT4(j) SENC_AT(j); SENC_AT((j) + 1); SENC_AT((j) + 2); SENC_AT((j) + 3)
  SENC_AT4(0); if (GK < key.n) { SENC_AT(4 + GK); }
  SENC_AT4(4 + key.n); SENC_AT4(4 + key.n + 4); SENC_AT4(4 + key.n + 8); if (GK < value.n) { SENC_AT(4 + key.n + 12 + GK); }
  IORA_CANARY("h_snap_roundtrip: an entry exists");
  __CPROVER_assert(ENTRY_OK && ENTRY_N == LOG_N, "SRT1 every entry the writer produces is accepted and consumed exactly");
  __CPROVER_assert(W_ENTRY, "SRT1w a writer-laid-out entry lies inside the write-side domain the SRw clauses quantify over");
  __CPROVER_assert(KL == key.n && S_EXP == exp && S_VL == value.n, "SRT2 key length, expiry and value length decode to the originals");
  __CPROVER_assert(IMPL(GK < key.n, LOG[b + 4 + GK] == (uint8_t)key.p[GK]) && IMPL(GK < value.n, LOG[b + 4 + KL + XB + 4 + GK] == value.p[GK]), "SRT3 key and value bytes decode to the originals");
}

/* proof "snap_loop": the whole snapshot phase (header + loop contract): refused headers, invariant, termination */
void h_snap_loop(void)
{
  size_t LOG_N = nondet_size_t(); __CPROVER_assume(LOG_N <= ((size_t)1 << 40));
  uint8_t *LOG = (uint8_t *)malloc(LOG_N); __CPROVER_assume(LOG != NULL);
  iora_ifs snap; snap.open = nondet_bool(); snap.fail = !snap.open; snap.eof = false; snap.p = LOG; snap.n = snap.open ? LOG_N : 0; snap.pos = 0;
  KVStore st; st._config.magicNumber = nondet_u32();
  KV.has = nondet_bool(); KV.val.n = nondet_size_t(); KV.touched = false; KV.gtouched = false;
  EX.has = nondet_bool(); EX.val.expiry = nondet_i64(); EX.val.timerId = nondet_u64(); EX.touched = false; EX.gtouched = false;
  G_alloc_cap = VAL_CAP; iora_exc = EXC_NONE; IORA_TRUE = 1;
  bool was_open = snap.open; size_t b = 0;
  KVStore_load_snapshot(&st, &snap);
  IORA_CANARY("h_snap_loop: returns");
  if (was_open && iora_exc == EXC_NONE) { IORA_CANARY("h_snap_loop: snapshot loaded"); }
  __CPROVER_assert(iora_exc == EXC_NONE || iora_exc == EXC_KVStoreException, "L0 only KVStoreException");
  __CPROVER_assert(IMPL(!was_open, iora_exc == EXC_NONE && !KV.touched && !EX.touched), "L1 no snapshot file: nothing happens");
  __CPROVER_assert(IMPL(was_open && (LOG_N < 12 || U32AT(0) != st._config.magicNumber || (U32AT(4) != 1 && U32AT(4) != 2) || U32AT(8) > 10000000), iora_exc == EXC_KVStoreException && !KV.touched && !EX.touched),
                   "L2 short header, wrong magic, unknown version or absurd count: refused, nothing applied");
  __CPROVER_assert(snap.pos <= snap.n || !was_open, "L3 the read position stays inside the file");
}
