// REPLAY adapter for unit kv_snapshot (C11). Input IN / IN_N = the content of the snapshot file <path> found at start-up (arbitrary bytes).
// The real KVStore is opened on it: it must either load (and then answer reads without memory errors - ASan/UBSan) or refuse with KVStoreException;
// then a round trip: 3 keys (one with TTL), compact (real writeHeader/writeKeyValue), reopen => same keys and values.
#include "iora/storage/kvstore.hpp"
#include "replay_io.h"
#include <filesystem>
#include <unistd.h>
using namespace iora::storage;
namespace fs = std::filesystem;
static std::vector<uint8_t> V(const char *s) { return std::vector<uint8_t>(s, s + strlen(s)); }
int main(int argc, char **argv) {
  (void)argc; auto in = replay_io::load(argv[1]);
  std::vector<uint8_t> img = replay_io::bytes(in["IN"]);
  if (in.count("IN_N")) img.resize(replay_io::u64(in["IN_N"]), 0);
  fs::path dir = fs::temp_directory_path() / ("iora_replay_kv_snapshot_" + std::to_string(getpid()));
  fs::remove_all(dir); fs::create_directories(dir);
  KVStoreConfig cfg; cfg.enableBackgroundCompaction = false;
  std::string verdict;
  { std::string path = (dir / "a.bin").string();
    { std::ofstream f(path, std::ios::binary); f.write((const char *)img.data(), (std::streamsize)img.size()); }
    try { KVStore s(path, cfg); (void)s.size(); (void)s.keys(); } catch (const KVStoreException &) { } catch (const std::exception &e) { verdict += std::string(" unexpected exception type: ") + e.what(); } }
  { std::string path = (dir / "b.bin").string();
    try {
      { KVStore s(path, cfg); s.set("k1", V("v1")); s.set("k2", V("")); s.set("k3", V("v3"), std::chrono::seconds(3600)); s.compact(); }
      { KVStore s(path, cfg); auto a = s.get("k1"), b = s.get("k2"), c = s.get("k3");
        if (!a || *a != V("v1") || !b || !b->empty() || !c || *c != V("v3") || !s.ttl("k3") || s.ttl("k1")) verdict += " snapshot round trip lost or changed a key/value/expiry;"; }
    } catch (const std::exception &e) { verdict += std::string(" round trip threw: ") + e.what(); } }
  fs::remove_all(dir);
  if (!verdict.empty()) replay_io::fail(verdict);
  replay_io::ok("snapshot image handled (loaded or refused) and round trip exact");
  return 0;
}
