/* type environment + ghost state for unit kv_replay */
#ifndef IORA_LIMIT_int64_t_min
#define IORA_LIMIT_int64_t_min ((int64_t)(-0x7fffffffffffffffLL - 1))
#endif
#define EXC_KVStoreException 1
uint32_t nondet_u32(void);
typedef int64_t iora_tp;            /* system_clock::time_point = int64 nanoseconds since the epoch (libstdc++) */
/* time_point(milliseconds(ms)) - the ms -> ns conversion.  In THIS unit it is an uninterpreted stub (argument and result recorded) so that the
 * decode clauses say "the value handed to fromEpochMs is the record's exp64 field" and "the stored expiry is what fromEpochMs returned"
 * without 64-bit multiplication in the formula (measured: > 300 s with it).  The arithmetic itself (exact value, overflow: finding K4)
 * is the contract of fromEpochMs in unit kv_expiry. */
bool G_fromms_called; int64_t G_fromms_arg; int64_t G_fromms_ret;
static inline iora_tp iora_tp_from_ms(int64_t ms) { G_fromms_called = true; G_fromms_arg = ms; G_fromms_ret = nondet_i64(); return G_fromms_ret; }
typedef struct { iora_tp expiry; uint64_t timerId; } ExpiryEntry;
#define ExpiryEntry_DEFAULT ((ExpiryEntry){0, InvalidTimerId})
typedef struct { int v; } iora_ec;
#define iora_ec_DEFAULT ((iora_ec){0})
#ifndef iora_vec_DEFAULT
#define iora_vec_DEFAULT ((iora_vec){0, 0})
#endif
IORA_SMAP1(iora_kvmap, iora_vec, iora_vec_DEFAULT)
IORA_SMAP1(iora_expmap, ExpiryEntry, ExpiryEntry_DEFAULT)
typedef struct { uint32_t magicNumber; } KVStoreConfig;
typedef struct { iora_gfile *_path; iora_gfile *_logPath; iora_kvmap _kv; iora_expmap _expiry; iora_ofs _logStream; KVStoreConfig _config; } KVStore;

static inline uint8_t *iora_vec_begin(iora_vec *v) { return v->p; }
static inline uint8_t *iora_vec_end(iora_vec *v) { return v->p + v->n; }
static inline iora_bv iora_bv_range(const uint8_t *first, const uint8_t *last)
{ IORA_ASSERT(__CPROVER_same_object(first, last) && __CPROVER_POINTER_OFFSET(first) <= __CPROVER_POINTER_OFFSET(last), "vector(first,last): valid iterator range");
  iora_bv b; b.p = first; b.n = (size_t)(last - first); return b; }

/* `ptr + k > end` (the replay loop's bounds tests) evaluated in FLAT address arithmetic: ptr + k may lie beyond one-past-the-end of the
 * record buffer, which ISO C++ leaves undefined ([expr.add]) although every supported target computes it as an integer; CBMC rejects
 * even the comparison.  Declared rule: p + k > end  ==>  k > end - p, with p and end in the same object and p <= end (asserted).
 * Trusted: no wrap of the address space (the buffer does not end within 100 MiB + 64 KiB of the top of memory). */
static inline bool iora_ptr_add_gt(const char *p, size_t k, const char *end)
{ IORA_ASSERT(__CPROVER_same_object(p, end) && __CPROVER_POINTER_OFFSET(p) <= __CPROVER_POINTER_OFFSET(end), "bounds test: cursor inside the record buffer");
  return k > (size_t)(end - p); }

/* std::vector<uint8_t> v(n): allocation of symbolic size (contents arbitrary; the real vector zero-fills) */
#ifdef KV_ALLOC_INLINE
static inline void iora_vec_ctor(iora_vec *v, size_t n)
{ IORA_ASSERT(n <= G_alloc_cap, "allocation bounded by the record-size cap"); v->p = (uint8_t *)malloc(n); IORA_ASSUME(v->p != NULL); v->n = n; }
#else
void iora_vec_ctor(iora_vec *v, size_t n)
  __CPROVER_requires(n <= G_alloc_cap) __CPROVER_assigns(v->p, v->n) __CPROVER_ensures(v->n == n && __CPROVER_is_fresh(v->p, n));
#endif

/* crc32 stub (the real one is proved pure in unit kv_codec): one arbitrary value per call, the argument is recorded */
bool G_crc_called; const uint8_t *G_crc_p; size_t G_crc_n; uint32_t G_crc_ret;
static inline uint32_t KVStore_crc32_stub(iora_bv d) { G_crc_called = true; G_crc_p = d.p; G_crc_n = d.n; G_crc_ret = nondet_u32(); return G_crc_ret; }

/* filesystem::resize_file on the log (K1 repair) */
static inline void iora_fs_resize_file(iora_gfile *f, uint64_t n, iora_ec *ec)
{ IORA_ASSERT(f->exists && n <= f->n, "resize_file: shrinking an existing file");
  if (nondet_bool()) { ec->v = 5; return; } ec->v = 0; f->n = (size_t)n; }

/* ofstream::open(path, mode): append position = current size of the file */
size_t G_append_pos; bool G_append_open;
static inline void iora_ofs_open(iora_ofs *s, iora_gfile *f, int mode)
{ IORA_ASSERT(mode & IORA_IOS_app, "log opened in append mode");
  if (nondet_bool()) { s->open = false; s->failed = true; return; }
  if (!f->exists) { f->exists = true; f->n = 0; }
  s->open = true; s->failed = false; G_append_open = true; G_append_pos = f->n; }

/* std::string key(n, '\0'): a writable buffer of n bytes (then filled by ifstream::read); ghost key bit drawn here */
static inline iora_skey iora_skey_alloc(size_t n)
{ IORA_ASSERT(n <= G_alloc_cap, "allocation bounded"); iora_skey k; k.p = (const char *)malloc(n); IORA_ASSUME(k.p != NULL); k.n = n; k.is_g = nondet_bool(); G_skey_last = k; G_skey_made = true; return k; }
static inline char *iora_skey_data(iora_skey *k) { return (char *)k->p; }
/* loop of the snapshot phase: stream good, position inside the file, i <= count; variant count - i */
#define IORA_LOOP_KVStore_load_snapshot_1 IORA_LC( \
  __CPROVER_assigns(i, *snapshot, self->_kv, self->_expiry, G_skey_last, G_skey_made, G_fromms_called, G_fromms_arg, G_fromms_ret, iora_exc) \
  __CPROVER_loop_invariant(i <= count && iora_exc == EXC_NONE && (*snapshot).open && !(*snapshot).fail && (*snapshot).pos <= (*snapshot).n) \
  __CPROVER_loop_invariant((*snapshot).p == __CPROVER_loop_entry((*snapshot).p) && (*snapshot).n == __CPROVER_loop_entry((*snapshot).n)) \
  __CPROVER_decreases(count - i))
