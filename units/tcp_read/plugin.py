"""Unit-local extraction plugin for tcp_read.

hook_before_loops (function TcpEngine_readAvail only): the read loop's header is brought into ONE shape so that the loop contract can name the
loop counter whether or not the text has one:
    for (;;) BODY                       ->  int iora_lv1 = 0 ; for ( ; ; ) BODY                       (a counter that is never used)
    for (T v = e; COND; STEP) BODY      ->  T iora_lv1 = e ; for ( ; COND' ; STEP' ) BODY'           (v renamed to iora_lv1 everywhere)
The loop contract lists iora_lv1 in its assigns clause, so a counted loop is havocked like any other loop state and an exit through the loop
CONDITION (e.g. a per-wakeup read budget) reaches the post-clauses - where clause R3 ("an open session is left only after a would-block answer")
decides it. Nothing is dropped; the transformation is a rename plus hoisting the for-init declaration in front of the loop (same scope rules
for this function: the loop is the first statement of the body and the name is fresh)."""
from vt.lexer import Tok, match_close
from vt.x2c import ExtractionBreak

LV = 'iora_lv1'


def hook_before_loops(t, rw):
    if rw.prefix != 'TcpEngine_readAvail':
        return t
    for i, x in enumerate(t):
        if x.kind == 'id' and x.text == 'for' and t[i + 1].text == '(':
            rp = match_close(t, i + 1)
            hdr = t[i + 2:rp]
            # first top-level ';'
            d = 0
            semi = None
            for k, y in enumerate(hdr):
                if y.kind in ('str', 'chr', 'expr'):
                    continue
                if y.text in '([{' and len(y.text) == 1:
                    d += 1
                elif y.text in ')]}' and len(y.text) == 1:
                    d -= 1
                elif y.text == ';' and d == 0:
                    semi = k
                    break
            if semi is None:
                raise ExtractionBreak("readAvail: loop 1 is not a for(;;)-style loop any more")
            init = hdr[:semi]
            L = x.line
            if not init:
                decl = [Tok('id', 'int', L, final=True), Tok('id', LV, L, final=True), Tok('op', '=', L), Tok('num', '0', L), Tok('op', ';', L)]
                rw.R.fire('loop counter: none (dummy iora_lv1)', 1)
                return t[:i] + decl + t[i:]
            # `T v = e` : the declared name is the identifier before '='
            eq = next((k for k, y in enumerate(init) if y.text == '=' and y.kind == 'op'), None)
            if eq is None or eq < 2 or init[eq - 1].kind != 'id':
                raise ExtractionBreak("readAvail: for-init of loop 1 is outside the subset (expected `T v = e`)")
            var = init[eq - 1].text
            end = match_close(t, rp + 1) if t[rp + 1].text == '{' else rw._stmt_end(t, rp + 1)

            def ren(toks):
                return [Tok('id', LV, y.line, final=True) if (y.kind == 'id' and y.text == var) else y for y in toks]
            decl = ren(init) + [Tok('op', ';', L)]
            new_hdr = ren(hdr[semi:])
            rw.R.fire(f'loop counter: `{var}` hoisted and renamed to iora_lv1', 1)
            return t[:i] + decl + [x, t[i + 1]] + new_hdr + [t[rp]] + ren(t[rp + 1:end + 1]) + t[end + 1:]
    raise ExtractionBreak("readAvail: no loop found")
