// REPLAY adapter for unit tcp_read: drives the REAL TcpEngine::readAvail with the scenario found by the bounded SEARCH harness (post.c,
// h_search) and evaluates the contract clauses natively.
//   engine constructed without start(); Session emplaced by hand (-fno-access-control); recv / SSL_read / SSL_get_error / ERR_get_error /
//   SSL_shutdown / SSL_free / epoll_ctl are defined here and interpose libc / libssl for the engine code compiled into this executable.
// Inputs: SCR (hex bytes, one per recv/SSL_read call: FF would block (TLS: WANT_READ), FD TLS: WANT_WRITE, FE fatal, 00 EOF, k = min(k,len) bytes),
//         MODE (0 plain, 1 TLS established), HASCB, CHUNK (ioReadChunk), REARM (1 = only clause R8)
#include "iora/network/detail/tcp_engine.hpp"
#include "replay_io.h"
#include <sys/epoll.h>
using namespace iora::network;
static std::vector<uint8_t> script; static size_t sp = 0;
static size_t received = 0; static int recv_calls = 0, sslr_calls = 0, pos_reads = 0, last_kind = 0 /*1 data 2 eof 3 again 4 error*/, last_ssl_err = 0;
static int ep_op = -1, ep_fd = -1; static uint32_t ep_events = 0; static unsigned tick = 0, last_read_tick = 0;
static uint8_t stream_byte(size_t pos) { return (uint8_t)(pos * 7 + 3); }
static long answer(void *buf, size_t len, bool tls) {
  last_read_tick = ++tick;
  if (len == 0) replay_io::fail("R0 read called with length 0");
  uint8_t c = sp < script.size() ? script[sp] : 0xFF; sp++;
  if (c == 0xFF) { last_kind = 3; last_ssl_err = SSL_ERROR_WANT_READ; errno = EAGAIN; return -1; }
  if (c == 0xFD) { last_kind = 3; last_ssl_err = SSL_ERROR_WANT_WRITE; errno = EAGAIN; return -1; }
  if (c == 0xFE) { last_kind = 4; last_ssl_err = SSL_ERROR_SSL; errno = ECONNRESET; return -1; }
  if (c == 0) { last_kind = 2; last_ssl_err = SSL_ERROR_ZERO_RETURN; return tls ? 0 : 0; }
  size_t k = (size_t)c < len ? (size_t)c : len;
  for (size_t i = 0; i < k; i++) ((uint8_t *)buf)[i] = stream_byte(received + i);
  received += k; pos_reads++; last_kind = 1; return (long)k;
}
extern "C" ssize_t recv(int, void *buf, size_t len, int) { recv_calls++; return answer(buf, len, false); }
extern "C" int SSL_read(SSL *, void *buf, int num) { sslr_calls++; if (num <= 0) replay_io::fail("R0 SSL_read called with num <= 0"); return (int)answer(buf, (size_t)num, true); }
extern "C" int SSL_get_error(const SSL *, int) { return last_ssl_err; }
extern "C" int SSL_pending(const SSL *) { return 0; }      // nothing decrypted and unread inside OpenSSL; the script still holds further records "in the kernel"
extern "C" unsigned long ERR_get_error(void) { return 0; }
extern "C" int SSL_shutdown(SSL *) { return 1; }
extern "C" void SSL_free(SSL *) {}
extern "C" int epoll_ctl(int, int op, int fd, struct epoll_event *ev) { ep_op = op; ep_fd = fd; ep_events = ev ? ev->events : 0; return 0; }

int main(int argc, char **argv) {
  if (argc < 2) { printf("usage: replay <inputs>\n"); return 2; }
  auto in = replay_io::load(argv[1]);
  script = replay_io::bytes(in["SCR"]);
  size_t MODE = replay_io::u64(in["MODE"]), HASCB = replay_io::u64(in["HASCB"]), CHUNK = replay_io::u64(in["CHUNK"]), REARM = in.count("REARM") ? replay_io::u64(in["REARM"]) : 0;
  if (CHUNK == 0) CHUNK = 1;
  TransportConfig cfg; cfg.enableHighResolutionTimers = false; cfg.ioReadChunk = CHUNK;
  TcpEngine eng(cfg);
  std::vector<uint8_t> delivered; unsigned dcb_calls = 0, closes = 0, close_tick = 0, last_dcb_tick = 0; SessionId dcb_sid = 0, close_sid = 0; TransportError close_why = TransportError::None;
  if (HASCB) eng._cbs.onData = [&](SessionId sid, iora::core::BufferView v, std::chrono::steady_clock::time_point) { dcb_calls++; dcb_sid = sid; last_dcb_tick = ++tick; delivered.insert(delivered.end(), v.data(), v.data() + v.size()); };
  eng._cbs.onClose = [&](SessionId sid, const TransportErrorInfo &e) { closes++; close_sid = sid; close_why = e.code; close_tick = ++tick; };
  auto up = std::make_unique<TcpEngine::Session>(); up->id = 7; up->fd = 1000;
  up->tlsMode = MODE == 0 ? TlsMode::None : TlsMode::Client; up->tlsState = MODE == 0 ? TcpEngine::TlsState::None : TcpEngine::TlsState::Open; up->ssl = MODE == 0 ? nullptr : (SSL *)0x1000;
  TcpEngine::Session *s = up.get();
  eng._sessions.emplace(7, std::move(up));
  eng._atomicStats.sessionsCurrent = 1;
  eng.readAvail(s);
  auto it = eng._sessions.find(7);
  bool open = it != eng._sessions.end() && !it->second->closed;
  if (REARM) {
    if (open && MODE == 1 && last_ssl_err == SSL_ERROR_WANT_WRITE && last_kind == 3 && !(ep_op == EPOLL_CTL_MOD && ep_fd == 1000 && (ep_events & EPOLLOUT)))
      replay_io::fail("R8 SSL_read answered WANT_WRITE but EPOLLOUT is not registered (interest mask 0x" + [&]{ char b[16]; snprintf(b, sizeof b, "%x", ep_events); return std::string(b); }() + "): lost re-arm");
    replay_io::ok("R8 holds on this scenario"); return 0;
  }
  if (HASCB) {
    if (delivered.size() != received) replay_io::fail("R1 delivered " + std::to_string(delivered.size()) + " of " + std::to_string(received) + " received bytes");
    for (size_t i = 0; i < delivered.size(); i++) if (delivered[i] != stream_byte(i)) replay_io::fail("R1 delivered byte " + std::to_string(i) + " is not stream byte " + std::to_string(i));
    if ((int)dcb_calls != pos_reads) replay_io::fail("R2 " + std::to_string(dcb_calls) + " callbacks for " + std::to_string(pos_reads) + " successful reads");
    if (dcb_calls && dcb_sid != 7) replay_io::fail("R2 callback with a foreign session id");
  } else if (dcb_calls) replay_io::fail("R2 callback without a registered callback?");
  if (open) {
    if (closes) replay_io::fail("R5 close reported but the session is open");
    if (last_kind != 3) replay_io::fail("R3 open session left without a would-block answer (edge-triggered drain incomplete)");
  } else {
    if (it != eng._sessions.end()) replay_io::fail("R5 closed but still in the table");
    if (closes != 1 || close_sid != 7) replay_io::fail("R5 close callback count " + std::to_string(closes));
    if (close_tick < last_read_tick || close_tick < last_dcb_tick) replay_io::fail("R5 something was read or delivered after the close");
    if ((close_why == TransportError::PeerClosed) != (last_kind == 2)) replay_io::fail("R4 PeerClosed <=> EOF");
    if (close_why != TransportError::PeerClosed && close_why != (MODE ? TransportError::TLSIO : TransportError::Socket)) replay_io::fail("R4 close reason");
  }
  if (MODE == 0 ? sslr_calls != 0 : recv_calls != 0) replay_io::fail("R6 wrong read primitive for the session's TLS mode");
  if (eng._atomicStats.bytesIn.load() != received) replay_io::fail("R7 bytesIn != bytes received");
  replay_io::ok("contract clauses hold on this scenario (received " + std::to_string(received) + " bytes in " + std::to_string(pos_reads) + " reads, " + (open ? "open" : "closed") + ")");
  return 0;
}
