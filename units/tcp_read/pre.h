/* type environment + ghost state + loop contract for unit tcp_read (TcpEngine::readAvail, with the real updateInterest / modEpoll) */
#include "iora_tcp_env.h"

unsigned G_close_calls, G_close_seq; SessionId G_close_sid; TransportError G_close_why;
/* stream positions / chunk size < 2^31: the `(int)buf.size()` narrowing is exact (assumption, see NOTES.md) */
#define POS_BOUND ((size_t)1 << 31)
#define TLS_INV(s) ((((s)->tlsMode == TlsMode_None) == ((s)->tlsState == TlsState_None)) && ((s)->tlsMode == TlsMode_None || (s)->ssl != NULL) \
                    && (s)->tlsMode >= TlsMode_None && (s)->tlsMode <= TlsMode_Client && (s)->tlsState >= TlsState_None && (s)->tlsState <= TlsState_Open)
#define TLS_HANDSHAKING(s) ((s)->tlsMode != TlsMode_None && (s)->tlsState == TlsState_Handshake)

/* closeNow: abstraction of the contract proved in unit tcp_close; the erase DESTROYS the session (use after close = pointer obligation) */
static inline void TcpEngine_closeNow(TcpEngine *self, Session *s, TransportError why, const char *msg, int tlsErr)
{
  (void)msg; (void)tlsErr;
  if (!s || s->closed) return;
  s->closed = true;
  G_close_sid = s->id; G_close_why = why; G_close_seq = ++G_seq;
  if (G_close_calls < 0x7fffffffu) G_close_calls++;
#ifdef TCP_READ_DFCC
  if (s->id == iora_sessmap_GKEY) self->_sessions.has = 0;      /* DFCC build: loop contracts have no frees clause, the object stays */
#else
  iora_sessmap_erase(&self->_sessions, s->id);
#endif
}
/* virtual test hooks (B6): any answer, no side effect on the engine */
bool IORA_HOOK_ALLOWS;          /* SEARCH build sets it: the default hook (returns true), as in the replay executable */
bool G_hook_veto;               /* the test hook vetoed a read in this call */
static inline bool TcpEngine_beforeSslRead(TcpEngine *self, SessionId sid) { (void)self; (void)sid; bool ok = IORA_HOOK_ALLOWS ? 1 : nondet_bool(); if (!ok) G_hook_veto = 1; return ok; }
static inline const char *TcpEngine_getInjectedErrorMessage(TcpEngine *self) { (void)self; return "injected"; }
static inline int TcpEngine_getInjectedSslError(TcpEngine *self) { (void)self; return nondet_int(); }
static inline const char *TcpEngine_lastErr(TcpEngine *self) { (void)self; return "errno text"; }

/* R21: the data callback. The view must be the front of the buffer that was just filled, no longer than what was received, and it must
 * start at the next undelivered position of the read stream (in order, exactly once). ASSUMPTION A: user code re-enters the engine
 * only through the command-queue API (it cannot close the session synchronously). */
unsigned G_dcb_calls, G_dcb_seq; SessionId G_dcb_sid;
static inline void iora_cb_onData(TcpEngine *self, SessionId sid, iora_wptr p, size_t n, MonoTime t)
{
  (void)t;
  IORA_ASSERT(!self->_cbMutex.held, "CB1 user callback runs outside _cbMutex (copy-then-invoke)");
  IORA_ASSERT(n >= 1 && n <= p.b->len, "R1 the view handed to the application is not longer than what was received into the buffer");
  IORA_ASSERT(p.b->lo == G_delivered, "R1 the view starts at the next undelivered byte of the read stream (nothing skipped, duplicated or reordered)");
  IORA_ASSERT(p.b->lo + n == G_received, "R1 the view ends at the last received byte (nothing received is left behind)");
  G_delivered += n;
  G_dcb_calls++;                 /* wraps (compared modulo 2^32 with G_rd_pos_calls: the loop is unbounded) */
  G_dcb_seq = ++G_seq; G_dcb_sid = sid;
}

#define READ_GHOSTS G_received, G_delivered, G_recv_calls, G_sslr_calls, G_rd_pos_calls, G_rd_last, G_errno, G_ssl_last_ret, G_ssl_last_err, \
                    G_close_calls, G_close_seq, G_close_sid, G_close_why, G_hook_veto, G_dcb_calls, G_dcb_seq, G_dcb_sid, IORA_EPOLL_GHOSTS

/* loop 1 of readAvail: `for (;;)`. No variant: the loop runs as long as the kernel has data (termination is the peer's choice). */
#define IORA_LOOP_TcpEngine_readAvail_1 IORA_LC( \
  __CPROVER_assigns(iora_lv1 /* the loop counter, if the text has one (plugin.py) */, s->tlsWantWrite, s->lastActivity, s->closed, self->_sessions.has, self->_cbMutex.held, self->_atomicStats.bytesIn, READ_GHOSTS) \
  __CPROVER_loop_invariant(!s->closed && self->_sessions.has && !self->_cbMutex.held && G_close_calls == __CPROVER_loop_entry(G_close_calls)) \
  __CPROVER_loop_invariant(self->_atomicStats.bytesIn - __CPROVER_loop_entry(self->_atomicStats.bytesIn) == G_received - __CPROVER_loop_entry(G_received)) \
  __CPROVER_loop_invariant(self->_cbs.onData ? (G_delivered == G_received && G_dcb_calls - __CPROVER_loop_entry(G_dcb_calls) == G_rd_pos_calls - __CPROVER_loop_entry(G_rd_pos_calls)) \
                                             : (G_delivered == __CPROVER_loop_entry(G_delivered) && G_dcb_calls == __CPROVER_loop_entry(G_dcb_calls))) \
  __CPROVER_loop_invariant(G_dcb_calls == __CPROVER_loop_entry(G_dcb_calls) || G_dcb_sid == s->id) \
  __CPROVER_loop_invariant(s->tlsMode == TlsMode_None ? G_sslr_calls == __CPROVER_loop_entry(G_sslr_calls) : G_recv_calls == __CPROVER_loop_entry(G_recv_calls)) \
  __CPROVER_loop_invariant(G_ep_mods == __CPROVER_loop_entry(G_ep_mods) && s->tlsWantWrite == __CPROVER_loop_entry(s->tlsWantWrite)) \
  __CPROVER_loop_invariant((G_rd_last == 0 || G_rd_last == IORA_RD_DATA) && !G_hook_veto))
