/* Contract of the TCP read path, written from property C01 (read direction) and C02 ("nothing is delivered after the close").
 *
 *  R0  every recv()/SSL_read() gets a length within the buffer, >= 1                                   (asserted INSIDE the stubs)
 *  R1  every byte taken from the kernel/OpenSSL is handed to the data callback exactly once, in order: the callback's view is the front of
 *      the buffer just filled, ends at the last received byte and starts at G_delivered (asserted INSIDE the callback stub);
 *      at every exit G_delivered == G_received (when a data callback is registered)
 *  R2  exactly one callback per read that returned n > 0, with this session's id, outside _cbMutex
 *  R3  edge-triggered drain: an exit that leaves the session open happens only after the kernel/OpenSSL said "would block"
 *      (EAGAIN/EWOULDBLOCK, WANT_READ/WANT_WRITE) - never after a successful read
 *  R4  EOF (recv 0 / SSL_ERROR_ZERO_RETURN) => closed with PeerClosed; fatal error => closed with Socket / TLSIO
 *  R5  a close is the LAST event of the call: nothing is read or delivered after it; reported exactly once for this session
 *  R6  plain TCP never calls SSL_read, an established TLS session never calls raw recv
 *  R7  bytesIn grows by exactly the bytes received
 *  R8  (separate proof) TLS: SSL_read answered WANT_WRITE => EPOLLOUT is registered (no lost re-arm)
 *  FR  frame
 */
#define CONFIG_EQ(a, b) ((a).ioReadChunk == (b).ioReadChunk && (a).maxWriteQueue == (b).maxWriteQueue && (a).closeOnBackpressure == (b).closeOnBackpressure \
  && (a).useEdgeTriggered == (b).useEdgeTriggered && (a).connectTimeout.ticks == (b).connectTimeout.ticks && (a).handshakeTimeout.ticks == (b).handshakeTimeout.ticks \
  && (a).writeStallTimeout.ticks == (b).writeStallTimeout.ticks)
#define STATS_EQ_EXCEPT_IN(a, b) ((a).accepted == (b).accepted && (a).connected == (b).connected && (a).closed == (b).closed && (a).errors == (b).errors \
  && (a).tlsHandshakes == (b).tlsHandshakes && (a).tlsFailures == (b).tlsFailures && (a).bytesOut == (b).bytesOut && (a).epollWakeups == (b).epollWakeups \
  && (a).commands == (b).commands && (a).gcRuns == (b).gcRuns && (a).gcClosedIdle == (b).gcClosedIdle && (a).gcClosedAged == (b).gcClosedAged \
  && (a).backpressureCloses == (b).backpressureCloses && (a).sessionsCurrent == (b).sessionsCurrent && (a).sessionsPeak == (b).sessionsPeak)
#define ENGINE_FRAME_OK(e, e0) (CONFIG_EQ((e)->_config, (e0)._config) && STATS_EQ_EXCEPT_IN((e)->_atomicStats, (e0)._atomicStats) && (e)->_epollFd == (e0)._epollFd \
  && !(e)->_cbMutex.held && (e)->_sessionRwMutex.held == (e0)._sessionRwMutex.held && (e)->_cbs.onClose == (e0)._cbs.onClose && (e)->_cbs.onData == (e0)._cbs.onData \
  && (e)->_sessions.val == (e0)._sessions.val && (e)->_sessions.other == (e0)._sessions.other && (e)->_fdTags.has == (e0)._fdTags.has && (e)->_fdTags.val == (e0)._fdTags.val \
  && (e)->_timerService == (e0)._timerService)
#define SESSION_FRAME_OK(s, s0) ((s)->id == (s0).id && (s)->fd == (s0).fd && (s)->tlsMode == (s0).tlsMode && (s)->ssl == (s0).ssl && (s)->tlsState == (s0).tlsState \
  && (s)->tlsStart == (s0).tlsStart && (s)->wq.n == (s0).wq.n && (s)->wq.front.lo == (s0).wq.front.lo && (s)->wq.front.hi == (s0).wq.front.hi && (s)->wq.end == (s0).wq.end \
  && (s)->wantWrite == (s0).wantWrite && (s)->created == (s0).created && (s)->connectPending == (s0).connectPending && (s)->connectStart == (s0).connectStart \
  && (s)->lastWriteProgress == (s0).lastWriteProgress && (s)->connectTimeoutId == (s0).connectTimeoutId && (s)->handshakeTimeoutId == (s0).handshakeTimeoutId \
  && (s)->writeStallTimeoutId == (s0).writeStallTimeoutId)
#define EPOLLOUT_ARMED(self, s) (G_ep_op == EPOLL_CTL_MOD && G_ep_fd == (s)->fd && G_ep_epfd == (self)->_epollFd && (G_ep_events & EPOLLOUT) != 0 && (G_ep_events & EPOLLIN) != 0)

static inline void havoc_read_ghosts(void)
{
  G_received = nondet_size_t(); G_delivered = nondet_size_t(); G_recv_calls = nondet_unsigned(); G_sslr_calls = nondet_unsigned(); G_rd_pos_calls = nondet_unsigned();
  G_rd_last = nondet_int(); G_errno = nondet_int(); G_ssl_last_ret = nondet_int(); G_ssl_last_err = nondet_int();
  G_close_calls = nondet_unsigned(); G_close_seq = nondet_unsigned(); G_close_sid = nondet_u64(); G_close_why = nondet_int();
  G_hook_veto = 0; G_dcb_calls = nondet_unsigned(); G_dcb_seq = nondet_unsigned(); G_dcb_sid = nondet_u64(); G_seq = nondet_unsigned();
  G_ep_fd = nondet_int(); G_ep_events = nondet_unsigned(); G_ep_op = nondet_int(); G_ep_epfd = nondet_int(); G_ep_mods = nondet_unsigned(); G_ep_dels = nondet_unsigned(); G_ep_seq = nondet_unsigned();
  iora_sessmap_GKEY = nondet_u64(); IORA_TRUE = 1;
}
/* precondition. Sources: s is the table entry of its id; onSession()/driveHandshake() call readAvail only when the TLS handshake is over;
 * everything received so far has been delivered (the invariant this function preserves); the read chunk is a sane size. */
#define RA_PRE_COND(self, s) ((self)->_sessions.has && (self)->_sessions.val == (s) && (s)->id == iora_sessmap_GKEY && !(s)->closed && TLS_INV(s) && !TLS_HANDSHAKING(s) \
  && G_delivered == G_received && (self)->_config.ioReadChunk >= 1 && (self)->_config.ioReadChunk < POS_BOUND && !(self)->_cbMutex.held && G_close_calls < 1000 \
  && G_ep_mods < 1000 && G_rd_last == 0 && !G_hook_veto /* ghosts: no read yet, no veto yet in this call */)

typedef struct { unsigned c, rc, sc, pc, dc, m; size_t rcv, dlv; } read_snap;
static inline read_snap snap_read(void) { read_snap g = { G_close_calls, G_recv_calls, G_sslr_calls, G_rd_pos_calls, G_dcb_calls, G_ep_mods, G_received, G_delivered }; return g; }

static void ra_post(TcpEngine *self, Session *s, const Session *s0p, const TcpEngine *E0p, const read_snap *g0p)
{
  Session s0 = *s0p; TcpEngine E0 = *E0p; read_snap g0 = *g0p;
  bool tls = s0.tlsMode != TlsMode_None;
  if (G_close_calls == g0.c)
  {
    __CPROVER_assert(!s->closed && self->_sessions.has, "R3 not closed: the session stays open and in the table");
    __CPROVER_assert(G_rd_last == IORA_RD_AGAIN, "R3 edge-triggered drain: an open session is left only after the kernel / OpenSSL reported would-block");
    __CPROVER_assert(tls ? (s->tlsWantWrite == (G_ssl_last_err == SSL_ERROR_WANT_WRITE) && G_ep_mods == g0.m + 1 && G_ep_op == EPOLL_CTL_MOD && G_ep_fd == s->fd && (G_ep_events & EPOLLIN) != 0)
                         : (s->tlsWantWrite == s0.tlsWantWrite && G_ep_mods == g0.m), "R3b TLS: what OpenSSL wants is recorded and the interest mask refreshed (EPOLLIN stays); plain TCP: mask untouched");
    __CPROVER_assert(SESSION_FRAME_OK(s, s0), "FR session fields outside tlsWantWrite / lastActivity are unchanged");
    if (tls) { IORA_CANARY("readAvail: TLS would block"); } else { IORA_CANARY("readAvail: EAGAIN"); }
  }
  else
  {
    __CPROVER_assert(G_close_calls == g0.c + 1 && G_close_sid == s0.id && !self->_sessions.has, "R5 closed exactly once, reported for this session, erased from the table");
    __CPROVER_assert(G_close_seq == G_seq, "R5 the close is the last event of the call: nothing is read or delivered after it");
    __CPROVER_assert((G_close_why == TransportError_PeerClosed) == (G_rd_last == IORA_RD_EOF), "R4 EOF <=> closed with PeerClosed");
    __CPROVER_assert(G_close_why == TransportError_PeerClosed || (tls ? G_close_why == TransportError_TLSIO : (G_close_why == TransportError_Socket && G_rd_last == IORA_RD_ERROR)),
                     "R4 otherwise a fatal I/O error (plain: Socket, TLS: TLSIO incl. a vetoing test hook)");
    __CPROVER_assert(G_close_why == TransportError_PeerClosed || G_rd_last == IORA_RD_ERROR || G_hook_veto, "R4b a session is closed for an error only after a fatal answer (never after would-block or a successful read)");
    IORA_CANARY("readAvail: closed");
  }
  __CPROVER_assert(!E0._cbs.onData || G_delivered == G_received, "R1 everything received has been delivered when the call returns");
  __CPROVER_assert(E0._cbs.onData ? (G_dcb_calls - g0.dc == G_rd_pos_calls - g0.pc) : (G_dcb_calls == g0.dc && G_delivered == g0.dlv), "R2 exactly one data callback per successful read (none when no callback is registered)");
  __CPROVER_assert(G_dcb_calls == g0.dc || G_dcb_sid == s0.id, "R2 the callback carries this session's id");
  __CPROVER_assert(self->_atomicStats.bytesIn - E0._atomicStats.bytesIn == G_received - g0.rcv, "R7 bytesIn counts exactly the bytes received");
  __CPROVER_assert(tls ? G_recv_calls == g0.rc : G_sslr_calls == g0.sc, "R6 plain TCP never calls SSL_read, an established TLS session never calls recv");
  __CPROVER_assert(ENGINE_FRAME_OK(self, E0), "FR engine state outside bytesIn/_sessions is unchanged, _cbMutex released");
}

static void ra_post_rearm(TcpEngine *self, Session *s, const Session *s0p, const read_snap *g0p)
{
  Session s0 = *s0p; read_snap g0 = *g0p;
  if (G_close_calls == g0.c && s0.tlsMode != TlsMode_None && G_ssl_last_err == SSL_ERROR_WANT_WRITE)
  {
    IORA_CANARY("readAvail: SSL_read wants write");
    __CPROVER_assert(EPOLLOUT_ARMED(self, s), "R8 SSL_read answered WANT_WRITE => EPOLLOUT is registered for the session's fd (no lost re-arm)");
  }
}

#define RA_SETUP \
  TcpEngine E; TcpEngine *self = &E; \
  Session *s = malloc(sizeof(Session)); __CPROVER_assume(s != NULL); \
  iora_canon_session(s); iora_canon_engine(self); \
  self->_sessions.val = s;        /* pointers are ASSIGNED (CBMC does not alias a nondeterministic pointer with an object) */ \
  havoc_read_ghosts(); \
  __CPROVER_assume(RA_PRE_COND(self, s)); \
  Session s0 = *s; TcpEngine E0 = E; read_snap g0 = snap_read();
void h_readAvail(void) { RA_SETUP; TcpEngine_readAvail(self, s); IORA_CANARY("h_readAvail: returns"); ra_post(self, s, &s0, &E0, &g0); }
void h_readAvail_rearm(void) { RA_SETUP; (void)E0; TcpEngine_readAvail(self, s); IORA_CANARY("h_readAvail_rearm: returns"); ra_post_rearm(self, s, &s0, &g0); }

/* ===================== DFCC form: the tool checks the assigns clause (frame) on every assignment ===================== */
void TcpEngine_readAvail_contract(TcpEngine *self, Session *s)
__CPROVER_requires(IORA_TRUE && __CPROVER_is_fresh(self, sizeof(*self)) && __CPROVER_is_fresh(s, sizeof(*s)))
__CPROVER_requires(self->_sessions.has && s->id == iora_sessmap_GKEY && !s->closed && TLS_INV(s) && !TLS_HANDSHAKING(s)
                   && G_delivered == G_received && self->_config.ioReadChunk >= 1 && self->_config.ioReadChunk < POS_BOUND && !self->_cbMutex.held && G_close_calls < 1000
                   && G_ep_mods < 1000 && G_rd_last == 0 && !G_hook_veto)
__CPROVER_assigns(s->tlsWantWrite, s->lastActivity, s->closed, self->_sessions.has, self->_cbMutex.held, self->_atomicStats.bytesIn, READ_GHOSTS)
/* R1 */ __CPROVER_ensures(self->_cbs.onData ==> G_delivered == G_received)
/* R3 */ __CPROVER_ensures(G_close_calls == __CPROVER_old(G_close_calls) ==> (!s->closed && G_rd_last == IORA_RD_AGAIN))
/* R5 */ __CPROVER_ensures(G_close_calls != __CPROVER_old(G_close_calls) ==> (G_close_calls == __CPROVER_old(G_close_calls) + 1 && G_close_seq == G_seq && !self->_sessions.has))
/* R7 */ __CPROVER_ensures(self->_atomicStats.bytesIn - __CPROVER_old(self->_atomicStats.bytesIn) == G_received - __CPROVER_old(G_received))
;
void h_readAvail_dfcc(void) { TcpEngine *self; Session *s; TcpEngine_readAvail(self, s); IORA_CANARY("h_readAvail_dfcc: returns"); }

#ifdef IORA_SEARCH
/* SEARCH: the same function and the same clauses on a small CONCRETE scenario (bounded; only used to obtain an input for REPLAY).
 *   MODE 0 = plain TCP, 1 = TLS established;  HASCB data callback registered;  CHUNK = ioReadChunk (1..4);  REARM 1 = check clause R8
 *   SCR: one byte per recv / SSL_read call: 0xFF would block (TLS: WANT_READ), 0xFD TLS: WANT_WRITE, 0xFE fatal, 0x00 EOF, k = min(k, len) bytes */
void h_search(void)
{
  uint8_t SCR[8]; IORA_NONDET_BYTES(SCR, 8);
  size_t MODE = nondet_size_t(), HASCB = nondet_size_t(), CHUNK = nondet_size_t(), REARM = nondet_size_t();
  __CPROVER_assume(MODE <= 1 && HASCB <= 1 && CHUNK >= 1 && CHUNK <= 4 && REARM <= 1);
  __CPROVER_assume(MODE == 1 || (SCR[0] != 0xFD && SCR[1] != 0xFD && SCR[2] != 0xFD && SCR[3] != 0xFD && SCR[4] != 0xFD && SCR[5] != 0xFD && SCR[6] != 0xFD && SCR[7] != 0xFD));
  for (unsigned i = 0; i < 8; i++) IORA_ENV_SCRIPT[i] = SCR[i];
  IORA_ENV_i = 0; IORA_TRUE = 1; IORA_HOOK_ALLOWS = 1;
  /* statics are nondeterministic (--nondet-static): the concrete scenario starts every ghost at 0 */
  G_received = 0; G_delivered = 0; G_recv_calls = 0; G_sslr_calls = 0; G_rd_pos_calls = 0; G_rd_last = 0; G_errno = 0; G_ssl_last_ret = 0; G_ssl_last_err = 0;
  G_close_calls = 0; G_close_seq = 0; G_close_sid = 0; G_close_why = 0; G_hook_veto = 0; G_dcb_calls = 0; G_dcb_seq = 0; G_dcb_sid = 0; G_seq = 0;
  G_ep_fd = 0; G_ep_events = 0; G_ep_op = 0; G_ep_epfd = 0; G_ep_mods = 0; G_ep_dels = 0; G_ep_seq = 0; G_env_kind = 0; G_ssl_last_op = 0; G_ssl_fatal = 0;
  TcpEngine E = {0}; TcpEngine *self = &E;
  Session *s = malloc(sizeof(Session)); __CPROVER_assume(s != NULL);
  Session z = {0}; *s = z;
  s->id = 7; s->fd = 1000; iora_sessmap_GKEY = 7; self->_sessions.has = 1; self->_sessions.val = s; self->_epollFd = 5;
  s->tlsMode = MODE == 0 ? TlsMode_None : TlsMode_Client; s->tlsState = MODE == 0 ? TlsState_None : TlsState_Open; s->ssl = MODE == 0 ? NULL : (SSL *)s;
  self->_config.ioReadChunk = CHUNK; self->_config.useEdgeTriggered = 1; self->_cbs.onData = HASCB != 0;
  Session s0 = *s; TcpEngine E0 = E; read_snap g0 = snap_read();
  TcpEngine_readAvail(self, s);
  if (REARM) ra_post_rearm(self, s, &s0, &g0); else ra_post(self, s, &s0, &E0, &g0);
}
#endif
