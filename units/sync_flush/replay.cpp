// REPLAY adapter for unit sync_flush: the REAL Transport over a scripted engine. SCEN 1: bytes AB are buffered in Sync mode; setReadMode(Async) flushes them; WHILE the
// application's data callback is still running with AB, the I/O thread receives CD (the engine's onData is invoked from inside the callback - no Transport lock is held
// there, so this is exactly the interleaving with a concurrent I/O thread). Oracle (C01/C03): the callback is never entered while it is running for the session (DL1),
// and the bytes it receives are ABCD in order (DL2 / F3); afterwards EF arrives and is delivered directly, behind them (F3d).
#include "../sync_ondata/scripted_engine.h"
#include "replay_io.h"
int main(int argc, char **argv) {
  auto in = replay_io::load(argv[1]); int scen = in.count("SCEN") ? (int)replay_io::u64(in["SCEN"]) : 1;
  auto eng = std::make_unique<ScriptedEngine>(); ScriptedEngine *e = eng.get();
  auto t = Transport::withEngine(std::move(eng), TransportConfig{});
  if (scen == 2) {
    // clause F0: bytes buffered in Sync mode survive a Sync -> Disabled pause; Disabled -> Async must hand them to the callback before later bytes
    std::string g; t->onData([&](SessionId, iora::core::BufferView d, std::chrono::steady_clock::time_point) { g.append((const char *)d.data(), d.size()); });
    t->setReadMode(7, ReadMode::Sync);
    e->cbs.onData(7, iora::core::BufferView((const uint8_t *)"AB", 2), std::chrono::steady_clock::now());
    t->setReadMode(7, ReadMode::Disabled); t->setReadMode(7, ReadMode::Async);
    e->cbs.onData(7, iora::core::BufferView((const uint8_t *)"CD", 2), std::chrono::steady_clock::now());
    printf("Sync; AB buffered; setReadMode(Disabled); setReadMode(Async); CD -> application received \"%s\"\n", g.c_str());
    if (g != "ABCD") replay_io::fail("F0 (C01): the switch to Async took the simple path although bytes were still buffered: hole / reorder in what the application receives");
    replay_io::ok("buffered bytes flushed before later bytes"); return 0;
  }
  const SessionId sid = 7; std::string got; int depth = 0, maxDepth = 0; bool injected = false; ReadMode modeDuring = ReadMode::Async;
  t->onData([&](SessionId, iora::core::BufferView d, std::chrono::steady_clock::time_point) {
    depth++; maxDepth = std::max(maxDepth, depth);
    std::string chunk((const char *)d.data(), d.size());
    if (!injected) { injected = true; t->getReadMode(sid, modeDuring);
      e->cbs.onData(sid, iora::core::BufferView((const uint8_t *)"CD", 2), std::chrono::steady_clock::now()); }     // the I/O thread, while we are still "processing" AB
    got += chunk;                                                                                                   // the application finishes processing this chunk
    depth--; });
  t->setReadMode(sid, ReadMode::Sync);
  e->cbs.onData(sid, iora::core::BufferView((const uint8_t *)"AB", 2), std::chrono::steady_clock::now());
  t->setReadMode(sid, ReadMode::Async);
  e->cbs.onData(sid, iora::core::BufferView((const uint8_t *)"EF", 2), std::chrono::steady_clock::now());
  printf("Sync; AB buffered; setReadMode(Async) [CD arrives while the callback runs with AB]; EF -> application completed \"%s\"; max callback nesting %d; mode seen by the I/O thread during the flush callback: %s\n",
         got.c_str(), maxDepth, modeDuring == ReadMode::Sync ? "Sync" : modeDuring == ReadMode::Async ? "Async" : "Disabled");
  if (maxDepth > 1) replay_io::fail("DL1/F1: the data callback was entered for the session while it was still running (mode was already Async during the flush delivery)");
  if (got != "ABCDEF") replay_io::fail("DL2/F3: the application did not receive the bytes in stream order, each exactly once");
  replay_io::ok("ordered flush: buffered bytes first, concurrent arrivals buffered behind them, then direct delivery");
  return 0;
}
