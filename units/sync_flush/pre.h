/* unit sync_flush (C01 / C03): the Sync->Async ordered flush of Transport::setReadMode against a GHOST STREAM of the bytes handed to the application's data
 * callback, with the I/O thread's REAL onData handler (extracted here too) as the environment that runs while the flushing thread is inside the callback.
 * Type environment: shims/iora_tsync.h.  */
_Static_assert(ReadMode_Async == 0, "ReadMode::Async is the value-initialised ReadMode");
typedef SyncReceiveBuffer *SyncReceiveBufferP;
Impl *G_impl;
/* ---- ghost stream of ONE session (the witness session): position = index of a byte in the order the engine handed it to the Transport.
 *   G_arrived   bytes the engine has handed to onData so far            (next chunk starts here)
 *   G_delivered bytes handed to the application's data callback so far  (every delivery must start exactly here: in order, no gap, no overlap)
 *   G_in_cb     a data callback for the session is running              (a second one must not start: the callback never runs on two threads at once) */
size_t G_arrived, G_delivered; bool G_in_cb; unsigned G_flush_cbs, G_direct_cbs; SessionId G_sid;
static inline iora_time iora_now(void) { iora_time t = { 0 }; return t; }
static inline iora_chunk iora_mk_chunk(iora_spos p, size_t n) { iora_chunk c = { p, n }; return c; }
static inline void iora_rmmap_havoc_other(iora_rmmap *m) { m->other = nondet_u8(); }
static inline void iora_rbmap_havoc_other(iora_rbmap *m)
{ SyncReceiveBuffer *o = m->other; o->data.lo = nondet_size_t(); o->data.hi = nondet_size_t(); o->hasData = nondet_bool(); o->closed = nondet_bool(); o->waiters = nondet_size_t();
  o->flushing = nondet_bool(); o->overflow = nondet_bool(); IORA_ASSUME(o->data.lo <= o->data.hi && o->hasData == (o->data.hi > o->data.lo)); }
static inline void iora_pcmap_havoc_other(iora_pcmap *m) { (void)m; }

SyncReceiveBuffer *G_fresh; unsigned G_made;
static inline SyncReceiveBuffer *iora_make_srb(Impl *im)
{ IORA_ASSERT(G_made == 0, "at most one allocation per call"); G_made++; SyncReceiveBuffer *b = G_fresh; b->data.lo = G_arrived; b->data.hi = G_arrived; b->data.guard = &im->syncMutex; b->guard = &im->syncMutex;
  b->cv.n_one = 0; b->cv.n_all = 0; b->hasData = false; b->closed = false; b->waiters = 0; b->flushing = false; b->overflow = false; return b; }
void Impl_onData(Impl *self, SessionId sid, iora_chunk data, iora_time receiveTime);
#define MODE_OF_(im) ((im)->readModes.present ? (im)->readModes.wval : ReadMode_Async)
#define DELIVER(data) do { \
  IORA_ASSERT(!G_in_cb, "DL1 no other delivery for this session is in progress (the data callback never runs on two threads at once)"); \
  IORA_ASSERT((data).pos == G_delivered, "DL2 the first byte delivered is stream position G_delivered: in order, no gap, no overlap - each byte exactly once"); } while (0)
/* the I/O thread's data callback invocation (Async branch of onData): a DIRECT delivery */
static inline void iora_call_DataCallback_io(Impl *im, iora_fn f, SessionId sid, iora_chunk data, iora_time t)
{
  (void)t; (void)sid;
  IORA_ASSERT(f.set && !im->syncMutex.held && !im->callbackMutex.held, "CB1/CB2 callback set, no Transport lock held");
  DELIVER(data);
  G_delivered += data.n; if (G_direct_cbs < 1000) G_direct_cbs++;
}
/* ENVIRONMENT while no Transport lock is held by the flushing thread: the I/O thread may receive the next bytes of the session and run the REAL onData handler */
static inline void io_thread_may_deliver(Impl *im)
{
  if (nondet_bool())
  {
    iora_chunk c; c.pos = G_arrived; c.n = nondet_size_t(); iora_time t = { 0 };
    IORA_ASSUME(c.n >= 1 && c.n <= ((size_t)1 << 40) && G_arrived <= STREAM_LIMIT - c.n);
    /* this unit follows a stream without overflow (a chunk beyond maxSyncReceiveBuffer is dropped and reported to the SYNC reader only: sync_ondata O1/O2) */
    IORA_ASSUME(im->receiveBuffers.wval->data.hi - im->receiveBuffers.wval->data.lo <= im->config.maxSyncReceiveBuffer && c.n <= im->config.maxSyncReceiveBuffer - (im->receiveBuffers.wval->data.hi - im->receiveBuffers.wval->data.lo));
    bool disabled = MODE_OF_(im) == ReadMode_Disabled || (MODE_OF_(im) == ReadMode_Async && !im->onDataCb.set);   /* likewise bytes arriving in Async mode with NO data callback registered have no recipient */       /* `a disabled session delivers nothing`: bytes arriving in Disabled mode are discarded by design and are not part of the deliverable stream */
    Impl_onData(im, G_sid, c, t);
    if (!disabled) G_arrived += c.n;
    /* ghost re-basing: an EMPTY vector has no stream position of its own; it is placed at the current end of the stream (it is where the next Sync-mode append goes) */
    if (im->receiveBuffers.present && im->receiveBuffers.wval->data.lo == im->receiveBuffers.wval->data.hi) { im->receiveBuffers.wval->data.lo = G_arrived; im->receiveBuffers.wval->data.hi = G_arrived; }
  }
}
/* the flushing thread's data callback invocation: a delivery of buffered bytes, during which the I/O thread keeps running */
static inline void iora_call_DataCallback_flush(Impl *im, iora_fn f, SessionId sid, iora_chunk data, iora_time t)
{
  (void)t; (void)sid;
  IORA_ASSERT(f.set && !im->syncMutex.held && !im->callbackMutex.held, "CB1/CB2 callback set, no Transport lock held");
  DELIVER(data);
  G_in_cb = 1;
  io_thread_may_deliver(im);              /* the application is still inside onData with the old bytes */
  G_in_cb = 0;
  G_delivered += data.n; if (G_flush_cbs < 1000) G_flush_cbs++;
}
/* FlushGuard binding (as in unit transport_teardown) */
typedef struct { bool engaged; iora_mutex *m_ref; size_t *af_ref; iora_cv *teardownCv; SyncReceiveBuffer *buf; } iora_flushguard;
static inline void FlushGuard_ctor_body(iora_flushguard *self);
static inline void FlushGuard_dtor(iora_flushguard *self);
static inline size_t *iora_fg_counter(iora_flushguard *g) { IORA_ASSERT(g->m_ref->held, "LK3 activeFlushes modified with syncMutex held"); return g->af_ref; }
static inline void iora_flushguard_reset(iora_flushguard *g) { g->engaged = 0; g->m_ref = 0; g->af_ref = 0; g->teardownCv = 0; g->buf = 0; }
static inline void iora_flushguard_engage(iora_flushguard *g, iora_mutex *m, size_t *af, iora_cv *tcv, SyncReceiveBuffer *b)
{ g->engaged = 1; g->m_ref = m; g->af_ref = af; g->teardownCv = tcv; g->buf = b; FlushGuard_ctor_body(g); }

/* LOOP INVARIANT of the flush (holds whenever the flushing thread holds no lock between two iterations):
 *   the session's buffer is registered and marked flushing (receiveSync refuses: no second consumer), its read mode is NOT Async (the I/O thread buffers - or drops, if
 *   Disabled - but never delivers directly), no delivery is in progress, everything in front of the buffer has been delivered (G_delivered == lo: nothing in flight),
 *   the buffer ends where the stream ends (hi == G_arrived: nothing lost), monitor invariant of the buffer */
#define MODE_OF(im) ((im)->readModes.present ? (im)->readModes.wval : ReadMode_Async)
#define FLUSH_LI(im, b) ((im)->receiveBuffers.present && (im)->receiveBuffers.wval == (b) && (b)->flushing && MODE_OF(im) == ReadMode_Sync && !G_in_cb \
  && G_delivered == (b)->data.lo && (b)->data.hi == G_arrived && !(b)->overflow && !(b)->closed && !(im)->shuttingDown && SRB_INV(b, G_arrived, (im)->shuttingDown, (im)->config.maxSyncReceiveBuffer))

/* DATA INVARIANT of a session that is not being flushed (holds whenever no lock is held and no flush is in progress):
 *   the buffer (if any) starts at G_delivered and ends at G_arrived (nothing in flight, nothing lost), and  mode == Async  ==>  the buffer is EMPTY.
 * The real onData establishes it: it appends only when mode == Sync; in Async it delivers directly (buffer stays empty); in Disabled it neither appends nor delivers
 * (proof data_invariant). So the buffer can be non-empty exactly when the mode is Sync - or Disabled after a Sync phase. */
#define DATA_INV(im, b) (!(im)->receiveBuffers.present ? G_delivered == G_arrived : \
  ((im)->receiveBuffers.wval == (b) && !(b)->flushing && !(b)->overflow && !(b)->closed && G_delivered == (b)->data.lo && (b)->data.hi == G_arrived \
   && SRB_INV(b, G_arrived, (im)->shuttingDown, (im)->config.maxSyncReceiveBuffer) && (MODE_OF(im) != ReadMode_Async || (b)->data.lo == (b)->data.hi)))
