"""Unit-local extraction plugin (shared text for sync_ondata / sync_receive / sync_connect): RAII scope exit (R11).

Declared rules turn `std::lock_guard<std::mutex> lk(M);` / `std::unique_lock<std::mutex> lk(M);` into
`iora_ulock lk = iora_ulock_make(&M);` and `Impl::ParkGuard g(c, cv);` into `iora_parkguard g = iora_parkguard_make(&c, &cv);`.
C has no destructors, so this hook makes every scope exit of such an object explicit, for guards declared in ANY block:

  * every `return E;` lexically after the declaration and inside the declaring block becomes
        { RET iora_rv_<g> = E; <dtor>(&g); return iora_rv_<g>; }      (E is evaluated BEFORE the guard is released, as in C++)
  * every `break;` / `continue;` that leaves the declaring block (i.e. not inside a loop nested in that block) is preceded by the dtor
  * the dtor call is inserted before the closing brace of the declaring block (or at the end of the function body)

Guards are processed in reverse declaration order, so that objects declared later are destroyed first (C++ order).
Nothing is dropped or reordered; only destructor calls are added. `goto`, `do`, unbraced loop bodies containing break/continue
are outside the subset (extraction break)."""
from vt.lexer import Tok, match_close
from vt.x2c import ExtractionBreak

GUARD_TYPES = {'iora_ulock': 'iora_ulock_dtor', 'iora_parkguard': 'iora_parkguard_dtor', 'iora_flushguard': 'iora_flushguard_dtor'}


def _plain(x):
    return x.kind not in ('str', 'chr', 'expr')


def _find_decls(t):
    res = []
    for i, x in enumerate(t):
        if x.kind == 'id' and x.text in GUARD_TYPES and i + 2 < len(t) and t[i + 1].kind == 'id' and t[i + 2].text == '=':
            res.append(i)
    return res


def _block_end(t, i):
    """index of the `}` closing the block that contains position i, or len(t) for the function body"""
    d = 0
    for j in range(i, len(t)):
        if not _plain(t[j]):
            continue
        if t[j].text == '{':
            d += 1
        elif t[j].text == '}':
            if d == 0:
                return j
            d -= 1
    return len(t)


def _dtor(fn, name, L):
    return [Tok('id', fn, L, final=True), Tok('op', '(', L), Tok('op', '&', L), Tok('id', name, L, final=True), Tok('op', ')', L), Tok('op', ';', L)]


def _one_guard(t, rw, decl, rett):
    ty, name = t[decl].text, t[decl + 1].text
    fn = GUARD_TYPES[ty]
    send = rw._stmt_end(t, decl)
    bend = _block_end(t, send + 1)
    out = list(t[:send + 1])
    i = send + 1
    n = 0
    loops = []          # stack of closing-brace indices of loops/switches nested inside the guard's block
    while i < bend:
        x = t[i]
        while loops and i > loops[-1]:
            loops.pop()
        if _plain(x) and x.kind == 'id' and x.text in ('for', 'while', 'switch') and t[i + 1].text == '(':
            rp = match_close(t, i + 1)
            if t[rp + 1].text == '{':
                loops.append(match_close(t, rp + 1))
            elif t[rp + 1].text != ';':
                e = rw._stmt_end(t, rp + 1)
                if any(y.kind == 'id' and y.text in ('break', 'continue') for y in t[rp + 1:e]):
                    raise ExtractionBreak(f"{rw.prefix}: break/continue in an unbraced loop body inside a guarded scope (line {x.line})")
        if _plain(x) and x.kind == 'id' and x.text in ('goto', 'do'):
            raise ExtractionBreak(f"{rw.prefix}: `{x.text}` inside a guarded scope is outside the subset (line {x.line})")
        if _plain(x) and x.kind == 'id' and x.text == 'return':
            end = rw._stmt_end(t, i)
            L = x.line
            expr = t[i + 1:end]
            if rett == 'void' or not expr:
                out += [Tok('op', '{', L)] + _dtor(fn, name, L) + [Tok('id', 'return', L, final=True), Tok('op', ';', L), Tok('op', '}', L)]
            else:
                rv = 'iora_rv_' + name
                out += [Tok('op', '{', L)] + [Tok('id', w, L, final=True) for w in rett.split()] + [Tok('id', rv, L, final=True), Tok('op', '=', L)] + expr + [Tok('op', ';', L)]
                out += _dtor(fn, name, L) + [Tok('id', 'return', L, final=True), Tok('id', rv, L, final=True), Tok('op', ';', L), Tok('op', '}', L)]
            n += 1
            i = end + 1
            continue
        if _plain(x) and x.kind == 'id' and x.text in ('break', 'continue') and not loops and t[i + 1].text == ';':
            L = x.line
            out += [Tok('op', '{', L)] + _dtor(fn, name, L) + [x, t[i + 1], Tok('op', '}', L)]
            n += 1
            i += 2
            continue
        out.append(x)
        i += 1
    L = t[bend - 1].line if bend > 0 else 0
    if not (bend == len(t) and rett != 'void' and False):
        out += _dtor(fn, name, L)
        n += 1
    out += t[bend:]
    rw.R.fire('R11 scope exit', n)
    return out


def hook_before_loops(t, rw):
    cdecl = rw.fn['cdecl'].strip()
    rett = cdecl.split(rw.fn.get('cname', rw.fn['name']))[0].replace('static', '').replace('inline', '').strip()
    k = len(_find_decls(t))
    # reverse declaration order: the guard declared last is destroyed first
    for idx in range(k - 1, -1, -1):
        decl = _find_decls(t)[idx]
        t = _one_guard(t, rw, decl, rett)
    return t
