/* Contract of the Sync->Async ordered flush, from C01 ("bytes are delivered to the application in order, exactly once") and C03 ("switching back to asynchronous mode hands
 * all still-buffered bytes to the data callback before any later-arriving byte").  Every delivery - by the flushing thread or directly by the I/O thread - goes through
 * DELIVER (pre.h): DL1 no delivery in progress, DL2 it starts at G_delivered.  F1, F2, F3 below.  All targets loop-free: complete proofs over the full domain. */
#define SF_SETUP \
  Impl impl; SyncReceiveBuffer wbuf, obuf; iora_engine eng; Impl *self = &impl; SessionId W = nondet_u64(); \
  SyncReceiveBuffer fresh; G_fresh = &fresh; G_made = 0; \
  G_impl = self; impl.engine = &eng; G_sid = W; IORA_TRUE = 1; \
  impl.syncMutex.held = 0; impl.callbackMutex.held = 0; \
  impl.readModes.guard = &impl.syncMutex; impl.receiveBuffers.guard = &impl.syncMutex; impl.pendingConnects.guard = &impl.syncMutex; \
  impl.readModes.wkey = W; impl.receiveBuffers.wkey = W; impl.receiveBuffers.wval = &wbuf; impl.receiveBuffers.other = &obuf; \
  wbuf.guard = &impl.syncMutex; wbuf.data.guard = &impl.syncMutex; obuf.guard = &impl.syncMutex; obuf.data.guard = &impl.syncMutex; \
  impl.shuttingDown = nondet_bool(); impl.readModes.present = nondet_bool(); impl.receiveBuffers.present = nondet_bool(); impl.onDataCb.set = nondet_bool(); \
  wbuf.hasData = nondet_bool(); wbuf.closed = nondet_bool(); wbuf.flushing = nondet_bool(); wbuf.overflow = nondet_bool(); \
  __CPROVER_assume(impl.readModes.wval <= ReadMode_Disabled && impl.activeFlushes < (size_t)-1 && impl.teardownCv.n_one < 1000 && wbuf.cv.n_one < 1000 && wbuf.cv.n_all < 1000); \
  G_arrived = nondet_size_t(); G_delivered = nondet_size_t(); G_in_cb = 0; G_flush_cbs = 0; G_direct_cbs = 0; \
  __CPROVER_assume(G_arrived <= STREAM_LIMIT);

/* ---- one iteration of the flush loop, from any state satisfying the loop invariant; the I/O thread runs the real onData while the callback is executing ---- */
void h_flush_iter(void)
{
  SF_SETUP
  iora_fn cb; cb.set = nondet_bool();
  __CPROVER_assume(FLUSH_LI(self, &wbuf));
  impl.onDataCb.set = cb.set;                      /* the flush uses the same registered callback */
  size_t lo0 = wbuf.data.lo, hi0 = wbuf.data.hi, n0 = hi0 - lo0, del0 = G_delivered;
  int st = setReadMode_flush_step(self, W, &wbuf, cb);
  IORA_CANARY("h_flush_iter: returns");
  __CPROVER_assert(st == 1 || st == 2, "ST in this state (no teardown, session open) the iteration either flushes a block or ends the loop");
  if (st == 1)
  {
    IORA_CANARY("h_flush_iter: block flushed");
    __CPROVER_assert(MODE_OF(self) == ReadMode_Sync, "F1 while (and after) a flush delivery the session's mode is still Sync: the I/O thread buffers, it does not deliver (DL1 at the direct delivery decides the 'while')");
    __CPROVER_assert(n0 > 0 && (!cb.set || (G_flush_cbs == 1 && G_delivered == del0 + n0)), "F3a exactly the buffered bytes [lo, hi) are delivered, once, starting at G_delivered (DL2)");
    __CPROVER_assert(G_direct_cbs == 0, "F3b no byte that arrived meanwhile was delivered directly: it was appended behind the flushed block");
    __CPROVER_assert(!cb.set || FLUSH_LI(self, &wbuf), "LI the loop invariant is re-established (bytes that arrived during the callback are in the buffer, in order, behind what was delivered)");
    if (wbuf.data.hi > wbuf.data.lo) { IORA_CANARY("h_flush_iter: bytes arrived during the callback"); }
  }
  else
  {
    IORA_CANARY("h_flush_iter: switched to Async");
    __CPROVER_assert(n0 == 0 && wbuf.data.lo == wbuf.data.hi, "F2 the mode becomes Async only in a critical section in which the buffer is observed EMPTY");
    __CPROVER_assert(MODE_OF(self) == ReadMode_Async && G_flush_cbs == 0 && G_direct_cbs == 0, "F2b ... in that same critical section, with no delivery in this iteration");
    __CPROVER_assert(G_delivered == G_arrived && !G_in_cb, "F3c at the switch every byte that has arrived has been delivered and none is in flight: a later, directly delivered byte cannot overtake a buffered one");
  }
}

/* ---- the buffer-fetch critical section establishes the loop invariant ---- */
void h_flush_begin(void)
{
  SF_SETUP
  SessionId sid = W; SyncReceiveBuffer *buf; iora_flushguard fg;
  /* state in which step 1 hands over to the flush: mode Sync, buffer consistent with the stream, nothing in flight, no other flusher */
  __CPROVER_assume(MODE_OF(self) == ReadMode_Sync && !impl.shuttingDown && impl.receiveBuffers.present && !wbuf.closed && !wbuf.overflow && !wbuf.flushing
                   && G_delivered == wbuf.data.lo && wbuf.data.hi == G_arrived && SRB_INV(&wbuf, G_arrived, 0, impl.config.maxSyncReceiveBuffer));
  int st = setReadMode_fetch(self, sid, &buf, &fg);
  IORA_CANARY("h_flush_begin: returns");
  __CPROVER_assert(st == 2 && buf == &wbuf && fg.engaged, "B1 the flush begins on the session's registered buffer");
  __CPROVER_assert(wbuf.flushing, "B2 the flushing gate is set under the fetch lock (receiveSync refuses from now on: no second consumer can take bytes out of order)");
  __CPROVER_assert(FLUSH_LI(self, &wbuf), "B3 the loop invariant holds when the loop is entered: in particular the mode is STILL Sync - it is not switched before the loop");
}

/* ---- between two iterations the I/O thread may run onData: the loop invariant is stable ---- */
void h_arrivals_between(void)
{
  SF_SETUP
  __CPROVER_assume(FLUSH_LI(self, &wbuf));
  io_thread_may_deliver(self);
  IORA_CANARY("h_arrivals_between: returns");
  __CPROVER_assert(FLUSH_LI(self, &wbuf) && G_direct_cbs == 0, "LI2 arrivals between two iterations are buffered in order; the loop invariant is stable under the I/O thread");
}

/* ---- after the switch the I/O thread delivers directly, continuing the stream exactly where the flush stopped ---- */
void h_after_switch(void)
{
  SF_SETUP
  __CPROVER_assume(impl.receiveBuffers.present && MODE_OF(self) == ReadMode_Async && wbuf.data.lo == wbuf.data.hi && !wbuf.hasData && G_delivered == G_arrived && !impl.shuttingDown);
  size_t a0 = G_arrived;
  io_thread_may_deliver(self);
  IORA_CANARY("h_after_switch: returns");
  __CPROVER_assert((impl.onDataCb.set ? G_delivered == G_arrived : G_delivered == a0) && (G_arrived == a0 || !impl.onDataCb.set || G_direct_cbs == 1), "F3d after the switch a new chunk is delivered directly, at stream position G_delivered (DL2): in order behind every flushed byte");
  if (G_direct_cbs == 1) { IORA_CANARY("h_after_switch: direct delivery"); }
}

/* ---- the mode-dispatch head of setReadMode (step 1: oldMode read ... simple-path branch; status 1 = simple path `return true`, 2 = goes on to the ordered flush, 0 = refused) ---- */
void h_mode_head(void)
{
  SF_SETUP
  ReadMode mode = nondet_u8(); __CPROVER_assume(mode <= ReadMode_Disabled);
  __CPROVER_assume(!impl.shuttingDown && DATA_INV(self, &wbuf));
  ReadMode old = MODE_OF(self); size_t n0 = impl.receiveBuffers.present ? wbuf.data.hi - wbuf.data.lo : 0;
  int st = setReadMode_step1(self, W, mode);
  IORA_CANARY("h_mode_head: returns");
  __CPROVER_assert(!(st == 1 && mode == ReadMode_Async) || G_delivered == G_arrived, "F0 setReadMode(.., Async) returns through the simple path (mode := Async, no flush) ONLY IF the session's sync buffer is empty (G_delivered == G_arrived) - for EVERY old mode (Sync, Disabled after Sync, Async)");
  __CPROVER_assert(!(mode == ReadMode_Async && n0 > 0) || st == 2, "F0b bytes still buffered and a switch to Async ==> the ordered flush is taken");
  __CPROVER_assert(st != 2 || (MODE_OF(self) == old && DATA_INV(self, &wbuf)), "F0c handing over to the flush leaves the mode (not Async) and the data invariant untouched");
  __CPROVER_assert(st != 1 || (MODE_OF(self) == mode && DATA_INV(self, impl.receiveBuffers.wval)), "DI1 the simple path re-establishes the data invariant for the NEW mode (in particular: Async ==> buffer empty)");
  if (st == 2 && old == ReadMode_Disabled) { IORA_CANARY("h_mode_head: Disabled -> Async with buffered bytes goes through the flush"); }
  if (st == 1 && mode == ReadMode_Async) { IORA_CANARY("h_mode_head: simple switch to Async"); }
}
/* ---- the real onData establishes / preserves the data invariant in every mode ---- */
void h_data_invariant(void)
{
  SF_SETUP
  __CPROVER_assume(!impl.shuttingDown && DATA_INV(self, &wbuf) && (MODE_OF(self) != ReadMode_Sync || impl.receiveBuffers.present));
  ReadMode m = MODE_OF(self); size_t size0 = wbuf.data.hi - wbuf.data.lo;
  io_thread_may_deliver(self);
  IORA_CANARY("h_data_invariant: returns");
  __CPROVER_assert(DATA_INV(self, &wbuf), "DI2 onData preserves the data invariant: it appends only in Sync mode, delivers directly (in order, DL2) in Async mode, and in Disabled mode neither appends nor delivers");
  __CPROVER_assert(m == ReadMode_Sync || !impl.receiveBuffers.present || wbuf.data.hi - wbuf.data.lo == size0, "DI3 the buffer grows only while the mode is Sync");
  __CPROVER_assert(m == ReadMode_Async || G_direct_cbs == 0, "DI4 a direct delivery happens only in Async mode");
}
