/* Unit-local shim of dns_cache_key (trusted base): a std::string whose content is the bytes p[0..n) of an immutable source,
 * each passed through ASCII tolower once `lower` is set. Copy-assignment copies the view (the copy has the same content);
 * std::transform(s.begin(), s.end(), s.begin(), ::tolower) sets `lower` (::tolower in the "C" locale = ASCII A-Z -> a-z).
 * operator== is the library's: true  => same length and equal bytes (stated at the arbitrary witness index GK),
 *                               false => different length, or a byte differs at SOME index (Skolem witness G_diff, visible to the harness). */
#ifndef LSTR_H
#define LSTR_H
typedef struct { const uint8_t *p; size_t n; bool lower; } iora_lstr;
#define iora_lstr_DEFAULT ((iora_lstr){0, 0, false})
static inline uint8_t iora_lstr_at(const iora_lstr *s, size_t i) { IORA_ASSERT(i < s->n, "string index in range"); return s->lower ? (uint8_t)iora_tolower(s->p[i]) : s->p[i]; }
static inline void iora_lstr_transform_tolower(iora_lstr *s) { s->lower = true; }
size_t G_diff; unsigned G_eq_calls;
static inline bool iora_lstr_eq(const iora_lstr *a, const iora_lstr *b)
{
  G_eq_calls++;
  if (a->n != b->n) return false;
  bool r = nondet_bool();
  if (r) { IORA_ASSUME(!(GK < a->n) || iora_lstr_at(a, GK) == iora_lstr_at(b, GK)); }
  else { size_t d = nondet_size_t(); IORA_ASSUME(d < a->n && iora_lstr_at(a, d) != iora_lstr_at(b, d)); G_diff = d; }
  return r;
}
#endif
