// REPLAY adapter of unit dns_cache_key: two questions (names as hex bytes N1/N2, types T1/T2, classes C1/C2) go through the REAL
// DnsCacheKey::fromQuestion / operator== / std::hash; the verdict is compared with an independent ASCII-case-insensitive comparison.
#include "iora/network/dns/dns_types.hpp"
#include "replay_io.h"
using namespace iora::network::dns;
static unsigned char low(unsigned char c) { return (c >= 'A' && c <= 'Z') ? c + 32 : c; }
int main(int argc, char **argv)
{
  auto in = replay_io::load(argv[1]);
  auto b1 = replay_io::bytes(in["N1"]), b2 = replay_io::bytes(in["N2"]);
  DnsQuestion q1(std::string(b1.begin(), b1.end()), (DnsType)replay_io::u64(in["T1"]), (DnsClass)replay_io::u64(in["C1"]));
  DnsQuestion q2(std::string(b2.begin(), b2.end()), (DnsType)replay_io::u64(in["T2"]), (DnsClass)replay_io::u64(in["C2"]));
  DnsCacheKey k1 = DnsCacheKey::fromQuestion(q1), k2 = DnsCacheKey::fromQuestion(q2);
  bool eq = k1 == k2;
  bool ref = q1.qtype == q2.qtype && q1.qclass == q2.qclass && b1.size() == b2.size();
  for (size_t i = 0; ref && i < b1.size(); i++) if (low(b1[i]) != low(b2[i])) ref = false;
  if (eq && !ref) replay_io::fail("K1: keys compare equal for different questions");
  if (!eq && ref) replay_io::fail("K2: keys differ for the same question (case-insensitive name, type, class)");
  if (eq && std::hash<DnsCacheKey>{}(k1) != std::hash<DnsCacheKey>{}(k2)) replay_io::fail("equal keys with different hashes");
  replay_io::ok(eq ? "same question, equal keys, equal hashes" : "different questions, different keys");
  return 0;
}
