/* Unit dns_cache_key (property C19: "an answer is served from the cache only for the same question (name compared
 * case-insensitively, type and class)"). The cache is an unordered_map keyed by DnsCacheKey::fromQuestion(question) and compared
 * with DnsCacheKey::operator==. Lemma over the two extracted functions, loop-free, names of any length:
 *      fromQuestion(q1) == fromQuestion(q2)   <=>   ASCII-case-insensitive name equality  &&  type  &&  class                 */
void *malloc(size_t);
#define LOW(c) ((uint8_t)iora_tolower(c))
void h_same_question(void)
{
  DnsQuestion q1, q2;
  q1.qname.n = nondet_size_t(); q2.qname.n = nondet_size_t();
  __CPROVER_assume(q1.qname.n <= ((size_t)1 << 32) && q2.qname.n <= ((size_t)1 << 32));
  uint8_t *b1 = malloc(q1.qname.n), *b2 = malloc(q2.qname.n);
  __CPROVER_assume(b1 != 0 && b2 != 0);
  q1.qname.p = b1; q2.qname.p = b2; q1.qname.lower = false; q2.qname.lower = false;      /* names as given by the caller */
  IORA_TRUE = 1; GK = nondet_size_t(); G_eq_calls = 0;
  DnsCacheKey k1, k2;
  DnsCacheKey_fromQuestion(&q1, &k1);
  DnsCacheKey_fromQuestion(&q2, &k2);
  bool eq = DnsCacheKey_eq(&k1, &k2);
  IORA_CANARY("h_same_question: returns");
  if (eq) { IORA_CANARY("h_same_question: equal keys"); } else { IORA_CANARY("h_same_question: different keys"); }
  const bool same_tc = q1.qtype == q2.qtype && q1.qclass == q2.qclass;
  const size_t n = q1.qname.n;
  /* K1 equal keys => same type, same class, same length, and at the ARBITRARY index GK the two names agree up to ASCII case */
  __CPROVER_assert(eq ==> same_tc, "K1a equal keys: same type and class");
  __CPROVER_assert(eq ==> q1.qname.n == q2.qname.n, "K1b equal keys: names of the same length");
  __CPROVER_assert((eq && GK < n) ==> LOW(b1[GK]) == LOW(b2[GK]), "K1c equal keys: names equal up to ASCII case (witness index)");
  /* K2 different keys => type or class or length differs, or the names differ at some index even after case folding */
  __CPROVER_assert((!eq && same_tc && q1.qname.n == q2.qname.n) ==> (G_eq_calls == 1 && G_diff < n && LOW(b1[G_diff]) != LOW(b2[G_diff])), "K2 different keys: the questions really differ (case-insensitively)");
  /* K3 the name is always compared (no early verdict from type/class alone says 'equal') */
  __CPROVER_assert(eq ==> G_eq_calls == 1, "K3 equality verdict involves the name comparison");
  /* K4 the key keeps type and class */
  __CPROVER_assert(k1.qtype == q1.qtype && k1.qclass == q1.qclass && k1.qname.lower && k1.qname.n == q1.qname.n && k1.qname.p == b1, "K4 key = lower-cased name, type, class of the question");
}
