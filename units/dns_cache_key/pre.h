/* type environment of unit dns_cache_key */
typedef struct { iora_lstr qname; DnsType qtype; DnsClass qclass; } DnsQuestion;
typedef struct { iora_lstr qname; DnsType qtype; DnsClass qclass; } DnsCacheKey;
#define DnsCacheKey_DEFAULT ((DnsCacheKey){ iora_lstr_DEFAULT, 0, 0 })
