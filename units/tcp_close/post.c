/* Contracts of the TCP close routine, written from property C02 (not from the code).
 *
 *  K0  s == NULL or already closed: nothing is assigned, no system call, no callback (idempotence)
 *  K1  otherwise the session is erased from _sessions exactly once, under the write lock, already marked closed (K3a); the shim
 *      destroys the object, so any later use of `s` is a failed pointer obligation (K8); other ids' entries are untouched
 *  K2  the close callback runs exactly once iff one is registered, with this session's id, the caller's reason / message / tlsErr and
 *      the errno value the CALLER had (system calls in between may overwrite errno)
 *  K3  at callback time the session is already out of the table (erase tick < callback tick)
 *  K4  stats: closed + 1 and sessionsCurrent - 1 exactly once, visible to the callback
 *  K5  the fd is deregistered from epoll (EPOLL_CTL_DEL on the engine's epoll fd) exactly once, before close(fd)
 *  K6  close(fd) exactly once, after the erase; SSL_shutdown then SSL_free exactly once each on the session's SSL object, before close(fd)
 *  K7  every scheduled timer of the session is cancelled (witness timer id G_TID)
 *  K9  both mutexes are released again; the fd tag is erased; everything else is unchanged
 *  CB1/CB2 the callback runs with no engine mutex held; LK1/LK2 lock pairing (iora_monitor.h)
 */
#define CONFIG_EQ(a, b) ((a).ioReadChunk == (b).ioReadChunk && (a).maxWriteQueue == (b).maxWriteQueue && (a).closeOnBackpressure == (b).closeOnBackpressure \
  && (a).useEdgeTriggered == (b).useEdgeTriggered && (a).connectTimeout.ticks == (b).connectTimeout.ticks && (a).handshakeTimeout.ticks == (b).handshakeTimeout.ticks \
  && (a).writeStallTimeout.ticks == (b).writeStallTimeout.ticks)
#define STATS_EQ_EXCEPT_CLOSE(a, b) ((a).accepted == (b).accepted && (a).connected == (b).connected && (a).errors == (b).errors \
  && (a).tlsHandshakes == (b).tlsHandshakes && (a).tlsFailures == (b).tlsFailures && (a).bytesIn == (b).bytesIn && (a).bytesOut == (b).bytesOut && (a).epollWakeups == (b).epollWakeups \
  && (a).commands == (b).commands && (a).gcRuns == (b).gcRuns && (a).gcClosedIdle == (b).gcClosedIdle && (a).gcClosedAged == (b).gcClosedAged \
  && (a).backpressureCloses == (b).backpressureCloses && (a).sessionsPeak == (b).sessionsPeak)
#define ENGINE_REST_EQ(e, e0) (CONFIG_EQ((e)->_config, (e0)._config) && STATS_EQ_EXCEPT_CLOSE((e)->_atomicStats, (e0)._atomicStats) && (e)->_epollFd == (e0)._epollFd \
  && (e)->_cbs.onClose == (e0)._cbs.onClose && (e)->_cbs.onData == (e0)._cbs.onData && (e)->_cbs.onAccept == (e0)._cbs.onAccept && (e)->_cbs.onConnect == (e0)._cbs.onConnect \
  && (e)->_cbs.onError == (e0)._cbs.onError && (e)->_timerService == (e0)._timerService && (e)->_sessions.val == (e0)._sessions.val && (e)->_sessions.other == (e0)._sessions.other \
  && (e)->_fdTags.val == (e0)._fdTags.val && (e)->_fdTags.other == (e0)._fdTags.other)
#define SESSION_EQ(s, s0) ((s)->id == (s0).id && (s)->fd == (s0).fd && (s)->tlsMode == (s0).tlsMode && (s)->ssl == (s0).ssl && (s)->tlsState == (s0).tlsState \
  && (s)->tlsStart == (s0).tlsStart && (s)->tlsWantWrite == (s0).tlsWantWrite && (s)->wq.n == (s0).wq.n && (s)->wq.front.lo == (s0).wq.front.lo && (s)->wq.front.hi == (s0).wq.front.hi \
  && (s)->wq.end == (s0).wq.end && (s)->wantWrite == (s0).wantWrite && (s)->closed == (s0).closed && (s)->created == (s0).created && (s)->lastActivity == (s0).lastActivity \
  && (s)->connectPending == (s0).connectPending && (s)->connectStart == (s0).connectStart && (s)->lastWriteProgress == (s0).lastWriteProgress \
  && (s)->connectTimeoutId == (s0).connectTimeoutId && (s)->handshakeTimeoutId == (s0).handshakeTimeoutId && (s)->writeStallTimeoutId == (s0).writeStallTimeoutId)

typedef struct { unsigned cb, erase, fdclose, sslshut, sslfree, epdel, epmod, tcancel, ttid, seq; int err; } ghost_snap;
static inline ghost_snap snap_ghosts(void)
{ ghost_snap g = { G_cb_calls, G_erase_calls, G_fdclose_calls, G_sslshut_calls, G_sslfree_calls, G_ep_dels, G_ep_mods, G_tcancel_calls, G_tcancel_tid_calls, G_seq, G_errno }; return g; }
#define NOTHING_HAPPENED(g0) (G_cb_calls == (g0).cb && G_erase_calls == (g0).erase && G_fdclose_calls == (g0).fdclose && G_sslshut_calls == (g0).sslshut && G_sslfree_calls == (g0).sslfree \
  && G_ep_dels == (g0).epdel && G_ep_mods == (g0).epmod && G_tcancel_calls == (g0).tcancel && G_seq == (g0).seq && G_errno == (g0).err)

static inline void havoc_close_ghosts(void)
{
  G_errno = nondet_int(); G_seq = nondet_unsigned(); __CPROVER_assume(G_seq < 1000);
  G_cb_calls = nondet_unsigned(); G_erase_calls = nondet_unsigned(); G_fdclose_calls = nondet_unsigned(); G_sslshut_calls = nondet_unsigned(); G_sslfree_calls = nondet_unsigned();
  G_ep_dels = nondet_unsigned(); G_ep_mods = nondet_unsigned(); G_tcancel_calls = nondet_unsigned(); G_tcancel_tid_calls = nondet_unsigned();
  __CPROVER_assume(G_cb_calls < 1000 && G_erase_calls < 1000 && G_fdclose_calls < 1000 && G_sslshut_calls < 1000 && G_sslfree_calls == 0 && G_ep_dels < 1000 && G_ep_mods < 1000
                   && G_tcancel_calls < 1000 && G_tcancel_tid_calls < 1000);
  iora_sessmap_GKEY = nondet_u64(); iora_tagmap_GKEY = nondet_int(); G_TID = nondet_u64(); IORA_TRUE = 1;
}

/* the state every close harness starts from: an engine with no mutex held, the witness entries of _sessions and _fdTags, the session
 * under test `s` (NULL, or a heap object that is the table entry of its id when its id is the witness id) and another session `o`
 * that is the witness entry otherwise. Pointers are ASSIGNED (CBMC does not alias a nondeterministic pointer with an object). */
typedef struct { TcpEngine *self; Session *s; Session *o; } close_world;
static inline close_world make_close_world(TcpEngine *self, bool with_session)
{
  close_world w; w.self = self;
  iora_canon_engine(self);
  havoc_close_ghosts();
  w.s = with_session ? malloc(sizeof(Session)) : NULL; __CPROVER_assume(!with_session || w.s != NULL);
  w.o = malloc(sizeof(Session)); __CPROVER_assume(w.o != NULL);
  iora_canon_session(w.o); __CPROVER_assume(w.o->id == iora_sessmap_GKEY);
  if (w.s) { iora_canon_session(w.s); }
  if (w.s && w.s->id == iora_sessmap_GKEY) { self->_sessions.has = 1; self->_sessions.val = w.s; }      /* sessions live in the table under their own id */
  else { self->_sessions.val = w.o; }
  self->_sessions.other = NULL;
  self->_fdTags.val = malloc(1); self->_fdTags.other = NULL;
  __CPROVER_assume(!self->_cbMutex.held && !self->_sessionRwMutex.held);            /* the engine's mutexes are leaves: none is held on entry */
  /* the gauge counts every session in the table (bumpSess at the insertion sites) */
  __CPROVER_assume(!(w.s && !w.s->closed) || self->_atomicStats.sessionsCurrent >= 1);
  return w;
}

/* clauses for "session s0 (open before) has been closed by this call with (why, msg, tlsErr)" */
static void closed_exactly_once(TcpEngine *self, const Session *s0p, const Session *o, const Session *o0p, const TcpEngine *E0p, const ghost_snap *g0p,
                                TransportError why, const char *msg, int tlsErr)
{
  Session s0 = *s0p, o0 = *o0p; TcpEngine E0 = *E0p; ghost_snap g0 = *g0p;
  __CPROVER_assert(G_erase_calls == g0.erase + 1 && G_erase_key == s0.id, "K1 erased from _sessions exactly once, by its own id");
  __CPROVER_assert(s0.id != iora_sessmap_GKEY || !self->_sessions.has, "K1 the session is no longer in the table");
  __CPROVER_assert(s0.id == iora_sessmap_GKEY || (self->_sessions.has == E0._sessions.has && SESSION_EQ(o, o0)), "K1f entries and sessions of other ids are untouched");
  __CPROVER_assert(G_cb_calls == g0.cb + (E0._cbs.onClose ? 1u : 0u), "K2 close callback: exactly once iff registered");
  __CPROVER_assert(!E0._cbs.onClose || (G_cb_sid == s0.id && G_cb_why == why && G_cb_msg == msg && G_cb_tls == tlsErr), "K2 callback arguments: this session's id, the caller's reason, message, tlsErr");
  __CPROVER_assert(!E0._cbs.onClose || G_cb_errno == g0.err, "K2 callback reports the errno the caller had on entry");
  __CPROVER_assert(!E0._cbs.onClose || (G_cb_seq > G_erase_seq && (s0.id != iora_sessmap_GKEY || !G_cb_witness_present)), "K3 the session is erased BEFORE the callback runs");
  __CPROVER_assert(self->_atomicStats.closed == E0._atomicStats.closed + 1 && self->_atomicStats.sessionsCurrent == E0._atomicStats.sessionsCurrent - 1, "K4 closed+1, sessionsCurrent-1 exactly once");
  __CPROVER_assert(!E0._cbs.onClose || (G_cb_stats_closed == E0._atomicStats.closed + 1 && G_cb_stats_current == E0._atomicStats.sessionsCurrent - 1), "K4 the callback already sees the updated counters");
  __CPROVER_assert(G_ep_dels == g0.epdel + 1 && G_ep_mods == g0.epmod && G_ep_op == EPOLL_CTL_DEL && G_ep_fd == s0.fd && G_ep_epfd == E0._epollFd, "K5 EPOLL_CTL_DEL of the session's fd on the engine's epoll fd, exactly once");
  __CPROVER_assert(G_fdclose_calls == g0.fdclose + 1 && G_fdclose_fd == s0.fd, "K6 close(fd) exactly once, on the session's fd");
  __CPROVER_assert(G_ep_seq < G_fdclose_seq && G_erase_seq < G_fdclose_seq, "K5/K6 the fd is deregistered and the session erased before the fd is closed (fd numbers are reused)");
  __CPROVER_assert(!E0._cbs.onClose || G_fdclose_seq < G_cb_seq, "K6 the fd is closed before the callback runs");
  __CPROVER_assert(s0.ssl == NULL ? (G_sslshut_calls == g0.sslshut && G_sslfree_calls == g0.sslfree)
                                  : (G_sslshut_calls == g0.sslshut + 1 && G_sslfree_calls == g0.sslfree + 1 && G_sslshut_arg == s0.ssl && G_sslfree_arg == s0.ssl
                                     && G_sslshut_seq < G_sslfree_seq && G_sslfree_seq < G_fdclose_seq), "K6 SSL_shutdown then SSL_free exactly once on the session's SSL object, before close(fd)");
  __CPROVER_assert(G_tcancel_tid_calls == g0.ttid + ((E0._timerService != NULL && G_TID != 0) ? ((s0.connectTimeoutId == G_TID ? 1u : 0u) + (s0.handshakeTimeoutId == G_TID ? 1u : 0u) + (s0.writeStallTimeoutId == G_TID ? 1u : 0u)) : 0u),
                   "K7 every scheduled timer of the session is cancelled exactly once (witness timer id)");
  __CPROVER_assert(!self->_cbMutex.held && !self->_sessionRwMutex.held, "K9 both mutexes are released");
  __CPROVER_assert(s0.fd == iora_tagmap_GKEY ? !self->_fdTags.has : self->_fdTags.has == E0._fdTags.has, "K9 the fd tag of this session is erased, other tags are untouched");
  __CPROVER_assert(ENGINE_REST_EQ(self, E0), "K9 everything else of the engine is unchanged");
}
static void nothing_happened(TcpEngine *self, const Session *s, const Session *s0p, const Session *o, const Session *o0p, const TcpEngine *E0p, const ghost_snap *g0p)
{
  Session o0 = *o0p; TcpEngine E0 = *E0p; ghost_snap g0 = *g0p;
  __CPROVER_assert(NOTHING_HAPPENED(g0), "K0 no system call, no erase, no timer cancel, no callback");
  __CPROVER_assert(ENGINE_REST_EQ(self, E0) && self->_atomicStats.closed == E0._atomicStats.closed && self->_atomicStats.sessionsCurrent == E0._atomicStats.sessionsCurrent
                   && self->_sessions.has == E0._sessions.has && self->_fdTags.has == E0._fdTags.has && !self->_cbMutex.held && !self->_sessionRwMutex.held, "K0 engine untouched");
  if (s) { Session s0 = *s0p; __CPROVER_assert(SESSION_EQ(s, s0), "K0 session untouched"); }
  __CPROVER_assert(SESSION_EQ(o, o0), "K0 other sessions untouched");
}

/* ===================== closeNow ===================== */
void h_closeNow(void)
{
  TcpEngine E; TcpEngine *self = &E;
  close_world w = make_close_world(self, nondet_bool());
  Session *s = w.s;
  TransportError why = nondet_int(); const char *msg = "reason"; int tlsErr = nondet_int();
  Session s0; if (s) s0 = *s;
  Session o0 = *w.o; TcpEngine E0 = E; ghost_snap g0 = snap_ghosts();
  bool was_open = s != NULL && !s->closed;
  TcpEngine_closeNow(self, s, why, msg, tlsErr);
  IORA_CANARY("h_closeNow: returns");
  if (!was_open) { nothing_happened(self, s, &s0, w.o, &o0, &E0, &g0); if (s) { IORA_CANARY("h_closeNow: already closed"); } else { IORA_CANARY("h_closeNow: null"); } }
  else { closed_exactly_once(self, &s0, w.o, &o0, &E0, &g0, why, msg, tlsErr); IORA_CANARY("h_closeNow: closed now");
         if (s0.id == iora_sessmap_GKEY) { IORA_CANARY("h_closeNow: witness id"); } else { IORA_CANARY("h_closeNow: other id"); } }
}

/* ===================== Close case of process() ===================== */
/* P1 unknown id => nothing;  P2 a timer-originated close whose condition no longer holds => nothing;
 * P3 otherwise the session is closed exactly once with the command's reason and message, tlsErr 0;  P4 session already closed => nothing */
#define STALE(origin, s0) (((origin) == CloseOrigin_ConnectTimeout && !(s0).connectPending) || ((origin) == CloseOrigin_HandshakeTimeout && (s0).tlsState != TlsState_Handshake) \
                           || ((origin) == CloseOrigin_WriteStall && (s0).wq.n == 0))
void h_process_close(void)
{
  TcpEngine E; TcpEngine *self = &E;
  close_world w = make_close_world(self, 1);
  Session *s = w.s;
  __CPROVER_assume(s->id == iora_sessmap_GKEY);                 /* the command names the witness id; its table entry, if any, is s */
  self->_sessions.has = nondet_bool();
  __CPROVER_assume(!self->_sessions.has || s->closed || self->_atomicStats.sessionsCurrent >= 1);
  Command C; Command *c = &C; C.closeMsg = "cmd reason";
  __CPROVER_assume(C.closeSid == iora_sessmap_GKEY && C.closeOrigin >= CloseOrigin_App && C.closeOrigin <= CloseOrigin_WriteStall);
  Session s0 = *s, o0 = *w.o; TcpEngine E0 = E; ghost_snap g0 = snap_ghosts(); Command C0 = C;
  TcpEngine_process_close_case(self, c);
  IORA_CANARY("h_process_close: returns");
  if (!E0._sessions.has) { __CPROVER_assert(NOTHING_HAPPENED(g0) && !self->_sessions.has, "P1 unknown session id: no callback, nothing happens"); IORA_CANARY("h_process_close: unknown id"); }
  else if (s0.closed) { nothing_happened(self, s, &s0, w.o, &o0, &E0, &g0); IORA_CANARY("h_process_close: already closed"); }
  else if (STALE(C0.closeOrigin, s0))
  { __CPROVER_assert(NOTHING_HAPPENED(g0) && self->_sessions.has && SESSION_EQ(s, s0), "P2 stale timer-originated close (its condition no longer holds): ignored, session untouched"); IORA_CANARY("h_process_close: stale timer close"); }
  else { closed_exactly_once(self, &s0, w.o, &o0, &E0, &g0, C0.closeReason, C0.closeMsg, 0); IORA_CANARY("h_process_close: closed"); }
}

/* ===================== DFCC form of the core clauses =====================
 * the tool checks the assigns AND frees clauses on every assignment / free (frame); `s` is the table entry of the witness id.
 * __CPROVER_pointer_equals makes the table pointer an alias of s (a plain equality would not put s into CBMC's value set).
 * --object-bits 6: a free() of an is_fresh object costs ~80 s of solver time with 10 object bits, seconds with 6 (measured). */
void TcpEngine_closeNow_contract(TcpEngine *self, Session *s, TransportError why, const char *msg, int tlsErr)
__CPROVER_requires(IORA_TRUE && __CPROVER_is_fresh(self, sizeof(*self)) && __CPROVER_is_fresh(s, sizeof(*s)))
__CPROVER_requires(self->_sessions.has && __CPROVER_pointer_equals(self->_sessions.val, s) && s->id == iora_sessmap_GKEY && !s->closed)
__CPROVER_requires(!self->_fdTags.has && !self->_cbMutex.held && !self->_sessionRwMutex.held && self->_atomicStats.sessionsCurrent >= 1)
__CPROVER_requires(G_seq < 1000 && G_cb_calls < 1000 && G_erase_calls < 1000 && G_sslfree_calls == 0)
__CPROVER_assigns(*s, self->_sessions.has, self->_fdTags.has, self->_cbMutex.held, self->_sessionRwMutex.held, self->_atomicStats.closed, self->_atomicStats.sessionsCurrent,
                  G_errno, G_seq, G_ep_fd, G_ep_events, G_ep_op, G_ep_epfd, G_ep_seq, G_ep_dels, G_fdclose_calls, G_fdclose_seq, G_fdclose_fd,
                  G_sslshut_calls, G_sslshut_seq, G_sslfree_calls, G_sslfree_seq, G_sslshut_arg, G_sslfree_arg, G_tcancel_calls, G_tcancel_tid_calls,
                  G_cb_calls, G_cb_seq, G_cb_sid, G_cb_why, G_cb_msg, G_cb_errno, G_cb_tls, G_cb_witness_present, G_cb_stats_closed, G_cb_stats_current,
                  G_erase_calls, G_erase_seq, G_erase_key)
__CPROVER_frees(s)
__CPROVER_ensures(!self->_sessions.has && G_erase_calls == __CPROVER_old(G_erase_calls) + 1)
__CPROVER_ensures(G_cb_calls == __CPROVER_old(G_cb_calls) + (self->_cbs.onClose ? 1u : 0u))
__CPROVER_ensures(self->_cbs.onClose ==> (G_cb_sid == iora_sessmap_GKEY && G_cb_seq > G_erase_seq && !G_cb_witness_present))
__CPROVER_ensures(__CPROVER_was_freed(s))
;
void h_closeNow_dfcc(void) { TcpEngine *self; Session *s; TransportError why; const char *msg; int tlsErr; TcpEngine_closeNow(self, s, why, msg, tlsErr); IORA_CANARY("h_closeNow_dfcc: returns"); }

#ifdef IORA_SEARCH
/* SEARCH: the same functions and the same clauses on a small CONCRETE scenario (bounded; only used to obtain an input for REPLAY).
 *   OP 0 = closeNow(s), 1 = closeNow(NULL), 2 = Close case of process();  HASCB close callback registered;  SSLON session has an SSL object;
 *   CLOSED0 session already marked closed;  INTABLE (OP 2) the id is in the table;  ORIGIN CloseOrigin 0..3;  PENDING connectPending;
 *   HS tlsState == Handshake;  NQ buffers in the write queue (0/1) */
void h_search(void)
{
  size_t OP = nondet_size_t(), HASCB = nondet_size_t(), SSLON = nondet_size_t(), CLOSED0 = nondet_size_t(), INTABLE = nondet_size_t(), ORIGIN = nondet_size_t();
  size_t PENDING = nondet_size_t(), HS = nondet_size_t(), NQ = nondet_size_t();
  __CPROVER_assume(OP <= 2 && HASCB <= 1 && SSLON <= 1 && CLOSED0 <= 1 && INTABLE <= 1 && ORIGIN <= 3 && PENDING <= 1 && HS <= 1 && NQ <= 1);
  IORA_TRUE = 1;
  /* statics are nondeterministic (--nondet-static): the concrete scenario starts every ghost at 0 */
  G_errno = 2; G_seq = 0; G_cb_calls = 0; G_cb_seq = 0; G_erase_calls = 0; G_erase_seq = 0; G_fdclose_calls = 0; G_fdclose_seq = 0; G_sslshut_calls = 0; G_sslshut_seq = 0;
  G_sslfree_calls = 0; G_sslfree_seq = 0; G_sslshut_arg = NULL; G_sslfree_arg = NULL; G_ep_dels = 0; G_ep_mods = 0; G_ep_seq = 0; G_tcancel_calls = 0; G_tcancel_tid_calls = 0;
  TcpEngine E = {0}; TcpEngine *self = &E;
  Session *s = malloc(sizeof(Session)); __CPROVER_assume(s != NULL); Session z = {0}; *s = z;
  Session *o = malloc(sizeof(Session)); __CPROVER_assume(o != NULL); *o = z; o->id = 7;
  s->id = 7; s->fd = 1000; s->closed = CLOSED0 != 0; s->ssl = SSLON ? (SSL *)o : NULL; s->tlsMode = SSLON ? TlsMode_Client : TlsMode_None;
  s->tlsState = HS ? TlsState_Handshake : (SSLON ? TlsState_Open : TlsState_None); s->connectPending = PENDING != 0;
  s->wq.n = NQ; s->wq.front.lo = 0; s->wq.front.hi = NQ; s->wq.end = NQ;
  iora_sessmap_GKEY = 7; iora_tagmap_GKEY = 1000; G_TID = 0;
  self->_sessions.has = (OP == 2) ? (INTABLE != 0) : 1; self->_sessions.val = s; self->_fdTags.has = 1; self->_fdTags.val = malloc(1);
  self->_cbs.onClose = HASCB != 0; self->_epollFd = 5; self->_atomicStats.sessionsCurrent = 1; self->_timerService = NULL;
  TransportError why = TransportError_Timeout; const char *msg = "reason";
  Command C; C.t = Cmd_Close; C.closeSid = 7; C.closeReason = why; C.closeMsg = msg; C.closeOrigin = (CloseOrigin)ORIGIN;
  Session s0 = *s, o0 = *o; TcpEngine E0 = E; ghost_snap g0 = snap_ghosts();
  if (OP == 0) { TcpEngine_closeNow(self, s, why, msg, 3); if (s0.closed) nothing_happened(self, s, &s0, o, &o0, &E0, &g0); else closed_exactly_once(self, &s0, o, &o0, &E0, &g0, why, msg, 3); }
  else if (OP == 1) { TcpEngine_closeNow(self, NULL, why, msg, 3); nothing_happened(self, NULL, &s0, o, &o0, &E0, &g0); }
  else
  {
    TcpEngine_process_close_case(self, &C);
    if (!E0._sessions.has) { __CPROVER_assert(NOTHING_HAPPENED(g0) && !self->_sessions.has, "P1 unknown session id: no callback, nothing happens"); }
    else if (s0.closed) { nothing_happened(self, s, &s0, o, &o0, &E0, &g0); }
    else if (STALE(C.closeOrigin, s0)) { __CPROVER_assert(NOTHING_HAPPENED(g0) && self->_sessions.has && SESSION_EQ(s, s0), "P2 stale timer-originated close (its condition no longer holds): ignored, session untouched"); }
    else { closed_exactly_once(self, &s0, o, &o0, &E0, &g0, why, msg, 0); }
  }
}
#endif
