/* type environment + ghost state for unit tcp_close (TcpEngine::closeNow, cancel*Timeout, delEpoll, Close case of process()) */
#include "iora_tcp_env.h"

/* struct TcpEngine::Command restricted to the fields the Close case reads */
typedef struct { Cmd t; SessionId closeSid; TransportError closeReason; const char *closeMsg; CloseOrigin closeOrigin; } Command;

/* ---- R21: the close callback (std::function _cbs.onClose) is a ghost stub. It records how often and with what it was called and
 * what the engine state looked like AT THAT MOMENT. Assumption A: user code re-enters the engine only through the public API, which
 * enqueues commands - it cannot touch the state closeNow still relies on (closeNow does nothing after the callback anyway). ---- */
unsigned G_cb_calls, G_cb_seq; SessionId G_cb_sid; TransportError G_cb_why; const char *G_cb_msg; int G_cb_errno, G_cb_tls;
bool G_cb_witness_present;        /* the witness id was still in _sessions when the callback ran */
uint64_t G_cb_stats_closed; size_t G_cb_stats_current;
static inline void iora_cb_onClose(TcpEngine *self, SessionId sid, TransportError why, const char *msg, int sysErrno, int tlsErr)
{
  IORA_ASSERT(!self->_cbMutex.held, "CB1 user callback runs outside _cbMutex (copy-then-invoke)");
  IORA_ASSERT(!self->_sessionRwMutex.held, "CB2 user callback runs outside _sessionRwMutex");
  if (G_cb_calls < 0x7fffffffu) G_cb_calls++;
  G_cb_seq = ++G_seq; G_cb_sid = sid; G_cb_why = why; G_cb_msg = msg; G_cb_errno = sysErrno; G_cb_tls = tlsErr;
  G_cb_witness_present = self->_sessions.has;
  G_cb_stats_closed = self->_atomicStats.closed; G_cb_stats_current = self->_atomicStats.sessionsCurrent;
}

/* ---- `_sessions.erase(sid)`: the table is modified under the write lock, the erased session is already marked closed; the
 * shim destroys (frees) the session object ---- */
unsigned G_erase_calls, G_erase_seq; SessionId G_erase_key;
static inline void TcpEngine_sessions_erase(TcpEngine *self, SessionId k)
{
  IORA_ASSERT(self->_sessionRwMutex.held, "LK3 _sessions is modified with _sessionRwMutex held (unique lock)");
  IORA_ASSERT(!(k == iora_sessmap_GKEY && self->_sessions.has) || self->_sessions.val->closed, "K3a a session is marked closed before it is erased from the table");
  if (G_erase_calls < 0x7fffffffu) G_erase_calls++;
  G_erase_seq = ++G_seq; G_erase_key = k;
  iora_sessmap_erase(&self->_sessions, k);
}
