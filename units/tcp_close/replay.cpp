// REPLAY adapter for unit tcp_close: drives the REAL TcpEngine::closeNow / process() (Close command) with the scenario found by the
// bounded SEARCH harness (post.c, h_search) and evaluates the contract clauses natively (ASan reports a use after the erase).
//   engine constructed without start(); Session and fd tag emplaced by hand (-fno-access-control); epoll_ctl / close / SSL_shutdown /
//   SSL_free are defined here and interpose libc / libssl for the engine code compiled into this executable.
// Inputs: OP (0 closeNow(s), 1 closeNow(nullptr), 2 process() with a Close command), HASCB, SSLON, CLOSED0, INTABLE, ORIGIN, PENDING, HS, NQ
#include "iora/network/detail/tcp_engine.hpp"
#include "replay_io.h"
#include <sys/epoll.h>
#include <sys/syscall.h>
using namespace iora::network;
static const int FD = 1000;
static unsigned tick = 0, ep_dels = 0, ep_del_tick = 0, ep_other = 0, fdclose_calls = 0, fdclose_tick = 0, shut_calls = 0, shut_tick = 0, free_calls = 0, free_tick = 0;
static SSL *shut_arg = nullptr, *free_arg = nullptr;
extern "C" int epoll_ctl(int, int op, int fd, struct epoll_event *) { errno = EBADF; if (op == EPOLL_CTL_DEL && fd == FD) { ep_dels++; ep_del_tick = ++tick; } else ep_other++; return 0; }
extern "C" int close(int fd) { if (fd == FD) { errno = EBADF; fdclose_calls++; fdclose_tick = ++tick; return 0; } return (int)syscall(SYS_close, fd); }
extern "C" int SSL_shutdown(SSL *s) { errno = EIO; shut_calls++; shut_arg = s; shut_tick = ++tick; return 1; }
extern "C" void SSL_free(SSL *s) { free_calls++; free_arg = s; free_tick = ++tick; }

int main(int argc, char **argv) {
  if (argc < 2) { printf("usage: replay <inputs>\n"); return 2; }
  auto in = replay_io::load(argv[1]);
  auto U = [&](const char *k) { return (size_t)replay_io::u64(in[k]); };
  size_t OP = U("OP"), HASCB = U("HASCB"), SSLON = U("SSLON"), CLOSED0 = U("CLOSED0"), INTABLE = U("INTABLE"), ORIGIN = U("ORIGIN"), PENDING = U("PENDING"), HS = U("HS"), NQ = U("NQ");
  TransportConfig cfg; cfg.enableHighResolutionTimers = false;
  TcpEngine eng(cfg);
  unsigned cb_calls = 0, cb_tick = 0; SessionId cb_sid = 0; TransportErrorInfo cb_info{}; bool cb_present = false; std::uint64_t cb_closed = 0; std::size_t cb_cur = 0;
  if (HASCB) eng._cbs.onClose = [&](SessionId sid, const TransportErrorInfo &e) { cb_calls++; cb_tick = ++tick; cb_sid = sid; cb_info = e; cb_present = eng._sessions.count(7) != 0;
                                                                                 cb_closed = eng._atomicStats.closed.load(); cb_cur = eng._atomicStats.sessionsCurrent.load(); };
  SSL *fakeSsl = (SSL *)0x1000;
  auto up = std::make_unique<TcpEngine::Session>(); up->id = 7; up->fd = FD; up->closed = CLOSED0 != 0;
  up->ssl = SSLON ? fakeSsl : nullptr; up->tlsMode = SSLON ? TlsMode::Client : TlsMode::None;
  up->tlsState = HS ? TcpEngine::TlsState::Handshake : (SSLON ? TcpEngine::TlsState::Open : TcpEngine::TlsState::None); up->connectPending = PENDING != 0;
  if (NQ) up->wq.emplace_back(ByteBuffer{1, 2, 3});
  TcpEngine::Session *sp = up.get();
  std::unique_ptr<TcpEngine::Session> keep;        // OP 2 with INTABLE == 0: the id is unknown to the engine
  bool inTable = OP != 2 || INTABLE;
  if (inTable) eng._sessions.emplace(7, std::move(up)); else keep = std::move(up);
  auto tg = std::make_unique<TcpEngine::Tag>(); tg->sess = sp; eng._fdTags.emplace(FD, std::move(tg));
  eng._atomicStats.sessionsCurrent = 1;
  errno = ENOENT;                                   // the caller's errno
  bool expectClose;
  if (OP == 0) { expectClose = !CLOSED0; eng.closeNow(sp, TransportError::Timeout, "reason", 3); }
  else if (OP == 1) { expectClose = false; eng.closeNow(nullptr, TransportError::Timeout, "reason", 3); }
  else {
    bool stale = (ORIGIN == 1 && !PENDING) || (ORIGIN == 2 && !HS) || (ORIGIN == 3 && NQ == 0);
    expectClose = inTable && !CLOSED0 && !stale;
    eng._cmds.push_back(TcpEngine::Command::close(7, TransportError::Timeout, "reason", (TcpEngine::CloseOrigin)ORIGIN));
    eng.process();
  }
  int tlsErr = OP == 2 ? 0 : 3;
  if (!expectClose) {
    if (cb_calls || ep_dels || fdclose_calls || shut_calls || free_calls) replay_io::fail("K0/P1/P2 something happened for a null / closed / unknown / stale close");
    if (eng._atomicStats.closed.load() != 0 || eng._atomicStats.sessionsCurrent.load() != 1) replay_io::fail("K0 counters changed");
    if (inTable && eng._sessions.count(7) != 1) replay_io::fail("K0/P2 session left the table");
  } else {
    if (eng._sessions.count(7) != 0) replay_io::fail("K1 session still in the table");
    if (cb_calls != (HASCB ? 1u : 0u)) replay_io::fail("K2 close callback ran " + std::to_string(cb_calls) + " times");
    if (HASCB && (cb_sid != 7 || cb_info.code != TransportError::Timeout || cb_info.message != "reason" || cb_info.tlsError != tlsErr)) replay_io::fail("K2 callback arguments");
    if (HASCB && cb_info.sysErrno != ENOENT) replay_io::fail("K2 callback reports errno " + std::to_string(cb_info.sysErrno) + ", the caller had ENOENT");
    if (HASCB && cb_present) replay_io::fail("K3 session still in the table when the callback ran");
    if (eng._atomicStats.closed.load() != 1 || eng._atomicStats.sessionsCurrent.load() != 0) replay_io::fail("K4 counters");
    if (HASCB && (cb_closed != 1 || cb_cur != 0)) replay_io::fail("K4 callback saw stale counters");
    if (ep_dels != 1) replay_io::fail("K5 EPOLL_CTL_DEL count " + std::to_string(ep_dels));
    if (fdclose_calls != 1) replay_io::fail("K6 close(fd) count " + std::to_string(fdclose_calls));
    if (!(ep_del_tick < fdclose_tick)) replay_io::fail("K5 fd closed before it was deregistered");
    if (HASCB && !(fdclose_tick < cb_tick)) replay_io::fail("K6 callback before close(fd)");
    if (SSLON ? !(shut_calls == 1 && free_calls == 1 && shut_arg == fakeSsl && free_arg == fakeSsl && shut_tick < free_tick && free_tick < fdclose_tick) : (shut_calls || free_calls)) replay_io::fail("K6 SSL_shutdown / SSL_free");
    if (eng._fdTags.count(FD) != 0) replay_io::fail("K9 fd tag not erased");
  }
  if (ep_other) replay_io::fail("K5 unexpected epoll_ctl");
  replay_io::ok(std::string("contract clauses hold on this scenario (") + (expectClose ? "closed once" : "nothing happened") + ")");
  return 0;
}
