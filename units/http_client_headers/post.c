/* Contracts for unit http_client_headers (property C15, client side: "a message whose length information is invalid (conflicting or
 * non-numeric lengths, sizes that overflow) is rejected rather than framed by guesswork"; "header fields ... exactly those encoded").
 * Top-level clauses are written from RFC 9112 6.3 (message body length), 6.1 (Transfer-Encoding), 5 (field syntax, obs-fold), 4 (status line)
 * and RFC 9110 5.6.1 (lists), 8.6 (Content-Length = 1*DIGIT). */
#define R __CPROVER_return_value
#define NOEXC (iora_exc == EXC_NONE)

/* ================= CaseInsensitiveCompare::asciiLower: exact ================= */
char asciiLower_contract(unsigned char c)
__CPROVER_requires(IORA_TRUE) __CPROVER_assigns()
__CPROVER_ensures(R == ((c >= 65 && c <= 90) ? (char)(c + 32) : (char)c))
;
void h_lower(void) { unsigned char c; CaseInsensitiveCompare_asciiLower(c); IORA_CANARY("h_lower: returns"); }

/* ================= HttpClient::ciEquals ================= */
#define CIEQ_POST \
/* E1 exact for strings of at most 16 characters (every literal the parser compares with): equal lengths and every byte equal after ASCII folding */ \
__CPROVER_ensures(b.n <= 16 ==> (R == ((a.n == b.n) & CIEQ16(a, b)))) \
/* E2 any length: true only for equal lengths and a match at the arbitrary index GQ */ \
__CPROVER_ensures(R ==> ((a.n == b.n) & IMPB(GQ < a.n, HM_LOW(RDQ(a, GQ)) == HM_LOW(RDQ(b, GQ)))))
bool ciEquals_contract(iora_sv a, iora_sv b)
__CPROVER_requires(IORA_TRUE && a.n <= HM_MAXLEN && b.n <= HM_MAXLEN)
__CPROVER_requires(__CPROVER_is_fresh(a.p, a.n + 1))
__CPROVER_requires(__CPROVER_is_fresh(b.p, b.n + 1))
__CPROVER_assigns()
CIEQ_POST
;
/* the same contract for call sites (replacement). No memory predicate here (measured: __CPROVER_r_ok on a view with symbolic offset AND length
 * costs > 10 min at the call sites inside parseHeaderBlock): every argument at the call sites is a view produced by a substr shim, which
 * asserts its range, or a string literal. */
bool ciEquals_use(iora_sv a, iora_sv b)
__CPROVER_requires(IORA_TRUE && a.n <= HM_MAXLEN && b.n <= HM_MAXLEN)
__CPROVER_assigns()
CIEQ_POST
;
/* derived contract for the call `ciEquals(name, "Content-Length")` in parseHeaderBlock: when b is exactly the 14 bytes "Content-Length", the result is
 * the byte-level recognition of the field name (same macro as the field-map model: case-insensitive "content-length") */
#define B_IS_CL_LIT(b_) ((b_).n == 14 && (b_).p[0] == (char)67 && (b_).p[1] == (char)111 && (b_).p[2] == (char)110 && (b_).p[3] == (char)116 && (b_).p[4] == (char)101 && (b_).p[5] == (char)110 && (b_).p[6] == (char)116 \
   && (b_).p[7] == (char)45 && (b_).p[8] == (char)76 && (b_).p[9] == (char)101 && (b_).p[10] == (char)110 && (b_).p[11] == (char)103 && (b_).p[12] == (char)116 && (b_).p[13] == (char)104)
bool ciEquals_cl_contract(iora_sv a, iora_sv b)
__CPROVER_requires(IORA_TRUE && a.n <= HM_MAXLEN && b.n <= HM_MAXLEN)
__CPROVER_requires(__CPROVER_is_fresh(a.p, a.n + 1))
__CPROVER_requires(__CPROVER_is_fresh(b.p, b.n + 1))
__CPROVER_assigns()
/* E3 */ __CPROVER_ensures(B_IS_CL_LIT(b) ==> (R == HM_NAME_IS_CL(a)))
;
bool ciEquals_cl_use(iora_sv a, iora_sv b)
__CPROVER_requires(IORA_TRUE && a.n <= HM_MAXLEN && b.n <= HM_MAXLEN)
__CPROVER_assigns()
__CPROVER_ensures(B_IS_CL_LIT(b) ==> (R == HM_NAME_IS_CL(a)))
;
void h_cieq(void) { iora_sv a, b; bool r = ciEquals(a, b); IORA_CANARY("h_cieq: returns"); if (r) { IORA_CANARY("h_cieq: equal"); } }

/* ================= HttpClient::parseContentLength (RFC 9112 6.3 rule 5, RFC 9110 8.6) ================= */
#define PCL_PRE \
__CPROVER_requires(IORA_TRUE && iora_exc == EXC_NONE && v.n <= HM_MAXLEN) \
__CPROVER_requires(__CPROVER_is_fresh(v.p, v.n + 1)) \
__CPROVER_requires((HL.seen == 0) && (HL.c0_set == 0) && (HL.v0_set == 0)) \
__CPROVER_assigns(iora_exc, HL, HT)
#define PCL_GS (NOEXC & (GS <= v.n) & SEGSTART(v, GS <= v.n ? GS : 0))
/* proof pcl_safety: built-in checks (bounds, pointers, signed + unsigned overflow), shim preconditions, frame, variant (termination) */
uint64_t pcl_safety(iora_sv v)
PCL_PRE
/* P0 the only exception is HttpFramingError */
__CPROVER_ensures(iora_exc == EXC_NONE || iora_exc == EXC_HttpFramingError)
;
/* proof pcl_elements: a value is returned only if EVERY list element (arbitrary GS) is OWS 1*DIGIT OWS and converts to that value */
uint64_t pcl_elements(iora_sv v)
PCL_PRE
/* P1 the element starting at GS was converted and its value is the result (so all elements have the same value) */
__CPROVER_ensures(PCL_GS ==> ((HL.seen != 0) & (HL.s_val == R)))
/* P2 its bounds: GS <= a < b1 <= e <= n, e is the end of the string or a comma */
__CPROVER_ensures(PCL_GS ==> (ELEM_SHAPE(v, GS, HL.s_a, HL.s_b1, HL.s_end) & SEGEND(v, SAT(HL.s_end))))
/* P3 no comma inside, only OWS around the token (arbitrary index GQ), token starts and ends with a non-OWS byte */
__CPROVER_ensures(PCL_GS ==> (ELEM_BYTES(v, GS, HL.s_a, HL.s_b1, HL.s_end, GQ) & ELEM_TOKEN(v, HL.s_a, HL.s_b1)))
/* P4 every byte of the token is a decimal digit (arbitrary offset GD): no sign, no whitespace, no junk; an empty element has no token => rejected */
__CPROVER_ensures(PCL_GS ==> ELEM_DIGIT_AT(v, HL.s_a, HL.s_b1, GD))
;
/* proof pcl_accept: a single pure-decimal value of at most 19 digits is accepted (no spurious rejection of a valid length). The universal
 * hypothesis "every byte is a digit" is instantiated at the terms the code examined (first/last byte, the first comma search result HL.c0,
 * the from_chars failure witness GB): a weaker hypothesis, hence a stronger clause. */
#define PCL_ALLDIG_AT(t) IMPB((t) < v.n, HM_DIG(RDQ(v, t)))
uint64_t pcl_accept(iora_sv v)
PCL_PRE
/* P5 */ __CPROVER_ensures(((v.n >= 1) & (v.n <= 19) & PCL_ALLDIG_AT(0) & PCL_ALLDIG_AT(v.n - 1) & PCL_ALLDIG_AT(GB) & ((HL.c0_set != 0) ==> PCL_ALLDIG_AT(HL.c0))) ==> NOEXC)
/* P6 one- and two-digit values are exact */
__CPROVER_ensures(((v.n == 1) & HM_DIG(RDQ(v, 0))) ==> (NOEXC & (R == DG_V(RDQ(v, 0)))))
__CPROVER_ensures(((v.n == 2) & HM_DIG(RDQ(v, 0)) & HM_DIG(RDQ(v, 1))) ==> (NOEXC & (R == DG_V(RDQ(v, 0)) * 10 + DG_V(RDQ(v, 1)))))
/* P7 the result is the value from_chars produced for the FIRST element */
__CPROVER_ensures(NOEXC ==> ((HL.v0_set != 0) & (HL.v0 == R)))
;
void h_pcl(void)
{
  iora_sv v;
  uint64_t r = parseContentLength(v);
  IORA_CANARY("h_pcl: returns");
  if (iora_exc == EXC_NONE) { IORA_CANARY("h_pcl: accepted"); } else { IORA_CANARY("h_pcl: rejected"); }
}

/* ================= HttpClient::transferEncodingFinalIsChunked (RFC 9112 6.1: the final coding) ================= */
#define TE_PRE \
__CPROVER_requires(IORA_TRUE && v.n <= HM_MAXLEN) \
__CPROVER_requires(__CPROVER_is_fresh(v.p, v.n + 1)) \
__CPROVER_requires((HL.has_last == 0)) \
__CPROVER_assigns(HL, HT)
bool te_safety(iora_sv v)
TE_PRE
__CPROVER_ensures(R ==> (HL.has_last != 0))
;
/* proof te_result */
bool te_result(iora_sv v)
TE_PRE
/* T1/T2 the result is true exactly when the token the walk ended with is the 7 bytes "chunked" in any letter case (no token at all => false) */
__CPROVER_ensures(R == ((HL.has_last != 0) & (HL.lt_n == 7) & CI_CHUNKED(v, SAT(HL.lt_a))))
;
/* proof te_token */
bool te_token(iora_sv v)
TE_PRE
/* T3 that token is a properly delimited, OWS-trimmed, non-empty list element */
__CPROVER_ensures((HL.has_last != 0) ==> TE_LAST_OK(v))
;
/* proof te_tail */
bool te_tail(iora_sv v)
TE_PRE
/* T4 and it is the LAST non-empty one: after its element there are only commas and OWS (arbitrary index GQ); no token at all => the whole value is blank */
__CPROVER_ensures(TE_TAIL_BLANK(v, v.n))
;
/* replacement contract for proofs that do not depend on the comparison result */
bool ciEquals_any(iora_sv a, iora_sv b)
__CPROVER_requires(IORA_TRUE && a.n <= HM_MAXLEN && b.n <= HM_MAXLEN)
__CPROVER_assigns()
;
void h_te(void)
{
  iora_sv v;
  bool r = transferEncodingFinalIsChunked(v);
  IORA_CANARY("h_te: returns");
  if (r) { IORA_CANARY("h_te: chunked"); }
}

/* ================= HttpClient::parseHeaderBlock (RFC 9112 4 status line, 5 field lines, 5.2 obs-fold, 6.3 rule 5 duplicate Content-Length) ================= */
#define PHB_PRE \
__CPROVER_requires(IORA_TRUE && iora_exc == EXC_NONE && hs.n <= PHB_MAXLEN) \
__CPROVER_requires(__CPROVER_is_fresh(hs.p, hs.n + 1)) \
__CPROVER_requires(__CPROVER_is_fresh(resp, sizeof(Response))) \
/* call site (frameResponse): `resp = Response{}` immediately before the call - the field map is empty */ \
__CPROVER_requires(resp->headers.has_cl == 0 && resp->headers.has_te == 0) \
__CPROVER_requires(HB.seen == 0) \
__CPROVER_assigns(iora_exc, HT, HB, HS, *resp)
#define HSB(i) RDQ(hs, i)
/* proof phb_safety: built-in checks + unsigned overflow (every substr / operator[] / parseFullUInt argument in range), frame, variant (termination) */
void phb_safety(iora_sv hs, Response *resp)
PHB_PRE
/* B0 the only exception is HttpFramingError */
__CPROVER_ensures(iora_exc == EXC_NONE || iora_exc == EXC_HttpFramingError)
/* B1 the status code is a small non-negative number */
__CPROVER_ensures(NOEXC ==> (resp->statusCode >= 0 && resp->statusCode <= 999))
;
/* proof phb_status: accepted only with the status line `HTTP/1.0|1.1 SP 1*DIGIT [SP reason]`, code <= 999 */
void phb_status(iora_sv hs, Response *resp)
PHB_PRE
/* B2 HTTP-version: the block starts with "HTTP/1." followed by 0 or 1 and a space (72 84 84 80 47 49 46 48|49 32) */
__CPROVER_ensures(NOEXC ==> ((hs.n >= 10) & (HSB(0) == (char)72) & (HSB(1) == (char)84) & (HSB(2) == (char)84) & (HSB(3) == (char)80) & (HSB(4) == (char)47) & (HSB(5) == (char)49) & (HSB(6) == (char)46) \
    & ((HSB(7) == (char)48) | (HSB(7) == (char)49)) & (HSB(8) == (char)32)))
/* B3 httpVersion is exactly those three bytes */
__CPROVER_ensures(NOEXC ==> ((resp->httpVersion.n == 3) & (resp->httpVersion.p == hs.p + 5)))
/* B4 the status code is the conversion of the bytes [9, b): all decimal digits (arbitrary offset GD), ended by a space or the end of the status line, value <= 999 */
__CPROVER_ensures(NOEXC ==> ((HS.ok != 0) & (HS.a == 9) & (HS.b > 9) & (HS.b <= hs.n) & ((uint64_t)resp->statusCode == HS.val) & (HS.val <= 999)))
__CPROVER_ensures(NOEXC ==> ELEM_DIGIT_AT(hs, 9, HS.b, GD))
__CPROVER_ensures(NOEXC ==> ((HS.b == hs.n) | (HSB(SAT(HS.b)) == (char)32) | CRLF_ATQ(hs, SAT(HS.b))))
/* B5 a three-digit code (RFC 9112 4: status-code = 3DIGIT) is converted exactly */
__CPROVER_ensures((NOEXC & (HS.b == 12)) ==> (resp->statusCode == (int)(DG_V(HSB(9)) * 100 + DG_V(HSB(10)) * 10 + DG_V(HSB(11)))))
;
/* proof phb_obsfold: RFC 9112 5.2 - no accepted block contains a (non-empty) line that starts with SP / HTAB after the status line */
void phb_obsfold(iora_sv hs, Response *resp)
PHB_PRE
/* B6 */ __CPROVER_ensures((NOEXC & (GS < hs.n) & LINESTART(hs, GS) & (!CRLF_ATQ(hs, GS < hs.n ? GS : 0))) ==> !HM_OWS(RDQ(hs, GS < hs.n ? GS : 0)))
/* B6b every non-empty line after the status line (arbitrary line start GS) was split at a colon and stored in the field map */
__CPROVER_ensures((NOEXC & (GS < hs.n) & LINESTART(hs, GS) & (!CRLF_ATQ(hs, GS < hs.n ? GS : 0))) ==> (HB.seen != 0))
;
/* proof phb_dupcl: RFC 9112 6.3 rule 5 - an accepted block has no CONFLICTING Content-Length lines, whatever the letter case of the field names.
 * The header line that starts at the arbitrary GS (B6: every such line is stored): if the case-insensitive field map files it under
 * Content-Length (recognised by the BYTES of its name, HM_NAME_IS_CL - not by the code's own comparison), its value is byte-equal
 * (length + arbitrary offset GK) to the ONE value the map ends up with, which is the value determineFraming frames the body with. */
void phb_dupcl(iora_sv hs, Response *resp)
PHB_PRE
/* B7 */ __CPROVER_ensures((NOEXC & (HB.seen != 0) & (HB.s_iscl != 0)) ==> (resp->headers.has_cl != 0))
/* B8 */ __CPROVER_ensures((NOEXC & (HB.seen != 0) & (HB.s_iscl != 0)) ==> ((HB.s_va <= hs.n) & (HB.s_vn <= hs.n) & (HB.s_va + HB.s_vn <= hs.n) & SVEQ_AT(hs, HB.s_va, HB.s_vn, HB.cl_off, resp->headers.cl.second.n)))
/* B9 the stored value is a range of the block */
__CPROVER_ensures((NOEXC & (resp->headers.has_cl != 0)) ==> ((HB.cl_off <= hs.n) & (resp->headers.cl.second.n <= hs.n) & (HB.cl_off + resp->headers.cl.second.n <= hs.n) & ((resp->headers.cl.second.n == 0) | (resp->headers.cl.second.p == hs.p + HB.cl_off))))
;
void h_phb(void)
{
  iora_sv hs; Response *resp;
  parseHeaderBlock(hs, resp);
  IORA_CANARY("h_phb: returns");
  if (iora_exc == EXC_NONE) { IORA_CANARY("h_phb: accepted"); } else { IORA_CANARY("h_phb: rejected"); }
  if (iora_exc == EXC_NONE && HB.seen) { IORA_CANARY("h_phb: accepted with a header line at GS"); }
}

/* ================= HttpClient::determineFraming: the decision table of RFC 9112 6.3 (written from the RFC, rules in order) ================= */
/* environment contracts of the two callees for this proof: any result, recorded together with the argument they were called with */
bool te_env(iora_sv v)
__CPROVER_requires(IORA_TRUE && HD.te_called == 0)
__CPROVER_assigns(HD.te_called, HD.te_ret, HD.te_p, HD.te_n)
__CPROVER_ensures(HD.te_called != 0 && HD.te_ret == R && HD.te_p == v.p && HD.te_n == v.n)
;
uint64_t pcl_env(iora_sv v)
__CPROVER_requires(IORA_TRUE && HD.cl_called == 0 && iora_exc == EXC_NONE)
__CPROVER_assigns(iora_exc, HD.cl_called, HD.cl_throws, HD.cl_ret, HD.cl_p, HD.cl_n)
__CPROVER_ensures(HD.cl_called != 0 && HD.cl_p == v.p && HD.cl_n == v.n)
__CPROVER_ensures((iora_exc == EXC_NONE || iora_exc == EXC_HttpFramingError) && (HD.cl_throws != 0) == (iora_exc != EXC_NONE))
__CPROVER_ensures(iora_exc == EXC_NONE ==> HD.cl_ret == R)
;
#define M_IS4(m_, a_, b_, c_, d_) (((m_).n == 4) && (m_).p[0] == (char)(a_) && (m_).p[1] == (char)(b_) && (m_).p[2] == (char)(c_) && (m_).p[3] == (char)(d_))
#define M_HEAD M_IS4(method, 72, 69, 65, 68)
#define M_CONNECT ((method.n == 7) && method.p[0] == (char)67 && method.p[1] == (char)79 && method.p[2] == (char)78 && method.p[3] == (char)78 && method.p[4] == (char)69 && method.p[5] == (char)67 && method.p[6] == (char)84)
#define SC (resp->statusCode)
#define RULE1 (M_HEAD || SC == 204 || SC == 304 || (SC >= 100 && SC < 200))
#define HAS_TE (resp->headers.has_te != 0)
#define HAS_CL (resp->headers.has_cl != 0)
Framing df_contract(iora_sv method, const Response *resp, size_t effectiveCap)
__CPROVER_requires(IORA_TRUE && iora_exc == EXC_NONE && method.n <= 64)
__CPROVER_requires(__CPROVER_is_fresh(method.p, method.n + 1))
__CPROVER_requires(__CPROVER_is_fresh(resp, sizeof(Response)))
__CPROVER_requires(HD.te_called == 0 && HD.cl_called == 0)
__CPROVER_assigns(iora_exc, HD)
__CPROVER_ensures(iora_exc == EXC_NONE || iora_exc == EXC_HttpFramingError)
/* D0 (rule 2, declared non-goal) a response to CONNECT is never framed */
__CPROVER_ensures(M_CONNECT ==> !NOEXC)
/* D1 (rule 1) HEAD / 1xx / 204 / 304: no body, whatever the header fields say; no header field is even evaluated */
__CPROVER_ensures((!M_CONNECT && RULE1) ==> (NOEXC && R.mode == BodyMode_NoBody && R.contentLength == 0 && HD.te_called == 0 && HD.cl_called == 0))
/* D3 (rule 3) Transfer-Encoding AND Content-Length: rejected */
__CPROVER_ensures((!M_CONNECT && !RULE1 && HAS_TE && HAS_CL) ==> !NOEXC)
/* D4 (rule 4) Transfer-Encoding alone: chunked iff the final coding of exactly that field value is chunked, else read until close */
__CPROVER_ensures((!M_CONNECT && !RULE1 && HAS_TE && !HAS_CL) ==> (NOEXC && HD.te_called != 0 && HD.te_p == resp->headers.te.second.p && HD.te_n == resp->headers.te.second.n && R.contentLength == 0 \
    && R.mode == (HD.te_ret ? BodyMode_Chunked : BodyMode_CloseDelimited)))
/* D5 (rules 5/6) Content-Length alone: the list value of exactly that field is validated; invalid => rejected; above the cap => rejected; else exactly N octets */
__CPROVER_ensures((!M_CONNECT && !RULE1 && !HAS_TE && HAS_CL) ==> (HD.cl_called != 0 && HD.cl_p == resp->headers.cl.second.p && HD.cl_n == resp->headers.cl.second.n && HD.te_called == 0))
__CPROVER_ensures((!M_CONNECT && !RULE1 && !HAS_TE && HAS_CL && (HD.cl_throws != 0)) ==> !NOEXC)
__CPROVER_ensures((!M_CONNECT && !RULE1 && !HAS_TE && HAS_CL && (HD.cl_throws == 0) && HD.cl_ret > effectiveCap) ==> !NOEXC)
__CPROVER_ensures((!M_CONNECT && !RULE1 && !HAS_TE && HAS_CL && (HD.cl_throws == 0) && HD.cl_ret <= effectiveCap) ==> (NOEXC && R.mode == BodyMode_ContentLength && R.contentLength == HD.cl_ret))
/* D8 (rule 8) neither: read until close */
__CPROVER_ensures((!M_CONNECT && !RULE1 && !HAS_TE && !HAS_CL) ==> (NOEXC && R.mode == BodyMode_CloseDelimited && R.contentLength == 0 && HD.te_called == 0 && HD.cl_called == 0))
;
void h_df(void)
{
  iora_sv m; const Response *r; size_t cap;
  Framing f = determineFraming(m, r, cap);
  IORA_CANARY("h_df: returns");
  if (iora_exc == EXC_NONE && f.mode == BodyMode_ContentLength) { IORA_CANARY("h_df: content-length"); }
  if (iora_exc == EXC_NONE && f.mode == BodyMode_Chunked) { IORA_CANARY("h_df: chunked"); }
  if (iora_exc != EXC_NONE) { IORA_CANARY("h_df: rejected"); }
}

/* ================= HttpClient::frameResponse (RFC 9112 6.3 message body length; 15.2 interim responses; segmentation independence of the header scan) ================= */
/* environment contracts of the two callees for this proof = clauses PROVED above (phb_safety B0/B1, determine_framing D5 + result domain) */
void phb_env(iora_sv hs, Response *resp)
__CPROVER_requires(IORA_TRUE && iora_exc == EXC_NONE)
/* R9 (RFC 9112 6.3 / 15.2: the body of the FINAL response is delimited by the final response's OWN framing fields only). parseHeaderBlock only ADDS to /
 *    overwrites the field map it is given (`resp.headers[name] = value`; this stub: any result for a non-empty map, carried-over entries included), and
 *    determineFraming reads the same map. So at EVERY call - the first one and each one that follows a discarded interim 1xx response - the map must hold
 *    no framing field of an earlier block or of the caller: resp is in its default state (`resp = Response{}` immediately before the call). This is also the
 *    call-site precondition of parseHeaderBlock's own contract (phb_* proofs). */
__CPROVER_requires(resp->headers.has_cl == 0 && resp->headers.has_te == 0 && resp->statusCode == 0 && resp->body.n == 0)
__CPROVER_assigns(iora_exc, *resp)
/* "adds to what is there": an entry that was in the map stays in the map (relevant only where R9 is violated) */
__CPROVER_ensures((__CPROVER_old(resp->headers.has_cl) != 0 ==> resp->headers.has_cl != 0) && (__CPROVER_old(resp->headers.has_te) != 0 ==> resp->headers.has_te != 0))
__CPROVER_ensures(iora_exc == EXC_NONE || iora_exc == EXC_HttpFramingError)
__CPROVER_ensures(iora_exc == EXC_NONE ==> (resp->statusCode >= 0 && resp->statusCode <= 999))
;
Framing df_env(iora_sv method, const Response *resp, size_t effectiveCap)
__CPROVER_requires(IORA_TRUE && iora_exc == EXC_NONE)
__CPROVER_assigns(iora_exc)
__CPROVER_ensures(iora_exc == EXC_NONE || iora_exc == EXC_HttpFramingError)
__CPROVER_ensures(iora_exc == EXC_NONE ==> (R.mode == BodyMode_NoBody || R.mode == BodyMode_ContentLength || R.mode == BodyMode_Chunked || R.mode == BodyMode_CloseDelimited))
__CPROVER_ensures((iora_exc == EXC_NONE && R.mode == BodyMode_ContentLength) ==> R.contentLength <= effectiveCap)
;
#define FR_PRE \
__CPROVER_requires(IORA_TRUE && iora_exc == EXC_NONE && method.n <= 64) \
__CPROVER_requires(__CPROVER_is_fresh(data, sizeof(*data))) \
__CPROVER_requires(data->off == 0 && data->n <= FR_MAXLEN && __CPROVER_is_fresh(data->p, data->n + 1)) \
__CPROVER_requires(__CPROVER_is_fresh(headersDone, sizeof(bool))) \
__CPROVER_requires(__CPROVER_is_fresh(headerScanPos, sizeof(size_t))) \
__CPROVER_requires(__CPROVER_is_fresh(bodyStart, sizeof(size_t))) \
__CPROVER_requires(__CPROVER_is_fresh(resp, sizeof(Response))) \
__CPROVER_requires(__CPROVER_is_fresh(framing, sizeof(Framing))) \
__CPROVER_requires(__CPROVER_is_fresh(chunkState, sizeof(ChunkState))) \
__CPROVER_requires(__CPROVER_is_fresh(forceEvict, sizeof(bool))) \
/* state carried between calls (executeRequest only appends to data between calls): the scan state is sound for the current buffer; once the header \
 * block is complete, bodyStart and the chunk parser position lie inside the buffer and the mode is one of the four */ \
__CPROVER_requires(!*headersDone ==> FR_SCAN_RANGE(*data, *headerScanPos)) \
__CPROVER_requires(HM_CONTENT(!*headersDone ==> FR_SCAN_NONE_BELOW(*data, *headerScanPos))) \
__CPROVER_requires(*headersDone ==> (*bodyStart <= data->n && chunkState->pos <= data->n && framing->mode >= BodyMode_NoBody && framing->mode <= BodyMode_CloseDelimited && !(resp->statusCode >= 100 && resp->statusCode < 200))) \
__CPROVER_requires(FR.found == 0) \
__CPROVER_assigns(data->off, data->n, *headersDone, *headerScanPos, *bodyStart, *resp, *framing, *chunkState, *forceEvict, iora_exc, FR)
#define OLD_HD __CPROVER_old(*headersDone)
#define OLD_FE __CPROVER_old(*forceEvict)
/* proof fr_safety: built-in checks + unsigned overflow (Content-Length branch by SUBTRACTION: `size - bodyStart`, `bodyStart + contentLength` cannot wrap),
 * substr / advanceChunked / parseHeaderBlock call-site preconditions, frame, scan-range invariant, VARIANT (each discarded interim response shrinks the buffer) */
bool fr_safety(iora_sv method, fr_str *data, bool *headersDone, size_t *headerScanPos, size_t *bodyStart, Response *resp, Framing *framing, ChunkState *chunkState, bool *forceEvict, size_t effectiveCap)
FR_PRE
/* R0 only HttpFramingError; an exception or `false` never hands a body to the caller as complete */
__CPROVER_ensures(iora_exc == EXC_NONE || (iora_exc == EXC_HttpFramingError && !R))
/* R1 the buffer only ever loses a PREFIX (discarded interim responses); the state carried to the next call satisfies this contract's precondition again */
__CPROVER_ensures(data->n <= __CPROVER_old(data->n) && data->off + data->n == __CPROVER_old(data->n))
__CPROVER_ensures((NOEXC && !*headersDone) ==> (!R && FR_SCAN_RANGE(*data, *headerScanPos)))
__CPROVER_ensures((NOEXC && *headersDone) ==> (*bodyStart <= data->n && (framing->mode != BodyMode_Chunked || chunkState->pos <= data->n)))
/* R2 Content-Length: complete exactly when bodyStart + N octets are buffered (mathematical sum); the body is EXACTLY [bodyStart, bodyStart + N); surplus => forceEvict */
__CPROVER_ensures((NOEXC && *headersDone && framing->mode == BodyMode_ContentLength) ==> (R == (framing->contentLength <= data->n - *bodyStart)))
__CPROVER_ensures((R && framing->mode == BodyMode_ContentLength) ==> (resp->body.p == data->p + data->off + *bodyStart && resp->body.n == framing->contentLength))
__CPROVER_ensures((R && framing->mode == BodyMode_ContentLength) ==> ((*forceEvict != 0) == ((OLD_FE != 0) || data->n - *bodyStart > framing->contentLength)))
/* R3 no body: complete at once, empty body, any byte after the header block => forceEvict */
__CPROVER_ensures((NOEXC && *headersDone && framing->mode == BodyMode_NoBody) ==> (R && resp->body.n == 0 && (*forceEvict != 0) == ((OLD_FE != 0) || data->n > *bodyStart)))
/* R4 chunked: complete only when the chunk decoder says so; surplus after messageEnd => forceEvict; close-delimited never completes here */
__CPROVER_ensures((R && framing->mode == BodyMode_Chunked) ==> (chunkState->messageEnd <= data->n && (*forceEvict != 0) == ((OLD_FE != 0) || data->n > chunkState->messageEnd)))
__CPROVER_ensures((NOEXC && *headersDone && framing->mode == BodyMode_CloseDelimited) ==> !R)
/* R8 (RFC 9112 15.2) an interim 1xx response is never handed out as the final response; the header block that is kept is not an interim one */
__CPROVER_ensures((NOEXC && *headersDone) ==> !(resp->statusCode >= 100 && resp->statusCode < 200))
/* R5 forceEvict is never cleared; once the header block is complete it stays complete and bodyStart / framing are not re-derived */
__CPROVER_ensures(((OLD_FE != 0) ==> (*forceEvict != 0)) && (OLD_HD ==> (*headersDone && *bodyStart == __CPROVER_old(*bodyStart) && framing->mode == __CPROVER_old(framing->mode) && framing->contentLength == __CPROVER_old(framing->contentLength) && data->n == __CPROVER_old(data->n))))
;
/* proof fr_scan: the header-terminator scan is segmentation independent */
bool fr_scan(iora_sv method, fr_str *data, bool *headersDone, size_t *headerScanPos, size_t *bodyStart, Response *resp, Framing *framing, ChunkState *chunkState, bool *forceEvict, size_t effectiveCap)
FR_PRE
/* R6 need-more: NO header terminator starts below the saved cursor of the CURRENT buffer (arbitrary GQ) - also right after interim responses were discarded */
__CPROVER_ensures((NOEXC && !*headersDone) ==> FR_SCAN_NONE_BELOW(*data, *headerScanPos))
/* R7 header block completed by this call: bodyStart is just past the FIRST CRLF CRLF of the (remaining) buffer - none starts before it (arbitrary GQ) */
__CPROVER_ensures((NOEXC && !OLD_HD && *headersDone) ==> ((FR.found != 0) && *bodyStart == FR.he + 4 && *bodyStart <= data->n && FR_CRLF2_AT(*data, FR.he)))
__CPROVER_ensures((NOEXC && !OLD_HD && *headersDone) ==> (!((GQ < FR.he) && (GQ <= data->n) && (data->n - GQ >= 4)) || !FR_CRLF2_AT(*data, GQ)))
;
void h_fr(void)
{
  iora_sv m; fr_str *d; bool *hd; size_t *hsp; size_t *bs; Response *r; Framing *f; ChunkState *cs; bool *fe; size_t cap;
  bool done = frameResponse(m, d, hd, hsp, bs, r, f, cs, fe, cap);
  IORA_CANARY("h_fr: returns");
  if (done) { IORA_CANARY("h_fr: complete"); }
  if (iora_exc != EXC_NONE) { IORA_CANARY("h_fr: rejected"); }
}
