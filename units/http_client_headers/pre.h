typedef struct { BodyMode mode; uint64_t contentLength; } Framing;      /* struct Framing (http_client.hpp): mode{CloseDelimited}, contentLength{0} */
#define Framing_DEFAULT ((Framing){ BodyMode_CloseDelimited, 0 })
#define FRAMING_EXC ((Framing){ BodyMode_CloseDelimited, 0 })             /* value "returned" when an exception is raised (never used by the caller) */
/* spec macros + loop contracts for unit http_client_headers (C15). Written from RFC 9112 6.3 / 6.1 / 5 and RFC 9110 5.6.1 as byte values
 * (44 ',', 32 SP, 9 HTAB, 58 ':', 13 CR, 10 LF). Style: range guards in front, otherwise bitwise connectives over clamped reads. */

/* ---- comma-separated lists (RFC 9110 5.6.1): an element starts at 0 or right after a comma and ends at n or right before one ---- */
#define SEGSTART(q, s) (((s) == 0) | (RDQ(q, (s) == 0 ? 0 : (s) - 1) == (char)44))
#define SEGEND(q, e) (((e) == (q).n) | (RDQ(q, e) == (char)44))
/* the element [s,e) is OWS* token OWS* with the token [a,b1) */
#define ELEM_SHAPE(q, s, a, b1, e) (((s) <= (a)) & ((a) < (b1)) & ((b1) <= (e)) & ((e) <= (q).n) & ((e) <= HM_MAXLEN))
#define ELEM_BYTES(q, s, a, b1, e, t) (IMPB(((s) <= (t)) & ((t) < (e)), RDQ(q, t) != (char)44) \
    & IMPB(((s) <= (t)) & ((t) < (a)), HM_OWS(RDQ(q, t))) & IMPB(((b1) <= (t)) & ((t) < (e)), HM_OWS(RDQ(q, t))))
#define ELEM_TOKEN(q, a, b1) ((!HM_OWS(RDQ(q, SAT(a)))) & (!HM_OWS(RDQ(q, SAT(b1) == 0 ? 0 : SAT(b1) - 1))))
#define ELEM_DIGIT_AT(q, a, b1, d) IMPB(((a) <= (b1)) & ((d) < (b1) - (a)), HM_DIG(RDQ(q, SAT(a) + ((d) <= HM_MAXLEN ? (d) : 0))))

/* ---- ASCII case-insensitive comparison ---- */
#define CIEQ_K(a_, b_, k) IMPB((k) < (a_).n, HM_LOW(RDQ(a_, k)) == HM_LOW(RDQ(b_, k)))
#define CIEQ_UPTO_K(a_, b_, k, i_) IMPB((k) < (i_), HM_LOW(RDQ(a_, k)) == HM_LOW(RDQ(b_, k)))
#define CIEQ16(a_, b_) (CIEQ_K(a_, b_, 0) & CIEQ_K(a_, b_, 1) & CIEQ_K(a_, b_, 2) & CIEQ_K(a_, b_, 3) & CIEQ_K(a_, b_, 4) & CIEQ_K(a_, b_, 5) & CIEQ_K(a_, b_, 6) & CIEQ_K(a_, b_, 7) \
    & CIEQ_K(a_, b_, 8) & CIEQ_K(a_, b_, 9) & CIEQ_K(a_, b_, 10) & CIEQ_K(a_, b_, 11) & CIEQ_K(a_, b_, 12) & CIEQ_K(a_, b_, 13) & CIEQ_K(a_, b_, 14) & CIEQ_K(a_, b_, 15))
#define CIEQ16_UPTO(a_, b_, i_) (CIEQ_UPTO_K(a_, b_, 0, i_) & CIEQ_UPTO_K(a_, b_, 1, i_) & CIEQ_UPTO_K(a_, b_, 2, i_) & CIEQ_UPTO_K(a_, b_, 3, i_) & CIEQ_UPTO_K(a_, b_, 4, i_) & CIEQ_UPTO_K(a_, b_, 5, i_) \
    & CIEQ_UPTO_K(a_, b_, 6, i_) & CIEQ_UPTO_K(a_, b_, 7, i_) & CIEQ_UPTO_K(a_, b_, 8, i_) & CIEQ_UPTO_K(a_, b_, 9, i_) & CIEQ_UPTO_K(a_, b_, 10, i_) & CIEQ_UPTO_K(a_, b_, 11, i_) \
    & CIEQ_UPTO_K(a_, b_, 12, i_) & CIEQ_UPTO_K(a_, b_, 13, i_) & CIEQ_UPTO_K(a_, b_, 14, i_) & CIEQ_UPTO_K(a_, b_, 15, i_))
/* the 7 bytes at q[a..a+7) spell "chunked" in any letter case (99 c, 104 h, 117 u, 110 n, 107 k, 101 e, 100 d) */
#define CI_CH(c, l) (((c) == (char)(l)) | ((c) == (char)((l) - 32)))
#define CI_CHUNKED(q, a) (CI_CH(RDQ(q, a), 99) & CI_CH(RDQ(q, (a) + 1), 104) & CI_CH(RDQ(q, (a) + 2), 117) & CI_CH(RDQ(q, (a) + 3), 110) & CI_CH(RDQ(q, (a) + 4), 107) \
    & CI_CH(RDQ(q, (a) + 5), 101) & CI_CH(RDQ(q, (a) + 6), 100))

/* ciEquals loop: every index below i matches (exactly for the first 16 indices, and at the arbitrary index GQ) */
#define IORA_LOOP_ciEquals_1 IORA_LC( \
  __CPROVER_assigns(i) \
  __CPROVER_loop_invariant((i <= a.n) & (a.n == b.n)) \
  __CPROVER_loop_invariant(CIEQ16_UPTO(a, b, i)) \
  __CPROVER_loop_invariant(IMPB(GQ < i, HM_LOW(RDQ(a, GQ)) == HM_LOW(RDQ(b, GQ)))) \
  __CPROVER_decreases(a.n - i))

/* ---- parseContentLength: the walk over the list. pos is always the start of an element; have <=> an element has been accepted;
 * the element that starts at the arbitrary GS was handled (ghost snapshot), is OWS* 1*DIGIT OWS* and from_chars gave `result` for it ---- */
#ifdef PCL_COVER
#define PCL_INV_COVER \
  __CPROVER_loop_invariant(((GS < pos) & SEGSTART(v, GS < pos ? GS : 0)) ==> ((HL.seen != 0) & (HL.s_val == result))) \
  __CPROVER_loop_invariant(((GS < pos) & SEGSTART(v, GS < pos ? GS : 0)) ==> (ELEM_SHAPE(v, GS, HL.s_a, HL.s_b1, HL.s_end) & SEGEND(v, SAT(HL.s_end)))) \
  __CPROVER_loop_invariant(((GS < pos) & SEGSTART(v, GS < pos ? GS : 0)) ==> (ELEM_BYTES(v, GS, HL.s_a, HL.s_b1, HL.s_end, GQ) & ELEM_TOKEN(v, HL.s_a, HL.s_b1) & ELEM_DIGIT_AT(v, HL.s_a, HL.s_b1, GD)))
#else
#define PCL_INV_COVER
#endif
#ifdef PCL_FIRST
#define PCL_INV_FIRST __CPROVER_loop_invariant((pos == 0) ==> ((HL.c0_set == 0) & (HL.v0_set == 0))) \
  __CPROVER_loop_invariant((pos > 0) ==> ((HL.c0_set != 0) & (HL.v0_set != 0) & (HL.c0 < pos) & (HL.v0 == result) & (RDQ(v, HL.c0 < pos ? HL.c0 : 0) == (char)44)))
#else
#define PCL_INV_FIRST
#endif
#define IORA_LOOP_parseContentLength_1 IORA_LC( \
  __CPROVER_assigns(pos, result, have, iora_exc, HL, HT) \
  __CPROVER_loop_invariant(iora_exc == EXC_NONE) \
  __CPROVER_loop_invariant(pos <= v.n) \
  __CPROVER_loop_invariant(HM_CONTENT(SEGSTART(v, pos <= v.n ? pos : 0))) \
  __CPROVER_loop_invariant(have == (pos > 0)) \
  PCL_INV_COVER PCL_INV_FIRST \
  __CPROVER_decreases(v.n - pos))

/* ---- transferEncodingFinalIsChunked: lastToken is the token of the last non-empty element before pos (ghost record written by the substr shim);
 * after that element there are only commas and OWS ---- */
#define TE_LAST_OK(q) (ELEM_SHAPE(q, HL.lt_s, HL.lt_a, SAT(HL.lt_a) + SAT(HL.lt_n), HL.lt_end) & (HL.lt_s <= HM_MAXLEN) & (HL.lt_n <= HM_MAXLEN) & SEGSTART(q, SAT(HL.lt_s)) & SEGEND(q, SAT(HL.lt_end)) \
    & ELEM_BYTES(q, HL.lt_s, HL.lt_a, SAT(HL.lt_a) + SAT(HL.lt_n), HL.lt_end, GQ) & ELEM_TOKEN(q, HL.lt_a, SAT(HL.lt_a) + SAT(HL.lt_n)))
#define TE_TAIL_BLANK(q, upto) IMPB((((HL.has_last != 0) ? HL.lt_end : 0) <= GQ) & (GQ < (upto)), HM_OWS(RDQ(q, GQ)) | (RDQ(q, GQ) == (char)44))
#ifdef TE_TOKEN
#define TE_INV_TOKEN __CPROVER_loop_invariant((HL.has_last != 0) ==> TE_LAST_OK(v))
#else
#define TE_INV_TOKEN
#endif
#ifdef TE_TAIL
#define TE_INV_TAIL __CPROVER_loop_invariant(TE_TAIL_BLANK(v, pos))
#else
#define TE_INV_TAIL
#endif
#ifndef TE_PTR_EQ
#define TE_PTR_EQ (lastToken.p == v.p + HL.lt_a)
#endif
#define IORA_LOOP_transferEncodingFinalIsChunked_1 IORA_LC( \
  __CPROVER_assigns(pos, lastToken, HL, HT) \
  __CPROVER_loop_invariant(pos <= v.n) \
  __CPROVER_loop_invariant(HM_CONTENT(SEGSTART(v, pos <= v.n ? pos : 0))) \
  __CPROVER_loop_invariant((HL.has_last != 0) ? ((HL.lt_a <= v.n) && (HL.lt_n <= v.n - HL.lt_a) && (TE_PTR_EQ & (lastToken.n == HL.lt_n) & (HL.lt_n >= 1) & (HL.lt_end < pos))) : (lastToken.n == 0)) \
  TE_INV_TOKEN TE_INV_TAIL \
  __CPROVER_decreases(v.n - pos))

/* ---- parseHeaderBlock: the header-line loop. A line starts right after a CRLF (RFC 9112 2.1/5); the status line is line 0 ---- */
#define CRLF_ATQ(q, i) ((RDQ(q, i) == (char)13) & (RDQ(q, (i) + 1) == (char)10))
#define LINESTART(q, s) (((s) >= 2) & ((s) <= HM_MAXLEN) & CRLF_ATQ(q, ((s) >= 2) & ((s) <= HM_MAXLEN) ? (s) - 2 : 0))
/* the line at s is a Content-Length field line in the RFC 9112 5 form `field-name ":"` (no whitespace before the colon), any letter case */
#define CI_CL(q, a) (CI_CH(RDQ(q, a), 99) & CI_CH(RDQ(q, (a) + 1), 111) & CI_CH(RDQ(q, (a) + 2), 110) & CI_CH(RDQ(q, (a) + 3), 116) & CI_CH(RDQ(q, (a) + 4), 101) & CI_CH(RDQ(q, (a) + 5), 110) \
    & CI_CH(RDQ(q, (a) + 6), 116) & (RDQ(q, (a) + 7) == (char)45) & CI_CH(RDQ(q, (a) + 8), 108) & CI_CH(RDQ(q, (a) + 9), 101) & CI_CH(RDQ(q, (a) + 10), 110) & CI_CH(RDQ(q, (a) + 11), 103) \
    & CI_CH(RDQ(q, (a) + 12), 116) & CI_CH(RDQ(q, (a) + 13), 104))
#define CLLINE(q, s) (((s) <= HM_MAXLEN) & (SAT(s) + 15 <= (q).n) & CI_CL(q, SAT(s)) & (RDQ(q, SAT(s) + 14) == (char)58))
/* two ranges of q hold the same bytes (length, and the byte at the arbitrary offset GK) */
#define SVEQ_AT(q, a1, n1, a2, n2) (((n1) == (n2)) & IMPB(GK < (n1), RDQ(q, SAT(a1) + (GK < (n1) ? GK : 0)) == RDQ(q, SAT(a2) + (GK < (n1) ? GK : 0))))
#define MAPCL ((*resp).headers)
#ifdef PHB_OBS
#define PHB_INV_OBS __CPROVER_loop_invariant(((GS < pos) & LINESTART(hs, GS) & (!CRLF_ATQ(hs, GS < pos ? GS : 0))) ==> ((!HM_OWS(RDQ(hs, GS < pos ? GS : 0))) & (HB.seen != 0)))
#else
#define PHB_INV_OBS
#endif
#ifdef PHB_CL
#define PHB_INV_CL \
  /* the duplicate detector is in step with the field map: haveCL <=> a Content-Length value is stored, and clValue IS that value */ \
  __CPROVER_loop_invariant(haveCL == (MAPCL.has_cl != 0)) \
  __CPROVER_loop_invariant(haveCL ==> ((clValue.n == MAPCL.cl.second.n) & (HB.cl_off <= hs.n) & (clValue.n <= hs.n) & (HB.cl_off + clValue.n <= hs.n) & ((clValue.n == 0) | ((clValue.p == hs.p + HB.cl_off) & (MAPCL.cl.second.p == hs.p + HB.cl_off))))) \
  /* the line that starts at the arbitrary GS: once it has been filed under Content-Length, its value equals clValue */ \
  __CPROVER_loop_invariant(((HB.seen != 0) & (HB.s_iscl != 0)) ==> (haveCL & (HB.s_va <= hs.n) & (HB.s_vn <= hs.n) & (HB.s_va + HB.s_vn <= hs.n) & SVEQ_AT(hs, HB.s_va, HB.s_vn, HB.cl_off, clValue.n)))
#else
#define PHB_INV_CL
#endif
#define IORA_LOOP_parseHeaderBlock_1 IORA_LC( \
  __CPROVER_assigns(pos, haveCL, clValue, iora_exc, HT, HB, (*resp).headers) \
  __CPROVER_loop_invariant(iora_exc == EXC_NONE) \
  __CPROVER_loop_invariant((pos >= 2) & (pos <= hs.n)) \
  __CPROVER_loop_invariant(HM_LOOP_CONTENT((pos == hs.n) | LINESTART(hs, pos))) \
  PHB_INV_OBS PHB_INV_CL \
  __CPROVER_decreases(hs.n - pos))


/* ================= frameResponse ================= */
/* HttpClient::advanceChunked: the contract PROVED in unit http_chunked_client (proof safety_mem/safety_arith: A1, A3 range part, A5), used by replacement.
 * Its call-site precondition there ("st.pos <= buf.size()", trusted in that unit) is a requires clause here, i.e. it is CHECKED at this call site. */
FrameStatus advanceChunked(fr_str buf, size_t effectiveCap, ChunkState *st)
  __CPROVER_requires(IORA_TRUE && st->pos <= buf.n)
  __CPROVER_assigns(st->pos, st->decoded, st->messageEnd)
  __CPROVER_ensures(__CPROVER_old(st->pos) <= st->pos && st->pos <= buf.n)
  __CPROVER_ensures(__CPROVER_return_value == FrameStatus_NeedMore || __CPROVER_return_value == FrameStatus_Complete || __CPROVER_return_value == FrameStatus_Malformed)
  __CPROVER_ensures(__CPROVER_return_value == FrameStatus_Complete ==> (st->messageEnd <= buf.n && st->messageEnd >= 5 && st->messageEnd - 5 >= st->pos))
  __CPROVER_ensures(__CPROVER_return_value != FrameStatus_Complete ==> st->messageEnd == __CPROVER_old(st->messageEnd));

/* The header-terminator scan state (RFC 9112 2.2; segmentation independence): while the header block is incomplete, headerScanPos refers to the
 * CURRENT buffer - it leaves at least 3 bytes to re-scan (a CRLF CRLF straddling the next append is still found) and NO header terminator starts
 * below it (arbitrary index GQ): a search resumed there finds the same first CRLF CRLF as a search from 0. */
#define FR_SCAN_RANGE(d_, h_) (((h_) == 0) | (((h_) <= (d_).n) && ((d_).n - (h_) >= 3)))
#define FR_SCAN_NONE_BELOW(d_, h_) (!((GQ < (h_)) && (GQ <= (d_).n) && ((d_).n - GQ >= 4)) || !FR_CRLF2_AT(d_, GQ))
/* loop 1: iterates only by discarding an interim 1xx response; variant: the buffer shrinks by at least 4 bytes each time */
#define IORA_LOOP_frameResponse_1 IORA_LC( \
  __CPROVER_assigns(data->off, data->n, *headersDone, *headerScanPos, *bodyStart, *resp, *framing, *chunkState, *forceEvict, iora_exc, FR) \
  __CPROVER_loop_invariant(iora_exc == EXC_NONE && data->n <= __CPROVER_loop_entry(data->n) && data->off <= FR_MAXLEN && data->off + data->n == __CPROVER_loop_entry(data->off) + __CPROVER_loop_entry(data->n)) \
  __CPROVER_loop_invariant(*headersDone == __CPROVER_loop_entry(*headersDone) && (*forceEvict != 0) == (__CPROVER_loop_entry(*forceEvict) != 0)) \
  __CPROVER_loop_invariant(*headersDone ==> (*bodyStart == __CPROVER_loop_entry(*bodyStart) && framing->mode == __CPROVER_loop_entry(framing->mode) && framing->contentLength == __CPROVER_loop_entry(framing->contentLength) && chunkState->pos == __CPROVER_loop_entry(chunkState->pos) && data->n == __CPROVER_loop_entry(data->n))) \
  __CPROVER_loop_invariant(!*headersDone ==> FR_SCAN_RANGE(*data, *headerScanPos)) \
  __CPROVER_loop_invariant(HM_CONTENT(!*headersDone ==> FR_SCAN_NONE_BELOW(*data, *headerScanPos))) \
  __CPROVER_decreases(data->n))
