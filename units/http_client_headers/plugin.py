"""Unit-local extractor hook for http_client_headers.

HttpClient::parseHeaderBlock defines its helper `trim` as a local lambda INSIDE the header-line loop:
    auto trim = [](std::string &s) { ... };
The lambda body is extracted as its own C function (`phb_trim`, unit.json "lambda_in"), so the defining statement is cut out of the
host function's token stream here (the calls `trim(name); trim(value);` stay and are mapped to `phb_trim(&..)` by a declared rule).
Checked on every run (else exit 2): exactly one such statement, EMPTY capture list (a capturing lambda could not be outlined as a plain
function), parameter list `std::string &s`. Nothing else is added, removed or reordered.
"""
from vt.lexer import match_close, text_of
from vt.x2c import ExtractionBreak


def hook_begin(t, rw):
    if rw.prefix != 'parseHeaderBlock':
        return t
    hits = [i for i in range(len(t) - 3) if t[i].text == 'auto' and t[i + 1].text == 'trim' and t[i + 2].text == '=' and t[i + 3].text == '[']
    if len(hits) != 1:
        raise ExtractionBreak(f"parseHeaderBlock: {len(hits)} definitions of the local lambda `trim` (need exactly 1)")
    i = hits[0]
    rbk = match_close(t, i + 3)
    if rbk != i + 4:
        raise ExtractionBreak("parseHeaderBlock: lambda `trim` now captures variables: " + text_of(t[i + 3:rbk + 1]))
    if t[rbk + 1].text != '(':
        raise ExtractionBreak("parseHeaderBlock: lambda `trim` has no parameter list")
    rp = match_close(t, rbk + 1)
    if text_of(t[rbk + 2:rp]).replace(' ', '') != 'std::string&s':
        raise ExtractionBreak("parseHeaderBlock: lambda `trim` parameter list changed: " + text_of(t[rbk + 2:rp]))
    if t[rp + 1].text != '{':
        raise ExtractionBreak("parseHeaderBlock: lambda `trim` has a trailing return type / specifier")
    rb = match_close(t, rp + 1)
    if t[rb + 1].text != ';':
        raise ExtractionBreak("parseHeaderBlock: lambda `trim` definition is not a plain statement")
    rw.R.notes.append(f"parseHeaderBlock: definition of local lambda `trim` (lines {t[i].line}-{t[rb].line}) cut from the host; its body is extracted as phb_trim")
    return t[:i] + t[rb + 2:]
