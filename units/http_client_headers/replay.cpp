// REPLAY adapter for unit http_client_headers: the REAL HttpClient::parseHeaderBlock + determineFraming (private; -fno-access-control) on a header
// block (IN = the bytes before the terminating CRLF CRLF, METHOD optional), against an independent line-by-line reference written from RFC 9112:
// status line HTTP/1.0|1.1 SP 1*DIGIT (<= 999), no obs-fold, every field line has a colon, Content-Length lines (ANY letter case) must agree,
// Content-Length value is a comma list of identical 1*DIGIT numbers, Transfer-Encoding + Content-Length is rejected.
#include "iora/network/http_client.hpp"
#include "replay_io.h"
using namespace iora::network;
static std::string lower(std::string s) { for (auto &c : s) if (c >= 'A' && c <= 'Z') c = (char)(c + 32); return s; }
static std::string trim(const std::string &s) { size_t a = s.find_first_not_of(" \t"); if (a == std::string::npos) return ""; size_t b = s.find_last_not_of(" \t"); return s.substr(a, b - a + 1); }
// frameResponse, segmentation independence: the response stream STREAM is fed to the REAL frameResponse the way executeRequest does (append a read, call,
// stop when complete) once in ONE read and once cut at CUT; both runs must agree on completion and body, and a complete stream must be framed.
struct FrRun { bool done = false, threw = false; std::string body; };
static FrRun fr_run(HttpClient &c, const std::string &s, const std::vector<size_t> &cuts) {
  FrRun r; std::string data; bool headersDone = false, forceEvict = false; size_t headerScanPos = 0, bodyStart = 0; HttpClient::Response resp; HttpClient::Framing framing; HttpClient::ChunkState cs;
  size_t prev = 0;
  for (size_t k = 0; k <= cuts.size() && !r.done; k++) { size_t e = k < cuts.size() ? cuts[k] : s.size(); data.append(s, prev, e - prev); prev = e;
    try { r.done = c.frameResponse("GET", data, headersDone, headerScanPos, bodyStart, resp, framing, cs, forceEvict, 1 << 20); } catch (const HttpFramingError &) { r.threw = true; return r; } }
  if (r.done) r.body = resp.body;
  return r;
}
int main(int argc, char **argv) {
  if (argc > 1) { auto in0 = replay_io::load(argv[1]);
    if (in0.count("STREAM")) { auto b = replay_io::bytes(in0["STREAM"]); std::string s(b.begin(), b.end()); size_t cut = std::min<size_t>(s.size(), replay_io::u64(in0["CUT"]));
      HttpClient c; FrRun one = fr_run(c, s, {}), two = fr_run(c, s, {cut});
      printf("one read: %s body %zu bytes; cut at %zu: %s body %zu bytes\n", one.threw ? "rejected" : one.done ? "complete" : "need more", one.body.size(), cut, two.threw ? "rejected" : two.done ? "complete" : "need more", two.body.size());
      // R9 reference: skip interim 1xx blocks; the FINAL block's own fields decide. No Content-Length / Transfer-Encoding of its own (and a status that has a body) =>
      // close-delimited: frameResponse must not report a complete message, whatever an interim response carried.
      { size_t p = 0; for (;;) { size_t he = s.find("\r\n\r\n", p); if (he == std::string::npos) break; std::string blk = s.substr(p, he - p);
          int sc = blk.size() >= 12 ? atoi(blk.substr(9, 3).c_str()) : 0;
          if (sc >= 100 && sc < 200) { p = he + 4; continue; }
          std::string lb = lower(blk); bool own = lb.find("\r\ncontent-length:") != std::string::npos || lb.find("\r\ntransfer-encoding:") != std::string::npos;
          if (!own && sc != 204 && sc != 304 && one.done) replay_io::fail("R9 the final response carries no Content-Length / Transfer-Encoding of its own but was framed as complete with a body of " + std::to_string(one.body.size()) + " bytes (framing field of a discarded interim response carried over)");
          break; } }
      if (one.done != two.done || one.threw != two.threw || one.body != two.body) replay_io::fail("R6/R7 framing depends on where the stream was cut (header-terminator scan state stale after a discarded interim response?)");
      replay_io::ok("same framing in one read and cut at " + std::to_string(cut)); return 0; } }
  std::string hs = "HTTP/1.1 200 OK\r\nContent-Length: 5\r\ncontent-length: 11", method = "GET";
  if (argc > 1) { auto in = replay_io::load(argv[1]); if (in.count("IN")) { auto b = replay_io::bytes(in["IN"]); if (in.count("IN_N")) b.resize(std::min<size_t>(b.size(), replay_io::u64(in["IN_N"]))); hs.assign(b.begin(), b.end()); }
    if (in.count("METHOD")) { auto m = replay_io::bytes(in["METHOD"]); method.assign(m.begin(), m.end()); } }
  // ---- reference
  std::string why; std::vector<std::string> cls; bool te = false;
  size_t nl = hs.find("\r\n"); std::string sl = hs.substr(0, nl);
  if (!(sl.size() >= 12 && (sl.compare(0, 9, "HTTP/1.1 ") == 0 || sl.compare(0, 9, "HTTP/1.0 ") == 0))) why = "status line is not HTTP/1.0|1.1 SP code";
  else { size_t e = sl.find(' ', 9); std::string code = sl.substr(9, e == std::string::npos ? std::string::npos : e - 9);
    if (code.empty() || code.size() > 19 || code.find_first_not_of("0123456789") != std::string::npos || strtoull(code.c_str(), nullptr, 10) > 999) why = "status code is not a number <= 999"; }
  for (size_t pos = nl == std::string::npos ? hs.size() : nl + 2; why.empty() && pos < hs.size();) {
    size_t e = hs.find("\r\n", pos); std::string line = hs.substr(pos, e == std::string::npos ? std::string::npos : e - pos);
    if (!line.empty()) {
      if (line[0] == ' ' || line[0] == '\t') why = "obs-fold line";
      else { size_t c = line.find(':'); if (c == std::string::npos) why = "field line without a colon";
        else { std::string k = lower(trim(line.substr(0, c))); if (k == "content-length") cls.push_back(trim(line.substr(c + 1))); if (k == "transfer-encoding") te = true; } }
    }
    if (e == std::string::npos) break; pos = e + 2;
  }
  for (size_t i = 1; why.empty() && i < cls.size(); i++) if (cls[i] != cls[0]) why = "conflicting Content-Length lines \"" + cls[0] + "\" / \"" + cls[i] + "\"";
  // ---- the real code
  HttpClient c; HttpClient::Response r; bool threw = false;
  try { c.parseHeaderBlock(hs, r); } catch (const HttpFramingError &) { threw = true; } catch (const std::exception &e) { replay_io::fail(std::string("B0 unexpected exception type: ") + e.what()); }
  printf("parseHeaderBlock: %s; reference: %s\n", threw ? "rejected" : "accepted", why.empty() ? "valid" : why.c_str());
  if (!threw && !why.empty()) replay_io::fail("parseHeaderBlock accepted a block the RFC rejects: " + why + (cls.size() > 1 ? " (framed with \"" + r.headers["Content-Length"] + "\")" : ""));
  if (threw) { replay_io::ok("rejected"); return 0; }
  if (r.statusCode < 0 || r.statusCode > 999) replay_io::fail("B1 status code out of range");
  bool dthrew = false; HttpClient::Framing f;
  try { f = c.determineFraming(method, r, 1 << 20); } catch (const HttpFramingError &) { dthrew = true; }
  int sc = r.statusCode; bool nobody = method == "HEAD" || sc == 204 || sc == 304 || (sc >= 100 && sc < 200);
  if (method != "CONNECT" && !nobody && te && !cls.empty() && !dthrew) replay_io::fail("D3 Transfer-Encoding together with Content-Length was framed");
  if (method != "CONNECT" && !nobody && !te && !cls.empty()) {
    bool ok = true; unsigned long long v = 0; bool have = false; std::string s = cls[0]; size_t p = 0;
    for (;;) { size_t cm = s.find(',', p); std::string el = trim(s.substr(p, cm == std::string::npos ? std::string::npos : cm - p));
      if (el.empty() || el.size() > 19 || el.find_first_not_of("0123456789") != std::string::npos) ok = false; else { unsigned long long x = strtoull(el.c_str(), nullptr, 10); if (have && x != v) ok = false; v = x; have = true; }
      if (cm == std::string::npos) break; p = cm + 1; }
    if (!ok && !dthrew) replay_io::fail("P1-P4 invalid Content-Length value \"" + s + "\" was framed");
    if (ok && v <= (1u << 20) && (dthrew || f.mode != HttpClient::BodyMode::ContentLength || f.contentLength != v)) replay_io::fail("D5 valid Content-Length \"" + s + "\" not framed as exactly that many octets");
  }
  replay_io::ok("header block handled as the reference says");
  return 0;
}
