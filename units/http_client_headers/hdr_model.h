/* Shims / environment model for unit http_client_headers (C15): the header-field layer of the HttpClient response parser.
 *
 * Strings: every `std::string` / `const std::string&` is an `iora_sv` VIEW (p,n) over real memory. A std::string buffer holds
 * size()+1 bytes (terminating NUL), so the input objects are n+1 bytes and a clamped read `RDQ` is total. `substr` copies are views
 * into the same bytes (sound: no function of this unit writes through a string; `s.clear()` / `s = s.substr(..)` / `erase(0,k)` on a
 * local copy only re-point the view).
 *
 * libstdc++ searching functions (find(char), find("\r\n"), find_first_not_of(" \t"), find_last_not_of(" \t"), operator==) are
 * NONDETERMINISTIC MODELS (IORA_ASSUME inside the shim = environment model, listed in trusted_base): the result is any value with
 * the DEFINING facts of the library function; the first/last-occurrence fact ("nothing earlier matches") is instantiated without a
 * quantifier at the ghost terms the proofs use (GQ arbitrary; GS-1 / GS-2 for the coverage invariants; the search start itself).
 * Every assumed fact is true of the real result, so the model only ADDS behaviours. The bounded/SEARCH build uses plain loops.
 * -DHM_NO_CONTENT drops every fact about byte CONTENT (range facts only): memory-safety / arithmetic proofs.
 */
#ifndef HDR_MODEL_H
#define HDR_MODEL_H

#define EXC_HttpFramingError 1
#define HM_MAXLEN ((size_t)1 << 50)
#define PHB_MAXLEN ((size_t)1 << 31)        /* header blocks: bounded by the response cap (size bound, trusted_base) */
static const char iora_empty_str[1] = { 0 };
#define iora_sv_DEFAULT ((iora_sv){ iora_empty_str, 0 })         /* std::string{} : size()==0, data() points at a NUL */
#define IORA_SV_EMPTY iora_sv_DEFAULT                            /* the literal "" converted to std::string */
#define IORA_SV_LIT(s_) ((iora_sv){ (s_), sizeof(s_) - 1 })      /* a string literal converted to std::string */

/* ---- arbitrary ghost terms (never assigned: a clause proved for an arbitrary value holds for every value) ---- */
size_t GS;                /* start of an arbitrary list element / header line */
size_t GQ;                /* arbitrary index at which conclusion-side universals are proved */
size_t GD;                /* arbitrary offset inside a digit run (conclusion side: "every character is a digit") */
size_t GB;                /* offset of SOME non-digit: fixed by the from_chars model when it fails on a short string */

#define HM_OWS(c_) (((c_) == (char)32) | ((c_) == (char)9))
#define HM_DIG(c_) (((c_) >= (char)48) & ((c_) <= (char)57))
#define HM_LOW(c_) ((char)((((c_) >= (char)65) & ((c_) <= (char)90)) ? (c_) + 32 : (c_)))      /* ASCII fold, written from RFC 9110 */
#define RDQ(q_, i_) ((q_).p[(i_) <= (q_).n ? (i_) : 0])
#define IMPB(a_, b_) ((!(a_)) | (b_))
#define FEND(r_, s_) ((r_) == IORA_NPOS ? (s_).n : (r_))
#define SAT(i_) ((i_) <= HM_MAXLEN ? (i_) : 0)                   /* spec-side index arithmetic cannot wrap */
#ifdef HM_NO_CONTENT
#define HM_CONTENT(e_) 1
#define HM_ON 0
#else
#define HM_CONTENT(e_) (e_)
#define HM_ON 1
#endif
/* parseHeaderBlock: each proof switches on only the byte facts its clauses depend on (-DPHB_ONLY + any of PHB_ON_STATUS / PHB_ON_LINE /
 * PHB_ON_FIELD); a switched-off search is range-only, a switched-off comparison is any boolean. Dropping facts only adds behaviours. */
#if defined(HM_NO_CONTENT)
#define PHB_STATUS_ON 0
#define PHB_LINE_ON 0
#define PHB_FIELD_ON 0
#elif defined(PHB_ONLY)
#ifdef PHB_ON_STATUS
#define PHB_STATUS_ON 1
#else
#define PHB_STATUS_ON 0
#endif
#ifdef PHB_ON_LINE
#define PHB_LINE_ON 1
#else
#define PHB_LINE_ON 0
#endif
#ifdef PHB_ON_FIELD
#define PHB_FIELD_ON 1
#else
#define PHB_FIELD_ON 0
#endif
#else
#define PHB_STATUS_ON 1
#define PHB_LINE_ON 1
#define PHB_FIELD_ON 1
#endif
#if PHB_LINE_ON
#define HM_LOOP_CONTENT(e_) (e_)
#else
#define HM_LOOP_CONTENT(e_) 1
#endif
/* ghost-consistency assertions of the shims (pure index arithmetic) are PROVED in the range-only safety proof, which admits a superset of
 * the behaviours of every other proof of the same function, and are facts (assumed) in the others: one clause group per proof */
#ifdef HM_NO_CONTENT
#define HM_GHOST_FACT(c_, msg_) IORA_ASSERT(c_, msg_)
#else
#define HM_GHOST_FACT(c_, msg_) IORA_ASSUME(c_)
#endif
#define HM_C(e_) (!content || (e_))

/* ---- ghost record of the list walkers (parseContentLength / transferEncodingFinalIsChunked); ONE object ---- */
struct hm_list_ghost {
  size_t l_pos, l_end, l_a;                                 /* current iteration: search start, element end, first non-OWS */
  bool seen; size_t s_a, s_b1, s_end; uint64_t s_val;       /* snapshot of the iteration that handled the element starting at GS */
  bool has_last; size_t lt_s, lt_a, lt_n, lt_end;           /* TE: element bounds / token of the last non-empty element */
  size_t c0; bool c0_set;                                   /* end of the FIRST element (hypothesis-side instantiation term) */
  uint64_t v0; bool v0_set;                                 /* value from_chars produced for the first element */
} HL;

/* record of the most recent find_first_not_of (string identity + result): the following find_last_not_of on the same string is instantiated there */
struct hm_trim_ghost { const char *l_p; size_t l_n, l_a; size_t ss_pos, ss_n, ss_src; /* the last substr: position, length of the copy, length of the source */ } HT;

size_t nondet_size_t(void); _Bool nondet_bool(void); uint64_t nondet_u64(void);

#if defined(IORA_SEARCH) || defined(IORA_NATIVE)
static inline size_t hm_find_ch1(const iora_sv *s, char c, size_t pos, int content) { (void)content; for (size_t i = pos; i < s->n; i++) if (s->p[i] == c) return i; return IORA_NPOS; }
static inline size_t hm_first_not_ows1(const iora_sv *s, size_t pos, int content) { (void)content; HT.l_p = s->p; HT.l_n = s->n; HT.l_a = IORA_NPOS; for (size_t i = pos; i < s->n; i++) if (!HM_OWS(s->p[i])) { HT.l_a = i; return i; } return IORA_NPOS; }
static inline size_t hm_last_not_ows1(const iora_sv *s, size_t pos, int content) { (void)content; if (s->n == 0) return IORA_NPOS; size_t i = (pos < s->n - 1 ? pos : s->n - 1) + 1; while (i > 0) { if (!HM_OWS(s->p[i - 1])) return i - 1; i--; } return IORA_NPOS; }
static inline size_t hm_find_crlf1(const iora_sv *s, size_t pos, int content) { (void)content; for (size_t i = pos; i + 1 < s->n; i++) if (s->p[i] == (char)13 && s->p[i + 1] == (char)10) return i; return IORA_NPOS; }
#else
/* s.find(c, pos) */
static inline size_t hm_find_ch1(const iora_sv *s, char c, size_t pos, int content)
{
  size_t r = nondet_size_t();
  IORA_ASSUME(r == IORA_NPOS || (r >= pos && r < s->n));
  IORA_ASSUME(HM_C(r == IORA_NPOS || s->p[r] == c));
  IORA_ASSUME(HM_C((GQ >= pos && GQ < FEND(r, *s)) ==> s->p[GQ] != c));
  IORA_ASSUME(HM_C((GS >= 1 && GS - 1 >= pos && GS - 1 < FEND(r, *s)) ==> s->p[GS - 1] != c));
  return r;
}
/* s.find_first_not_of(" \t", pos) */
static inline size_t hm_first_not_ows1(const iora_sv *s, size_t pos, int content)
{
  size_t r = nondet_size_t();
  IORA_ASSUME(r == IORA_NPOS || (r >= pos && r < s->n));
  IORA_ASSUME(HM_C(r == IORA_NPOS || !HM_OWS(s->p[r])));
  IORA_ASSUME(HM_C((GQ >= pos && GQ < FEND(r, *s)) ==> HM_OWS(s->p[GQ])));
  IORA_ASSUME(HM_C(pos < FEND(r, *s) ==> HM_OWS(s->p[pos])));                       /* instantiated at the search start */
  HT.l_p = s->p; HT.l_n = s->n; HT.l_a = r;
  return r;
}
/* s.find_last_not_of(" \t", pos): the last index <= min(pos, n-1) holding a non-OWS byte */
#define HM_LAST_OCC(t_) (((t_) < s->n && (t_) <= pos && (r == IORA_NPOS || (t_) > r)) ==> HM_OWS(s->p[(t_)]))
static inline size_t hm_last_not_ows1(const iora_sv *s, size_t pos, int content)
{
  size_t r = nondet_size_t();
  IORA_ASSUME(r == IORA_NPOS || (r < s->n && r <= pos));
  IORA_ASSUME(HM_C(r == IORA_NPOS || !HM_OWS(s->p[r])));
  IORA_ASSUME(HM_C(HM_LAST_OCC(GQ)));
  IORA_ASSUME(HM_C(s->n == 0 || HM_LAST_OCC(pos < s->n - 1 ? pos : s->n - 1)));     /* instantiated at the search start */
  IORA_ASSUME(HM_C(HM_LAST_OCC(HT.l_a)));                                           /* ... and at the result of the preceding find_first_not_of */
  /* range-only build: the consequence of that instantiation (a non-OWS byte at l_a <= pos of the SAME string => the last non-OWS byte is at or after it) */
  IORA_ASSUME(content || !(HT.l_p == s->p && HT.l_n == s->n && HT.l_a < s->n && HT.l_a <= pos) || (r != IORA_NPOS && r >= HT.l_a));
  return r;
}
/* s.find("\r\n", pos) */
#define HM_CRLF_AT(s_, i_) (((s_).p[(i_)] == (char)13) & ((s_).p[(i_) + 1] == (char)10))
#define HM_FIRST_CRLF(t_) (((t_) >= pos && (t_) < s->n && s->n - (t_) >= 2 && (t_) < FEND(r, *s)) ==> !HM_CRLF_AT(*s, (t_)))
static inline size_t hm_find_crlf1(const iora_sv *s, size_t pos, int content)
{
  size_t r = nondet_size_t();
  IORA_ASSUME(r == IORA_NPOS || (r >= pos && r < s->n && s->n - r >= 2));
  IORA_ASSUME(HM_C(r == IORA_NPOS || HM_CRLF_AT(*s, r)));
  IORA_ASSUME(HM_C(HM_FIRST_CRLF(GQ)));
  IORA_ASSUME(HM_C(GS < 2 || HM_FIRST_CRLF(GS - 2)));
  return r;
}
#endif

static inline size_t hm_find_ch0(const iora_sv *s, char c, size_t pos) { return hm_find_ch1(s, c, pos, HM_ON); }
static inline size_t hm_first_not_ows0(const iora_sv *s, size_t pos) { return hm_first_not_ows1(s, pos, HM_ON); }
static inline size_t hm_last_not_ows0(const iora_sv *s, size_t pos) { return hm_last_not_ows1(s, pos, HM_ON); }
static inline size_t hm_find_crlf0(const iora_sv *s, size_t pos) { return hm_find_crlf1(s, pos, HM_ON); }
/* the searches inside the header-line loop of parseHeaderBlock (and its trim helper) */
static inline size_t hm_find_colon(const iora_sv *s, size_t pos) { return hm_find_ch1(s, (char)58, pos, PHB_FIELD_ON); }
static inline size_t hm_trim_first(const iora_sv *s) { return hm_first_not_ows1(s, 0, PHB_FIELD_ON); }
static inline size_t hm_trim_last(const iora_sv *s) { return hm_last_not_ows1(s, IORA_NPOS, PHB_FIELD_ON); }
/* status line */
static inline size_t hm_find_nl(const iora_sv *s) { return hm_find_crlf1(s, 0, PHB_LINE_ON); }
static inline size_t hm_find_sp(const iora_sv *s, size_t pos) { return hm_find_ch1(s, (char)32, pos, PHB_STATUS_ON); }

/* ---- the three searches of the list walkers, with the ghost record of the current iteration ---- */
static inline size_t hm_find_comma(const iora_sv *s, size_t pos)
{
  size_t r = hm_find_ch0(s, (char)44, pos);
  HL.l_pos = pos; HL.l_end = FEND(r, *s);
  if (!HL.c0_set) { HL.c0 = FEND(r, *s); HL.c0_set = 1; }
  return r;
}
static inline size_t hm_first_not_ows(const iora_sv *s, size_t pos) { size_t r = hm_first_not_ows0(s, pos); HL.l_a = r; return r; }
static inline size_t hm_last_not_ows(const iora_sv *s, size_t pos) { return hm_last_not_ows0(s, pos); }

/* ---- parseFullUInt(b, e, base, out): ASSUMED model of its 3-line body over std::from_chars (C++17 [charconv.from.chars], libstdc++):
 * true iff [b,e) is a non-empty, pure digit string of the base (no sign, no whitespace, no prefix) whose value fits 64 bits; out = value.
 * Conclusion-side witness GD ("every character is a digit"), failure witness GB ("some character is not a digit", only stated for
 * strings short enough not to overflow). The value is stated exactly for one- and two-digit strings and unspecified for longer ones.
 * Index form of the call (declared rule pfu-sv): parseFullUInt(s.data() + a, s.data() + b, base, out). */
#define DG_V(c_) ((uint64_t)(((c_) - 48) & 15))
static inline bool hm_pfu0(const iora_sv *s, size_t a, size_t b, int base, uint64_t *out, uint64_t *gval, int content)
{
  IORA_ASSERT(a <= b && b <= s->n, "parseFullUInt: [b,e) is a range inside the string");
  IORA_ASSERT(base == 10, "model: decimal only");
  size_t len = b - a;
#if defined(IORA_SEARCH) || defined(IORA_NATIVE)
  bool ok = len >= 1; uint64_t val = 0;
  for (size_t i = 0; i < len && ok; i++) { char c = s->p[a + i]; if (!HM_DIG(c)) ok = 0; else { uint64_t d = DG_V(c); if (val > (UINT64_MAX - d) / 10) ok = 0; else val = val * 10 + d; } }
#else
  bool ok = nondet_bool(); uint64_t val = nondet_u64();
  char c0 = (content && len > 0) ? s->p[a] : (char)0, c1 = (content && len > 1) ? s->p[a + 1] : (char)0, c2 = (content && len > 2) ? s->p[a + 2] : (char)0;
  IORA_ASSUME(!ok || len >= 1);
  IORA_ASSUME(HM_C(!ok || GD >= len || HM_DIG(s->p[a + (GD < len ? GD : 0)])));
  IORA_ASSUME(HM_C(ok || len == 0 || len > 19 || (GB < len && !HM_DIG(s->p[a + (GB < len ? GB : 0)]))));
  IORA_ASSUME(HM_C(!(ok && len == 1) || val == DG_V(c0)));
  IORA_ASSUME(HM_C(!(ok && len == 2) || val == DG_V(c0) * 10 + DG_V(c1)));
  IORA_ASSUME(HM_C(!(ok && len == 3) || val == DG_V(c0) * 100 + DG_V(c1) * 10 + DG_V(c2)));
#endif
  if (ok) *out = val;                          /* value unmodified on failure */
  *gval = val;
  return ok;
}
/* parseContentLength: + snapshot of the element that starts at GS, value of the first element */
static inline bool hm_pfu(const iora_sv *s, size_t a, size_t b, int base, uint64_t *out)
{
  uint64_t val; bool ok = hm_pfu0(s, a, b, base, out, &val, HM_ON);
  if (ok && HL.l_pos == GS) { HL.seen = 1; HL.s_a = a; HL.s_b1 = b; HL.s_end = HL.l_end; HL.s_val = val; }
  if (ok && !HL.v0_set) { HL.v0 = val; HL.v0_set = 1; }
  return ok;
}
/* parseHeaderBlock (status code): + record of the converted range and value */
struct hm_status_ghost { size_t a, b; uint64_t val; bool ok; } HS;
static inline bool hm_pfu_status(const iora_sv *s, size_t a, size_t b, int base, uint64_t *out)
{
  uint64_t val; bool ok = hm_pfu0(s, a, b, base, out, &val, PHB_STATUS_ON);
  HS.a = a; HS.b = b; HS.val = val; HS.ok = ok;
  return ok;
}

/* ---- equality with a string literal (operator==(const std::string&, const char*)): length + bytes, literals of <= 8 characters ---- */
static inline bool hm_sv_eq_lit(iora_sv x, const char *s, size_t len)
{
  IORA_ASSERT(len <= 16, "model: comparison literal of at most 16 characters");
  if (x.n != len) return false;
  bool r = true;
#define HM_B(k) if (len > (k)) r &= (x.p[k] == s[k]);
  HM_B(0) HM_B(1) HM_B(2) HM_B(3) HM_B(4) HM_B(5) HM_B(6) HM_B(7) HM_B(8) HM_B(9) HM_B(10) HM_B(11) HM_B(12) HM_B(13) HM_B(14) HM_B(15)
#undef HM_B
  return r;
}
#define IORA_SV_EQ_LIT(x_, s_) hm_sv_eq_lit((x_), (s_), sizeof(s_) - 1)
/* the same inside parseHeaderBlock's status-line part (switchable) */
#define PHB_SV_EQ_LIT(x_, s_) (PHB_STATUS_ON ? hm_sv_eq_lit((x_), (s_), sizeof(s_) - 1) : (bool)nondet_bool())

/* `lastToken = v.substr(a, n)` in transferEncodingFinalIsChunked: substr + ghost record of the token and its element */
static inline iora_sv hm_te_token(const iora_sv *v, size_t a, size_t len)
{
  IORA_ASSERT(a <= v->n, "substr: pos <= size() (std::out_of_range otherwise)");
  iora_sv t; t.p = v->p + a; t.n = IORA_MIN(len, v->n - a);
  HL.has_last = 1; HL.lt_s = HL.l_pos; HL.lt_a = a; HL.lt_n = t.n; HL.lt_end = HL.l_end;
  return t;
}
/* `ciEquals(lastToken, "chunked")`: after the loop the token pointer is only known through the loop invariant; the accessor ASSERTS that it is
 * the recorded token of v (or the empty default string) and hands the real bytes to ciEquals */
static inline iora_sv hm_te_last(const iora_sv *v, iora_sv lastToken)
{
  if (!HL.has_last) { IORA_ASSERT(lastToken.n == 0, "accessor: no token was taken, lastToken is the empty default"); return (iora_sv){ v->p, 0 }; }
  IORA_ASSERT(lastToken.p == v->p + HL.lt_a && lastToken.n == HL.lt_n, "accessor: lastToken is the recorded token of v");
  return (iora_sv){ v->p + HL.lt_a, HL.lt_n };
}

/* ================= parseHeaderBlock ================= */
size_t GM;                /* index of SOME mismatch: fixed by the operator!= model when it reports a difference */
/* Response::headers = std::map<std::string, std::string, CaseInsensitiveCompare>: only the two framing fields are modelled. A key is
 * recognised by its BYTES (ASCII case-insensitive, written here from RFC 9110 - not through the code's ciEquals); operator[] + assignment
 * replaces the value stored under the key (last one wins). */
typedef struct { iora_sv second; } iora_hslot;
typedef const iora_hslot *iora_hdr_it;
typedef struct { bool has_cl; iora_hslot cl; bool has_te; iora_hslot te; } iora_hdrs;
typedef struct { int statusCode; iora_sv statusText; iora_sv httpVersion; iora_hdrs headers; iora_sv body; } Response;
#define Response_DEFAULT ((Response){ 0, iora_sv_DEFAULT, iora_sv_DEFAULT, { 0, { iora_sv_DEFAULT }, 0, { iora_sv_DEFAULT } }, iora_sv_DEFAULT })
#define HM_CI(c_, l_) (((c_) == (char)(l_)) | ((c_) == (char)((l_) - 32)))
#define HM_NAME_IS_CL(k_) ((k_).n == 14 && (HM_CI((k_).p[0], 99) & HM_CI((k_).p[1], 111) & HM_CI((k_).p[2], 110) & HM_CI((k_).p[3], 116) & HM_CI((k_).p[4], 101) & HM_CI((k_).p[5], 110) & HM_CI((k_).p[6], 116) \
   & ((k_).p[7] == (char)45) & HM_CI((k_).p[8], 108) & HM_CI((k_).p[9], 101) & HM_CI((k_).p[10], 110) & HM_CI((k_).p[11], 103) & HM_CI((k_).p[12], 116) & HM_CI((k_).p[13], 104)))
#define HM_NAME_IS_TE(k_) ((k_).n == 17 && (HM_CI((k_).p[0], 116) & HM_CI((k_).p[1], 114) & HM_CI((k_).p[2], 97) & HM_CI((k_).p[3], 110) & HM_CI((k_).p[4], 115) & HM_CI((k_).p[5], 102) & HM_CI((k_).p[6], 101) \
   & HM_CI((k_).p[7], 114) & ((k_).p[8] == (char)45) & HM_CI((k_).p[9], 101) & HM_CI((k_).p[10], 110) & HM_CI((k_).p[11], 99) & HM_CI((k_).p[12], 111) & HM_CI((k_).p[13], 100) & HM_CI((k_).p[14], 105) \
   & HM_CI((k_).p[15], 110) & HM_CI((k_).p[16], 103)))

struct hm_block_ghost {
  size_t sub_off, sub_n;                    /* the last hs.substr(pos, n): offset and length of the copy */
  size_t cur, cur_end;                      /* header-line loop: start and end of the line being processed */
  bool seen, s_iscl; size_t s_va, s_vn, s_le; /* snapshot of the line that starts at GS: filed under Content-Length?, (trimmed) value range, line end */
  size_t cl_off;                            /* offset in hs of the value stored in the map under Content-Length */
} HB;

static inline iora_sv hm_substr(const iora_sv *s, size_t pos, size_t len)
{
  IORA_ASSERT(pos <= s->n, "substr: pos <= size() (std::out_of_range otherwise)");
  iora_sv r; r.p = s->p + pos; r.n = IORA_MIN(len, s->n - pos);
  /* cut point: the copy lies inside its source, in SUM form (asserted, then available to the solver as a fact) */
  HM_GHOST_FACT(r.n <= s->n && pos + r.n <= s->n, "substr: the copy lies inside the source");
  IORA_ASSUME(r.n <= s->n && pos + r.n <= s->n);
  HT.ss_pos = pos; HT.ss_n = r.n; HT.ss_src = s->n;
  return r;
}
static inline iora_sv hm_substr_hs(const iora_sv *hs, size_t pos, size_t len) { iora_sv r = hm_substr(hs, pos, len); HB.sub_off = pos; HB.sub_n = r.n; return r; }
static inline void hm_sv_clear(iora_sv *s) { s->n = 0; }
/* s.rfind(lit, 0): 0 when s starts with lit, npos otherwise */
static inline size_t hm_rfind0_lit(const iora_sv *s, const char *lit, size_t len)
{
  IORA_ASSERT(len <= 8, "model: prefix literal of at most 8 characters");
  if (s->n < len) return IORA_NPOS;
  if (!PHB_STATUS_ON) return nondet_bool() ? 0 : IORA_NPOS;
  bool r = true;
#define HM_B(k) if (len > (k)) r &= (s->p[k] == lit[k]);
  HM_B(0) HM_B(1) HM_B(2) HM_B(3) HM_B(4) HM_B(5) HM_B(6) HM_B(7)
#undef HM_B
  return r ? 0 : IORA_NPOS;
}
/* hs.find("\r\n", pos) at the top of the header-line loop */
static inline size_t hm_line_end(const iora_sv *hs, size_t pos) { size_t r = hm_find_crlf1(hs, pos, PHB_LINE_ON); HB.cur = pos; HB.cur_end = FEND(r, *hs); return r; }
/* `value != clValue` (operator!= on std::string). clValue lives across loop iterations: after the loop havoc its pointer is known only through
 * the invariant, so the accessor ASSERTS that it is the recorded Content-Length value and reads the real bytes of hs. */
static inline bool hm_sv_ne_cl(const iora_sv *hs, iora_sv x, iora_sv clValue)
{
#if !defined(PHB_CL) && !defined(IORA_SEARCH) && !defined(IORA_NATIVE)
  /* proofs that do not carry the Content-Length invariant: the comparison is any boolean (no byte is read) */
  (void)hs; (void)x; (void)clValue;
  return nondet_bool();
#else
  IORA_ASSERT(clValue.n == 0 || (clValue.p == hs->p + HB.cl_off && HB.cl_off <= hs->n && clValue.n <= hs->n && HB.cl_off + clValue.n <= hs->n), "accessor: clValue is the value last stored under Content-Length");
  const char *yp = hs->p + (clValue.n == 0 ? 0 : HB.cl_off); size_t yn = clValue.n;
#if defined(IORA_SEARCH) || defined(IORA_NATIVE)
  if (x.n != yn) return true;
  for (size_t i = 0; i < yn; i++) if (x.p[i] != yp[i]) return true;
  return false;
#else
  bool r = nondet_bool();
  IORA_ASSUME(r || x.n == yn);
  IORA_ASSUME(HM_CONTENT(r || GK >= yn || x.p[GK < yn ? GK : 0] == yp[GK < yn ? GK : 0]));
  IORA_ASSUME(HM_CONTENT(!r || x.n != yn || (GM < yn && x.p[GM < yn ? GM : 0] != yp[GM < yn ? GM : 0])));
  return r;
#endif
#endif
}
/* resp.headers[name] = value */
static inline void hm_hdrs_set(iora_hdrs *m, const iora_sv *hs, iora_sv k, iora_sv v)
{
  size_t ta = (HT.l_a == IORA_NPOS) ? 0 : HT.l_a;
  /* range facts in SUM form with every term bounded (measured: the subtraction form of this transitivity costs MiniSat minutes, the sum form seconds) */
  HM_GHOST_FACT(v.n == 0 || (HT.ss_pos == ta && HT.ss_n == v.n && HT.ss_src == HB.sub_n), "ghost: the stored value is what the last substr (inside trim) cut out of the last hs.substr copy");
  HM_GHOST_FACT(hs->n <= PHB_MAXLEN && HB.sub_off <= hs->n && HB.sub_n <= hs->n && HB.sub_off + HB.sub_n <= hs->n, "ghost: the last hs.substr copy lies inside the block");
  if (v.n == 0) ta = 0;
  HM_GHOST_FACT(ta <= hs->n && v.n <= hs->n && HB.sub_off + ta + v.n <= hs->n, "ghost: the stored value lies inside the block");
  size_t off = HB.sub_off + ta;                                    /* last hs.substr + what the last trim cut off in front */
  HM_GHOST_FACT(v.n == 0 || v.p == hs->p + off, "ghost: the stored value is the trimmed copy of the last hs.substr");
  /* which slot: decided from the key BYTES in the proofs that depend on it, any answer otherwise (no byte is read) */
#if defined(PHB_CL) || defined(IORA_SEARCH) || defined(IORA_NATIVE)
  bool is_cl = HM_NAME_IS_CL(k);
#else
  bool is_cl = nondet_bool();
#endif
#if defined(PHB_TE) || defined(IORA_SEARCH) || defined(IORA_NATIVE)
  bool is_te = !is_cl && HM_NAME_IS_TE(k);
#else
  bool is_te = !is_cl && nondet_bool();
#endif
  if (is_cl) { m->has_cl = 1; m->cl.second = v; HB.cl_off = off; }
  else if (is_te) { m->has_te = 1; m->te.second = v; }
  if (HB.cur == GS) { HB.seen = 1; HB.s_iscl = is_cl; HB.s_va = off; HB.s_vn = v.n; HB.s_le = HB.cur_end; }
}

/* ================= determineFraming ================= */
/* resp.headers.find("Transfer-Encoding" | "Content-Length") on the case-insensitive map */
static inline iora_hdr_it hm_hdrs_find(const iora_hdrs *m, const char *lit, size_t len)
{
  iora_sv k = { lit, len };
  if (HM_NAME_IS_CL(k)) return m->has_cl ? &m->cl : NULL;
  if (HM_NAME_IS_TE(k)) return m->has_te ? &m->te : NULL;
  IORA_ASSERT(0, "model: only the two framing fields are looked up");
  return NULL;
}
/* ghost record of the two callees (replaced by environment contracts in the determineFraming proof; their own contracts are proved above) */
struct hm_df_ghost { bool te_called, te_ret; const char *te_p; size_t te_n; bool cl_called, cl_throws; uint64_t cl_ret; const char *cl_p; size_t cl_n; } HD;

/* ================= frameResponse ================= */
/* `std::string &data`, the receive buffer, is the one string of this unit that is MUTATED in place (`data.erase(0, k)`): it is modelled as an object
 * (p, off, n) - the characters are p[off .. off+n) - so that erase(0,k) moves `off` and the base pointer p never changes (a pointer that is assigned
 * inside a loop is havocked by the loop contract and cannot be dereferenced afterwards). */
typedef struct { const char *p; size_t off; size_t n; } fr_str;
typedef struct { size_t pos; iora_sv decoded; size_t messageEnd; } ChunkState;      /* struct ChunkState (http_client.hpp): pos{0}, decoded, messageEnd{0} */
#define ChunkState_DEFAULT ((ChunkState){ 0, iora_sv_DEFAULT, 0 })
#define FR_MAXLEN ((size_t)1 << 40)
#define FR_RD(d_, i_) ((d_).p[(d_).off + ((i_) <= (d_).n ? (i_) : 0)])
#define FR_CRLF2_AT(d_, i_) ((FR_RD(d_, i_) == (char)13) & (FR_RD(d_, (i_) + 1) == (char)10) & (FR_RD(d_, (i_) + 2) == (char)13) & (FR_RD(d_, (i_) + 3) == (char)10))
struct fr_ghost { bool found; size_t he; } FR;          /* the header terminator the (last) successful search returned */
static inline size_t fr_str_size(const fr_str *d) { return d->n; }
/* data.find("\r\n\r\n", pos): nondeterministic model with the defining facts; first occurrence instantiated at the arbitrary GQ */
static inline size_t fr_find_crlf2(const fr_str *d, size_t pos)
{
  size_t r = nondet_size_t();
  IORA_ASSUME(r == IORA_NPOS || (r >= pos && r <= d->n && d->n - r >= 4));
  IORA_ASSUME(HM_CONTENT(r == IORA_NPOS || FR_CRLF2_AT(*d, r)));
  IORA_ASSUME(HM_CONTENT(!(GQ >= pos && GQ <= d->n && d->n - GQ >= 4 && (r == IORA_NPOS || GQ < r)) || !FR_CRLF2_AT(*d, GQ)));
  if (r != IORA_NPOS) { FR.found = 1; FR.he = r; }
  return r;
}
/* data.substr(pos, len): a view (the copy is never modified by this function) */
static inline iora_sv fr_substr(const fr_str *d, size_t pos, size_t len)
{
  IORA_ASSERT(pos <= d->n, "substr: pos <= size() (std::out_of_range otherwise)");
  iora_sv r; r.p = d->p + d->off + pos; r.n = IORA_MIN(len, d->n - pos);
  return r;
}
/* data.erase(0, k): removes min(k, size()) characters from the front */
static inline void fr_erase(fr_str *d, size_t pos, size_t k)
{
  IORA_ASSERT(pos == 0, "model: erase from the front only");
  size_t e = IORA_MIN(k, d->n);
  d->off += e; d->n -= e;
}
#endif
