/* unit udp_key (C06 "per-peer session identity"): UdpEngine::key(), the peer-index key.  Written from the property: two different peer addresses must never share a
 * peer-index entry, so the key must determine (numeric host, numeric port).  (a) SHAPE of the key on the real text; (b) injectivity LEMMA over that shape. */
void UdpEngine_key_contract(const sockaddr_storage *ss, iora_ostr *iora_ret)
__CPROVER_requires(IORA_TRUE && __CPROVER_is_fresh(ss, sizeof(*ss)) && __CPROVER_is_fresh(iora_ret, sizeof(*iora_ret)) && GN.calls == 0)
__CPROVER_assigns(*iora_ret, GN)
/* KY0 the address is turned into text exactly once */ __CPROVER_ensures(GN.calls == 1 && GN.sa == (const void *)ss)
/* KY0b with the address length of its family */ __CPROVER_ensures(GN.salen == (ss->ss_family == AF_INET ? sizeof(sockaddr_in) : sizeof(sockaddr_in6)))
/* KY1 length = host length + 1 + port length */ __CPROVER_ensures(GN.ok ==> iora_ret->n == KEY_LEN(GN.hlen, GN.plen))
/* KY2 every byte (witness index GK): host bytes, then ':' at index hlen, then the port digits */ __CPROVER_ensures((GN.ok && GK < iora_ret->n) ==> iora_ret->gk == KEY_BYTE(GK, GN.hlen, GN.h_gk, GN.p_gk))
/* KY3 no text, no key (empty string) */ __CPROVER_ensures(!GN.ok ==> iora_ret->n == 0)
;
void h_key(void)
{
  const sockaddr_storage *ss; iora_ostr *r;
  UdpEngine_key(ss, r);
  IORA_CANARY("h_key: returns");
  if (GN.ok) { IORA_CANARY("h_key: key built"); } else { IORA_CANARY("h_key: getnameinfo failed"); }
}

/* (b) injectivity over the contract's shape, UNBOUNDED lengths, no quantifier.  Two keys K1 = KEY(h1, p1), K2 = KEY(h2, p2), port texts digits only.
 * Equal strings have equal length and equal bytes at EVERY index; one well-chosen index suffices: if the host lengths differ, at index max(hlen1, hlen2)
 * one key has its ':' and the other one a port DIGIT.  So equal keys split at the same place, and then host and port texts are equal byte by byte
 * (second part: arbitrary witness index).  Hosts may contain ':' themselves (IPv6): the argument only uses the LAST separator. */
void h_key_injective(void)
{
  size_t hl1 = nondet_size_t(), pl1 = nondet_size_t(), hl2 = nondet_size_t(), pl2 = nondet_size_t();
  __CPROVER_assume(hl1 < NI_MAXHOST && hl2 < NI_MAXHOST && pl1 < NI_MAXSERV && pl2 < NI_MAXSERV);       /* buffer sizes; the argument does not depend on them */
  __CPROVER_assume(KEY_LEN(hl1, pl1) == KEY_LEN(hl2, pl2));                                              /* equal keys have equal length */
  const size_t n = KEY_LEN(hl1, pl1);
  /* part 1: the split point */
  if (hl1 != hl2) {
    IORA_CANARY("h_key_injective: different host lengths");
    const size_t k = hl1 > hl2 ? hl1 : hl2;
    char hb1 = (char)nondet_u8(), pb1 = (char)nondet_u8(), hb2 = (char)nondet_u8(), pb2 = (char)nondet_u8();     /* the bytes of the four texts at index k */
    __CPROVER_assume(IS_DIGIT(pb1) && IS_DIGIT(pb2));                                                   /* A: port texts are digits only (NI_NUMERICSERV) */
    __CPROVER_assert(k < n, "KL0 the index lies inside both keys");
    __CPROVER_assert(KEY_BYTE(k, hl1, hb1, pb1) != KEY_BYTE(k, hl2, hb2, pb2), "KL1 keys of equal length whose host texts have different lengths differ at index max(hlen1, hlen2): equal keys split at the same ':'");
  } else {
    IORA_CANARY("h_key_injective: same split point");
    __CPROVER_assert(pl1 == pl2, "KL2 same split point and same length: the port texts have the same length");
    /* part 2: byte-wise, arbitrary witness index g */
    size_t g = nondet_size_t(); __CPROVER_assume(g < n);
    char hb1 = (char)nondet_u8(), pb1 = (char)nondet_u8(), hb2 = (char)nondet_u8(), pb2 = (char)nondet_u8();
    __CPROVER_assume(KEY_BYTE(g, hl1, hb1, pb1) == KEY_BYTE(g, hl2, hb2, pb2));                         /* the keys agree at g */
    __CPROVER_assert(g >= hl1 || hb1 == hb2, "KL3 the host texts agree at every index");
    __CPROVER_assert(g <= hl1 || pb1 == pb2, "KL4 the port texts agree at every index");
  }
  IORA_CANARY("h_key_injective: reachable");
}
