// Native cross-check for unit udp_key: the REAL UdpEngine::key (private static, -fno-access-control).  Shape: numeric host ++ ':' ++ port digits; and the pairs of
// addresses whose texts concatenate to the same string WITHOUT the separator must get different keys (127.0.0.1:15000 vs 127.0.0.11:5000, [::1]:80 vs [::]:180).
#include "iora/network/detail/udp_engine.hpp"
#include "replay_io.h"
#include <arpa/inet.h>
using namespace iora::network;
static sockaddr_storage mk(int af, const char *ip, uint16_t port)
{ sockaddr_storage ss{}; if (af == AF_INET) { auto *a = (sockaddr_in *)&ss; a->sin_family = AF_INET; a->sin_port = htons(port); inet_pton(AF_INET, ip, &a->sin_addr); }
  else { auto *a = (sockaddr_in6 *)&ss; a->sin6_family = AF_INET6; a->sin6_port = htons(port); inet_pton(AF_INET6, ip, &a->sin6_addr); } return ss; }
int main(int, char **)
{
  struct { int af; const char *ip; uint16_t port; } t[] = {{AF_INET, "127.0.0.1", 15000}, {AF_INET, "127.0.0.11", 5000}, {AF_INET6, "::1", 80}, {AF_INET6, "::", 180}, {AF_INET, "10.1.2.3", 1}, {AF_INET, "10.1.2.31", 0}};
  std::vector<std::string> keys;
  for (auto &e : t) { std::string k = UdpEngine::key(mk(e.af, e.ip, e.port)); std::string want = std::string(e.ip) + ":" + std::to_string(e.port);
    printf("key(%s port %u) = \"%s\"\n", e.ip, e.port, k.c_str());
    if (k != want) replay_io::fail("KY1/KY2 key of " + std::string(e.ip) + " port " + std::to_string(e.port) + " is \"" + k + "\", expected numeric host ++ ':' ++ port digits = \"" + want + "\"");
    keys.push_back(k); }
  for (size_t i = 0; i < keys.size(); i++) for (size_t j = i + 1; j < keys.size(); j++) if (keys[i] == keys[j])
    replay_io::fail("C06: two different peer addresses share the peer-index key \"" + keys[i] + "\" (" + t[i].ip + ":" + std::to_string(t[i].port) + " and " + t[j].ip + ":" + std::to_string(t[j].port) + "): the second peer's datagrams arrive on the first peer's session");
  replay_io::ok("key shape host:port, distinct addresses have distinct keys");
  return 0;
}
