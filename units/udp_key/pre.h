/* type environment for unit udp_key: UdpEngine::key(const sockaddr_storage&) on its real text */
#define NI_MAXHOST 1025
#define NI_MAXSERV 32
#define NI_NUMERICHOST 1
#define NI_NUMERICSERV 2
#define AF_INET 2
#define AF_INET6 10
typedef uint32_t socklen_t;
typedef struct { uint16_t ss_family; uint8_t pad[126]; } sockaddr_storage;
typedef sockaddr_storage sockaddr;
typedef struct { uint8_t b[16]; } sockaddr_in;
typedef struct { uint8_t b[28]; } sockaddr_in6;

/* ---- the key's SHAPE (used by the contract of key() and by the injectivity lemma): host bytes ++ ':' ++ port digits ---- */
#define KEY_LEN(hl, pl) ((hl) + 1 + (pl))
#define KEY_BYTE(k, hl, hb, pb) ((k) < (hl) ? (hb) : (k) == (hl) ? (char)58 : (pb))      /* hb / pb: host byte at k, port byte at k - hl - 1 */
#define IS_DIGIT(c) ((c) >= (char)48 && (c) <= (char)57)

/* ---- ghost record of getnameinfo ---- */
struct { bool ok; unsigned calls; const char *hbuf, *svbuf; size_t hlen, plen; char h_gk, p_gk; socklen_t salen; int flags; const void *sa; } GN;
/* on success: host text (hlen bytes) and port text (plen DIGITS) written, NUL-terminated.  h_gk = host byte at GK (if GK < hlen), p_gk = port byte at GK-hlen-1 */
static inline int iora_getnameinfo(const sockaddr *sa, socklen_t salen, char *host, socklen_t hostlen, char *serv, socklen_t servlen, int flags)
{ if (GN.calls < 1000u) GN.calls++; GN.sa = sa; GN.salen = salen; GN.flags = flags; GN.hbuf = host; GN.svbuf = serv;
  IORA_ASSERT((flags & NI_NUMERICSERV) != 0 && (flags & NI_NUMERICHOST) != 0, "KN1 numeric host and numeric service are requested (the digits-only port text depends on NI_NUMERICSERV)");
  IORA_ASSERT(hostlen == NI_MAXHOST && servlen == NI_MAXSERV, "KN2 the full buffer sizes are passed");
  if (nondet_bool()) { GN.ok = false; return -2; }
  size_t hl = nondet_size_t(), pl = nondet_size_t(); IORA_ASSUME(hl >= 1 && hl < hostlen && pl >= 1 && pl < servlen);
  host[hl] = 0; serv[pl] = 0;
  if (GK < hl) { char c = (char)nondet_u8(); IORA_ASSUME(c != 0); host[GK] = c; GN.h_gk = c; }
  if (GK > hl && GK - hl - 1 < pl) { char d = (char)nondet_u8(); IORA_ASSUME(IS_DIGIT(d)); serv[GK - hl - 1] = d; GN.p_gk = d; }
  GN.hlen = hl; GN.plen = pl; GN.ok = true; return 0; }
#define getnameinfo iora_getnameinfo

/* std::string from / appended with the C strings getnameinfo wrote: the length comes from the ghost, the witness byte is read from the real buffer */
static inline size_t iora_cstr_len(const char *p)
{ IORA_ASSERT(GN.ok && (p == GN.hbuf || p == GN.svbuf), "KS1 a C string is read only from a buffer getnameinfo filled successfully"); return p == GN.hbuf ? GN.hlen : GN.plen; }
static inline iora_ostr iora_ostr_from_cstr(const char *p) { iora_ostr o = iora_ostr_DEFAULT; iora_ostr_append(&o, p, iora_cstr_len(p)); return o; }
static inline void iora_ostr_append_cstr(iora_ostr *o, const char *p) { iora_ostr_append(o, p, iora_cstr_len(p)); }
static inline iora_ostr iora_ostr_cat_cstr(const char *a, const char *b) { iora_ostr o = iora_ostr_from_cstr(a); iora_ostr_append_cstr(&o, b); return o; }
