// Native cross-check for unit udp_connect: the REAL UdpEngine::connect through the public API.  Success: exactly one connect event, no close;
// failure (unresolvable host): exactly one close notification for the id connect() returned, no connect event, gauge unchanged, no descriptor leaked.
#include "iora/network/detail/udp_engine.hpp"
#include "replay_io.h"
#include <dirent.h>
#include <thread>
using namespace iora::network;
using namespace std::chrono_literals;
static int openFds() { int n = 0; DIR *d = opendir("/proc/self/fd"); if (!d) return -1; while (readdir(d)) n++; closedir(d); return n; }
int main(int, char **)
{
  std::mutex mx; std::map<SessionId, int> connects, closes; std::map<SessionId, TransportError> why;
  TransportConfig cfg{}; UdpEngine eng{cfg};
  detail::EngineBase::Callbacks cbs{};
  cbs.onConnect = [&](SessionId s, const TransportAddress &) { std::lock_guard<std::mutex> g(mx); connects[s]++; };
  cbs.onClose = [&](SessionId s, const TransportErrorInfo &e) { std::lock_guard<std::mutex> g(mx); closes[s]++; why[s] = e.code; };
  cbs.onAccept = [](SessionId, const TransportAddress &) {}; cbs.onData = [](SessionId, iora::core::BufferView, std::chrono::steady_clock::time_point) {};
  eng.setCallbacks(cbs);
  if (!eng.start().isOk()) { replay_io::ok("skipped: engine did not start in this sandbox"); return 0; }
  auto lr = eng.addListener("127.0.0.1", 0, TlsMode::None);
  if (!lr.isOk()) { replay_io::ok("skipped: cannot bind loopback UDP"); eng.stop(); return 0; }
  auto port = eng.getListenerAddress(lr.value()).port;
  auto wait = [&](auto p) { for (int i = 0; i < 1500; i++) { { std::lock_guard<std::mutex> g(mx); if (p()) return true; } std::this_thread::sleep_for(10ms); } return false; };
  auto ok = eng.connect("127.0.0.1", port, TlsMode::None);
  SessionId a = ok.value();
  if (!wait([&] { return connects[a] >= 1; })) replay_io::fail("CS2 connect to a reachable address produced no connect event");
  const int fds0 = openFds(); const auto cur0 = eng.getStats().sessionsCurrent;
  auto bad = eng.connect("no-such-host.invalid", 9, TlsMode::None);
  SessionId b = bad.value();
  if (!wait([&] { return closes[b] >= 1; })) replay_io::fail("CF1 connect to an unresolvable host: the returned id never got a close notification");
  std::this_thread::sleep_for(200ms);
  { std::lock_guard<std::mutex> g(mx);
    if (closes[b] != 1) replay_io::fail("CF1 failed connect notified " + std::to_string(closes[b]) + " times");
    if (connects[b] != 0) replay_io::fail("CF5 connect event for a failed connect");
    if (why[b] != TransportError::Resolve) replay_io::fail("CF3 reason is not Resolve");
    if (connects[a] != 1 || closes[a] != 0) replay_io::fail("CS1/CS2 successful connect: not exactly one connect event / a close"); }
  if (eng.getStats().sessionsCurrent != cur0) replay_io::fail("CF4 gauge changed by a failed connect");
  if (fds0 >= 0 && openFds() != fds0) replay_io::fail("CF6 descriptor count changed across a failed connect: " + std::to_string(fds0) + " -> " + std::to_string(openFds()));
  // connectViaListener early exits (viaDo head): unknown listener, unresolvable host, no address of the listener's family - one close each, nothing inserted
  const auto cur1 = eng.getStats().sessionsCurrent;
  SessionId v1 = eng.connectViaListener(lr.value() + 1000, "127.0.0.1", 9).value();
  SessionId v2 = eng.connectViaListener(lr.value(), "no-such-host.invalid", 9).value();
  SessionId v3 = eng.connectViaListener(lr.value(), "::1", 9).value();
  if (!wait([&] { return closes[v1] >= 1 && closes[v2] >= 1 && closes[v3] >= 1; })) replay_io::fail("VH2 a refused connectViaListener never got its close notification");
  std::this_thread::sleep_for(200ms);
  { std::lock_guard<std::mutex> g(mx);
    for (SessionId v : {v1, v2, v3}) { if (closes[v] != 1) replay_io::fail("VH2 refused connectViaListener id " + std::to_string(v) + ": " + std::to_string(closes[v]) + " close notifications");
      if (connects[v] != 0) replay_io::fail("VH6 connect event for a refused connectViaListener"); }
    if (why[v1] != TransportError::Config || why[v2] != TransportError::Resolve || why[v3] != TransportError::Config) replay_io::fail("VH3/VH4 reasons of the three early exits"); }
  if (eng.getStats().sessionsCurrent != cur1) replay_io::fail("VH5 gauge changed by refused connectViaListener calls");
  printf("connectViaListener: unknown listener / unresolvable host / family mismatch: one close each (Config, Resolve, Config), nothing inserted\n");
  eng.stop();
  { std::lock_guard<std::mutex> g(mx); if (closes[a] != 1 || closes[b] != 1 || closes[v1] != 1) replay_io::fail("after stop(): not exactly one close per id"); }
  replay_io::ok("connect: one connect event on success, exactly one close (Resolve) on failure, nothing inserted or leaked");
  return 0;
}
