/* environment of UdpEngine::connectDo: resolver, socket calls, tags.  Trusted base of unit udp_connect. */
#define AF_UNSPEC 0
#define AF_INET 2
#define AF_INET6 10
typedef struct { uint8_t b[16]; } sockaddr_in;      /* sizeof(sockaddr_in) == 16, sizeof(sockaddr_in6) == 28 on Linux */
typedef struct { uint8_t b[28]; } sockaddr_in6;
#define SOCK_DGRAM 2
#define IPPROTO_UDP 17
#define SOCK_NONBLOCK 04000
#define SOCK_CLOEXEC 02000000
#define SOL_SOCKET 1
#define SO_RCVBUF 8
#define SO_SNDBUF 7
typedef struct addrinfo { int ai_flags, ai_family, ai_socktype, ai_protocol; socklen_t ai_addrlen; sockaddr *ai_addr; struct addrinfo *ai_next; } addrinfo;
#define addrinfo_DEFAULT ((addrinfo){0})
typedef struct { SessionId sid; iora_strid host; uint16_t port; } ConnectReq;
typedef struct { bool isListener; Listener *lst; Session *sess; } Tag;
#define Tag_DEFAULT ((Tag){ false, NULL, NULL })            /* default member initialisers of struct Tag */
static inline Tag *iora_new_Tag(void) { Tag *t = (Tag *)malloc(sizeof(Tag)); IORA_ASSUME(t != NULL); *t = Tag_DEFAULT; return t; }
static inline const char *iora_strid_c_str(const iora_strid *s) { (void)s; return NULL; }      /* text not modelled */
static inline iora_strid iora_str_of_num(unsigned long long n) { return (iora_strid)n; }
static inline iora_strid iora_gai_strerror(int rc) { return (iora_strid)rc; }

/* ghost record of the connect environment */
struct { unsigned gai_calls, free_calls; bool list_live; size_t ai_left; unsigned sock_calls; unsigned open_fds; int cur_fd; bool cur_connected; unsigned connect_calls;
         unsigned addEpoll_calls; int addEpoll_fd; uint32_t addEpoll_ev; bool tag_set; Session *tag_sess; bool tag_isListener; int tag_fd; unsigned foreign_close; int af; } GC;
addrinfo G_ai_node; sockaddr_storage G_ai_addr;
#define G_ai_nodep ((addrinfo *)&G_ai_node)      /* by-value spellings for the loop invariant */
#define G_ai_addrp ((sockaddr *)&G_ai_addr)

/* getaddrinfo: rc != 0 (result pointer untouched), or rc == 0 with a list of 0.. nodes.  The list is UNBOUNDED: one scratch node stands for the current
 * node, `ai->ai_next` (iora_ai_next) re-fills it with arbitrary content while GC.ai_left nodes remain. */
static inline void iora_ai_fill(void) { addrinfo n; n.ai_addr = &G_ai_addr; n.ai_next = NULL; IORA_ASSUME(n.ai_addrlen <= sizeof(sockaddr_storage)); G_ai_node = n; }
static inline int iora_sys_getaddrinfo(const char *host, const char *port, const addrinfo *hints, addrinfo **res)
{ (void)host; (void)port; (void)hints; IORA_BUMP(GC.gai_calls); int rc = nondet_int();
  if (rc != 0) return rc;
  if (nondet_bool()) { *res = NULL; return 0; }
  iora_ai_fill(); GC.ai_left = nondet_size_t(); IORA_ASSUME(GC.ai_left <= 0xffffffffu); GC.list_live = true; *res = &G_ai_node; return 0; }
static inline addrinfo *iora_ai(const addrinfo *p) { IORA_ASSERT(GC.list_live && p == &G_ai_node, "AI1 a node of the live getaddrinfo list (not freed, not NULL)"); return &G_ai_node; }
static inline addrinfo *iora_ai_next(const addrinfo *p) { IORA_ASSERT(GC.list_live && p == &G_ai_node, "AI1 a node of the live getaddrinfo list (not freed, not NULL)");
  if (GC.ai_left == 0) return NULL; GC.ai_left--; iora_ai_fill(); return &G_ai_node; }
static inline void iora_sys_freeaddrinfo(addrinfo *res) { IORA_ASSERT(GC.list_live && res == &G_ai_node, "AI2 freeaddrinfo gets the live list head, once"); IORA_BUMP(GC.free_calls); GC.list_live = false; }
/* socket: -1 with errno, or a descriptor >= 0 that is then open until close() */
static inline int iora_sys_socket(int family, int type, int proto)
{ (void)family; (void)proto; IORA_ASSERT((type & SOCK_DGRAM) == SOCK_DGRAM && (type & SOCK_NONBLOCK) != 0, "SK1 a non-blocking datagram socket"); IORA_BUMP(GC.sock_calls);
  IORA_ASSERT(GC.open_fds == 0, "SK2 the previous candidate socket was closed before another one is created (no descriptor leak)");
  int fd = nondet_int(); if (fd < 0) { int e = nondet_int(); IORA_ASSUME(e > 0); iora_errno = e; return -1; }
  GC.open_fds++; GC.cur_fd = fd; GC.cur_connected = false; return fd; }
static inline int iora_sys_setsockopt(int fd, int level, int opt, const void *v, socklen_t l)
{ (void)level; (void)opt; (void)v; (void)l; IORA_ASSERT(GC.open_fds == 1 && fd == GC.cur_fd, "SK3 socket option set on the open candidate socket"); return nondet_int(); }
static inline int iora_sys_connect(int fd, const sockaddr *a, socklen_t l)
{ (void)l; IORA_ASSERT(GC.open_fds == 1 && fd == GC.cur_fd, "SK3 connect on the open candidate socket"); IORA_ASSERT(a == &G_ai_addr, "SK4 connect to the address of the current list node"); IORA_BUMP(GC.connect_calls);
  if (nondet_bool()) { GC.cur_connected = true; return 0; } int e = nondet_int(); IORA_ASSUME(e > 0); iora_errno = e; return -1; }
static inline int iora_sys_getpeername(int fd, sockaddr *a, socklen_t *l) { (void)fd; sockaddr_storage n; *a = n; *l = (socklen_t)(nondet_u64() & 0x7f); return nondet_bool() ? 0 : -1; }
static inline bool UdpEngine_addEpoll(UdpEngine *self, int fd, uint32_t ev) { (void)self; IORA_BUMP(GC.addEpoll_calls); GC.addEpoll_fd = fd; GC.addEpoll_ev = ev; return nondet_bool(); }
static inline void iora_map1_tags_emplace(iora_map1_tags *m, int fd, Tag *t) { if (fd == GFD) m->has = true; GC.tag_set = true; GC.tag_fd = fd; GC.tag_sess = t->sess; GC.tag_isListener = t->isListener; }
/* sockAf(fd): getsockname family of the listener socket - any value */
static inline int UdpEngine_sockAf(UdpEngine *self, int fd) { (void)self; (void)fd; GC.af = nondet_int(); return GC.af; }
