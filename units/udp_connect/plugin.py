"""udp_send uses the lock-guard scope-exit hook of the UDP units (one implementation, in units/udp_close/plugin.py)."""
import importlib.util
import os

_p = os.path.join(os.path.dirname(os.path.abspath(__file__)), '..', 'udp_close', 'plugin.py')
_s = importlib.util.spec_from_file_location('udp_close_plugin', _p)
_m = importlib.util.module_from_spec(_s)
_s.loader.exec_module(_m)
hook_before_loops = _m.hook_before_loops
