/* type environment for unit udp_connect: shared UDP environment + the connect environment (resolver, sockets, tags; connect_env.h).
 * The close() stub's hook is a macro, expanded where the stub is defined - after GC is declared would be too late for the include order,
 * so the hook is routed through a function declared here and defined after connect_env.h. */
static inline void iora_connect_on_close(int fd);
#define IORA_ON_SYS_CLOSE_HOOK(fd) iora_connect_on_close(fd)
#include "iora_udp.h"
#include "connect_env.h"
static inline void iora_connect_on_close(int fd) { if (GC.open_fds > 0 && fd == GC.cur_fd) { GC.open_fds--; GC.cur_connected = false; } else GC.foreign_close++; }
/* connectDo, loop 1: `for (addrinfo *ai = res; ai; ai = ai->ai_next)`: at the loop head no candidate socket is open (the previous one failed and was closed). */
/* assigns = everything the body and its stubs write (plain mode: used for the havoc, so it is a deliberate superset: the whole connect ghost GC) */
#define IORA_LOOP_UdpEngine_connectDo_1 IORA_LC( \
  __CPROVER_assigns(ai, sfd, GC, G.cl.close_calls, G.cl.close_fd, G.cl.gfd_closed, G_ai_node, iora_errno) \
  __CPROVER_loop_invariant(sfd == -1 && GC.open_fds == 0 && GC.list_live && GC.foreign_close == 0 && IORA_NO_LOCK_HELD(self)) \
  __CPROVER_loop_invariant(ai == NULL || ai == G_ai_nodep) \
  __CPROVER_loop_invariant(G_ai_node.ai_addr == G_ai_addrp && G_ai_node.ai_addrlen <= sizeof(sockaddr_storage) && GC.ai_left <= 0xffffffffu) \
  __CPROVER_loop_invariant(GC.gai_calls == 1 && GC.free_calls == 0 && GC.addEpoll_calls == 0 && !GC.tag_set) \
  __CPROVER_decreases(GC.ai_left + (ai != NULL ? 1 : 0)))
/* viaDo, loop 1: search the first node of the listener's family; nothing chosen while the loop goes round */
#define IORA_LOOP_UdpEngine_viaDo_1 IORA_LC( \
  __CPROVER_assigns(ai, chosen, GC.ai_left, G_ai_node) \
  __CPROVER_loop_invariant(chosen == NULL && GC.list_live && (ai == NULL || ai == G_ai_nodep)) \
  __CPROVER_loop_invariant(G_ai_node.ai_addr == G_ai_addrp && G_ai_node.ai_addrlen <= sizeof(sockaddr_storage) && GC.ai_left <= 0xffffffffu) \
  __CPROVER_decreases(GC.ai_left + (ai != NULL ? 1 : 0)))
