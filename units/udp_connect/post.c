/* unit udp_connect: UdpEngine::connectDo, whole function.
 * C02: "Every session identifier the application has seen (returned by connect ...) receives exactly one close notification ... connect failure
 *       (refused, unresolvable ...)": every failure path notifies the id exactly once and inserts nothing.
 * C06 (session open by connect): the success path announces the id exactly once and registers exactly the connected socket for it.
 * Plain harness over the full symbolic domain; the getaddrinfo result list is UNBOUNDED (loop contract in pre.h, scratch-node list model). */
void h_connectDo(void)
{
  IORA_TRUE = 1; G = (struct iora_udp_ghost){0}; memset(&GC, 0, sizeof(GC));
  GPK = nondet_u64(); GSID = nondet_u64(); GFD = nondet_int(); GB = nondet_size_t(); GK = nondet_size_t();
  UdpEngine E; Session WS, OS; ConnectReq CR;
  E._sessions.val = &WS; E._sessions.other = &OS;
  E._peerIndex.has = nondet_bool(); E._sessions.has = nondet_bool(); E._tags.has = nondet_bool(); E._listeners.has = nondet_bool(); E._cbMutex.held = 0; E._sessionRwMutex.held = 0;
  E._cbs.onAccept.set = nondet_bool(); E._cbs.onConnect.set = nondet_bool(); E._cbs.onData.set = nondet_bool(); E._cbs.onClose.set = nondet_bool(); E._cbs.onError.set = nondet_bool();
  E._config.useEdgeTriggered = nondet_bool(); WS.closed = nondet_bool();
  /* call-site fact: the id was issued by connect() (_nextSessionId++) and is not in the table */
  __CPROVER_assume(!(CR.sid == GSID && E._sessions.has) && E._atomicStats.sessionsCurrent < (size_t)-1);
  const bool shas0 = E._sessions.has; Session *const sval0 = E._sessions.val; const bool thas0 = E._tags.has; const size_t cur0 = E._atomicStats.sessionsCurrent;
  const uint64_t conn0 = E._atomicStats.connected; const bool xset = E._cbs.onClose.set, cset = E._cbs.onConnect.set, eset = E._cbs.onError.set;
  const bool idxhas0 = E._peerIndex.has; const SessionId idxval0 = E._peerIndex.val;

  bool ok = UdpEngine_connectDo(&E, &CR);

  __CPROVER_assert(IORA_NO_LOCK_HELD(&E), "L1 no lock left held");
  __CPROVER_assert(GC.gai_calls == 1 && !GC.list_live && GC.foreign_close == 0, "E1 the resolver result is freed on every path that obtained one; no foreign descriptor is closed");
  __CPROVER_assert(E._peerIndex.has == idxhas0 && E._peerIndex.val == idxval0, "E2 a connected client never touches the listener peer index");
  if (!ok) {
    IORA_CANARY("h_connectDo: failure path");
    __CPROVER_assert(G_closeCb_calls == (xset ? 1u : 0u), "CF1 every failure path notifies the close of the id exactly once");
    __CPROVER_assert(!xset || (G_closeCb_sid == CR.sid && !G_closeCb_locked && (G_closeCb_why == TransportError_Resolve || G_closeCb_why == TransportError_Connect)), "CF2 ... for the id the caller holds, reason Resolve or Connect, no lock held");
    __CPROVER_assert(!xset || G_closeCb_why == (GC.free_calls == 0 ? TransportError_Resolve : TransportError_Connect), "CF3 Resolve iff no address list was obtained");
    __CPROVER_assert(E._sessions.has == shas0 && E._sessions.val == sval0 && E._tags.has == thas0 && !GC.tag_set && E._atomicStats.sessionsCurrent == cur0 && E._atomicStats.connected == conn0 && GC.addEpoll_calls == 0,
                     "CF4 nothing is inserted, registered or counted");
    __CPROVER_assert(G.rx.connectCb_calls == 0, "CF5 no connect event for a failed connect");
    __CPROVER_assert(GC.open_fds == 0, "CF6 no descriptor is leaked");
    __CPROVER_assert(G_errorCb_calls == (eset ? 1u : 0u), "CF7 one error event");
    if (GC.free_calls) { IORA_CANARY("h_connectDo: no candidate connected"); } else { IORA_CANARY("h_connectDo: resolution failed"); }
  } else {
    IORA_CANARY("h_connectDo: success path");
    __CPROVER_assert(G_closeCb_calls == 0 && G_errorCb_calls == 0, "CS1 no close and no error event on success");
    __CPROVER_assert(G.rx.connectCb_calls == (cset ? 1u : 0u) && (!cset || (G.rx.connectCb_sid == CR.sid && !G.rx.connectCb_locked)), "CS2 exactly one connect event for the id");
    __CPROVER_assert(GC.open_fds == 1 && GC.cur_connected, "CS3 exactly one descriptor stays open: the one connect() succeeded on");
    __CPROVER_assert(GC.addEpoll_calls == 1 && GC.addEpoll_fd == GC.cur_fd && (GC.addEpoll_ev & EPOLLIN) != 0 && (GC.addEpoll_ev & EPOLLOUT) == 0 && ((GC.addEpoll_ev & EPOLLET) != 0) == E._config.useEdgeTriggered, "CS4 it is registered for reading (edge-triggered as configured)");
    __CPROVER_assert(E._atomicStats.sessionsCurrent == cur0 + 1 && E._atomicStats.connected == conn0 + 1, "CS5 gauge +1, connected +1");
    __CPROVER_assert(GC.tag_set && GC.tag_fd == GC.cur_fd && !GC.tag_isListener && (GC.cur_fd != GFD || E._tags.has), "CS6 the descriptor is tagged as a client session");
    if (GSID == CR.sid) {
      IORA_CANARY("h_connectDo: witness session created");
      __CPROVER_assert(E._sessions.has && E._sessions.val != NULL && GC.tag_sess == E._sessions.val, "CS7 the session is in the table and the tag points at it");
      Session *ns = E._sessions.val;
      __CPROVER_assert(ns->id == CR.sid && ns->role == Role_ClientConnected && ns->fd == GC.cur_fd && !ns->closed && !ns->connectPending && ns->wq.lo == ns->wq.hi, "CS8 with the id, connected-client role, the connected descriptor, open, empty queue");
    } else {
      __CPROVER_assert(E._sessions.has == shas0 && E._sessions.val == sval0, "CS9 no other table entry is touched");
    }
  }
  IORA_CANARY("h_connectDo: returns");
}

/* ============================ viaDo (connect-via-listener), WHOLE function ============================
 * C02: every early exit (listener not found, listener family unsupported, resolution failed, no address of the listener's family, session cap) fires exactly
 * one close notification for the id connectViaListener() already returned, and inserts nothing.  C06: the success path (also under contract as `via_tail`
 * in unit udp_recv) creates the session for the resolved peer and indexes it only if the peer has no receiving session yet.  Unbounded address list. */
#define INV_IDX_V(E) ( (!((E)._peerIndex.has && (E)._peerIndex.val == GSID) || ((E)._sessions.has && (E)._sessions.val != NULL && (E)._sessions.val->pkey == GPK \
                          && !(E)._sessions.val->closed && (E)._sessions.val->role == Role_ServerPeer)) \
                    && (!(E)._sessions.has || ((E)._sessions.val != NULL && (E)._sessions.val->id == GSID && GSID < (E)._nextSessionId)) \
                    && (!(E)._peerIndex.has || (E)._peerIndex.val < (E)._nextSessionId) )
void h_viaDo(void)
{
  IORA_TRUE = 1; G = (struct iora_udp_ghost){0}; memset(&GC, 0, sizeof(GC));
  GPK = nondet_u64(); GSID = nondet_u64(); GFD = nondet_int(); GLID = nondet_u64(); GB = nondet_size_t(); GK = nondet_size_t();
  __CPROVER_assume(GB < sizeof(sockaddr_storage));
  UdpEngine E; Session WS, OS; Listener L, OL; ViaReq VR;
  E._sessions.val = &WS; E._sessions.other = &OS; E._listeners.val = &L; E._listeners.other = &OL;
  E._peerIndex.has = nondet_bool(); E._sessions.has = nondet_bool(); E._tags.has = nondet_bool(); E._listeners.has = nondet_bool(); E._cbMutex.held = 0; E._sessionRwMutex.held = 0;
  E._cbs.onAccept.set = nondet_bool(); E._cbs.onConnect.set = nondet_bool(); E._cbs.onData.set = nondet_bool(); E._cbs.onClose.set = nondet_bool(); E._cbs.onError.set = nondet_bool();
  WS.closed = nondet_bool(); L.wantWrite = nondet_bool(); OL.wantWrite = nondet_bool();
  __CPROVER_assume(INV_IDX_V(E) && E._atomicStats.sessionsCurrent < (size_t)-1);
  __CPROVER_assume(VR.sid < E._nextSessionId && !(VR.sid == GSID && E._sessions.has) && !(E._peerIndex.has && E._peerIndex.val == VR.sid));     /* id issued by connectViaListener, not in the table */
  const bool has0 = E._peerIndex.has; const SessionId val0 = E._peerIndex.val; const bool shas0 = E._sessions.has; Session *const sval0 = E._sessions.val;
  const size_t cur0 = E._atomicStats.sessionsCurrent; const bool cset = E._cbs.onConnect.set, xset = E._cbs.onClose.set; const SessionId next0 = E._nextSessionId;
  const bool lst_known_absent = (VR.lid == GLID && !E._listeners.has);
  Listener *const lst = (VR.lid == GLID) ? &L : &OL;

  bool ok = UdpEngine_viaDo(&E, &VR);

  __CPROVER_assert(IORA_NO_LOCK_HELD(&E), "L1 no lock left held");
  __CPROVER_assert(!GC.list_live && GC.gai_calls <= 1 && GC.free_calls <= GC.gai_calls, "E1 the resolver result is freed on every path that obtained one");
  __CPROVER_assert(!lst_known_absent || (!ok && GC.gai_calls == 0 && (!xset || G_closeCb_why == TransportError_Config)), "VH1 unknown listener: refused before anything is resolved, reason Config");
  if (!ok) {
    IORA_CANARY("h_viaDo: early exit");
    __CPROVER_assert(G_closeCb_calls == (xset ? 1u : 0u), "VH2 every early exit fires exactly one close notification");
    __CPROVER_assert(!xset || (G_closeCb_sid == VR.sid && !G_closeCb_locked && (G_closeCb_why == TransportError_Config || G_closeCb_why == TransportError_Resolve)), "VH3 for the id the caller holds, reason Config or Resolve, no lock held");
    __CPROVER_assert(!xset || (G_closeCb_why == TransportError_Resolve) == (GC.gai_calls == 1 && GC.free_calls == 0), "VH4 Resolve iff the resolver was asked and gave no list");
    __CPROVER_assert(E._sessions.has == shas0 && E._sessions.val == sval0 && E._peerIndex.has == has0 && E._peerIndex.val == val0 && E._atomicStats.sessionsCurrent == cur0 && E._nextSessionId == next0,
                     "VH5 and inserts nothing: session table, peer index, gauge unchanged");
    __CPROVER_assert(G.rx.connectCb_calls == 0, "VH6 no connect event");
    if (GC.gai_calls == 0) { IORA_CANARY("h_viaDo: refused before resolution"); }
    else if (GC.free_calls == 0) { IORA_CANARY("h_viaDo: resolution failed"); }
    else if (G.rc.key_calls == 0) { IORA_CANARY("h_viaDo: no address of the listener's family"); }
    else { IORA_CANARY("h_viaDo: session cap"); }
  } else {
    IORA_CANARY("h_viaDo: session created");
    const bool hit = (G.rc.key == GPK);
    __CPROVER_assert(G_closeCb_calls == 0 && GC.gai_calls == 1 && GC.free_calls == 1, "V2a success: no close; the address list was obtained and freed once");
    __CPROVER_assert(G.rx.connectCb_calls == (cset ? 1u : 0u) && (!cset || (G.rx.connectCb_sid == VR.sid && !G.rx.connectCb_locked)), "V2b exactly one connect event for the id");
    __CPROVER_assert(E._atomicStats.sessionsCurrent == cur0 + 1, "V2c gauge +1");
    __CPROVER_assert(GC.af == AF_INET || GC.af == AF_INET6, "VH7 a via session is only created on a listener socket whose family is known (IPv4 or IPv6)");
    if (GSID == VR.sid) {
      IORA_CANARY("h_viaDo: witness session created");
      __CPROVER_assert(E._sessions.has && E._sessions.val != NULL, "V2d the session is in the table");
      Session *ns = E._sessions.val;
      __CPROVER_assert(ns->id == VR.sid && ns->role == Role_ServerPeer && !ns->closed && ns->pkey == G.rc.key && ns->owner == lst->id && ns->fd == lst->fd, "V2e listener-side, open, keyed by the resolved peer, owned by the listener");
      __CPROVER_assert((ns->plen == sizeof(sockaddr_in) || ns->plen == sizeof(sockaddr_in6)) && (!(GB < ns->plen) || ns->peer.b[GB] == G_ai_addr.b[GB]), "V2f its datagrams will be addressed to the chosen resolver address (length by family, every byte GB)");
      __CPROVER_assert(ns->plen == (GC.af == AF_INET6 ? sizeof(sockaddr_in6) : sizeof(sockaddr_in)), "V2h an address of the LISTENER's family was chosen (a datagram socket cannot send to the other family)");
    } else {
      __CPROVER_assert(E._sessions.has == shas0 && E._sessions.val == sval0, "V2g no other table entry is touched");
    }
    if (hit && !has0) __CPROVER_assert(E._peerIndex.has && E._peerIndex.val == VR.sid, "V3a a peer without an index entry is indexed to the new session");
    if (hit && has0)  __CPROVER_assert(E._peerIndex.has && E._peerIndex.val == val0, "V3b a peer that already has a receiving session keeps it (no redirect)");
    if (!hit)         __CPROVER_assert(E._peerIndex.has == has0 && E._peerIndex.val == val0, "V3c other peers' entries are untouched");
  }
  __CPROVER_assert(INV_IDX_V(E), "I1 the engine invariant INV is re-established");
  IORA_CANARY("h_viaDo: returns");
}
