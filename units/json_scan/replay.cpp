// REPLAY adapter for unit json_scan: feeds the verifier's input to the REAL JsonParser::_skipWhitespace/_parseNull/_parseBool/_parseNumber
// (private members reached with -fno-access-control) and evaluates the contract clauses natively against an RFC 8259 reference.
#include "iora/parsers/json.hpp"
#include "replay_io.h"
#include <cstring>
#include <cerrno>
using namespace iora::parsers;
static long refNumberEnd(const std::string &t, size_t p) {
  size_t n = t.size(); auto dig = [&](size_t k) { return k < n && t[k] >= '0' && t[k] <= '9'; };
  if (p < n && t[p] == '-') p++;
  if (!dig(p)) return -1;
  if (t[p] == '0') p++; else while (dig(p)) p++;
  if (p < n && t[p] == '.') { p++; if (!dig(p)) return -1; while (dig(p)) p++; }
  if (p < n && (t[p] == 'e' || t[p] == 'E')) { p++; if (p < n && (t[p] == '+' || t[p] == '-')) p++; if (!dig(p)) return -1; while (dig(p)) p++; }
  return (long)p;
}
int main(int argc, char **argv) {
  auto in = replay_io::load(argv[1]);
  std::vector<uint8_t> d = replay_io::bytes(in["IN"]);
  size_t n = in.count("IN_N") ? replay_io::u64(in["IN_N"]) : d.size();
  d.resize(n, 0);
  size_t pos = in.count("START") ? replay_io::u64(in["START"]) : 0;
  if (pos > n) pos = n;
  // exact-size heap copy so that ASan sees any read past the end of the view
  char *buf = new char[n ? n : 1]; if (n) memcpy(buf, d.data(), n);
  std::string t(buf, n);
  auto isWs = [&](size_t k) { return t[k] == ' ' || t[k] == '\t' || t[k] == '\n' || t[k] == '\r'; };
  { JsonParser p(std::string_view(buf, n), ParseLimits{}); p._pos = pos; p._skipWhitespace();
    if (p._pos < pos || p._pos > n) replay_io::fail("W1 cursor outside the text after _skipWhitespace");
    if (p._pos < n && isWs(p._pos)) replay_io::fail("W2 RFC 8259 white space not skipped"); }
  { JsonParser p(std::string_view(buf, n), ParseLimits{}); p._pos = pos; Json o; bool ok = p._parseNull(o);
    bool lit = n - pos >= 4 && t.compare(pos, 4, "null") == 0;
    if (ok != lit) replay_io::fail("L1 null accepted <=> exact bytes");
    if (p._pos != pos + (ok ? 4 : 0) || p._pos > n) replay_io::fail("L2/L3/L4 cursor after _parseNull"); }
  { JsonParser p(std::string_view(buf, n), ParseLimits{}); p._pos = pos; Json o; bool ok = p._parseBool(o);
    bool lt = n - pos >= 4 && t.compare(pos, 4, "true") == 0, lf = n - pos >= 5 && t.compare(pos, 5, "false") == 0;
    if (ok != (lt || lf)) replay_io::fail("B1 bool accepted <=> exact bytes");
    if (p._pos != pos + (lt ? 4 : lf ? 5 : 0) || p._pos > n) replay_io::fail("B2-B5 cursor after _parseBool");
    if (ok && (!o.isBool() || o.getBool() != lt)) replay_io::fail("B2/B3 value"); }
  if (pos < n) { JsonParser p(std::string_view(buf, n), ParseLimits{}); p._pos = pos; Json o; bool ok = p._parseNumber(o);
    if (p._pos < pos || p._pos > n) replay_io::fail("N1 cursor outside the text after _parseNumber");
    if (ok && p._pos == pos) replay_io::fail("N2 number accepted without consuming input");
    long e = refNumberEnd(t, pos);
    bool delim = e >= 0 && ((size_t)e == n || isWs(e) || t[e] == ',' || t[e] == ']' || t[e] == '}');
    if (delim && !ok) replay_io::fail("A1 RFC 8259 number not accepted");
    if (delim && p._pos != (size_t)e) replay_io::fail("A2 RFC 8259 number not delimited exactly");
    if (ok && !((o.isInt() || o.isDouble()))) replay_io::fail("N4 value is not a number");
    if (delim && ok) { // natively the conversion is real: compare type and value with strtod / strtoll on the token (reference)
      std::string tok = t.substr(pos, (size_t)e - pos); bool fe = tok.find_first_of(".eE") != std::string::npos;
      if (fe && !o.isDouble()) replay_io::fail("A3 number with fraction or exponent is not a Double: token " + tok + (o.isInt() ? " -> Int " + std::to_string(o.getInt()) : ""));
      if (fe && o.getDouble() != strtod(tok.c_str(), nullptr)) replay_io::fail("value differs from strtod(token) for " + tok);
      if (!fe) { errno = 0; long long ref = strtoll(tok.c_str(), nullptr, 10); bool fits = errno != ERANGE;
        if (fits && !(o.isInt() && o.getInt() == ref)) replay_io::fail("N7 integer token " + tok + " must decode to Int " + std::to_string(ref));
        if (!fits && !(o.isDouble() && o.getDouble() == strtod(tok.c_str(), nullptr)))
          replay_io::fail("N7 integer token " + tok + " does not fit int64: must decode to the double strtod yields, got " + (o.isInt() ? "Int " + std::to_string(o.getInt()) : std::string("another value"))); } } }
  delete[] buf;
  replay_io::ok("contract clauses hold on this input");
  return 0;
}
