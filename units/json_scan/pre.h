/* unit json_scan: type environment is shims/iora_json.h; here: ghost spec of an RFC 8259 number, the text accessor, loop contracts */

/* ---- ghost description of an RFC 8259 section 6 number starting at GN_s (only meaningful when GN_on) ----
 *   number = [ minus ] int [ frac ] [ exp ]      int = zero / ( digit1-9 *DIGIT )     frac = "." 1*DIGIT     exp = e [ - / + ] 1*DIGIT
 *   [GN_s,GN_m) optional minus   [GN_m,GN_i) int   [GN_i,GN_f) frac (empty or '.' + digits)   [GN_f,GN_e) exp (empty or e, sign in
 *   [GN_f+1,GN_x), digits [GN_x,GN_e))   and the byte after the number (if any) is a JSON delimiter: ws , ] }                         */
bool GN_on;
size_t GN_s, GN_m, GN_i, GN_f, GN_x, GN_e;
#define GN_IN_DIGITS(k) ((GN_m <= (k) && (k) < GN_i) || (GN_f > GN_i && GN_i + 1 <= (k) && (k) < GN_f) || (GN_e > GN_f && GN_x <= (k) && (k) < GN_e))

/* `_text[i]`: bounds-asserted read. In the acceptance proof (GN_on) the universally quantified hypothesis "all bytes of the digit
 * runs are digits" is instantiated at exactly the indices the code reads (lazy instantiation; every instance is implied by the
 * hypothesis, so the proof holds for every text that satisfies the quantified hypothesis). GN_on is false in every other proof. */
static inline const char *json_text_at(const iora_sv *b, size_t i)
{
  IORA_ASSERT(i < b->n, "string_view operator[] index in range");
  IORA_ASSUME(!(GN_on && GN_IN_DIGITS(i)) || JSON_IS_DIGIT(b->p[i]));
  return &b->p[i];
}

/* _skipWhitespace, loop 1 */
#define IORA_LOOP_JsonParser_skipWhitespace_1 IORA_LC( \
  __CPROVER_assigns(self->_pos) \
  __CPROVER_loop_invariant(__CPROVER_loop_entry(self->_pos) <= self->_pos && self->_pos <= self->_text.n) \
  __CPROVER_loop_invariant((__CPROVER_loop_entry(self->_pos) <= GK && GK < self->_pos) ==> JSON_IS_CSPACE(self->_text.p[GK])) \
  __CPROVER_decreases(self->_text.n - self->_pos))

/* _parseNumber: loop 1 = digits of int, loop 2 = digits of frac, loop 3 = digits of exp.
 * Each: cursor monotone and inside the text; every byte passed is a digit (witness GK); under the ghost number spec the cursor
 * stays inside the corresponding digit run. */
#define JSON_DIGIT_LOOP(lo_, hi_) IORA_LC( \
  __CPROVER_assigns(self->_pos) \
  __CPROVER_loop_invariant(__CPROVER_loop_entry(self->_pos) <= self->_pos && self->_pos <= self->_text.n) \
  __CPROVER_loop_invariant((__CPROVER_loop_entry(self->_pos) <= GK && GK < self->_pos) ==> JSON_IS_DIGIT(self->_text.p[GK])) \
  __CPROVER_loop_invariant(self->_pos > __CPROVER_loop_entry(self->_pos) ==> JSON_IS_DIGIT(self->_text.p[self->_pos - 1])) \
  __CPROVER_loop_invariant(GN_on ==> ((lo_) <= self->_pos && self->_pos <= (hi_))) \
  __CPROVER_decreases(self->_text.n - self->_pos))
#define IORA_LOOP_JsonParser_parseNumber_1 JSON_DIGIT_LOOP(GN_m, GN_i)
#define IORA_LOOP_JsonParser_parseNumber_2 JSON_DIGIT_LOOP(GN_i + 1, GN_f)
#define IORA_LOOP_JsonParser_parseNumber_3 JSON_DIGIT_LOOP(GN_x, GN_e)
