/* Contracts of JsonParser::_skipWhitespace / _parseNull / _parseBool / _parseNumber.
 * Top-level clauses are written from property C13 and RFC 8259 (sections 2 ws, 3 literals, 6 numbers), not from the code.
 * Preconditions are what the call sites provide (`_pos <= n`; `_pos < n` for _parseNumber, whose caller dispatched on _text[_pos]). */
#define N (self->_text.n)
#define TXT(i) (self->_text.p[i])
#define POS (self->_pos)
#define OLDPOS (__CPROVER_old(self->_pos))
#define RET __CPROVER_return_value
/* RFC 8259 section 3: the literal names MUST be lowercase; exact bytes */
#define LIT_NULL(o) (N - (o) >= 4 && TXT(o) == (char)110 && TXT((o) + 1) == (char)117 && TXT((o) + 2) == (char)108 && TXT((o) + 3) == (char)108)
#define LIT_TRUE(o) (N - (o) >= 4 && TXT(o) == (char)116 && TXT((o) + 1) == (char)114 && TXT((o) + 2) == (char)117 && TXT((o) + 3) == (char)101)
#define LIT_FALSE(o) (N - (o) >= 5 && TXT(o) == (char)102 && TXT((o) + 1) == (char)97 && TXT((o) + 2) == (char)108 && TXT((o) + 3) == (char)115 && TXT((o) + 4) == (char)101)
/* bytes that can occur in an RFC 8259 number: - + . e E 0-9 */
#define NUM_ALPHA(c) (JSON_IS_DIGIT(c) || (c) == (char)45 || (c) == (char)43 || (c) == (char)46 || (c) == (char)101 || (c) == (char)69)
/* the byte after a value in a valid JSON text: ws or one of , ] }  (RFC 8259 section 2 structural characters) */
#define VALUE_DELIM(c) (JSON_IS_WS(c) || (c) == (char)44 || (c) == (char)93 || (c) == (char)125)

/* ---------------------------------------------------------------- _skipWhitespace */
void JsonParser_skipWhitespace_contract(JsonParser *self)
JSON_PRE(self)
__CPROVER_requires(POS <= N && !GN_on)
__CPROVER_assigns(self->_pos)
/* W1 cursor monotone, inside the text */         __CPROVER_ensures(OLDPOS <= POS && POS <= N)
/* W2 every RFC 8259 ws byte is skipped */        __CPROVER_ensures(POS == N || !JSON_IS_WS(TXT(POS)))
/* W3 stops at the first non-space byte */        __CPROVER_ensures(POS == N || !JSON_IS_CSPACE(TXT(POS)))
/* W4 only white space is skipped (witness GK) */ __CPROVER_ensures((OLDPOS <= GK && GK < POS) ==> JSON_IS_CSPACE(TXT(GK)))
;
void h_ws(void)
{
  JsonParser *s;
  JsonParser_skipWhitespace(s);
  IORA_CANARY("h_ws: returns");
}

/* ---------------------------------------------------------------- _parseNull / _parseBool */
#define LIT_PRE \
JSON_PRE(self) JSON_FRESH(out) \
__CPROVER_requires(POS <= N && !GN_on) \
__CPROVER_assigns(self->_pos, self->_error, *out)

bool JsonParser_parseNull_contract(JsonParser *self, Json *out)
LIT_PRE
/* L1 accepted <=> exact bytes */                 __CPROVER_ensures(RET == LIT_NULL(OLDPOS))
/* L2 consumes exactly the literal, value null */ __CPROVER_ensures(RET ==> (POS == OLDPOS + 4 && out->type == JsonType_Null))
/* L3 failure: cursor unmoved, error set */       __CPROVER_ensures(!RET ==> (POS == OLDPOS && self->_error != NULL))
/* L4 cursor inside the text */                   __CPROVER_ensures(POS <= N)
;
void h_null(void)
{
  JsonParser *s; Json *o;
  bool ok = JsonParser_parseNull(s, o);
  if (ok) { IORA_CANARY("h_null: accepted"); } else { IORA_CANARY("h_null: rejected"); }
}

bool JsonParser_parseBool_contract(JsonParser *self, Json *out)
LIT_PRE
/* B1 accepted <=> exact bytes */                 __CPROVER_ensures(RET == (LIT_TRUE(OLDPOS) || LIT_FALSE(OLDPOS)))
/* B2 true */                                     __CPROVER_ensures(LIT_TRUE(OLDPOS) ==> (POS == OLDPOS + 4 && out->type == JsonType_Boolean && out->b))
/* B3 false */                                    __CPROVER_ensures(LIT_FALSE(OLDPOS) ==> (POS == OLDPOS + 5 && out->type == JsonType_Boolean && !out->b))
/* B4 failure: cursor unmoved, error set */       __CPROVER_ensures(!RET ==> (POS == OLDPOS && self->_error != NULL))
/* B5 cursor inside the text */                   __CPROVER_ensures(POS <= N)
;
void h_bool(void)
{
  JsonParser *s; Json *o;
  bool ok = JsonParser_parseBool(s, o);
  if (ok) { IORA_CANARY("h_bool: accepted"); } else { IORA_CANARY("h_bool: rejected"); }
}

/* ---------------------------------------------------------------- _parseNumber */
#define NUM_PRE \
JSON_PRE(self) JSON_FRESH(out) \
__CPROVER_requires(POS < N) \
__CPROVER_requires(GJ_num_start == POS && GJ_conv_calls == 0 && !GJ_fc_called && GJ_sd_calls == 0) \
__CPROVER_assigns(self->_pos, self->_error, *out, GJ_conv_calls, GJ_fc_called, GJ_fc_ec, GJ_fc_val, GJ_sd_calls, GJ_sd_val)
/* N7 (both proofs): which conversion result ends up in the value. C13: "every well-formed number decodes to its value; an integer that
 * does not fit int64 falls back to a double, never a wrong value". Integer path (from_chars was called on the token):
 *   it converted        => the value is an Int holding exactly what from_chars wrote
 *   result_out_of_range => the value is a Double holding what strtod returned for the same token (strtod's argument is asserted to be
 *                          exactly the token in the stub) */
#define NUM_N7 \
__CPROVER_ensures((RET && GJ_fc_called && GJ_fc_ec == 0) ==> (out->type == JsonType_Int && out->i == GJ_fc_val)) \
__CPROVER_ensures((RET && GJ_fc_called && GJ_fc_ec != 0) ==> (out->type == JsonType_Double && GJ_sd_calls == 1 && out->d == GJ_sd_val)) \
__CPROVER_ensures((RET && !GJ_fc_called) ==> (out->type == JsonType_Double && GJ_sd_calls == 1 && out->d == GJ_sd_val))

/* proof number_safety: every input. Built-in checks, shim preconditions (every _text[_pos] in range, substr in range, the
 * conversion is applied to exactly the scanned token), loop invariants/variants, frame, plus: */
bool JsonParser_parseNumber_safety(JsonParser *self, Json *out)
NUM_PRE
__CPROVER_requires(!GN_on)
/* N1 cursor monotone, inside the text (also on error: the reported position is inside the input) */
                                                  __CPROVER_ensures(OLDPOS <= POS && POS <= N)
/* N2 success consumes at least one byte */       __CPROVER_ensures(RET ==> POS > OLDPOS)
/* N3 failure sets the error */                   __CPROVER_ensures(!RET ==> self->_error != NULL)
/* N4 success yields a number value, converted exactly once (or once more as the from_chars overflow fallback) */
                                                  __CPROVER_ensures(RET ==> ((out->type == JsonType_Int || out->type == JsonType_Double) && GJ_conv_calls >= 1 && GJ_conv_calls <= 2))
/* N5 only number bytes are consumed (witness GK) */ __CPROVER_ensures((RET && OLDPOS <= GK && GK < POS) ==> NUM_ALPHA(TXT(GK)))
/* N6 the last consumed byte is a digit */        __CPROVER_ensures(RET ==> JSON_IS_DIGIT(TXT(POS - 1)))
/* N7 */ NUM_N7
;
void h_num(void)
{
  JsonParser *s; Json *o;
  bool ok = JsonParser_parseNumber(s, o);
  if (ok) { IORA_CANARY("h_num: accepted"); } else { IORA_CANARY("h_num: rejected"); }
}

/* proof number_accept (acceptance direction, RFC 8259 section 6): IF the ghost boundaries describe an RFC 8259 number that starts
 * at _pos and is followed by end of input or a value delimiter, THEN the scan accepts and stops exactly at its end.
 * The quantified part of the hypothesis (digit runs consist of digits) is instantiated lazily in json_text_at (pre.h). */
#define NUM_SPEC ( GN_on && GN_s == POS && GN_s < N \
  && GN_m == GN_s + (TXT(GN_s) == (char)45 ? 1 : 0) && GN_m < GN_i && GN_i <= N \
  && JSON_IS_DIGIT(TXT(GN_m)) && (TXT(GN_m) != (char)48 || GN_i == GN_m + 1) \
  && (GN_f == GN_i || (GN_i < N && TXT(GN_i) == (char)46 && GN_f >= GN_i + 2 && GN_f <= N)) \
  && ((GN_e == GN_f && GN_x == GN_f) \
      || (GN_f < N && (TXT(GN_f) == (char)101 || TXT(GN_f) == (char)69) \
          && GN_x == GN_f + 1 + ((GN_f + 1 < N && (TXT(GN_f + 1) == (char)43 || TXT(GN_f + 1) == (char)45)) ? 1 : 0) \
          && GN_x < GN_e && GN_e <= N)) \
  && (GN_e == N || VALUE_DELIM(TXT(GN_e))) )
#define NUM_HAS_FRAC_OR_EXP (GN_f > GN_i || GN_e > GN_f)

bool JsonParser_parseNumber_accept(JsonParser *self, Json *out)
NUM_PRE
__CPROVER_requires(NUM_SPEC)
/* A1 a valid number is accepted */               __CPROVER_ensures(RET)
/* A2 and delimited exactly */                    __CPROVER_ensures(POS == GN_e)
/* A3 frac or exp => floating point value */      __CPROVER_ensures(NUM_HAS_FRAC_OR_EXP ==> out->type == JsonType_Double)
/* A4 otherwise integer (double only as overflow fallback) */
                                                  __CPROVER_ensures(!NUM_HAS_FRAC_OR_EXP ==> (out->type == JsonType_Int || (out->type == JsonType_Double && GJ_conv_calls == 2)))
/* N7 */ NUM_N7
;
void h_num_accept(void)
{
  JsonParser *s; Json *o;
  bool ok = JsonParser_parseNumber(s, o);
  IORA_CANARY("h_num_accept: returns");
  if (GN_m > GN_s) { IORA_CANARY("h_num_accept: negative number"); }
  if (GN_i > GN_m + 1) { IORA_CANARY("h_num_accept: multi-digit int"); }
  if (GN_f > GN_i) { IORA_CANARY("h_num_accept: number with fraction"); }
  if (GN_e > GN_f) { IORA_CANARY("h_num_accept: number with exponent"); }
  if (GN_x > GN_f + 1) { IORA_CANARY("h_num_accept: exponent with sign"); }
}

#ifdef IORA_SEARCH
#undef POS
#undef N
#undef TXT
#undef RET
/* SEARCH (bounded, plain; only used to obtain a concrete input for REPLAY): a 12-byte text, any start offset; the same clauses,
 * with the RFC 8259 number grammar as a reference scanner (loops are fine here: the harness is unwound). */
static long ref_number_end(const uint8_t *t, size_t n, size_t p)
{
  if (p < n && t[p] == '-') p++;
  if (p >= n || t[p] < '0' || t[p] > '9') return -1;
  if (t[p] == '0') p++; else while (p < n && t[p] >= '0' && t[p] <= '9') p++;
  if (p < n && t[p] == '.') { p++; if (p >= n || t[p] < '0' || t[p] > '9') return -1; while (p < n && t[p] >= '0' && t[p] <= '9') p++; }
  if (p < n && (t[p] == 'e' || t[p] == 'E')) { p++; if (p < n && (t[p] == '+' || t[p] == '-')) p++;
    if (p >= n || t[p] < '0' || t[p] > '9') return -1; while (p < n && t[p] >= '0' && t[p] <= '9') p++; }
  return (long)p;
}
static bool ref_delim(const uint8_t *t, size_t n, size_t p) { return p == n || t[p] == ' ' || t[p] == '\t' || t[p] == '\n' || t[p] == '\r' || t[p] == ',' || t[p] == ']' || t[p] == '}'; }
void h_search(void)
{
  uint8_t IN[12]; size_t IN_N = nondet_size_t(); size_t START = nondet_size_t(); int which = nondet_int();
  IORA_NONDET_BYTES(IN, 12);
  __CPROVER_assume(IN_N <= 12 && START <= IN_N);
  IORA_TRUE = 1; GN_on = 0;
  JsonParser ps = { { (const char *)IN, IN_N }, START, { 10000, 10000, 100, 1000000 }, NULL };
  Json o = Json_DEFAULT;
  if (which == 0) {
    JsonParser_skipWhitespace(&ps);
    __CPROVER_assert(START <= ps._pos && ps._pos <= IN_N, "W1");
    __CPROVER_assert(ps._pos == IN_N || !(IN[ps._pos] == 32 || IN[ps._pos] == 9 || IN[ps._pos] == 10 || IN[ps._pos] == 13), "W2");
  } else if (which == 1) {
    bool ok = JsonParser_parseNull(&ps, &o);
    bool lit = IN_N - START >= 4 && IN[START] == 'n' && IN[START + 1] == 'u' && IN[START + 2] == 'l' && IN[START + 3] == 'l';
    __CPROVER_assert(ok == lit, "L1"); __CPROVER_assert(ps._pos == START + (ok ? 4 : 0), "L2/L3"); __CPROVER_assert(ps._pos <= IN_N, "L4");
  } else if (which == 2) {
    bool ok = JsonParser_parseBool(&ps, &o);
    bool lt = IN_N - START >= 4 && IN[START] == 't' && IN[START + 1] == 'r' && IN[START + 2] == 'u' && IN[START + 3] == 'e';
    bool lf = IN_N - START >= 5 && IN[START] == 'f' && IN[START + 1] == 'a' && IN[START + 2] == 'l' && IN[START + 3] == 's' && IN[START + 4] == 'e';
    __CPROVER_assert(ok == (lt || lf), "B1"); __CPROVER_assert(ps._pos == START + (lt ? 4 : lf ? 5 : 0), "B2/B3/B4"); __CPROVER_assert(ps._pos <= IN_N, "B5");
    __CPROVER_assert(!ok || o.b == lt, "B2/B3 value");
  } else {
    __CPROVER_assume(START < IN_N);
    GJ_num_start = START; GJ_conv_calls = 0; GJ_fc_called = 0; GJ_sd_calls = 0;
    bool ok = JsonParser_parseNumber(&ps, &o);
    long e = ref_number_end(IN, IN_N, START);
    __CPROVER_assert(START <= ps._pos && ps._pos <= IN_N, "N1");
    __CPROVER_assert(!ok || ps._pos > START, "N2");
    if (e >= 0 && ref_delim(IN, IN_N, (size_t)e)) {
      bool fe = false; for (size_t k = START; k < (size_t)e; k++) if (IN[k] == '.' || IN[k] == 'e' || IN[k] == 'E') fe = true;
      __CPROVER_assert(ok, "A1"); __CPROVER_assert(ps._pos == (size_t)e, "A2");
      __CPROVER_assert(!fe || o.type == JsonType_Double, "A3 frac or exp => floating point value"); }
  }
}
#endif
