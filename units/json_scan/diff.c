/* Differential run, C side: the EXTRACTED _skipWhitespace/_parseNull/_parseBool/_parseNumber (unit_native.c = .work/json_scan/unit.c
 * without post.c), compiled natively. Natively the conversion stubs of shims/iora_json.h are real (strtod / from_chars semantics), so
 * the numeric value is compared too. Compared per function: return value, cursor, error message text, value type and value. */
#include "unit_native.c"
#include "diff_io.h"
static const char *errs(const JsonParser *p) { return p->_error ? p->_error : "-"; }
static void setup(JsonParser *p, const diff_input *in, size_t start)
{
  p->_text.p = (const char *)in->bytes; p->_text.n = in->n; p->_pos = start;
  p->_limits = (ParseLimits){ 10000, 10000, 100, 1000000 }; p->_error = NULL;
}
int main(int argc, char **argv)
{
  FILE *f = fopen(argv[1], "r"); diff_input in;
  IORA_TRUE = 1; GN_on = 0; GK = (size_t)-1;
  while (diff_next(f, &in)) {
    size_t start = (size_t)diff_param(&in, "start", 0); if (start > in.n) start = in.n;
    JsonParser p; Json o; bool r;
    setup(&p, &in, start); JsonParser_skipWhitespace(&p); printf("ws pos=%zu", p._pos);
    setup(&p, &in, start); o = Json_DEFAULT; r = JsonParser_parseNull(&p, &o);
    printf(" | null ret=%d pos=%zu err=\"%s\" type=%d", r, p._pos, errs(&p), r ? (int)o.type : -1);
    setup(&p, &in, start); o = Json_DEFAULT; r = JsonParser_parseBool(&p, &o);
    printf(" | bool ret=%d pos=%zu err=\"%s\" type=%d b=%d", r, p._pos, errs(&p), r ? (int)o.type : -1, r ? (int)o.b : -1);
    if (start < in.n) {      /* precondition of _parseNumber (its caller dispatched on _text[_pos]) */
      setup(&p, &in, start); o = Json_DEFAULT; GJ_num_start = start; GJ_conv_calls = 0; r = JsonParser_parseNumber(&p, &o);
      printf(" | num ret=%d pos=%zu err=\"%s\" type=%d", r, p._pos, errs(&p), r ? (int)o.type : -1);
      if (r && o.type == JsonType_Int) printf(" val=%lld", (long long)o.i);
      if (r && o.type == JsonType_Double) printf(" val=%a", o.d);
    }
    printf("\n"); fflush(stdout); diff_free(&in);
  }
  return 0;
}
