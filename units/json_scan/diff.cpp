// Differential run, C++ side: the REAL JsonParser members through the header (private members via -fno-access-control).
// Must print exactly what diff.c prints.
#include "iora/parsers/json.hpp"
#include "diff_io.h"
using namespace iora::parsers;
static const char *errs(const JsonParser &p) { return p._error.empty() ? "-" : p._error.c_str(); }
int main(int argc, char **argv)
{
  FILE *f = fopen(argv[1], "r"); diff_input in;
  while (diff_next(f, &in)) {
    size_t start = (size_t)diff_param(&in, "start", 0); if (start > in.n) start = in.n;
    std::string_view sv((const char *)in.bytes, in.n);
    { JsonParser p(sv, ParseLimits{}); p._pos = start; p._skipWhitespace(); printf("ws pos=%zu", p._pos); }
    { JsonParser p(sv, ParseLimits{}); p._pos = start; Json o; bool r = p._parseNull(o);
      printf(" | null ret=%d pos=%zu err=\"%s\" type=%d", r, p._pos, errs(p), r ? (int)o.type() : -1); }
    { JsonParser p(sv, ParseLimits{}); p._pos = start; Json o; bool r = p._parseBool(o);
      printf(" | bool ret=%d pos=%zu err=\"%s\" type=%d b=%d", r, p._pos, errs(p), r ? (int)o.type() : -1, r ? (int)o.getBool() : -1); }
    if (start < in.n) { JsonParser p(sv, ParseLimits{}); p._pos = start; Json o; bool r = p._parseNumber(o);
      printf(" | num ret=%d pos=%zu err=\"%s\" type=%d", r, p._pos, errs(p), r ? (int)o.type() : -1);
      if (r && o.isInt()) printf(" val=%lld", (long long)o.getInt());
      if (r && o.isDouble()) printf(" val=%a", o.getDouble()); }
    printf("\n"); fflush(stdout); diff_free(&in);
  }
  return 0;
}
