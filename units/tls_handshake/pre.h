/* type environment for unit tls_handshake (C07) */
typedef struct { size_t n; } iora_wq;                                   /* the write queue: only empty() is used here */
static inline bool iora_wq_empty(const iora_wq *q) { return q->n == 0; }
typedef struct { uint64_t id; int peerKey; int peer; int fd; SSL *ssl; TlsMode tlsMode; TlsState tlsState; int64_t tlsStart; bool tlsWantWrite; bool wantWrite;
                 bool connectPending; int64_t lastWriteProgress; iora_wq wq; } Session;
typedef struct { int64_t handshakeTimeout; bool useEdgeTriggered; } EngineConfig;
typedef struct { bool onConnect; } EngineCallbacks;                     /* std::function members: set / not set */
typedef struct { void *_timerService; EngineConfig _config; EngineCallbacks _cbs; int _cbMutex; } TcpEngine;
typedef bool iora_cb;

/* closeNow(s, code, msg, err): the session is erased from _sessions, i.e. DESTROYED - modelled by freeing it, so that any later use of s
 * in the function under proof is a pointer obligation */
static inline void iora_closeNow(TcpEngine *self, Session *s, int code)
{ (void)self; IORA_ASSERT(G_close_calls < 100, "ghost counter"); G_close_calls++; G_close_code = code; HS_TICK(G_close_at); free(s); }
static inline bool TcpEngine_beforeSslHandshake(TcpEngine *self, uint64_t sid, int peerKey) { (void)self; (void)sid; (void)peerKey; G_before_calls++; G_before_ok = nondet_bool(); return G_before_ok; }
static inline bool TcpEngine_afterSslHandshake(TcpEngine *self, uint64_t sid, bool success, int err)
{ (void)self; (void)sid; G_after_calls++; G_after_success_arg = success; G_after_err_arg = err; G_after_ok = nondet_bool(); return G_after_ok; }
static inline void TcpEngine_cancelHandshakeTimeout(TcpEngine *self, Session *s) { (void)self; (void)s->id; G_cancel_hs_calls++; }
static inline void TcpEngine_cancelConnectTimeout(TcpEngine *self, Session *s) { (void)self; (void)s->id; G_cancel_conn_calls++; }
static inline void TcpEngine_modEpoll(TcpEngine *self, int fd, uint32_t ev) { (void)self; G_mod_calls++; G_mod_ev = ev; G_mod_fd = fd; HS_TICK(G_mod_at); }
/* the user's onConnect callback: may do anything EXCEPT destroy the session synchronously (R21: it re-enters the engine through the command queue) */
static inline void iora_cb_onConnect(TcpEngine *self, Session *s)
{ (void)self; IORA_ASSERT(G_cb_calls < 100, "ghost counter"); G_cb_calls++; HS_TICK(G_cb_at); G_cb_state_open = (s->tlsState == TlsState_Open);
  IORA_ASSERT(G_hs_calls >= 1 && G_hs_rc == 1, "HS1 connected is announced only after SSL_do_handshake returned 1");
  IORA_ASSERT(G_close_calls == 0, "no callback for a closed session"); }
/* readAvail(s): reads what is pending; may close (destroy) the session */
static inline void TcpEngine_readAvail(TcpEngine *self, Session *s) { G_read_calls++; HS_TICK(G_read_at); IORA_ASSERT(s->tlsState == TlsState_Open, "application data is read only once the handshake is complete"); if (nondet_bool()) iora_closeNow(self, s, TransportError_TLSIO); }
