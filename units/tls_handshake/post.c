/* Contracts for unit tls_handshake (C07): "a TLS client session is announced as connected ... only if ..." - here: only after
 * SSL_do_handshake returned 1 (what OpenSSL checks before returning 1 is its configuration, unit tls_config); interest re-arming while the
 * handshake is in progress; a failed handshake closes the session exactly once. */
#define HS_GHOSTS G_step, G_hs_calls, G_hs_rc, G_hs_at, G_geterr_calls, G_geterr, G_before_calls, G_before_ok, G_after_calls, G_after_ok, G_after_success_arg, \
  G_after_err_arg, G_close_calls, G_close_code, G_close_at, G_cb_calls, G_cb_at, G_cb_state_open, G_cancel_hs_calls, G_cancel_conn_calls, G_mod_calls, G_mod_ev, \
  G_mod_fd, G_mod_at, G_read_calls, G_read_at, G_locks
#define HS_ZERO (G_step == 0 && G_hs_calls == 0 && G_geterr_calls == 0 && G_before_calls == 0 && G_after_calls == 0 && G_close_calls == 0 && G_cb_calls == 0 \
  && G_cancel_hs_calls == 0 && G_cancel_conn_calls == 0 && G_mod_calls == 0 && G_read_calls == 0 && G_hs_at == 0 && G_cb_at == 0 && G_mod_at == 0 && G_read_at == 0 && G_close_at == 0)
#define OKRET (__CPROVER_return_value)
#define WANT (G_geterr == SSL_ERROR_WANT_READ || G_geterr == SSL_ERROR_WANT_WRITE)

/* ---- updateInterest: the epoll interest mask, exact ---- */
void TcpEngine_updateInterest_contract(TcpEngine *self, Session *s)
__CPROVER_requires(IORA_TRUE && __CPROVER_is_fresh(self, sizeof(*self)) && __CPROVER_is_fresh(s, sizeof(*s)) && G_mod_calls == 0 && G_step == 0)
__CPROVER_assigns(G_mod_calls, G_mod_ev, G_mod_fd, G_mod_at, G_step)
/* U1 */ __CPROVER_ensures(G_mod_calls == 1 && G_mod_fd == s->fd)
/* U1b */ __CPROVER_ensures((G_mod_ev & EPOLLIN) != 0)
/* U1c */ __CPROVER_ensures(((G_mod_ev & EPOLLET) != 0) == (self->_config.useEdgeTriggered != 0))
/* U2 while the TLS handshake runs, EPOLLOUT is armed exactly when OpenSSL asked to write (or application data / a write is pending) - NOT because connectPending */
__CPROVER_ensures(s->tlsState == TlsState_Handshake ==> (((G_mod_ev & EPOLLOUT) != 0) == (s->wantWrite || s->wq.n != 0 || s->tlsWantWrite)))
/* U3 otherwise: pending writes or a pending TCP connect */
__CPROVER_ensures(s->tlsState != TlsState_Handshake ==> (((G_mod_ev & EPOLLOUT) != 0) == (s->wantWrite || s->wq.n != 0 || s->connectPending)))
/* U4 no other bit */
__CPROVER_ensures((G_mod_ev & ~(EPOLLIN | EPOLLOUT | EPOLLET)) == 0)
;
void h_interest(void)
{
  TcpEngine *e; Session *s;
  TcpEngine_updateInterest(e, s);
  IORA_CANARY("h_interest: returns");
}

/* ---- driveHandshake ---- */
#define HS_PRE \
__CPROVER_requires(IORA_TRUE && __CPROVER_is_fresh(self, sizeof(*self)) && __CPROVER_is_fresh(s, sizeof(*s)) && __CPROVER_is_fresh(s->ssl, sizeof(SSL))) \
/* call site (onEvent, tcp_engine.hpp ~l.1789): only for a TLS session whose handshake is in progress */ \
__CPROVER_requires(s->tlsMode != TlsMode_None && s->tlsState == TlsState_Handshake && s->tlsStart >= 0 && s->tlsStart <= HS_TIME_MAX) \
__CPROVER_requires(HS_ZERO) \
__CPROVER_assigns(*s, HS_GHOSTS) \
__CPROVER_frees(s)

bool TcpEngine_driveHandshake_contract(TcpEngine *self, Session *s)
HS_PRE
/* HS1 is asserted inside the callback stub (ghost order at the moment of the call) */
/* HS2 connected is announced at most once, only after SSL_do_handshake returned 1 and the post-handshake hook accepted, with the session already Open */
__CPROVER_ensures(G_cb_calls <= 1)
__CPROVER_ensures(G_cb_calls == 1 ==> (G_hs_calls == 1 && G_hs_rc == 1 && G_hs_at < G_cb_at && G_after_ok && G_after_success_arg && G_cb_state_open && self->_cbs.onConnect))
/* HS3 true <=> the handshake call returned 1 and the hook accepted */
__CPROVER_ensures(OKRET == (G_hs_calls == 1 && G_hs_rc == 1 && G_after_ok))
/* HS4 on success: callback (if set) -> interest update -> first read, timers cancelled; the only possible close is the one readAvail decides */
__CPROVER_ensures(OKRET ==> (G_cb_calls == (self->_cbs.onConnect ? 1 : 0) && G_cancel_hs_calls == 1 && G_cancel_conn_calls == 1 && G_mod_calls == 1 && G_read_calls == 1))
__CPROVER_ensures(OKRET ==> ((G_cb_calls == 0 || G_cb_at < G_mod_at) && G_mod_at < G_read_at && (G_close_calls == 0 || (G_close_calls == 1 && G_close_at > G_read_at && G_close_code == TransportError_TLSIO))))
/* HS4b on success the interest is computed for the OPEN state with connectPending cleared: EPOLLOUT only for pending writes */
__CPROVER_ensures(OKRET ==> (((G_mod_ev & EPOLLOUT) != 0) == (__CPROVER_old(s->wantWrite) || __CPROVER_old(s->wq.n) != 0) && (G_mod_ev & EPOLLIN) != 0))
__CPROVER_ensures((OKRET && G_close_calls == 0) ==> (s->tlsState == TlsState_Open && !s->connectPending && !s->tlsWantWrite))
/* HS5 handshake still in progress (WANT_READ / WANT_WRITE): nothing is announced or closed, the state stays Handshake, tlsWantWrite tracks what
 *     OpenSSL asked for and the interest is re-armed accordingly (EPOLLOUT iff WANT_WRITE or pending writes) */
__CPROVER_ensures((!OKRET && G_close_calls == 0) ==> (G_hs_calls == 1 && G_hs_rc != 1 && G_geterr_calls == 1 && WANT && G_after_ok && G_after_err_arg == G_geterr && !G_after_success_arg))
__CPROVER_ensures((!OKRET && G_close_calls == 0) ==> (G_cb_calls == 0 && G_read_calls == 0 && G_mod_calls == 1 && G_cancel_hs_calls == 0 && s->tlsState == TlsState_Handshake))
__CPROVER_ensures((!OKRET && G_close_calls == 0) ==> (s->tlsWantWrite == (G_geterr == SSL_ERROR_WANT_WRITE)
     && ((G_mod_ev & EPOLLOUT) != 0) == (G_geterr == SSL_ERROR_WANT_WRITE || s->wantWrite || s->wq.n != 0) && (G_mod_ev & EPOLLIN) != 0 && G_mod_fd == s->fd))
/* HS5b WANT_READ / WANT_WRITE (accepted by the hook) never closes: the handshake simply continues on the next event */
__CPROVER_ensures((G_hs_calls == 1 && G_hs_rc != 1 && G_geterr_calls == 1 && WANT && G_after_ok) ==> (!OKRET && G_close_calls == 0))
/* HS6 failure (timeout, hook rejection, any other SSL error): closed EXACTLY once with TLSHandshake, nothing announced, nothing re-armed, no read */
__CPROVER_ensures(!OKRET ==> G_close_calls <= 1)
__CPROVER_ensures((!OKRET && G_close_calls == 1) ==> (G_close_code == TransportError_TLSHandshake && G_cb_calls == 0 && G_mod_calls == 0 && G_read_calls == 0))
__CPROVER_ensures((G_hs_calls == 1 && G_hs_rc != 1 && !(WANT && G_after_ok)) ==> (!OKRET && G_close_calls == 1))
__CPROVER_ensures((G_hs_calls == 1 && G_hs_rc == 1 && !G_after_ok) ==> (!OKRET && G_close_calls == 1))
/* HS7 one handshake step per call, none after a rejected pre-hook / timeout (then the session is closed) */
__CPROVER_ensures(G_hs_calls <= 1 && (G_hs_calls == 1 ==> (G_before_calls == 1 && G_before_ok)) && (G_hs_calls == 0 ==> (!OKRET && G_close_calls == 1)))
;
void h_handshake(void)
{
  TcpEngine *e; Session *s;
  bool ok = TcpEngine_driveHandshake(e, s);
  IORA_CANARY("h_handshake: returns");
  if (ok && G_cb_calls == 1) { IORA_CANARY("h_handshake: completed, connected announced"); }
  if (ok && G_close_calls == 1) { IORA_CANARY("h_handshake: completed, first read closed the session"); }
  if (!ok && G_close_calls == 0 && G_geterr == SSL_ERROR_WANT_WRITE) { IORA_CANARY("h_handshake: WANT_WRITE"); }
  if (!ok && G_close_calls == 0 && G_geterr == SSL_ERROR_WANT_READ) { IORA_CANARY("h_handshake: WANT_READ"); }
  if (!ok && G_close_calls == 1 && G_hs_calls == 0) { IORA_CANARY("h_handshake: closed before the handshake step (timeout / hook)"); }
  if (!ok && G_close_calls == 1 && G_hs_calls == 1 && G_hs_rc != 1) { IORA_CANARY("h_handshake: handshake error closes"); }
}
