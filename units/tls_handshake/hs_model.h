/* Environment of TcpEngine::driveHandshake / updateInterest for unit tls_handshake (C07): OpenSSL, epoll, timers, fault-injection hooks and
 * the user callback are recording stubs with ARBITRARY results. Values of the constants: OpenSSL 3 / Linux headers of this image. */
#ifndef HS_MODEL_H
#define HS_MODEL_H
#define SSL_ERROR_NONE 0
#define SSL_ERROR_SSL 1
#define SSL_ERROR_WANT_READ 2
#define SSL_ERROR_WANT_WRITE 3
#define SSL_ERROR_SYSCALL 5
#define SSL_ERROR_ZERO_RETURN 6
#define EPOLLIN 0x001u
#define EPOLLOUT 0x004u
#define EPOLLET (1u << 31)
int nondet_int(void); _Bool nondet_bool(void); int64_t nondet_i64(void); unsigned long nondet_ulong(void);

typedef struct { int dummy; } SSL;
/* ---- ghost event log of one driveHandshake call ---- */
int G_step;                     /* running event counter (order of events) */
int G_hs_calls, G_hs_rc, G_hs_at;          /* SSL_do_handshake: calls, last result, step */
int G_geterr_calls, G_geterr;              /* SSL_get_error */
int G_before_calls; bool G_before_ok;      /* beforeSslHandshake hook */
int G_after_calls; bool G_after_ok; bool G_after_success_arg; int G_after_err_arg;   /* afterSslHandshake hook */
int G_close_calls, G_close_code, G_close_at;      /* closeNow */
int G_cb_calls, G_cb_at; bool G_cb_state_open;    /* onConnect user callback */
int G_cancel_hs_calls, G_cancel_conn_calls;       /* timers */
int G_mod_calls; unsigned G_mod_ev; int G_mod_fd, G_mod_at;    /* modEpoll */
int G_read_calls, G_read_at;                      /* readAvail */
unsigned G_locks;
#define IORA_LOCK_GUARD(m) (G_locks++)
#define HS_TICK(var) do { IORA_ASSERT(G_step < 1000, "ghost counter"); G_step++; var = G_step; } while (0)

#define HS_TIME_MAX ((int64_t)1 << 62)
/* steady clock: some non-negative instant (arithmetic on time points does not wrap) */
static inline int64_t iora_mono_now(void) { int64_t t = nondet_i64(); IORA_ASSUME(t >= 0 && t <= HS_TIME_MAX); return t; }
static inline int SSL_do_handshake(SSL *s) { (void)s; IORA_ASSERT(G_close_calls == 0, "no OpenSSL call on a closed session"); G_hs_calls++; HS_TICK(G_hs_at); G_hs_rc = nondet_int(); return G_hs_rc; }
static inline int SSL_get_error(SSL *s, int rc) { (void)s; IORA_ASSERT(G_close_calls == 0, "no OpenSSL call on a closed session"); IORA_ASSERT(rc == G_hs_rc, "SSL_get_error is given the result of the handshake call"); G_geterr_calls++; G_geterr = nondet_int(); return G_geterr; }
static inline unsigned long ERR_get_error(void) { return nondet_ulong(); }
static inline void ERR_error_string_n(unsigned long e, char *buf, size_t n) { (void)e; IORA_ASSERT(n >= 1, "buffer"); buf[0] = 0; }
#endif
