// Native cross-check adapter for unit tls_handshake (C07): the REAL TcpEngine as a TLS client against local peers.
//   scenario GARBAGE : the peer answers the ClientHello with plain-text garbage  -> onConnect must NOT fire, onClose exactly once
//   scenario GOOD    : the peer completes a TLS handshake                         -> onConnect fires exactly once, no onClose before it
// (The proofs of this unit have no failing clause on the current tree; this adapter is what a violation of HS1/HS2/HS6 would be replayed with.)
#include "iora/network/detail/tcp_engine.hpp"
#include "replay_io.h"
#include <openssl/ssl.h>
#include <arpa/inet.h>
#include <atomic>
#include <thread>
using namespace iora::network;
static std::string CERT = "/repo/tests/tls-certs/test_tls_cert.pem", KEY = "/repo/tests/tls-certs/test_tls_key.pem";

static int run(bool garbage) {
  int ls = socket(AF_INET, SOCK_STREAM, 0); int one = 1; setsockopt(ls, SOL_SOCKET, SO_REUSEADDR, &one, sizeof one);
  sockaddr_in a{}; a.sin_family = AF_INET; a.sin_addr.s_addr = htonl(INADDR_LOOPBACK); a.sin_port = 0;
  if (bind(ls, (sockaddr *)&a, sizeof a) != 0 || listen(ls, 4) != 0) return 2;
  socklen_t al = sizeof a; getsockname(ls, (sockaddr *)&a, &al); uint16_t port = ntohs(a.sin_port);
  std::thread server([&] {
    int fd = accept(ls, nullptr, nullptr); if (fd < 0) return;
    if (garbage) { char b[512]; (void)!read(fd, b, sizeof b); const char *g = "HTTP/1.1 400 Bad Request\r\n\r\nthis is not TLS"; (void)!write(fd, g, strlen(g)); usleep(300000); ::close(fd); return; }
    SSL_CTX *sctx = SSL_CTX_new(TLS_server_method());
    SSL_CTX_use_certificate_file(sctx, CERT.c_str(), SSL_FILETYPE_PEM); SSL_CTX_use_PrivateKey_file(sctx, KEY.c_str(), SSL_FILETYPE_PEM);
    SSL *s = SSL_new(sctx); SSL_set_fd(s, fd); SSL_accept(s); char b[64]; SSL_read(s, b, sizeof b); SSL_free(s); ::close(fd); SSL_CTX_free(sctx);
  });
  TransportConfig cfg; cfg.enableHighResolutionTimers = false;
  cfg.clientTls.enabled = true; cfg.clientTls.defaultMode = TlsMode::Client; cfg.clientTls.verifyPeer = true; cfg.clientTls.caFile = CERT;
  TcpEngine eng(cfg);
  std::atomic<int> connected{0}, closed{0}, closedBeforeConnect{0};
  detail::EngineBase::Callbacks cbs;
  cbs.onConnect = [&](SessionId, const TransportAddress &) { connected++; };
  cbs.onClose = [&](SessionId, const TransportErrorInfo &) { if (!connected) closedBeforeConnect++; closed++; };
  cbs.onError = [](TransportError, const std::string &) {};
  cbs.onData = [](SessionId, iora::core::BufferView, std::chrono::steady_clock::time_point) {};
  eng.setCallbacks(cbs);
  if (eng.start().isErr()) return 2;
  eng.connect("127.0.0.1", port, TlsMode::Client);
  for (int i = 0; i < 300 && !(garbage ? closed.load() : connected.load()); i++) std::this_thread::sleep_for(std::chrono::milliseconds(10));
  std::this_thread::sleep_for(std::chrono::milliseconds(100));
  int c = connected, cl = closed, cbc = closedBeforeConnect;
  eng.stop(); ::shutdown(ls, SHUT_RDWR); ::close(ls); server.join();
  printf("%s peer: onConnect x%d, onClose x%d (before connect: %d)\n", garbage ? "GARBAGE" : "GOOD", c, cl, cbc);
  if (garbage) return (c != 0 || cl != 1) ? 1 : 0;
  return (c != 1 || cbc != 0) ? 1 : 0;
}
int main(int argc, char **argv) {
  if (argc > 1) { auto in = replay_io::load(argv[1]); if (in.count("CERT")) CERT = in["CERT"]; if (in.count("KEY")) KEY = in["KEY"]; }
  int g = run(true), k = run(false);
  if (g == 1) replay_io::fail("a failed handshake announced the session as connected, or did not close it exactly once");
  if (k == 1) replay_io::fail("a completed handshake was not announced exactly once");
  if (g == 2 || k == 2) { printf("REPLAY-INCONCLUSIVE\n"); return 0; }
  replay_io::ok("connected is announced only for the completed handshake; the failed one is closed exactly once");
  return 0;
}
