/* Contract for unit http_tls_init (C07: "peer verification ... as configured": the HTTP client verifies the peer unless the application
 * switched it off explicitly). Block target: HttpClient::ensureInitialized from `TransportConfig transportConfig;` through
 * `_transport = Transport::tcp(transportConfig);` - clauses speak about the configuration that REACHES the transport factory. */
#define CFG (G_tcp_cfg)
void HttpClient_ensureInitialized_config_contract(HttpClient *self)
__CPROVER_requires(IORA_TRUE && __CPROVER_is_fresh(self, sizeof(*self)) && G_tcp_calls == 0)
__CPROVER_assigns(self->_transport, G_tcp_calls, G_tcp_cfg)
/* HC1 the transport is created once, TLS-capable as a client */
/* HC1 */ __CPROVER_ensures(G_tcp_calls == 1 && CFG.protocol == Protocol_TCP && CFG.clientTls.enabled && CFG.clientTls.defaultMode == TlsMode_Client)
/* HC2 verification is on exactly when the application's TlsConfig says so: it is disabled ONLY by an explicit verifyPeer=false, never derived
 *     from another field (for every value of caFile / clientCertFile / clientKeyFile and of the timeouts) */
/* HC2 */ __CPROVER_ensures(CFG.clientTls.verifyPeer == self->_tlsConfig.verifyPeer)
/* HC3 no server-side TLS context, no lowered protocol floor */
/* HC3 */ __CPROVER_ensures(!CFG.serverTls.enabled && CFG.clientTls.minVersion == 0)
/* HC4 the timeouts are the configured ones */
/* HC4 */ __CPROVER_ensures(CFG.connectTimeout == self->_config.connectTimeout && CFG.defaultSyncTimeout == self->_config.requestTimeout && CFG.idleTimeout == self->_config.connectionIdleTimeout)
;
void h_init(void)
{
  HttpClient *c;
  HttpClient_ensureInitialized_config(c);
  IORA_CANARY("h_init: returns");
  if (G_tcp_cfg.clientTls.verifyPeer) { IORA_CANARY("h_init: verification on"); } else { IORA_CANARY("h_init: verification off"); }
}
