/* type environment for unit http_tls_init (C07): the transport configuration HttpClient::ensureInitialized builds for its (HTTPS-capable) transport */
typedef struct { bool enabled; TlsMode defaultMode; iora_sv certFile, keyFile, caFile, caPath, ciphers, alpn; int minVersion; bool verifyPeer; int verifyDepth; } TransportTlsConfig;
typedef struct { Protocol protocol; int64_t connectTimeout, defaultSyncTimeout, idleTimeout; TransportTlsConfig serverTls, clientTls; } TransportConfig;
/* default member initialisers of TransportConfig / TransportConfig::TlsConfig (transport_types.hpp l.287-345): TLS off, mode None, no files, verifyPeer false */
#define IORA_TLS_DEFAULT { false, TlsMode_None, {0,0}, {0,0}, {0,0}, {0,0}, {0,0}, {0,0}, 0, false, 4 }
#define TransportConfig_DEFAULT ((TransportConfig){ Protocol_TCP, 30000, 30000, 600, IORA_TLS_DEFAULT, IORA_TLS_DEFAULT })
typedef struct { iora_sv caFile, clientCertFile, clientKeyFile; bool verifyPeer; } HttpTlsConfig;            /* HttpClient::TlsConfig (http_client.hpp l.101) */
typedef struct { int64_t connectTimeout, requestTimeout, connectionIdleTimeout; } HttpConfig;
typedef struct { int handle; } iora_transport_ptr;
typedef struct { HttpConfig _config; HttpTlsConfig _tlsConfig; iora_transport_ptr _transport; } HttpClient;
/* Transport::tcp(config): the factory; records the configuration it is handed */
int G_tcp_calls; TransportConfig G_tcp_cfg;
static inline iora_transport_ptr iora_Transport_tcp(TransportConfig c) { iora_transport_ptr t; G_tcp_calls++; G_tcp_cfg = c; t.handle = 1; return t; }
