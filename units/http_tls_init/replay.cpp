// Native demonstration adapter for unit http_tls_init (C07): the REAL HttpClient with the DEFAULT TlsConfig (verifyPeer = true, no caFile).
// ensureInitialized() is run (private, -fno-access-control); the transport configuration it built is read back from the Transport object.
#include "iora/network/http_client.hpp"
#include "replay_io.h"
using namespace iora::network;
int main(int, char **) {
  int bad = 0;
  for (int withCa = 0; withCa < 2; withCa++) for (int verify = 0; verify < 2; verify++) {
    HttpClient c;
    HttpClient::TlsConfig t; t.verifyPeer = verify; if (withCa) t.caFile = "/repo/tests/tls-certs/test_tls_cert.pem";
    c.setTlsConfig(t);
    c.ensureInitialized();
    const TransportConfig &cfg = c._transport->_impl->config;
    printf("TlsConfig{verifyPeer=%d, caFile=%s} -> transport clientTls{enabled=%d, verifyPeer=%d, caFile='%s'}\n", verify, withCa ? "set" : "empty",
           (int)cfg.clientTls.enabled, (int)cfg.clientTls.verifyPeer, cfg.clientTls.caFile.c_str());
    if (cfg.clientTls.verifyPeer != (bool)verify || !cfg.clientTls.enabled) bad++;
  }
  if (bad) replay_io::fail("HC2 the transport's clientTls.verifyPeer differs from the application's TlsConfig.verifyPeer");
  replay_io::ok("clientTls.verifyPeer follows TlsConfig.verifyPeer in all four configurations");
  return 0;
}
