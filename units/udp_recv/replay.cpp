// Native cross-check for unit udp_recv: the REAL UdpEngine (started, loopback sockets) fed by raw UDP peer sockets.  Evaluates the clauses of
// post.c natively: one datagram = exactly one data event with the complete, identical payload (sizes 1, 1472, 65507), on the session of its
// source address; one accept per peer, before its first data event; two peers never share a session.  Also checks the stated assumption
// "default ioReadChunk >= 65507" on the real TransportConfig, and SHOWS (observation, not a failure) what a smaller ioReadChunk does.
// No input file is needed (no obligation of this unit fails on the unchanged tree).
#include "iora/network/detail/udp_engine.hpp"
#include "replay_io.h"
#include <arpa/inet.h>
#include <sys/socket.h>
#include <thread>
using namespace iora::network;
using namespace std::chrono_literals;

struct Ev { char kind; SessionId sid; std::vector<uint8_t> data; };
struct Rig {
  std::mutex mx; std::vector<Ev> evs;
  std::unique_ptr<UdpEngine> eng; ListenerId lid{}; sockaddr_in to{};
  bool up(const TransportConfig &cfg) {
    eng = std::make_unique<UdpEngine>(cfg);
    detail::EngineBase::Callbacks cbs{};
    cbs.onAccept = [this](SessionId s, const TransportAddress &) { std::lock_guard<std::mutex> g(mx); evs.push_back({'A', s, {}}); };
    cbs.onData = [this](SessionId s, iora::core::BufferView bv, std::chrono::steady_clock::time_point) { std::lock_guard<std::mutex> g(mx);
      evs.push_back({'D', s, {bv.data(), bv.data() + bv.size()}}); };
    cbs.onClose = [this](SessionId s, const TransportErrorInfo &) { std::lock_guard<std::mutex> g(mx); evs.push_back({'C', s, {}}); };
    eng->setCallbacks(cbs);
    if (!eng->start().isOk()) return false;
    auto lr = eng->addListener("127.0.0.1", 0, TlsMode::None);
    if (!lr.isOk()) return false;
    lid = lr.value();
    to.sin_family = AF_INET; to.sin_addr.s_addr = htonl(INADDR_LOOPBACK); to.sin_port = htons(eng->getListenerAddress(lid).port);
    return true; }
  size_t count(char k) { std::lock_guard<std::mutex> g(mx); size_t n = 0; for (auto &e : evs) n += e.kind == k; return n; }
  template <class P> bool wait(P pr) { for (int i = 0; i < 400; i++) { if (pr()) return true; std::this_thread::sleep_for(10ms); } return false; }
  bool waitData(size_t n) { for (int i = 0; i < 400; i++) { if (count('D') >= n) return true; std::this_thread::sleep_for(10ms); } return false; }
  ~Rig() { if (eng) eng->stop(); }
};
static int peerSock() { int p = ::socket(AF_INET, SOCK_DGRAM, 0); sockaddr_in me{}; me.sin_family = AF_INET; me.sin_addr.s_addr = htonl(INADDR_LOOPBACK); ::bind(p, (sockaddr *)&me, sizeof(me));
  int sz = 1 << 20; ::setsockopt(p, SOL_SOCKET, SO_SNDBUF, &sz, sizeof(sz)); return p; }
static std::vector<uint8_t> pattern(size_t n, uint8_t seed) { std::vector<uint8_t> v(n); for (size_t i = 0; i < n; i++) v[i] = (uint8_t)(seed + i * 31 + (i >> 8)); return v; }

// Scenario "via_cap" (replay_scenarios: via_tail clauses V1b / I1): session cap reached, connectViaListener() to a not yet indexed peer is refused ->
// the peer index must not keep an entry for that peer (it would name a session that was never created; the peer's next datagram would then be
// dispatched through it and dereference a null session on the I/O thread).
static int via_cap()
{
  Rig r; TransportConfig cfg{}; cfg.maxSessions = 1;
  if (!r.up(cfg)) { replay_io::ok("skipped: cannot start the engine / bind loopback UDP in this sandbox"); return 0; }
  int p = peerSock(), q = peerSock(); sockaddr_in qa{}; socklen_t ql = sizeof(qa); ::getsockname(q, (sockaddr *)&qa, &ql);
  ::sendto(p, "one", 3, 0, (sockaddr *)&r.to, sizeof(r.to));
  if (!r.waitData(1)) replay_io::fail("via_cap: first datagram not delivered");
  auto cr = r.eng->connectViaListener(r.lid, "127.0.0.1", ntohs(qa.sin_port));      // engine is at the cap: must be refused with a close notification
  if (!r.wait([&] { return r.count('C') >= 1; })) replay_io::fail("V1a refused connectViaListener got no close notification");
  std::this_thread::sleep_for(100ms);
  sockaddr_storage qs{}; memcpy(&qs, &qa, sizeof(qa));
  const std::string k = UdpEngine::key(qs);
  if (r.eng->_peerIndex.count(k))         // I/O thread is idle here
    replay_io::fail("V1b/I1 a refused connectViaListener left _peerIndex[" + k + "] -> session " + std::to_string(r.eng->_peerIndex[k]) +
                    ", which is not in the session table (the next datagram from that peer dereferences a null session on the I/O thread)");
  ::sendto(q, "q", 1, 0, (sockaddr *)&r.to, sizeof(r.to));                          // refused peer's datagram: dropped by the cap, engine must stay alive
  std::this_thread::sleep_for(200ms);
  ::sendto(p, "two", 3, 0, (sockaddr *)&r.to, sizeof(r.to));
  if (!r.waitData(2)) replay_io::fail("via_cap: the engine stopped delivering after the refused peer's datagram");
  ::close(p); ::close(q);
  replay_io::ok("via_cap: refused via-connect left no index entry; later datagrams are still delivered");
  return 0;
}

// Scenario "via_repoint" (via_tail / via_do clause V3b): a peer already has a receiving session A; connectViaListener() to the same peer opens B.  The peer index
// must keep pointing at A: the peer's next datagram arrives on A (not on B), and closing B must not cause a second accept while A is open.
static int via_repoint()
{
  Rig r; TransportConfig cfg{};
  if (!r.up(cfg)) { replay_io::ok("skipped: cannot start the engine / bind loopback UDP in this sandbox"); return 0; }
  int p = peerSock(); sockaddr_in pa{}; socklen_t pl = sizeof(pa); ::getsockname(p, (sockaddr *)&pa, &pl);
  ::sendto(p, "one", 3, 0, (sockaddr *)&r.to, sizeof(r.to));
  if (!r.waitData(1)) replay_io::fail("via_repoint: first datagram not delivered");
  SessionId A; { std::lock_guard<std::mutex> g(r.mx); A = r.evs.back().sid; }
  SessionId B = r.eng->connectViaListener(r.lid, "127.0.0.1", ntohs(pa.sin_port)).value();
  std::this_thread::sleep_for(200ms);
  ::sendto(p, "two", 3, 0, (sockaddr *)&r.to, sizeof(r.to));
  if (!r.waitData(2)) replay_io::fail("via_repoint: second datagram not delivered");
  { std::lock_guard<std::mutex> g(r.mx); SessionId got = 0; for (auto &e : r.evs) if (e.kind == 'D') got = e.sid;
    if (got != A) replay_io::fail("V3b after connectViaListener() to an already indexed peer its datagram arrived on session " + std::to_string(got) + " (the new via session " + std::to_string(B) + ") instead of its session " + std::to_string(A)); }
  r.eng->close(B); std::this_thread::sleep_for(200ms);
  ::sendto(p, "three", 5, 0, (sockaddr *)&r.to, sizeof(r.to));
  if (!r.waitData(3)) replay_io::fail("via_repoint: third datagram not delivered");
  if (r.count('A') != 1) replay_io::fail("V3b/U1 a second accept for a peer whose session " + std::to_string(A) + " is still open");
  ::close(p);
  replay_io::ok("via_repoint: the peer keeps its session across connectViaListener and close of the via session");
  return 0;
}

int main(int argc, char **argv)
{
  if (argc > 1) { auto in0 = replay_io::load(argv[1]); if (in0.count("SCENARIO") && in0["SCENARIO"] == "via_repoint") return via_repoint(); }
  if (argc > 1) { auto in = replay_io::load(argv[1]); if (in.count("SCENARIO") && in["SCENARIO"] == "via_cap") return via_cap(); }
  if (TransportConfig{}.ioReadChunk < 65507) replay_io::fail("assumption of udp_recv violated: default TransportConfig::ioReadChunk < 65507 (largest UDP payload) - default configuration truncates");
  {
    Rig r; TransportConfig cfg{};
    if (!r.up(cfg)) { replay_io::ok("skipped: cannot start the engine / bind loopback UDP in this sandbox"); return 0; }
    int p1 = peerSock(), p2 = peerSock();
    std::vector<std::pair<int, std::vector<uint8_t>>> sent = {{p1, pattern(1, 1)}, {p1, pattern(1472, 2)}, {p2, pattern(5, 3)}, {p1, pattern(65507, 4)}, {p2, pattern(9000, 5)}};
    size_t k = 0;
    for (auto &s : sent) {
      if (::sendto(s.first, s.second.data(), s.second.size(), 0, (sockaddr *)&r.to, sizeof(r.to)) != (ssize_t)s.second.size()) replay_io::fail("test rig: sendto failed for size " + std::to_string(s.second.size()));
      if (!r.waitData(++k)) replay_io::fail("R4 datagram of " + std::to_string(s.second.size()) + " bytes was not delivered");
    }
    std::this_thread::sleep_for(100ms);
    std::lock_guard<std::mutex> g(r.mx);
    std::vector<Ev> d; std::map<SessionId, size_t> acceptPos; SessionId s1 = 0, s2 = 0;
    for (size_t i = 0; i < r.evs.size(); i++) { if (r.evs[i].kind == 'A') { if (acceptPos.count(r.evs[i].sid)) replay_io::fail("R7b two accepts for one session"); acceptPos[r.evs[i].sid] = i; }
      if (r.evs[i].kind == 'D') { if (!acceptPos.count(r.evs[i].sid)) replay_io::fail("R7c data event before the accept of its session"); d.push_back(r.evs[i]); } }
    if (d.size() != sent.size()) replay_io::fail("R3/R4 " + std::to_string(sent.size()) + " datagrams sent, " + std::to_string(d.size()) + " data events (merged, split, duplicated or lost)");
    for (size_t i = 0; i < sent.size(); i++) {
      if (d[i].data != sent[i].second) replay_io::fail("R5 payload of datagram " + std::to_string(i) + " (" + std::to_string(sent[i].second.size()) + " bytes) not delivered complete and byte-identical: got " + std::to_string(d[i].data.size()) + " bytes");
      SessionId &mine = sent[i].first == p1 ? s1 : s2;
      if (!mine) mine = d[i].sid; else if (mine != d[i].sid) replay_io::fail("R6a a later datagram of the same peer arrived on another session");
    }
    if (s1 == s2) replay_io::fail("R6e two peer addresses share one session");
    if (acceptPos.size() != 2) replay_io::fail("R6b/R7b expected exactly one accept per peer, got " + std::to_string(acceptPos.size()));
    printf("5 datagrams (1, 1472, 5, 65507, 9000 bytes) from 2 peers: 5 data events, byte-identical, sessions %llu / %llu, 2 accepts\n", (unsigned long long)s1, (unsigned long long)s2);
    ::close(p1); ::close(p2);
  }
  {
    // observation: the completeness clause R5b depends on the configuration (stated assumption ioReadChunk >= 65507)
    Rig r; TransportConfig cfg{}; cfg.ioReadChunk = 1024;
    if (r.up(cfg)) { int p = peerSock(); auto big = pattern(2000, 7);
      ::sendto(p, big.data(), big.size(), 0, (sockaddr *)&r.to, sizeof(r.to));
      if (r.waitData(1)) { std::lock_guard<std::mutex> g(r.mx); for (auto &e : r.evs) if (e.kind == 'D')
        printf("observation (configuration outside the stated assumption): ioReadChunk=1024, datagram of 2000 bytes -> data event of %zu bytes%s\n", e.data.size(), e.data.size() < 2000 ? " (silently truncated)" : ""); }
      ::close(p); }
  }
  replay_io::ok("receive-path clauses hold natively (default configuration)");
  return 0;
}
