"""Unit-local extraction plugin for udp_recv.

1. lock-guard scope exit (R11): the shared hook of the UDP units (units/udp_close/plugin.py).
2. rfl_step = the body of the receive loop of UdpEngine::readFromListener, cut mechanically (step outlining, DESIGN R18): the function body must
   consist of exactly one `for (;;) { ... }` statement and nothing else (else extraction break), and the step is the token range between the
   braces of that loop.  `continue` / `break` become status returns through two declared token rules in unit.json; falling off the end of the
   body (= the loop goes round again) is the appended `return IORA_STEP_NEXT;`.  Nothing else is added, removed or reordered.
"""
import importlib.util
import os

from vt.lexer import Tok, match_close
from vt.x2c import ExtractionBreak

_p = os.path.join(os.path.dirname(os.path.abspath(__file__)), '..', 'udp_close', 'plugin.py')
_s = importlib.util.spec_from_file_location('udp_close_plugin', _p)
_m = importlib.util.module_from_spec(_s)
_s.loader.exec_module(_m)
hook_before_loops = _m.hook_before_loops


def hook_begin(t, rw):
    if rw.prefix != 'rfl_step':
        return t
    if len(t) < 6 or [x.text for x in t[:5]] != ['for', '(', ';', ';', ')'] or t[5].text != '{':
        raise ExtractionBreak("rfl_step: readFromListener no longer starts with `for (;;) {`")
    rb = match_close(t, 5)
    if rb != len(t) - 1:
        raise ExtractionBreak("rfl_step: readFromListener has statements after its receive loop (they would not be under contract)")
    body = t[6:rb]
    if any(x.kind == 'id' and x.text in ('for', 'while', 'do') for x in body):
        raise ExtractionBreak("rfl_step: the receive loop body contains an inner loop (break/continue would be mis-attributed)")
    rw.R.notes.append(f"rfl_step: body of `for (;;)` lines {t[5].line}-{t[rb].line}")
    L = t[rb].line
    return body + [Tok('id', 'return', L), Tok('id', 'IORA_STEP_NEXT', L, final=True), Tok('op', ';', L)]
