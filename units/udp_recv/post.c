/* unit udp_recv (C06): one iteration of the receive loop of UdpEngine::readFromListener (rfl_step = the loop body, cut mechanically).
 * Clauses written from the property: "each datagram received is delivered as exactly one data event carrying its complete payload - never
 * merged, split, duplicated or delivered on a session belonging to a different peer address.  While a session that receives a peer's
 * datagrams is open, further datagrams from that peer keep arriving on it without a new accept".
 *
 * Proof form (DESIGN 2.6): a plain, loop-free harness over the FULL symbolic domain: arbitrary engine state satisfying the engine invariant
 * INV (below), arbitrary ghost keys, arbitrary kernel answer.  The step is shown to re-establish INV, so the clauses hold for every iteration
 * of every run of the loop by induction (the loop has no state of its own: every local is declared inside the body). */



/* INV: the engine invariant this unit relies on and re-establishes, at the witness keys GPK (peer) / GSID (session):
 *  Ia  an index entry points at a session that is in the table, open, listener-side, and keyed by that very peer key
 *  Ib  ids in the table and in the index were issued earlier: they are below _nextSessionId (ids are never reused)
 *  Ic  the table's entry for GSID is the session whose id is GSID */
#define INV_IDX(E, WS) ( (!((E)._peerIndex.has && (E)._peerIndex.val == GSID) || ((E)._sessions.has && (E)._sessions.val != NULL && (E)._sessions.val->pkey == GPK \
                            && !(E)._sessions.val->closed && (E)._sessions.val->role == Role_ServerPeer)) \
                      && (!(E)._sessions.has || ((E)._sessions.val != NULL && (E)._sessions.val->id == GSID && GSID < (E)._nextSessionId)) \
                      && (!(E)._peerIndex.has || (E)._peerIndex.val < (E)._nextSessionId) )

void h_rfl_step(void)
{
  /* ghost keys and witness indices: arbitrary (globals are zero in a plain harness) */
  IORA_TRUE = 1; G = (struct iora_udp_ghost){0};      /* ghost records start empty (plain proofs run with --nondet-static) */
  /* the witness peer: an arbitrary (numeric host text, port) - or the empty key.  Its key is the injective pairing that unit udp_key justifies (shims/iora_udp.h) */
  const uint64_t GH = nondet_u64(); const uint16_t GP = (uint16_t)nondet_u64(); __CPROVER_assume(GH >= 1 && GH < ((uint64_t)1 << 48));
  GPK = nondet_bool() ? 0 : IORA_KEY_PAIR(GH, GP); GSID = nondet_u64(); GB = nondet_size_t(); GK = nondet_size_t();
  __CPROVER_assume(GB < sizeof(sockaddr_storage));
  /* arbitrary engine state */
  UdpEngine E; Listener L; Session WS, OS;          /* uninitialised locals are nondeterministic */
  E._sessions.val = &WS; E._sessions.other = &OS;   /* the object GSID maps to (if present) / an object standing for any other id */
  /* bool fields of uninitialised structs are given proper truth values (a raw nondet byte such as 2 is read inconsistently by CBMC) */
  E._peerIndex.has = nondet_bool(); E._sessions.has = nondet_bool(); E._tags.has = nondet_bool(); E._listeners.has = nondet_bool(); E._cbMutex.held = nondet_bool(); E._sessionRwMutex.held = nondet_bool();
  E._cbs.onAccept.set = nondet_bool(); E._cbs.onConnect.set = nondet_bool(); E._cbs.onData.set = nondet_bool(); E._cbs.onClose.set = nondet_bool(); E._cbs.onError.set = nondet_bool();
  E._config.closeOnBackpressure = nondet_bool(); E._config.useEdgeTriggered = nondet_bool(); WS.closed = nondet_bool(); WS.wantWrite = nondet_bool(); WS.connectPending = nondet_bool();
  OS.closed = nondet_bool(); OS.wantWrite = nondet_bool(); OS.connectPending = nondet_bool(); L.wantWrite = nondet_bool();
  __CPROVER_assume(IORA_NO_LOCK_HELD(&E));
  __CPROVER_assume(INV_IDX(E, WS));
  __CPROVER_assume(E._nextSessionId < (SessionId)-1 && E._atomicStats.sessionsCurrent < (size_t)-1);      /* A: 64-bit counters do not wrap */
  /* A (stated): the receive buffer holds the largest UDP payload - the DEFAULT configuration (ioReadChunk = 64 KiB, checked natively in replay.cpp) */
  __CPROVER_assume(E._config.ioReadChunk >= IORA_UDP_MAX_PAYLOAD && E._config.ioReadChunk <= 0x7fffffff);
  /* pre-state */
  const bool has0 = E._peerIndex.has; const SessionId val0 = E._peerIndex.val; const bool shas0 = E._sessions.has; Session *const sval0 = E._sessions.val;
  const SessionId next0 = E._nextSessionId; const size_t cur0 = E._atomicStats.sessionsCurrent; const uint64_t acc0 = E._atomicStats.accepted;
  const bool cap = E._config.maxSessions != 0 && cur0 >= E._config.maxSessions;
  const bool dset = E._cbs.onData.set, aset = E._cbs.onAccept.set, eset = E._cbs.onError.set;
  const MonoTime ws_la0 = WS.lastActivity; const Session ws0 = WS;

  int st = rfl_step(&E, &L);

  const int n = G.rc.ret; const bool hit = (G.rc.key == GPK);       /* the datagram's source is the witness peer */
  __CPROVER_assert(G.rc.calls == 1, "R0 exactly one recvfrom per iteration");
  __CPROVER_assert(G.rc.fd == L.fd && G.rc.buflen >= 0 && (size_t)G.rc.buflen == E._config.ioReadChunk, "R0 on the listener's socket, into a buffer of ioReadChunk bytes");
  __CPROVER_assert(IORA_NO_LOCK_HELD(&E), "L1 no lock left held");
  if (n > 0) {
    IORA_CANARY("h_rfl_step: datagram received");
    const bool fresh_drop = cap && !(hit && has0);       /* for another key the index answer is arbitrary: the cap may or may not have applied */
    __CPROVER_assert(st == IORA_STEP_NEXT, "R1 the loop goes on to the next datagram");
    __CPROVER_assert(G.rc.key_calls == 1 && G.rc.key_of_source, "R2 the peer key is computed once, from the datagram's source address");
    __CPROVER_assert(G.rx.dataCb_calls <= 1 && G.rx.acceptCb_calls <= 1, "R3 never duplicated: at most one data event and one accept per datagram");
    __CPROVER_assert(!(hit && has0 && dset) || G.rx.dataCb_calls == 1, "R4a a datagram from an indexed peer is delivered exactly once");
    __CPROVER_assert(!(hit && !has0 && !cap && dset) || G.rx.dataCb_calls == 1, "R4b a datagram from a new peer is delivered exactly once (session cap not reached)");
    __CPROVER_assert(!(!fresh_drop && !cap && dset) || G.rx.dataCb_calls == 1, "R4c any datagram is delivered exactly once while the session cap is not reached");
    if (G.rx.dataCb_calls == 1) {
      IORA_CANARY("h_rfl_step: data event");
      __CPROVER_assert(G.rx.dataCb_p == G.rc.buf && G.rx.dataCb_n == (size_t)n, "R5a the data event carries the bytes recvfrom wrote: same buffer, n bytes (never merged or split)");
      __CPROVER_assert(G.rx.dataCb_n == G.rc.dgram_len, "R5b complete payload: n is the datagram's length (needs ioReadChunk >= 65507)");
      __CPROVER_assert(!(GK < G.rx.dataCb_n) || G.rx.dataCb_byte_gk == G.rc.byte_gk, "R5c byte-identical at every index GK");
      __CPROVER_assert(!G.rx.dataCb_locked, "L2 data callback runs with no engine lock held");
    }
    if (hit && has0) {
      IORA_CANARY("h_rfl_step: known peer");
      __CPROVER_assert(!dset || G.rx.dataCb_sid == val0, "R6a delivered on the session the peer index maps this peer to");
      __CPROVER_assert(G.rx.acceptCb_calls == 0 && E._nextSessionId == next0 && E._atomicStats.accepted == acc0 && E._atomicStats.sessionsCurrent == cur0, "R6b WITHOUT a new accept, id or session");
      __CPROVER_assert(E._peerIndex.has && E._peerIndex.val == val0, "R6c the index entry is unchanged");
      __CPROVER_assert(E._sessions.has == shas0 && E._sessions.val == sval0, "R6d the session table is unchanged");
      __CPROVER_assert(!(val0 == GSID && dset) || G.rx.dataCb_sess_ok, "R6e that session is in the table, open and keyed by this peer when the event fires (not a different peer's session)");
      __CPROVER_assert(!(val0 == GSID) || WS.pkey == ws0.pkey && WS.id == ws0.id && WS.plen == ws0.plen && WS.peer.b[GB] == ws0.peer.b[GB] && WS.closed == ws0.closed, "R6f its identity and peer address are untouched");
    }
    if (hit && !has0 && !cap) {
      IORA_CANARY("h_rfl_step: new peer accepted");
      __CPROVER_assert(E._nextSessionId == next0 + 1 && E._atomicStats.accepted == acc0 + 1 && E._atomicStats.sessionsCurrent == cur0 + 1, "R7a exactly one new id, one accept counted, gauge +1");
      __CPROVER_assert(G.rx.acceptCb_calls == (aset ? 1u : 0u) && (!aset || (G.rx.acceptCb_sid == next0 && !G.rx.acceptCb_locked)), "R7b exactly one accept event, for the new id");
      __CPROVER_assert(!aset || G.rx.acceptCb_datas_before == 0, "R7c the accept event comes BEFORE the data event");
      __CPROVER_assert(!dset || G.rx.dataCb_sid == next0, "R7d the datagram is delivered on the new session");
      __CPROVER_assert(E._peerIndex.has && E._peerIndex.val == next0, "R7e the peer index now maps this peer to the new session (further datagrams keep arriving on it)");
      if (GSID == next0) {
        IORA_CANARY("h_rfl_step: witness session created");
        __CPROVER_assert(E._sessions.has && E._sessions.val != NULL && E._sessions.val != sval0, "R7f the new session is in the table");
        Session *ns = E._sessions.val;
        __CPROVER_assert(ns->id == next0 && ns->role == Role_ServerPeer && !ns->closed && ns->pkey == GPK, "R7g with the new id, listener-side, open, keyed by this peer");
        __CPROVER_assert(ns->plen == G.rc.fromlen && (!(GB < ns->plen) || ns->peer.b[GB] == G.rc.from_gb), "R7h its stored peer address is the datagram's source address (length and every byte GB)");
        __CPROVER_assert(ns->owner == L.id && ns->fd == L.fd, "R7i owned by this listener (replies leave through the listener's socket)");
        __CPROVER_assert(!dset || G.rx.dataCb_sess_ok, "R7j in the table when the data event fires");
      } else {
        __CPROVER_assert(E._sessions.has == shas0 && E._sessions.val == sval0, "R7k no other table entry is touched");
      }
    }
    if (hit && !has0 && cap) {
      IORA_CANARY("h_rfl_step: new peer refused by the session cap");
      __CPROVER_assert(G.rx.dataCb_calls == 0 && G.rx.acceptCb_calls == 0 && !E._peerIndex.has && E._nextSessionId == next0 && E._sessions.has == shas0 && E._atomicStats.sessionsCurrent == cur0,
                       "R8 session cap reached: the new peer's datagram creates nothing and is announced to nobody (dropped; stated deviation from 'every datagram delivered')");
    }
    if (!hit) {
      __CPROVER_assert(E._peerIndex.has == has0 && E._peerIndex.val == val0, "R9 a datagram from another peer never changes this peer's index entry (no redirect)");
    }
    if (GPK != 0 && G.rc.key != 0) {
      __CPROVER_assert(hit == (G.rc.key_host == GH && G.rc.key_port == GP), "R9b per-peer identity: a datagram is routed through this peer's entry iff its (numeric host, port) are this peer's (key = host:port is injective, unit udp_key)");
    }
    __CPROVER_assert(G.rx.errorCb_calls == 0, "R10 no error event for a good datagram");
  } else if (n == 0) {
    IORA_CANARY("h_rfl_step: empty datagram");
    __CPROVER_assert(st == IORA_STEP_NEXT && G.rx.dataCb_calls == 0 && G.rx.acceptCb_calls == 0 && G.rx.errorCb_calls == 0 && E._peerIndex.has == has0 && E._sessions.has == shas0 && E._nextSessionId == next0,
                     "R11 a zero-length datagram is skipped: no event, no session (stated deviation: the property's sizes are 1..65507)");
  } else {
    IORA_CANARY("h_rfl_step: recvfrom failed");
    __CPROVER_assert(st == IORA_STEP_BREAK, "R12 EAGAIN or an error ends the drain");
    __CPROVER_assert(G.rx.dataCb_calls == 0 && G.rx.acceptCb_calls == 0 && E._peerIndex.has == has0 && E._peerIndex.val == val0 && E._sessions.has == shas0 && E._nextSessionId == next0, "R12 without any data/accept event or state change");
    __CPROVER_assert(G.rx.errorCb_calls == ((iora_errno != EAGAIN && eset) ? 1u : 0u), "R13 exactly one error event for a real error, none for EAGAIN");
  }
  /* induction step */
  __CPROVER_assert(INV_IDX(E, WS), "I1 the engine invariant INV is re-established (peer index -> live session of that peer; ids below the counter)");
  __CPROVER_assert(E._nextSessionId >= next0, "I2 session ids only grow (never reused)");
  IORA_CANARY("h_rfl_step: returns");
}

/* ============================ viaDo (connect-via-listener), session-creation tail ============================
 * via_tail = the statements of UdpEngine::viaDo from `std::string k = key(to);` to the final `return true;` (block target, R14): everything after
 * the address resolution.  Free variables become parameters: the request vr, the listener lst, the resolved address (to, tl).
 * The resolution part above it (getaddrinfo / family matching, four early-exit close callbacks) is not under contract. */
void h_via_tail(void)
{
  IORA_TRUE = 1; G = (struct iora_udp_ghost){0};      /* ghost records start empty (plain proofs run with --nondet-static) */
  GPK = nondet_u64(); GSID = nondet_u64(); GB = nondet_size_t(); GK = nondet_size_t();
  __CPROVER_assume(GB < sizeof(sockaddr_storage));
  UdpEngine E; Listener L; Session WS, OS; ViaReq VR; sockaddr_storage to; socklen_t tl;
  E._sessions.val = &WS; E._sessions.other = &OS;
  /* bool fields of uninitialised structs are given proper truth values (a raw nondet byte such as 2 is read inconsistently by CBMC) */
  E._peerIndex.has = nondet_bool(); E._sessions.has = nondet_bool(); E._tags.has = nondet_bool(); E._listeners.has = nondet_bool(); E._cbMutex.held = nondet_bool(); E._sessionRwMutex.held = nondet_bool();
  E._cbs.onAccept.set = nondet_bool(); E._cbs.onConnect.set = nondet_bool(); E._cbs.onData.set = nondet_bool(); E._cbs.onClose.set = nondet_bool(); E._cbs.onError.set = nondet_bool();
  E._config.closeOnBackpressure = nondet_bool(); E._config.useEdgeTriggered = nondet_bool(); WS.closed = nondet_bool(); WS.wantWrite = nondet_bool(); WS.connectPending = nondet_bool();
  OS.closed = nondet_bool(); OS.wantWrite = nondet_bool(); OS.connectPending = nondet_bool(); L.wantWrite = nondet_bool();
  __CPROVER_assume(IORA_NO_LOCK_HELD(&E) && INV_IDX(E, WS));
  __CPROVER_assume(E._atomicStats.sessionsCurrent < (size_t)-1);
  /* call-site facts: tl is sizeof(sockaddr_in) or sizeof(sockaddr_in6); the id was issued by connectViaListener (_nextSessionId++) and is not in the table yet */
  __CPROVER_assume(tl <= sizeof(sockaddr_storage) && VR.sid < E._nextSessionId && !(VR.sid == GSID && E._sessions.has) && !(E._peerIndex.has && E._peerIndex.val == VR.sid));
  const bool has0 = E._peerIndex.has; const SessionId val0 = E._peerIndex.val; const bool shas0 = E._sessions.has; Session *const sval0 = E._sessions.val;
  const size_t cur0 = E._atomicStats.sessionsCurrent; const bool cap = E._config.maxSessions != 0 && cur0 >= E._config.maxSessions;
  const bool cset = E._cbs.onConnect.set, xset = E._cbs.onClose.set; const SessionId next0 = E._nextSessionId;

  bool ok = via_tail(&E, &VR, &L, to, tl);

  const bool hit = (G.rc.key == GPK);
  __CPROVER_assert(IORA_NO_LOCK_HELD(&E), "L1 no lock left held");
  __CPROVER_assert(G.rc.key_calls == 1, "V0 the peer key is computed once");
  if (cap) {
    IORA_CANARY("h_via_tail: refused by the session cap");
    __CPROVER_assert(!ok && G.cl.closeCb_calls == (xset ? 1u : 0u) && (!xset || (G.cl.closeCb_sid == VR.sid && G.cl.closeCb_why == TransportError_Config && !G.cl.closeCb_locked)),
                     "V1a session cap: the id the caller already holds gets exactly one close notification");
    __CPROVER_assert(G.rx.connectCb_calls == 0 && E._sessions.has == shas0 && E._sessions.val == sval0 && E._peerIndex.has == has0 && E._peerIndex.val == val0 && E._atomicStats.sessionsCurrent == cur0,
                     "V1b and nothing is created or announced");
  } else {
    IORA_CANARY("h_via_tail: session created");
    __CPROVER_assert(ok && G.cl.closeCb_calls == 0, "V2a success, no close");
    __CPROVER_assert(G.rx.connectCb_calls == (cset ? 1u : 0u) && (!cset || (G.rx.connectCb_sid == VR.sid && !G.rx.connectCb_locked)), "V2b exactly one connect event for the id");
    __CPROVER_assert(E._atomicStats.sessionsCurrent == cur0 + 1, "V2c gauge +1");
    if (GSID == VR.sid) {
      IORA_CANARY("h_via_tail: witness session created");
      __CPROVER_assert(E._sessions.has && E._sessions.val != NULL, "V2d the session is in the table");
      Session *ns = E._sessions.val;
      __CPROVER_assert(ns->id == VR.sid && ns->role == Role_ServerPeer && !ns->closed && ns->pkey == G.rc.key && ns->owner == L.id && ns->fd == L.fd, "V2e listener-side, open, keyed by the resolved peer, owned by the listener");
      __CPROVER_assert(ns->plen == tl && (!(GB < tl) || ns->peer.b[GB] == to.b[GB]), "V2f its datagrams will be addressed to the resolved address (length and every byte GB)");
    } else {
      __CPROVER_assert(E._sessions.has == shas0 && E._sessions.val == sval0, "V2g no other table entry is touched");
    }
    if (hit && !has0) { IORA_CANARY("h_via_tail: peer newly indexed"); __CPROVER_assert(E._peerIndex.has && E._peerIndex.val == VR.sid, "V3a a peer without an index entry is indexed to the new session (its replies arrive there)"); }
    if (hit && has0)  { IORA_CANARY("h_via_tail: peer already indexed"); __CPROVER_assert(E._peerIndex.has && E._peerIndex.val == val0, "V3b a peer that already has a receiving session keeps it (no redirect)"); }
    if (!hit)         { __CPROVER_assert(E._peerIndex.has == has0 && E._peerIndex.val == val0, "V3c other peers' entries are untouched"); }
  }
  __CPROVER_assert(INV_IDX(E, WS), "I1 the engine invariant INV is re-established");
  __CPROVER_assert(E._nextSessionId == next0, "I2 no id is consumed here");
  IORA_CANARY("h_via_tail: returns");
}
