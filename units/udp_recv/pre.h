/* type environment for unit udp_recv (shared by the three UDP units); no loops remain in the outlined step */
#include "iora_udp.h"
#define IORA_STEP_NEXT 1      /* `continue` or end of the loop body: the receive loop goes round again */
#define IORA_STEP_BREAK 2     /* `break`: the receive loop (and readFromListener) ends */
