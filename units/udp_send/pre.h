/* type environment for unit udp_send (shared by the three UDP units) + loop contracts */
#include "iora_udp.h"
size_t G_lo0;                 /* ghost: logical index of the queue front when the flush started (bound by the contract's precondition) */

#define TX_GHOSTS G.tx, iora_errno
#define EPOLL_GHOSTS G.ep
#define CLOSE_GHOSTS G.cl

/* flushListener, loop 1: `while (!lst->wq.empty())`.
 * Position arithmetic: every accepted or hard-failed sendto pops exactly one element, EAGAIN leaves the loop (so it is 0 at the head).
 * Witness: the element at the arbitrary logical index GQ has been handed to sendto exactly once iff it lies in [G_lo0, lo), and that call
 * carried ITS payload pointer, ITS full length and ITS stored destination (byte GB of it). */
#define FL_Q (lst->wq)
#define FL_INV ( FL_Q.lo <= FL_Q.hi && G_lo0 <= FL_Q.lo && G_tx_again == 0 && FL_Q.lo - G_lo0 == G_tx_ok + G_tx_err && G_tx_calls == G_tx_ok + G_tx_err \
  && G_txw_calls == ((G_lo0 <= GQ && GQ < FL_Q.lo) ? (size_t)1 : (size_t)0) \
  && (G_txw_calls == 1 ==> (G_txw_p == FL_Q.w.payload.p && G_txw_n == (int)FL_Q.w.payload.n && G_txw_tolen == FL_Q.w.toLen && G_txw_to_gb == (GB < FL_Q.w.toLen ? FL_Q.w.to.b[GB] : 0))) \
  && (G_tx_calls > 0 ==> (G_tx_is_sendto && G_tx_fd == lst->fd && G_tx_flags == MSG_NOSIGNAL)) \
  && IORA_NO_LOCK_HELD(self) )
#define IORA_LOOP_UdpEngine_flushListener_1 IORA_LC( \
  __CPROVER_assigns(lst->wq.lo, lst->wq.other, lst->wantWrite, self->_atomicStats.bytesOut, self->_atomicStats.errors, self->_cbMutex.held, TX_GHOSTS, EPOLL_GHOSTS, G.rx) \
  __CPROVER_loop_invariant(FL_INV) \
  __CPROVER_decreases(lst->wq.hi - lst->wq.lo))

/* writeClient, loop 1: `while (!s->wq.empty())`.  Same position arithmetic; a hard error closes the session (closeNow) and returns, so at the
 * loop head no error has happened, the session is open and still satisfies closeNow's preconditions (WC_CLOSE_PRE), nobody was notified. */
unsigned G_cb0;               /* ghost: close notifications before the call (bound by the precondition) */
#define WC_Q (s->wq)
#define WC_CLOSE_PRE ( IORA_NO_LOCK_HELD(self) && !s->closed && (s->id == GSID ==> (self->_sessions.has && self->_sessions.val == s)) \
  && ((self->_peerIndex.has && self->_peerIndex.val == GSID) ==> self->_sessions.has) \
  && ((self->_peerIndex.has && self->_peerIndex.val == s->id) ==> (s->pkey == GPK && s->role == Role_ServerPeer)) \
  && self->_atomicStats.sessionsCurrent >= 1 && G_closeCb_calls < IORA_SAT && G_close_calls < IORA_SAT && G_delEpoll_calls < IORA_SAT )
#define WC_INV ( WC_Q.lo <= WC_Q.hi && G_lo0 <= WC_Q.lo && G_tx_again == 0 && G_tx_err == 0 && WC_Q.lo - G_lo0 == G_tx_ok && G_tx_calls == G_tx_ok \
  && G_txw_calls == ((G_lo0 <= GQ && GQ < WC_Q.lo) ? (size_t)1 : (size_t)0) \
  && (G_txw_calls == 1 ==> (G_txw_p == WC_Q.w.p && G_txw_n == (int)WC_Q.w.n)) \
  && (G_tx_calls > 0 ==> (!G_tx_is_sendto && G_tx_fd == s->fd && G_tx_flags == MSG_NOSIGNAL)) \
  && WC_CLOSE_PRE && G_closeCb_calls == G_cb0 )
#define WC_CLOSE_TARGETS s->closed, self->_peerIndex, self->_sessions.has, self->_tags, self->_atomicStats.closed, self->_atomicStats.sessionsCurrent, \
  self->_cbMutex.held, self->_sessionRwMutex.held, G.cl
#define IORA_LOOP_UdpEngine_writeClient_1 IORA_LC( \
  __CPROVER_assigns(s->wq.lo, s->wq.other, s->wantWrite, s->lastWriteProgress, self->_atomicStats.bytesOut, TX_GHOSTS, EPOLL_GHOSTS, WC_CLOSE_TARGETS) \
  __CPROVER_loop_invariant(WC_INV) \
  __CPROVER_decreases(s->wq.hi - s->wq.lo))

/* sendDo: ghost mirror of the pre-state, bound by ONE requires clause of the contract (SD_BIND).  Used instead of __CPROVER_old: every textual
 * __CPROVER_old is a tracked local object under DFCC, and the solver cost grows steeply with the number of objects (--object-bits), measured. */
struct { bool s_has, s_closed; Role s_role; int s_fd; socklen_t s_plen; uint8_t s_peer_gb; size_t cq_lo, cq_hi; const uint8_t *cq_w_p; size_t cq_w_n;
         bool l_has; int l_fd; size_t lq_lo, lq_hi; const uint8_t *lq_w_p; size_t lq_w_n; socklen_t lq_w_tolen; uint8_t lq_w_to_gb;
         const uint8_t *p; size_t n; unsigned cb_calls; bool cbset; } P0;
#define SD_BIND ( P0.s_has == self->_sessions.has && P0.s_closed == self->_sessions.val->closed && P0.s_role == self->_sessions.val->role && P0.s_fd == self->_sessions.val->fd \
  && P0.s_plen == self->_sessions.val->plen && P0.s_peer_gb == self->_sessions.val->peer.b[GB] && P0.cq_lo == self->_sessions.val->wq.lo && P0.cq_hi == self->_sessions.val->wq.hi \
  && P0.cq_w_p == self->_sessions.val->wq.w.p && P0.cq_w_n == self->_sessions.val->wq.w.n && P0.l_has == self->_listeners.has && P0.l_fd == self->_listeners.val->fd \
  && P0.lq_lo == self->_listeners.val->wq.lo && P0.lq_hi == self->_listeners.val->wq.hi && P0.lq_w_p == self->_listeners.val->wq.w.payload.p && P0.lq_w_n == self->_listeners.val->wq.w.payload.n \
  && P0.lq_w_tolen == self->_listeners.val->wq.w.toLen && P0.lq_w_to_gb == self->_listeners.val->wq.w.to.b[GB] && P0.p == sr->payload.p && P0.n == sr->payload.n \
  && P0.cb_calls == G_closeCb_calls && P0.cbset == self->_cbs.onClose.set )
