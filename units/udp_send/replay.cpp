// Native cross-check for unit udp_send: the REAL UdpEngine::sendDo / flushListener / writeClient (private, reached with -fno-access-control)
// run against a SCRIPTED kernel: send(), sendto() and epoll_ctl() are defined in this executable (symbol interposition), the engine is
// constructed without start(), listener and sessions are inserted by hand.  The contract clauses of post.c (SD*, FL*, WC*) are evaluated natively.
// No input file is needed (no obligation of this unit fails on the unchanged tree); with an input the same fixed scenario runs.
#include "iora/network/detail/udp_engine.hpp"
#include "replay_io.h"
#include <deque>
using namespace iora::network;

struct Sent { bool isSendto; int fd; std::vector<uint8_t> data; std::vector<uint8_t> to; };
static std::vector<Sent> g_sent;          // datagrams the scripted kernel ACCEPTED
static std::deque<int> g_script;          // per call: 0 = accept, otherwise errno to fail with
static int g_calls = 0; static uint32_t g_lastEv = 0; static int g_lastEvFd = -1;
static int next_verdict() { int v = 0; if (!g_script.empty()) { v = g_script.front(); g_script.pop_front(); } return v; }
extern "C" ssize_t sendto(int fd, const void *buf, size_t len, int, const struct sockaddr *to, socklen_t tolen)
{ g_calls++; int v = next_verdict(); if (v) { errno = v; return -1; }
  Sent s{true, fd, {(const uint8_t *)buf, (const uint8_t *)buf + len}, {(const uint8_t *)to, (const uint8_t *)to + tolen}}; g_sent.push_back(s); return (ssize_t)len; }
extern "C" ssize_t send(int fd, const void *buf, size_t len, int)
{ g_calls++; int v = next_verdict(); if (v) { errno = v; return -1; }
  Sent s{false, fd, {(const uint8_t *)buf, (const uint8_t *)buf + len}, {}}; g_sent.push_back(s); return (ssize_t)len; }
extern "C" int epoll_ctl(int, int, int fd, struct epoll_event *ev) { if (ev) { g_lastEv = ev->events; g_lastEvFd = fd; } return 0; }

static sockaddr_storage addr4(const char *ip, uint16_t port, socklen_t &len)
{ sockaddr_storage ss{}; auto *a = (sockaddr_in *)&ss; a->sin_family = AF_INET; a->sin_port = htons(port); inet_pton(AF_INET, ip, &a->sin_addr); len = sizeof(sockaddr_in); return ss; }
static std::vector<uint8_t> bytes(const char *s) { return {(const uint8_t *)s, (const uint8_t *)s + strlen(s)}; }
static std::vector<uint8_t> addrBytes(const sockaddr_storage &ss, socklen_t l) { return {(const uint8_t *)&ss, (const uint8_t *)&ss + l}; }
#define CHECK(c, what) do { if (!(c)) replay_io::fail(what); } while (0)

int main(int, char **)
{
  TransportConfig cfg{};
  UdpEngine eng{cfg};
  int closes = 0; SessionId closedSid = 0; int errors = 0;
  detail::EngineBase::Callbacks cbs{};
  cbs.onClose = [&](SessionId s, const TransportErrorInfo &) { closes++; closedSid = s; };
  cbs.onError = [&](TransportError, const std::string &) { errors++; };
  eng.setCallbacks(cbs);
  // listener 1 (fd 1000) with two listener-side sessions for two different peers; connected client session 3 (fd 1001)
  auto l = std::make_unique<UdpEngine::Listener>(); l->id = 1; l->fd = 1000; UdpEngine::Listener *lst = l.get(); eng._listeners.emplace(1, std::move(l));
  socklen_t l1, l2; sockaddr_storage p1 = addr4("192.0.2.1", 4001, l1), p2 = addr4("192.0.2.2", 4002, l2);
  auto mk = [&](SessionId id, Role r, int fd, const sockaddr_storage *peer, socklen_t pl) {
    auto s = std::make_unique<UdpEngine::Session>(); s->id = id; s->role = r; s->fd = fd; s->owner = 1;
    if (peer) { memcpy(&s->peer, peer, pl); s->plen = pl; s->pkey = UdpEngine::key(*peer); eng._peerIndex[s->pkey] = id; }
    UdpEngine::Session *raw = s.get(); eng._sessions.emplace(id, std::move(s)); eng._atomicStats.sessionsCurrent++; return raw; };
  mk(1, Role::ServerPeer, 1000, &p1, l1); mk(2, Role::ServerPeer, 1000, &p2, l2);
  UdpEngine::Session *c = mk(3, Role::ClientConnected, 1001, nullptr, 0);
  auto send = [&](SessionId sid, const char *txt) { UdpEngine::SendReq sr; sr.sid = sid; sr.payload = bytes(txt); eng.sendDo(std::move(sr)); };

  // --- listener side: EAGAIN queues the whole datagram with ITS destination; flush sends each once, in queue order
  g_script = {EAGAIN, EAGAIN, 0};
  send(1, "aaa"); send(2, "bbbb"); send(1, "cc");
  CHECK(g_calls == 3, "SD1 one send command = one sendto attempt");
  CHECK(lst->wq.size() == 2, "SD5a each EAGAIN queued exactly one element");
  CHECK(lst->wq[0].payload == bytes("aaa") && addrBytes(lst->wq[0].to, lst->wq[0].toLen) == addrBytes(p1, l1), "SD5b first queued datagram = whole payload + peer 1");
  CHECK(lst->wq[1].payload == bytes("bbbb") && addrBytes(lst->wq[1].to, lst->wq[1].toLen) == addrBytes(p2, l2), "SD5b second queued datagram = whole payload + peer 2");
  CHECK(lst->wantWrite && (g_lastEv & EPOLLOUT) && g_lastEvFd == 1000, "SD5e EPOLLOUT armed on the listener socket");
  CHECK(g_sent.size() == 1 && g_sent[0].data == bytes("cc") && g_sent[0].to == addrBytes(p1, l1) && g_sent[0].fd == 1000, "SD2/SD3l accepted datagram: complete, to the session's peer, via the listener socket");
  g_script = {0, EAGAIN};
  eng.flushListener(lst);
  CHECK(g_sent.size() == 2 && g_sent[1].data == bytes("aaa") && g_sent[1].to == addrBytes(p1, l1), "FL6/FL7 front element sent with its own payload and destination");
  CHECK(lst->wq.size() == 1 && lst->wq[0].payload == bytes("bbbb") && lst->wantWrite && (g_lastEv & EPOLLOUT), "FL3 EAGAIN keeps the element at the front, EPOLLOUT stays armed");
  g_script = {ENETUNREACH};
  eng.flushListener(lst);
  CHECK(lst->wq.empty() && errors == 1 && g_sent.size() == 2, "FL1 hard error: element dropped with one error event");
  CHECK(!lst->wantWrite && !(g_lastEv & EPOLLOUT), "FL4 drained: write interest dropped");

  // --- connected client: EAGAIN queues, writeClient sends it whole, hard error closes the session exactly once
  g_script = {EAGAIN}; int before = g_calls;
  send(3, "dddd");
  CHECK(g_calls == before + 1 && c->wq.size() == 1 && c->wq[0] == bytes("dddd") && c->wantWrite && (g_lastEv & EPOLLOUT) && g_lastEvFd == 1001, "SD6a client EAGAIN: queued whole, EPOLLOUT armed");
  g_script = {0};
  eng.writeClient(c);
  CHECK(g_sent.size() == 3 && !g_sent[2].isSendto && g_sent[2].fd == 1001 && g_sent[2].data == bytes("dddd") && c->wq.empty() && !c->wantWrite, "WC2/WC6 queued datagram sent once, whole, on the connected socket");
  g_script = {EAGAIN}; send(3, "ee");
  g_script = {ECONNREFUSED};
  eng.writeClient(c);
  CHECK(closes == 1 && closedSid == 3 && eng._sessions.count(3) == 0, "WC8 hard error closes the session exactly once");
  // --- closed / unknown session: nothing is sent
  before = g_calls; send(3, "zz"); send(99, "zz");
  CHECK(g_calls == before, "SD0 nothing sent for a closed or unknown session");
  // totals: every accepted datagram exactly once, none merged or split
  CHECK(g_sent.size() == 3, "exactly the three accepted datagrams left the engine");
  replay_io::ok("sendDo / flushListener / writeClient clauses hold natively on the scripted scenario");
  return 0;
}
