/* unit udp_send (C06): UdpEngine::sendDo, flushListener, writeClient.  Contracts written from the property statement:
 * "Each send accepted on a UDP session produces at most one datagram, byte-identical to the send and addressed to that session's peer ...
 *  datagrams are never merged, split, duplicated" and the anchor "EAGAIN queues the whole datagram with its destination". */
#include "../udp_close/closenow_contract.h"

#define INT_MAX_ 0x7fffffff
#define TX_ZERO (G_tx_calls == 0 && G_tx_ok == 0 && G_tx_again == 0 && G_tx_err == 0 && G_txw_calls == 0)

/* ============================ flushListener ============================ */
#define FLQ0_LO __CPROVER_old(lst->wq.lo)
void UdpEngine_flushListener_contract(UdpEngine *self, Listener *lst)
__CPROVER_requires(IORA_TRUE && __CPROVER_is_fresh(self, sizeof(*self)) && __CPROVER_is_fresh(lst, sizeof(*lst)))
__CPROVER_requires(lst->wq.lo <= lst->wq.hi && G_lo0 == lst->wq.lo && TX_ZERO && GB < sizeof(sockaddr_storage) && IORA_NO_LOCK_HELD(self))
/* queue element invariant at the witness index (established by sendDo, clause SD5) */
__CPROVER_requires((lst->wq.lo <= GQ && GQ < lst->wq.hi) ==> (lst->wq.w.toLen <= sizeof(sockaddr_storage) && lst->wq.w.payload.n <= INT_MAX_))
__CPROVER_assigns(lst->wq.lo, lst->wq.other, lst->wantWrite, self->_atomicStats.bytesOut, self->_atomicStats.errors, self->_cbMutex.held, TX_GHOSTS, EPOLL_GHOSTS, G.rx)
/* FL1 one pop per completed sendto (accepted or failed hard), none otherwise */ __CPROVER_ensures(lst->wq.lo == FLQ0_LO + G_tx_ok + G_tx_err && lst->wq.lo <= lst->wq.hi && G_tx_calls == G_tx_ok + G_tx_err + G_tx_again)
/* FL2 EAGAIN stops the flush at once */ __CPROVER_ensures(G_tx_again <= 1)
/* FL3 EAGAIN keeps the element at the front and arms EPOLLOUT */ __CPROVER_ensures(G_tx_again == 1 ==> (lst->wq.lo < lst->wq.hi && G_front_lo == lst->wq.lo && lst->wantWrite && (G_modEpoll_ev & EPOLLOUT) != 0 && G_modEpoll_fd == lst->fd))
/* FL4 otherwise the queue is drained and write interest dropped */ __CPROVER_ensures(G_tx_again == 0 ==> (lst->wq.lo == lst->wq.hi && !lst->wantWrite && (G_modEpoll_ev & EPOLLOUT) == 0 && G_modEpoll_calls > 0))
/* FL5 every element that left the queue, and the one EAGAIN stopped at, was handed to sendto exactly once; no other element was */ __CPROVER_ensures(G_txw_calls == ((FLQ0_LO <= GQ && GQ < lst->wq.lo + G_tx_again) ? (size_t)1 : (size_t)0))
/* FL6 with ITS payload (pointer and full length: never split, never merged) */ __CPROVER_ensures(G_txw_calls == 1 ==> (G_txw_p == lst->wq.w.payload.p && G_txw_n == (int)lst->wq.w.payload.n))
/* FL7 and ITS stored destination (length and every byte GB) */ __CPROVER_ensures(G_txw_calls == 1 ==> (G_txw_tolen == lst->wq.w.toLen && G_txw_to_gb == (GB < lst->wq.w.toLen ? lst->wq.w.to.b[GB] : 0)))
/* FL8 on the listener's socket */ __CPROVER_ensures(G_tx_calls > 0 ==> (G_tx_is_sendto && G_tx_fd == lst->fd))
/* L1 no lock left held */ __CPROVER_ensures(IORA_NO_LOCK_HELD(self))
;
void h_flushListener(void)
{
  UdpEngine *e; Listener *l;
  UdpEngine_flushListener(e, l);
  IORA_CANARY("h_flushListener: returns");
  if (G_tx_again) { IORA_CANARY("h_flushListener: stopped by EAGAIN"); } else { IORA_CANARY("h_flushListener: drained"); }
  if (G_tx_err) { IORA_CANARY("h_flushListener: a datagram failed hard"); }
  if (G_txw_calls) { IORA_CANARY("h_flushListener: witness element sent"); }
}

/* ============================ sendDo ============================
 * Pre-state values are read from the ghost mirror P0 (bound by the requires clause SD_BIND), not through __CPROVER_old.
 * Ghost keys are tied to the command: GSID is the id the command names, GLID the owner of that session.  S0 / L0 are the session and
 * listener objects those keys map to (valid objects in any case; whether the maps CONTAIN the keys is _sessions.has / _listeners.has). */
#define S0 (self->_sessions.val)
#define L0 (self->_listeners.val)
#define SD_OPEN   (P0.s_has && !P0.s_closed)
#define SD_CLIENT (P0.s_role == Role_ClientConnected)
#define SD_LST    (P0.l_has)
#define SD_P0     P0.p
#define SD_N0     P0.n
#define SD_PLEN0  P0.s_plen
#define SD_PEER0_GB P0.s_peer_gb
#define SD_SENT   (G_tx_calls == 1)
#define SD_ALIVE  (self->_sessions.has)                 /* the session was not closed (and destroyed) by this call */
#define SD_EAGAIN (G_tx_ret < 0 && G_tx_errno == EAGAIN)
#define SD_HARD   (G_tx_ret < 0 && G_tx_errno != EAGAIN)
#define SD_CBSET  (P0.cbset)
#define SD_CLOSED_ONCE(WHY) (!SD_ALIVE && G_closeCb_calls == P0.cb_calls + (SD_CBSET ? 1u : 0u) && (SD_CBSET ==> (G_closeCb_sid == GSID && G_closeCb_why == (WHY))))
#define SD_LQ_OVER (P0.lq_hi + 1 - P0.lq_lo > self->_config.maxWriteQueue)
#define SD_CQ_OVER (P0.cq_hi + 1 - P0.cq_lo > self->_config.maxWriteQueue)

void UdpEngine_sendDo_contract(UdpEngine *self, SendReq *sr)
__CPROVER_requires(IORA_TRUE && __CPROVER_is_fresh(self, sizeof(*self)) && __CPROVER_is_fresh(sr, sizeof(*sr)) && sr->payload.n <= INT_MAX_)
__CPROVER_requires(__CPROVER_is_fresh(self->_sessions.val, sizeof(Session)) && __CPROVER_is_fresh(self->_listeners.val, sizeof(Listener)))
__CPROVER_requires(sr->sid == GSID && self->_sessions.val->id == GSID && self->_sessions.val->owner == GLID && self->_listeners.val->id == GLID)
/* session record invariant: the stored peer address fits its storage (plen comes from recvfrom / sizeof(sockaddr_in[6])) */
__CPROVER_requires(self->_sessions.val->plen <= sizeof(sockaddr_storage) && GB < sizeof(sockaddr_storage))
__CPROVER_requires(self->_sessions.val->wq.lo <= self->_sessions.val->wq.hi && self->_sessions.val->wq.hi < (size_t)-1 && self->_listeners.val->wq.lo <= self->_listeners.val->wq.hi && self->_listeners.val->wq.hi < (size_t)-1)
__CPROVER_requires(IORA_NO_LOCK_HELD(self) && TX_ZERO)
/* ghost mirror of the pre-state (see pre.h) */
__CPROVER_requires(SD_BIND)
/* engine invariants needed by closeNow (see closenow_contract.h) */
__CPROVER_requires((self->_peerIndex.has && self->_peerIndex.val == GSID) ==> (self->_sessions.has && self->_sessions.val->pkey == GPK && self->_sessions.val->role == Role_ServerPeer))
__CPROVER_requires(self->_atomicStats.sessionsCurrent >= 1 && G_closeCb_calls < IORA_SAT && G_close_calls < IORA_SAT && G_delEpoll_calls < IORA_SAT)
__CPROVER_assigns(self->_sessions.val->lastActivity, self->_sessions.val->lastWriteProgress, self->_sessions.val->wq, self->_sessions.val->wantWrite, self->_sessions.val->closed,
                  self->_listeners.val->wq, self->_listeners.val->wantWrite,
                  self->_atomicStats.bytesOut, self->_atomicStats.backpressureCloses, self->_atomicStats.closed, self->_atomicStats.sessionsCurrent,
                  self->_peerIndex, self->_sessions.has, self->_tags, self->_cbMutex.held, self->_sessionRwMutex.held,
                  TX_GHOSTS, EPOLL_GHOSTS, CLOSE_GHOSTS)
__CPROVER_frees(self->_sessions.val)
/* SD0 unknown or closed session: nothing is sent, queued or notified */ __CPROVER_ensures(!SD_OPEN ==> (G_tx_calls == 0 && G_closeCb_calls == P0.cb_calls && L0->wq.hi == P0.lq_hi && L0->wq.lo == P0.lq_lo))
/* SD1a at most one datagram per send command */ __CPROVER_ensures(G_tx_calls <= 1)
/* SD1b an open session with a socket gets exactly one attempt */ __CPROVER_ensures((SD_OPEN && (SD_CLIENT || SD_LST)) ==> SD_SENT)
/* SD1c listener gone: no attempt, the session is closed once */ __CPROVER_ensures((SD_OPEN && !SD_CLIENT && !SD_LST) ==> (G_tx_calls == 0 && SD_CLOSED_ONCE(TransportError_Unknown)))
/* SD2 byte-identical: the complete payload, in one piece */ __CPROVER_ensures(SD_SENT ==> (G_tx_p == SD_P0 && G_tx_n >= 0 && (size_t)G_tx_n == SD_N0 && G_tx_flags == MSG_NOSIGNAL))
/* SD3c connected client: on the session's own connected socket */ __CPROVER_ensures((SD_SENT && SD_CLIENT) ==> (!G_tx_is_sendto && G_tx_fd == P0.s_fd))
/* SD3l listener-side session: through the owner listener's socket, addressed to THIS session's peer (length and every byte GB) */ __CPROVER_ensures((SD_SENT && !SD_CLIENT) ==> (G_tx_is_sendto && G_tx_fd == P0.l_fd && G_tx_tolen == SD_PLEN0 && G_tx_to_gb == (GB < SD_PLEN0 ? SD_PEER0_GB : 0)))
/* SD4 taken by the kernel: nothing queued, nobody closed */ __CPROVER_ensures((SD_SENT && G_tx_ret >= 0) ==> (SD_ALIVE && S0->wq.hi == P0.cq_hi && L0->wq.hi == P0.lq_hi && G_closeCb_calls == P0.cb_calls))
/* SD5a EAGAIN on a listener: queued as exactly ONE element */ __CPROVER_ensures((SD_SENT && !SD_CLIENT && SD_EAGAIN) ==> L0->wq.hi == P0.lq_hi + 1)
/* SD5b that element is the whole payload with this session's destination (bytes beyond plen are zero) */ __CPROVER_ensures((SD_SENT && !SD_CLIENT && SD_EAGAIN && GQ == P0.lq_hi) ==> (L0->wq.w.payload.p == SD_P0 && L0->wq.w.payload.n == SD_N0 && L0->wq.w.toLen == SD_PLEN0 && L0->wq.w.to.b[GB] == (GB < SD_PLEN0 ? SD_PEER0_GB : 0)))
/* SD5c every other queued datagram is untouched (never merged) */ __CPROVER_ensures((GQ != P0.lq_hi || !(SD_SENT && !SD_CLIENT && SD_EAGAIN)) ==> (L0->wq.w.payload.p == P0.lq_w_p && L0->wq.w.payload.n == P0.lq_w_n && L0->wq.w.toLen == P0.lq_w_tolen && L0->wq.w.to.b[GB] == P0.lq_w_to_gb))
/* SD5d overflow policy: close the sender once (closeOnBackpressure) or drop the OLDEST datagram; otherwise nothing leaves the queue */ __CPROVER_ensures((SD_SENT && !SD_CLIENT && SD_EAGAIN) ==> (SD_LQ_OVER ? (self->_config.closeOnBackpressure ? (SD_CLOSED_ONCE(TransportError_WriteBackpressure) && L0->wq.lo == P0.lq_lo) : (SD_ALIVE && L0->wq.lo == P0.lq_lo + 1)) : (SD_ALIVE && L0->wq.lo == P0.lq_lo)))
/* SD5e write interest armed while something is queued (no lost re-arm) */ __CPROVER_ensures((SD_SENT && !SD_CLIENT && SD_EAGAIN) ==> (L0->wantWrite && G_modEpoll_fd == L0->fd && (L0->wq.lo < L0->wq.hi ==> (G_modEpoll_ev & EPOLLOUT) != 0)))
/* SD5f listener queue only grows on that path */ __CPROVER_ensures(!(SD_SENT && !SD_CLIENT && SD_EAGAIN) ==> (L0->wq.hi == P0.lq_hi && L0->wq.lo == P0.lq_lo))
/* SD6a EAGAIN on a connected client, no overflow close: queued as exactly ONE element, whole payload */ __CPROVER_ensures((SD_SENT && SD_CLIENT && SD_EAGAIN && SD_ALIVE) ==> (S0->wq.hi == P0.cq_hi + 1 && (GQ == P0.cq_hi ==> (S0->wq.w.p == SD_P0 && S0->wq.w.n == SD_N0)) && (GQ != P0.cq_hi ==> (S0->wq.w.p == P0.cq_w_p && S0->wq.w.n == P0.cq_w_n))))
/* SD6b overflow policy on the client queue */ __CPROVER_ensures((SD_SENT && SD_CLIENT && SD_EAGAIN) ==> (SD_CQ_OVER ? (self->_config.closeOnBackpressure ? SD_CLOSED_ONCE(TransportError_WriteBackpressure) : (SD_ALIVE && S0->wq.lo == P0.cq_lo + 1)) : (SD_ALIVE && S0->wq.lo == P0.cq_lo)))
/* SD6c write interest armed */ __CPROVER_ensures((SD_SENT && SD_CLIENT && SD_EAGAIN && SD_ALIVE) ==> (S0->wantWrite && G_modEpoll_fd == S0->fd && (S0->wq.lo < S0->wq.hi ==> (G_modEpoll_ev & EPOLLOUT) != 0)))
/* SD7 hard socket error: the session is closed exactly once, nothing is queued */ __CPROVER_ensures((SD_SENT && SD_HARD) ==> SD_CLOSED_ONCE(TransportError_Socket))
/* SD8 no close on any other path */ __CPROVER_ensures((SD_SENT && !SD_HARD && !(SD_EAGAIN && self->_config.closeOnBackpressure && (SD_CLIENT ? SD_CQ_OVER : SD_LQ_OVER))) ==> (SD_ALIVE && G_closeCb_calls == P0.cb_calls))
/* L1 no lock left held */ __CPROVER_ensures(IORA_NO_LOCK_HELD(self))
;
void h_sendDo(void)
{
  UdpEngine *e; SendReq *sr;
  UdpEngine_sendDo(e, sr);
  IORA_CANARY("h_sendDo: returns");
  if (G_tx_calls == 0) { IORA_CANARY("h_sendDo: nothing sent"); }
  else if (G_tx_ret >= 0) { IORA_CANARY("h_sendDo: accepted by the kernel"); }
  else if (G_tx_errno == EAGAIN) { if (G_tx_is_sendto) { IORA_CANARY("h_sendDo: queued on the listener"); } else { IORA_CANARY("h_sendDo: queued on the client"); } }
  else { IORA_CANARY("h_sendDo: hard error"); }
  if (G_closeCb_calls) { IORA_CANARY("h_sendDo: session closed"); }
}

/* ============================ writeClient ============================ */
#define WCQ0_LO __CPROVER_old(s->wq.lo)
#define WC_ALIVE (G_tx_err == 0)          /* no hard error: the session object still exists */
void UdpEngine_writeClient_contract(UdpEngine *self, Session *s)
__CPROVER_requires(IORA_TRUE && __CPROVER_is_fresh(self, sizeof(*self)) && __CPROVER_is_fresh(s, sizeof(*s)))
__CPROVER_requires(s->wq.lo <= s->wq.hi && G_lo0 == s->wq.lo && TX_ZERO && G_cb0 == G_closeCb_calls)
__CPROVER_requires((s->wq.lo <= GQ && GQ < s->wq.hi) ==> s->wq.w.n <= INT_MAX_)
/* the session is open, owned by the table, and the engine invariants closeNow relies on hold (see closenow_contract.h) */
__CPROVER_requires(WC_CLOSE_PRE)
__CPROVER_assigns(s->wq.lo, s->wq.other, s->wantWrite, s->lastWriteProgress, self->_atomicStats.bytesOut, TX_GHOSTS, EPOLL_GHOSTS, WC_CLOSE_TARGETS)
__CPROVER_frees(s)
/* WC1 position arithmetic: one pop per accepted send; at most one EAGAIN / hard error, which ends the flush */ __CPROVER_ensures(G_tx_calls == G_tx_ok + G_tx_again + G_tx_err && G_tx_again + G_tx_err <= 1)
/* WC2 one pop per accepted datagram */ __CPROVER_ensures(WC_ALIVE ==> (s->wq.lo == WCQ0_LO + G_tx_ok && s->wq.lo <= s->wq.hi))
/* WC3 EAGAIN keeps the datagram at the front and arms EPOLLOUT */ __CPROVER_ensures(G_tx_again == 1 ==> (s->wq.lo < s->wq.hi && G_front_lo == s->wq.lo && s->wantWrite && (G_modEpoll_ev & EPOLLOUT) != 0 && G_modEpoll_fd == s->fd))
/* WC4 no EAGAIN, no error: drained, write interest dropped */ __CPROVER_ensures((G_tx_again == 0 && WC_ALIVE) ==> (s->wq.lo == s->wq.hi && !s->wantWrite && (G_modEpoll_ev & EPOLLOUT) == 0 && G_modEpoll_calls > 0))
/* WC5 every datagram handed to send exactly once, in queue order; none beyond the point where the flush stopped */ __CPROVER_ensures(G_txw_calls == ((WCQ0_LO <= GQ && GQ < WCQ0_LO + G_tx_calls) ? (size_t)1 : (size_t)0))
/* WC6 with ITS payload pointer and full length (never split, never merged) */ __CPROVER_ensures(G_txw_calls == 1 ==> (G_txw_p == __CPROVER_old(s->wq.w.p) && G_txw_n >= 0 && (size_t)G_txw_n == __CPROVER_old(s->wq.w.n)))
/* WC7 on the session's connected socket */ __CPROVER_ensures(G_tx_calls > 0 ==> (!G_tx_is_sendto && G_tx_fd == __CPROVER_old(s->fd)))
/* WC8 hard error: the session is closed exactly once (reason Socket) */ __CPROVER_ensures(G_tx_err == 1 ==> (G_closeCb_calls == __CPROVER_old(G_closeCb_calls) + (__CPROVER_old(self->_cbs.onClose.set) ? 1u : 0u) && (__CPROVER_old(self->_cbs.onClose.set) ==> (G_closeCb_sid == __CPROVER_old(s->id) && G_closeCb_why == TransportError_Socket)) && (__CPROVER_old(s->id) == GSID ==> !self->_sessions.has)))
/* WC9 otherwise nobody is closed */ __CPROVER_ensures(WC_ALIVE ==> (G_closeCb_calls == __CPROVER_old(G_closeCb_calls) && !s->closed))
/* L1 no lock left held */ __CPROVER_ensures(IORA_NO_LOCK_HELD(self))
;
void h_writeClient(void)
{
  UdpEngine *e; Session *s;
  UdpEngine_writeClient(e, s);
  IORA_CANARY("h_writeClient: returns");
  if (G_tx_again) { IORA_CANARY("h_writeClient: stopped by EAGAIN"); } else if (G_tx_err) { IORA_CANARY("h_writeClient: hard error, session closed"); } else { IORA_CANARY("h_writeClient: drained"); }
  if (G_txw_calls) { IORA_CANARY("h_writeClient: witness element sent"); }
}
