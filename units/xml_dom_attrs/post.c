/* ---------- decodeEntities: assert / havoc / assume stub from the proved contract + recording ---------- */
#undef ENS
#undef RV
#undef OLD
#define ENS(...) IORA_ASSUME((__VA_ARGS__));
#define RV iora_rv
#define OLD(x) ({ const iora_ostr *out = &iora_oldo; (x); })
DEC_SIG(Parser_decodeEntities)
{
  IORA_ASSERT(DEC_MEM, "decodeEntities: precondition (requires of its proved contract) holds at the call: the attribute value is a valid slice");
  iora_ostr iora_oldo = *out;
  size_t idx = G_dec_calls; G_dec_calls++;
  { size_t h; out->n = h; } { char h; out->gk = h; } { uint64_t h; G_val = h; } if (err != NULL) { Error h; *err = h; }
  bool iora_rv = nondet_bool();
  DEC_POST
  if (idx == GA)
  {
    /* decodeEntities is a FUNCTION of its input slice: a second call on the same slice (harness h_attrs_same) gives the recorded result */
    if (G_rec_seen == 1 && XML_SAME_SV(G_rec_in, in)) { IORA_ASSUME(iora_rv == (G_rec_ok == 1) && out->n == G_rec_out.n && out->gk == G_rec_out.gk); }
    G_rec_seen = 1; G_rec_in = in; G_rec_ok = iora_rv ? 1 : 0; G_rec_out = *out;
  }
  if (!iora_rv) { G_dec_fails++; if (err != NULL) G_last_err = *err; }
  return iora_rv;
}

/* ---------- harness ---------- */
#define CK(c, label) __CPROVER_assert((c), label)
static void setup(Token *T)
{
  IORA_TRUE = 1;
  __CPROVER_assume((G_input.n >> 40) == 0);
  G_input.p = (const char *)malloc(G_input.n);
  __CPROVER_assume(G_input.p != NULL);
  /* what next() guarantees about the token (xml_next N9): the witness attribute's slices lie inside the input */
  size_t o1 = nondet_size_t(), l1 = nondet_size_t(), o2 = nondet_size_t(), l2 = nondet_size_t();
  __CPROVER_assume(o1 <= G_input.n && l1 <= G_input.n - o1 && o2 <= G_input.n && l2 <= G_input.n - o2);
  T->attributes.gk.name.p = G_input.p + o1; T->attributes.gk.name.n = l1; T->attributes.gk.value.p = G_input.p + o2; T->attributes.gk.value.n = l2;
}
#define RUN(fn, D, E, errOut, failed) do { (D).n = 0; G_dec_calls = 0; G_dec_fails = 0; failed = 0; fn(&T, &(D), errOut, &failed); } while (0)
/* the clauses, for one run */
#define CLAUSES(D, failed, errOut, tag) \
  CK(!failed ==> ((D).n == T.attributes.n && G_dec_calls == T.attributes.n && G_dec_fails == 0), tag " A1 success: one DOM attribute per token attribute, each decoded exactly once"); \
  CK((!failed && GA < (D).n) ==> XML_SAME_SV((D).gname, T.attributes.gk.name), tag " A2 DOM attribute GA carries the name of token attribute GA"); \
  CK((!failed && GA < (D).n) ==> (G_rec_seen == 1 && XML_SAME_SV(G_rec_in, T.attributes.gk.value) && G_rec_ok == 1), tag " A2 decodeEntities was applied to exactly the value slice of attribute GA and succeeded"); \
  CK((!failed && GA < (D).n) ==> ((D).gval.n == G_rec_out.n && (D).gval.gk == G_rec_out.gk), tag " A2 the stored value IS the DECODED string decodeEntities produced for that slice (length + witness byte GK)"); \
  CK(failed == (G_dec_fails == 1) && G_dec_fails <= 1, tag " A3 failure <=> a decodeEntities call failed (the loop stops at the first one)"); \
  CK(failed ==> ((D).n + 1 == G_dec_calls), tag " A3 decode failure: nothing is stored for the failing attribute"); \
  CK((failed && errOut != NULL) ==> (errOut->offset == G_last_err.offset && errOut->message == G_last_err.message), tag " A3 decode failure is reported as the error decodeEntities produced")

void h_attrs_start(void)
{
  Token T; iora_domattrs D; Error E; Error *errOut = nondet_bool() ? &E : NULL; int failed;
  setup(&T); G_rec_seen = 0;
  RUN(DomBuilder_attrs_start, D, E, errOut, failed);
  IORA_CANARY("h_attrs_start: returns");
  CLAUSES(D, failed, errOut, "StartElement:");
  if (failed) { IORA_CANARY("h_attrs_start: decode failure"); } else if (GA < D.n) { IORA_CANARY("h_attrs_start: attribute stored"); }
}
void h_attrs_empty(void)
{
  Token T; iora_domattrs D; Error E; Error *errOut = nondet_bool() ? &E : NULL; int failed;
  setup(&T); G_rec_seen = 0;
  RUN(DomBuilder_attrs_empty, D, E, errOut, failed);
  IORA_CANARY("h_attrs_empty: returns");
  CLAUSES(D, failed, errOut, "EmptyElement:");
  if (failed) { IORA_CANARY("h_attrs_empty: decode failure"); } else if (GA < D.n) { IORA_CANARY("h_attrs_empty: attribute stored"); }
}
/* the two cases store the same thing for the same token (decodeEntities being a function of its input) */
void h_attrs_same(void)
{
  Token T; iora_domattrs D1, D2; Error E; int f1, f2;
  setup(&T); G_rec_seen = 0;
  RUN(DomBuilder_attrs_start, D1, E, NULL, f1);
  RUN(DomBuilder_attrs_empty, D2, E, NULL, f2);
  IORA_CANARY("h_attrs_same: returns");
  CK((!f1 && !f2) ==> D1.n == D2.n, "A4 StartElement and EmptyElement store the same NUMBER of attributes for the same token");
  CK((!f1 && !f2 && GA < D1.n) ==> (XML_SAME_SV(D1.gname, D2.gname) && D1.gval.n == D2.gval.n && D1.gval.gk == D2.gval.gk),
     "A4 StartElement and EmptyElement store the same name and the same (decoded) value for attribute GA of the same token");
  if (!f1 && !f2 && GA < D1.n) { IORA_CANARY("h_attrs_same: both stored"); }
}
