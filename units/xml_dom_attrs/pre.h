/* unit xml_dom_attrs: the two attribute loops of DomBuilder::build (case StartElement, case EmptyElement) as BLOCK targets of the real text.
 * decodeEntities = assert/havoc/assume stub from the contract proved in unit xml_decode (../xml_decode/contracts.h, same text) that additionally
 * RECORDS the argument and the result of its GA-th call; the DOM node's attribute vector = recording stub (witness element at index GA). */
#define XML_GHOST_INLINE
#define XML_STUB_MODE
#include "iora_xml.h"
#include "../xml_entities/contracts.h"
#include "../xml_decode/contracts.h"
/* `Error tmp{};` : default member initialisers of struct Error (offset 0, line 1, column 1, empty message) */
#define Error_DEFAULT ((Error){0, 1, 1, 0})
iora_sv G_input;                      /* ghost: the parser's input; every attribute slice of the token lies inside it */
#define XML_SV_IN_INPUT(v) ((v).n == 0 || (__CPROVER_same_object((v).p, G_input.p) && (v).n <= G_input.n \
   && (size_t)(__CPROVER_POINTER_OFFSET((v).p) - __CPROVER_POINTER_OFFSET(G_input.p)) <= G_input.n - (v).n))
#define XML_SAME_SV(a, b) ((a).p == (b).p && (a).n == (b).n)
/* element k of the token's attribute vector: the witness attribute if k == GA, otherwise an arbitrary attribute whose slices lie inside the input */
static inline Attribute iora_attrvec_get(const iora_attrvec *v, size_t k)
{
  IORA_ASSERT(k < v->n, "attribute index in range");
  if (k == GA) return v->gk;
  Attribute a; size_t o1 = nondet_size_t(), l1 = nondet_size_t(), o2 = nondet_size_t(), l2 = nondet_size_t();
  IORA_ASSUME(o1 <= G_input.n && l1 <= G_input.n - o1 && o2 <= G_input.n && l2 <= G_input.n - o2);
  a.name.p = G_input.p + o1; a.name.n = l1; a.value.p = G_input.p + o2; a.value.n = l2;
  return a;
}
/* Node::attributes (std::vector<Node::Attr>) of the element under construction: length + witness element at index GA (name as the slice it was
 * copied from, value as a string = length + witness byte at GK) */
typedef struct { size_t n; iora_sv gname; iora_ostr gval; } iora_domattrs;
static inline void iora_domattrs_push(iora_domattrs *d, iora_sv name, iora_ostr value)
{
  if (d->n == GA) { d->gname = name; d->gval = value; }
  IORA_ASSERT(d->n < (size_t)-1, "vector growth");
  d->n++;
}
/* std::string(string_view): a string with the bytes of the slice */
static inline iora_ostr iora_ostr_from_sv(iora_sv s) { iora_ostr r; r.n = s.n; r.gk = (GK < s.n) ? s.p[GK] : 0; return r; }
#define IORA_DOMVAL(x) (x)
DEC_SIG(Parser_decodeEntities);

/* ghost record of decodeEntities' GA-th call (argument slice, result, output) and of the last failing call */
size_t G_dec_calls; unsigned G_dec_fails; int G_rec_seen; iora_sv G_rec_in; int G_rec_ok;   /* ints, not bools: a havocked _Bool can hold a non-canonical value */
 iora_ostr G_rec_out; Error G_last_err;
/* both loops: attribute k of the token has been decoded by call k and stored as DOM attribute k */
#define XML_DOM_STORED(d) (XML_SAME_SV((d)->gname, t->attributes.gk.name) && G_rec_seen == 1 && XML_SAME_SV(G_rec_in, t->attributes.gk.value) && G_rec_ok == 1 \
   && (d)->gval.n == G_rec_out.n && (d)->gval.gk == G_rec_out.gk)
/* (*errOut and *iora_failed are written only on the path that leaves the loop; plain loop contracts take no conditional targets) */
#define XML_LE(x) __CPROVER_loop_entry(x)
#define XML_DOM_LOOP IORA_LC( \
  __CPROVER_assigns(iora_k, attrs->n, attrs->gname, attrs->gval, G_dec_calls, G_dec_fails, G_rec_seen, G_rec_in, G_rec_ok, G_rec_out, G_last_err, G_val) \
  __CPROVER_loop_invariant(iora_k <= t->attributes.n && attrs->n == iora_k && G_dec_calls == iora_k && G_dec_fails == 0 && *iora_failed == 0) \
  __CPROVER_loop_invariant(GA < iora_k ==> XML_DOM_STORED(attrs)) \
  __CPROVER_loop_invariant(GA >= iora_k ==> (G_rec_seen == XML_LE(G_rec_seen) && G_rec_in.p == XML_LE(G_rec_in.p) && G_rec_in.n == XML_LE(G_rec_in.n) && G_rec_ok == XML_LE(G_rec_ok) \
       && G_rec_out.n == XML_LE(G_rec_out.n) && G_rec_out.gk == XML_LE(G_rec_out.gk))) \
  /* a record made by an EARLIER run for the same value slice stays what it was (decodeEntities is a function of its input) */ \
  __CPROVER_loop_invariant((XML_LE(G_rec_seen) == 1 && XML_LE(G_rec_in.p) == t->attributes.gk.value.p && XML_LE(G_rec_in.n) == t->attributes.gk.value.n) ==> \
       (G_rec_seen == 1 && G_rec_in.p == XML_LE(G_rec_in.p) && G_rec_in.n == XML_LE(G_rec_in.n) && G_rec_ok == XML_LE(G_rec_ok) && G_rec_out.n == XML_LE(G_rec_out.n) && G_rec_out.gk == XML_LE(G_rec_out.gk))) \
  __CPROVER_decreases(t->attributes.n - iora_k))
#define IORA_LOOP_DomBuilder_attrs_start_1 XML_DOM_LOOP
#define IORA_LOOP_DomBuilder_attrs_empty_1 XML_DOM_LOOP
