/* type environment + ABSTRACT FILE SYSTEM ghost for unit kv_compact (KVStore::compactLocked, property C11)
 *
 * Abstract directory image of one store: { snapshot: OLD | NEW, temporary: NONE | PARTIAL | COMPLETE, log: FULL | EMPTY }.
 *   OLD  = the snapshot as it was before this compaction; NEW = image of the in-memory state (== OLD replayed with the FULL log);
 *   FULL = every acknowledged record since OLD; EMPTY = truncated.
 * recover(fs) = snapshot replayed with log.  It is ADMISSIBLE (shows the effect of every acknowledged operation) iff
 *     (snapshot == OLD && log == FULL)  ||  snapshot == NEW          (replaying the FULL log over NEW is idempotent: property anchor)
 * A crash can only be observed at a file-system call, so every FS-mutating stub asserts admissibility BEFORE and AFTER its effect
 * (KV_CRASH_POINT): that covers every crash point of the operation for all inputs.  The temporary file never takes part in recovery. */
#ifndef IORA_LIMIT_int64_t_min
#define IORA_LIMIT_int64_t_min ((int64_t)(-0x7fffffffffffffffLL - 1))
#endif
#define EXC_KVStoreException 1
typedef int64_t iora_tp;
enum { SNAP_OLD = 0, SNAP_NEW = 1, SNAP_TORN = 2 };
enum { TMP_NONE = 0, TMP_PARTIAL = 1, TMP_COMPLETE = 2 };
enum { LOG_FULL = 0, LOG_EMPTY = 1 };
enum { KV_PATH_SNAP = 1, KV_PATH_TMP = 2, KV_PATH_LOG = 3 };
#define KV_IOS_binary 4
#define KV_IOS_trunc 16
#define KV_IOS_app 1
typedef struct { int snap; int tmp; int log; } kv_fs;
kv_fs G_fs;
/* ghost bookkeeping of what has been written into the temporary snapshot */
bool G_tmp_hdr, G_tmp_count; size_t G_tmp_records; size_t G_tmp_expected;   /* header written, count written, records written, value of the count field */
unsigned G_renames;
#define KV_ADMISSIBLE ((G_fs.snap == SNAP_OLD && G_fs.log == LOG_FULL) || G_fs.snap == SNAP_NEW)
#define KV_CRASH_POINT() IORA_ASSERT(KV_ADMISSIBLE, "CRASH a crash at this file-system call recovers an admissible state (old snapshot + full log, or new snapshot)")

static inline iora_tp iora_clock_now(void) { return nondet_i64(); }
#define KV_LOCK_NOTE(m) ((void)0)
typedef struct { int v; } iora_ec;
#define iora_ec_DEFAULT ((iora_ec){0})
typedef struct { iora_tp expiry; uint64_t timerId; } ExpiryEntry;
#define ExpiryEntry_DEFAULT ((ExpiryEntry){0, InvalidTimerId})
typedef struct { iora_vec value; iora_tp expiry; } CacheEntry;
#define CacheEntry_DEFAULT ((CacheEntry){{0, 0}, 0})
#ifndef iora_vec_DEFAULT
#define iora_vec_DEFAULT ((iora_vec){0, 0})
#endif
IORA_SMAP1(iora_kvmap, iora_vec, iora_vec_DEFAULT)
IORA_SMAP1_ITER(iora_kvmap, iora_vec)
IORA_SMAP1(iora_expmap, ExpiryEntry, ExpiryEntry_DEFAULT)
IORA_SMAP1(iora_cachemap, CacheEntry, CacheEntry_DEFAULT)
static inline size_t iora_kvmap_size(const iora_kvmap *m) { return m->n; }
static inline iora_vec *iora_kvmap_at(iora_kvmap *m, iora_skey k)
{ IORA_ASSERT(iora_kvmap_contains(m, k) || !k.is_g, "unordered_map::at: key present"); return k.is_g ? &m->val : &m->other; }

/* std::vector<std::string> the code only appends to and iterates: a counter; the keys it yields are arbitrary */
typedef struct { size_t n; bool has_g; /* the ghost key was pushed */ } kv_strvec;
#define kv_strvec_DEFAULT ((kv_strvec){0, 0})
static inline void kv_strvec_reserve(kv_strvec *v, size_t n) { (void)v; (void)n; }
static inline void kv_strvec_push_back(kv_strvec *v, iora_skey k) { if (k.is_g) v->has_g = true; IORA_ASSERT(v->n < (size_t)-1, "vector growth"); v->n++; }
static inline size_t kv_strvec_size(const kv_strvec *v) { return v->n; }
static inline bool kv_strvec_empty(const kv_strvec *v) { return v->n == 0; }
static inline iora_skey kv_strvec_at(const kv_strvec *v, size_t i)
{ IORA_ASSERT(i < v->n, "vector index in range"); iora_skey k; k.p = NULL; k.n = nondet_size_t(); k.is_g = v->has_g && nondet_bool(); return k; }

/* std::ofstream on one of the three paths */
typedef struct { bool open; bool failed; int path; } kv_ofs;
#define kv_ofs_DEFAULT ((kv_ofs){0, 0, 0})
/* ofstream(path, mode | trunc): may fail (then the file is untouched); success TRUNCATES the file */
static inline kv_ofs kv_ofs_ctor(int path, int mode)
{
  kv_ofs s; s.path = path; s.failed = false;
  IORA_ASSERT(mode & KV_IOS_trunc, "ghost: only truncating opens are modelled here");
  KV_CRASH_POINT();
  if (nondet_bool()) { s.open = false; s.failed = true; return s; }
  s.open = true;
  if (path == KV_PATH_TMP) { G_fs.tmp = TMP_PARTIAL; G_tmp_hdr = false; G_tmp_count = false; G_tmp_records = 0; }
  else if (path == KV_PATH_LOG) {
    IORA_ASSERT(G_fs.snap == SNAP_NEW, "ORD the log is truncated only after the rename of the new snapshot has succeeded");
    G_fs.log = LOG_EMPTY; }
  else { IORA_ASSERT(0, "ORD the snapshot itself is never truncated in place"); G_fs.snap = SNAP_TORN; }
  KV_CRASH_POINT();
  return s;
}
static inline bool kv_ofs_is_open(const kv_ofs *s) { return s->open; }
static inline bool kv_ofs_good(const kv_ofs *s) { return s->open && !s->failed; }
static inline void kv_ofs_close(kv_ofs *s) { s->open = false; }
/* any write may fail (then the stream stays failed); bytes written to the temporary never change recover(fs) */
static inline bool kv_ofs_put(kv_ofs *s) { if (!s->open) s->failed = true; if (!s->failed && nondet_bool()) s->failed = true; return !s->failed; }
static inline bool kv_ofs_write(kv_ofs *s, const void *p, size_t n)
{ IORA_ASSERT(s->path == KV_PATH_TMP && n == 4, "ghost: the only direct write is the 32-bit entry count of the temporary snapshot");
  bool ok = kv_ofs_put(s); if (ok) { G_tmp_count = true; G_tmp_expected = *(const uint32_t *)p; } return ok; }
static inline void kv_ofs_flush(kv_ofs *s)
{ KV_CRASH_POINT();
  if (kv_ofs_put(s) && s->path == KV_PATH_TMP && G_tmp_hdr && G_tmp_count && G_tmp_records == G_tmp_expected) G_fs.tmp = TMP_COMPLETE;
  KV_CRASH_POINT(); }
typedef struct { int _tempPath; int _path; int _logPath; iora_kvmap _kv; iora_expmap _expiry; iora_cachemap _cache; kv_ofs _logStream; int _cacheMutex; } KVStore;
static inline bool KVStore_writeHeader_stub(const KVStore *self, kv_ofs *o) { (void)self; bool ok = kv_ofs_put(o); if (ok) G_tmp_hdr = true; return ok; }
static inline bool KVStore_writeKeyValue_stub(const KVStore *self, kv_ofs *o, iora_skey key, int64_t expiryMs, iora_vec value)
{ (void)self; (void)key; (void)expiryMs; (void)value; bool ok = kv_ofs_put(o); if (ok && G_tmp_records < (size_t)-1) G_tmp_records++; return ok; }
static inline int64_t KVStore_toEpochMs_stub(iora_tp tp) { (void)tp; return nondet_i64(); }
/* rename(tmp -> snapshot): atomic (trusted); may fail (nothing changes) */
static inline void kv_fs_rename(int from, int to, iora_ec *ec)
{
  IORA_ASSERT(from == KV_PATH_TMP && to == KV_PATH_SNAP, "ghost: the only rename is temporary -> snapshot");
  KV_CRASH_POINT();
  IORA_ASSERT(G_fs.tmp == TMP_COMPLETE, "REN only a COMPLETE temporary snapshot (header, count, every survivor, flushed without error) is renamed over the snapshot");
  if (G_renames < 1000) G_renames++;
  if (nondet_bool()) { ec->v = 5; return; }
  ec->v = 0; G_fs.snap = (G_fs.tmp == TMP_COMPLETE) ? SNAP_NEW : SNAP_TORN; G_fs.tmp = TMP_NONE;
  KV_CRASH_POINT();
}
static inline void kv_fs_remove(int path, iora_ec *ec)
{ IORA_ASSERT(path == KV_PATH_TMP, "ORD only the temporary file is ever removed"); KV_CRASH_POINT(); ec->v = 0; G_fs.tmp = TMP_NONE; KV_CRASH_POINT(); }
/* openLogFile(): re-opens the log for appending; may throw */
static inline void KVStore_openLogFile_stub(KVStore *self)
{ if (nondet_bool()) { iora_exc = EXC_KVStoreException; return; } self->_logStream.open = true; self->_logStream.failed = false; self->_logStream.path = KV_PATH_LOG; }
static inline void KVStore_cancelTimerLocked_stub(KVStore *self, iora_skey key) { (void)self; (void)key; }
#define EXC_exception 100                                  /* catch (const std::exception &): every exception modelled here is-a std::exception */
#define iora_isa(e, t) ((t) == EXC_exception ? (e) != EXC_NONE : (e) == (t))

/* loop 1: survivor selection over _kv */
#define IORA_LOOP_KVStore_compactLocked_1 IORA_LC( \
  __CPROVER_assigns(iora_c_key, survivors, dropped) \
  __CPROVER_loop_invariant(iora_c_key.map == &self->_kv && iora_c_key.i <= self->_kv.n && survivors.n <= iora_c_key.i && dropped.n <= iora_c_key.i \
                           && (survivors.has_g ==> self->_kv.has) && (dropped.has_g ==> self->_kv.has)) \
  __CPROVER_decreases(self->_kv.n - iora_c_key.i))
/* loop 2: one record per survivor into the temporary snapshot (the abstract file system is not touched: bytes of the temporary never matter) */
#define IORA_LOOP_KVStore_compactLocked_2 IORA_LC( \
  __CPROVER_assigns(iora_i_key, out.failed, G_tmp_records, iora_exc) \
  __CPROVER_loop_invariant(iora_i_key <= survivors.n && iora_exc == EXC_NONE && out.open && out.path == KV_PATH_TMP && (!out.failed ==> G_tmp_records == iora_i_key)) \
  __CPROVER_decreases(survivors.n - iora_i_key))
/* loops 3, 4: in-memory removal of the expired keys (after the snapshot is in place) */
#define IORA_LOOP_KVStore_compactLocked_3 IORA_LC( \
  __CPROVER_assigns(iora_i_key, self->_kv, self->_expiry) \
  __CPROVER_loop_invariant(iora_i_key <= dropped.n) \
  __CPROVER_decreases(dropped.n - iora_i_key))
#define IORA_LOOP_KVStore_compactLocked_4 IORA_LC( \
  __CPROVER_assigns(iora_i_key, self->_cache) \
  __CPROVER_loop_invariant(iora_i_key <= dropped.n) \
  __CPROVER_decreases(dropped.n - iora_i_key))
