// REPLAY adapter for unit kv_compact (C11): crash injection at the file-system call the ORD clause is about.
// The executable defines rename() itself (symbol interposition, as libstdc++'s std::filesystem::rename calls rename(2)); when armed it _exit()s on
// ENTRY to the rename of the temporary snapshot over the snapshot = a process kill between two file operations of compaction.
// A child process: 5 keys, compact (completes), then acknowledged operations that live only in the log (overwrite, remove, 5 new keys), then the
// second compact() dies at the crash point.  The parent reopens the store: every operation that had returned must be visible.
#include "iora/storage/kvstore.hpp"
#include "replay_io.h"
#include <fcntl.h>
#include <filesystem>
#include <sys/syscall.h>
#include <sys/wait.h>
#include <unistd.h>
static volatile int g_crash = 0;
extern "C" int rename(const char *o, const char *n) { if (g_crash) _exit(77); return (int)syscall(SYS_renameat, AT_FDCWD, o, AT_FDCWD, n); }
using namespace iora::storage;
namespace fs = std::filesystem;
int main(int argc, char **argv) {
  (void)argc; (void)argv;
  fs::path dir = fs::temp_directory_path() / ("iora_replay_kv_compact_" + std::to_string(getpid()));
  fs::remove_all(dir); fs::create_directories(dir);
  std::string file = (dir / "store.bin").string();
  KVStoreConfig cfg; cfg.enableBackgroundCompaction = false;
  pid_t pid = fork();
  if (pid == 0) {
    auto *s = new KVStore(file, cfg);
    for (int i = 1; i <= 5; i++) s->setString("k" + std::to_string(i), "old" + std::to_string(i));
    s->compact();
    s->setString("k1", "new1"); s->remove("k2");
    for (int i = 6; i <= 10; i++) s->setString("k" + std::to_string(i), "new" + std::to_string(i));
    g_crash = 1; s->compact(); _exit(5);
  }
  int st = 0; waitpid(pid, &st, 0);
  if (!WIFEXITED(st) || WEXITSTATUS(st) != 77) { fs::remove_all(dir); replay_io::fail("harness: crash point (rename) not reached"); }
  std::string verdict;
  { KVStore s(file, cfg);
    auto k1 = s.getString("k1"); if (!k1 || *k1 != "new1") verdict += " k1 is not new1;";
    if (s.getString("k2")) verdict += " removed k2 is back;";
    for (int i = 6; i <= 10; i++) if (!s.getString("k" + std::to_string(i))) verdict += " k" + std::to_string(i) + " MISSING;"; }
  fs::remove_all(dir);
  if (!verdict.empty()) replay_io::fail("ORD process killed on entry to rename(tmp -> snapshot) inside compaction; reopen =>" + verdict);
  replay_io::ok("a kill at the rename of compaction loses nothing");
  return 0;
}
