/* Contract of KVStore::compactLocked (property C11: "If the process is killed at any instant - ... in the middle of ... compaction - reopening
 * ... shows, for every key, the effect of the last operation ... that had returned"; anchor: "compaction writes a temporary snapshot, renames it
 * over the snapshot, then truncates the log; replay of the old log over the new snapshot is idempotent").
 * The crash invariant is asserted by every file-system stub (pre.h, KV_CRASH_POINT / ORD / REN); here: frame of the whole operation. */
#define IMPL(a, b) (!(a) || (b))
void h_compact(void)
{
  KVStore st; st._tempPath = KV_PATH_TMP; st._path = KV_PATH_SNAP; st._logPath = KV_PATH_LOG;
  st._kv.has = nondet_bool(); st._kv.n = nondet_size_t(); st._kv.gpos = nondet_size_t(); st._kv.val.n = nondet_size_t(); st._kv.touched = false; st._kv.gtouched = false;
  st._expiry.has = nondet_bool(); st._expiry.val.expiry = nondet_i64(); st._expiry.touched = false; st._expiry.gtouched = false;
  st._cache.has = nondet_bool(); st._cache.touched = false; st._cache.gtouched = false;
  __CPROVER_assume(IMPL(st._kv.has, st._kv.gpos < st._kv.n) && st._kv.n <= 0xFFFFFFFFu);      /* bound: fewer than 2^32 keys (the snapshot's count field is 32 bits) */
  st._logStream.open = true; st._logStream.failed = nondet_bool(); st._logStream.path = KV_PATH_LOG;
  G_fs.snap = SNAP_OLD; G_fs.log = LOG_FULL; G_fs.tmp = nondet_int(); __CPROVER_assume(G_fs.tmp == TMP_NONE || G_fs.tmp == TMP_PARTIAL || G_fs.tmp == TMP_COMPLETE);   /* leftovers of an earlier crash */
  G_tmp_hdr = nondet_bool(); G_tmp_count = nondet_bool(); G_tmp_records = nondet_size_t(); G_tmp_expected = nondet_size_t(); G_renames = 0;
  iora_exc = EXC_NONE; IORA_TRUE = 1;
  KVStore_compactLocked(&st);
  IORA_CANARY("h_compact: returns");
  if (iora_exc == EXC_NONE) { IORA_CANARY("h_compact: compaction completed"); }
  if (iora_exc != EXC_NONE && G_fs.snap == SNAP_NEW) { IORA_CANARY("h_compact: failure after the rename"); }
  if (iora_exc != EXC_NONE && G_fs.snap == SNAP_OLD) { IORA_CANARY("h_compact: failure before the rename"); }
  __CPROVER_assert(KV_ADMISSIBLE, "END after compactLocked (completed or failed) the directory recovers an admissible state");
  __CPROVER_assert(IMPL(G_fs.log == LOG_EMPTY, G_fs.snap == SNAP_NEW), "ORD2 an empty log only together with the new snapshot");
  __CPROVER_assert(IMPL(iora_exc != EXC_NONE, G_fs.tmp == TMP_NONE), "TMP the temporary file is removed on every failure");
  __CPROVER_assert(IMPL(iora_exc == EXC_NONE, G_fs.snap == SNAP_NEW && G_fs.log == LOG_EMPTY && G_fs.tmp == TMP_NONE && st._logStream.open && G_renames == 1), "OK a completed compaction: new snapshot in place, log empty and reopened, no temporary left");
  __CPROVER_assert(iora_exc == EXC_NONE || iora_exc == EXC_KVStoreException, "X1 only KVStoreException");
  __CPROVER_assert(IMPL(G_fs.snap == SNAP_OLD, !st._kv.touched && !st._expiry.touched && !st._cache.touched), "MEM a failed compaction (old snapshot still in place) leaves the in-memory state untouched");
}
