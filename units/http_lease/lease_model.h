/* Monitor model for unit http_lease (C17): HttpClient::_mutex / _cv / _leasedHosts.
 * _leasedHosts is tracked for THE key hostPort of the call (witness key): has == "hostPort is leased". While a thread is parked in a
 * condition-variable wait the mutex is released: the environment (other threads) may change _leasedHosts and _closing arbitrarily. */
#ifndef LEASE_MODEL_H
#define LEASE_MODEL_H
_Bool nondet_bool(void); int64_t nondet_i64(void);
#define EXC_runtime_error 3
typedef struct { bool has; } iora_hset;                 /* std::unordered_set<std::string> restricted to the key hostPort */
typedef const iora_hset *iora_hset_it;
typedef struct { int64_t leaseAcquireTimeout; } LeaseConfig;
typedef struct { bool held; } iora_mutex_g;
typedef struct { int dummy; } iora_cv_g;
typedef struct { iora_mutex_g _mutex; iora_cv_g _cv; iora_hset _leasedHosts; bool _closing; LeaseConfig _config; } HttpClient;
typedef struct { int dummy; } iora_ulock_g;
typedef struct { int dummy; } ConnectionLease;
int G_tick, G_insert_calls, G_insert_at, G_erase_calls, G_erase_at, G_notify_all_calls, G_notify_at, G_waits, G_locks, G_unlock_scope;
bool G_insert_saw_free;                                  /* at the insert, under the lock, hostPort was NOT leased */
#define L_TICK(v) do { if (G_tick < 1000) G_tick++; v = G_tick; } while (0)
#define L_HELD(self) IORA_ASSERT((self)->_mutex.held, "L4 _leasedHosts / _closing are touched only with _mutex held")
static inline iora_ulock_g iora_lock_acquire(HttpClient *self) { IORA_ASSERT(!self->_mutex.held, "no recursive lock"); self->_mutex.held = true; G_locks++; iora_ulock_g l = {0}; return l; }
static inline iora_hset_it iora_hset_find(const iora_hset *s, iora_sv key) { (void)key; return s->has ? s : NULL; }
static inline iora_hset_it iora_hset_end(const iora_hset *s) { (void)s; return NULL; }
static inline void iora_hset_insert_g(HttpClient *self, iora_sv key)
{ (void)key; L_HELD(self); if (G_insert_calls < 1000) G_insert_calls++; L_TICK(G_insert_at);
  G_insert_saw_free = !self->_leasedHosts.has;
  IORA_ASSERT(!self->_leasedHosts.has, "L1 the lease is inserted only in a critical section in which hostPort is NOT leased (exclusive)");
  self->_leasedHosts.has = true; }
static inline void iora_hset_erase_g(HttpClient *self, iora_sv key) { (void)key; L_HELD(self); if (G_erase_calls < 1000) G_erase_calls++; L_TICK(G_erase_at); self->_leasedHosts.has = false; }
static inline void iora_cv_notify_all(iora_cv_g *c) { (void)c; if (G_notify_all_calls < 1000) G_notify_all_calls++; L_TICK(G_notify_at); }
/* parked: mutex released, anything may happen to the shared state, mutex re-acquired */
static inline void iora_env_step(HttpClient *self) { L_HELD(self); if (G_waits < 1000) G_waits++; self->_leasedHosts.has = nondet_bool(); self->_closing = nondet_bool(); }
bool HttpClient_available(HttpClient *self, iora_sv hostPort);            /* the extracted predicate lambda */
/* cv.wait_for(lock, d, pred): while (!pred()) { if (wait_until(..) == timeout) return pred(); } return true;  => returns pred() evaluated under the lock */
static inline bool iora_cv_wait_for_pred(HttpClient *self, iora_sv hostPort)
{ L_HELD(self); if (HttpClient_available(self, hostPort)) return true; iora_env_step(self); return HttpClient_available(self, hostPort); }
/* cv.wait(lock, pred): returns only with pred() true */
static inline void iora_cv_wait_pred(HttpClient *self, iora_sv hostPort)
{ L_HELD(self); if (HttpClient_available(self, hostPort)) return; iora_env_step(self); IORA_ASSUME(HttpClient_available(self, hostPort)); }
/* cv.wait_until(lock, deadline) WITHOUT predicate: returns after ANY notification / spuriously / at the deadline, shared state arbitrary */
#define IORA_CV_TIMEOUT 1
#define IORA_CV_NO_TIMEOUT 0
static inline int iora_cv_wait_until_nopred(HttpClient *self) { iora_env_step(self); return nondet_bool() ? IORA_CV_TIMEOUT : IORA_CV_NO_TIMEOUT; }
static inline int64_t iora_now(void) { int64_t t = nondet_i64(); IORA_ASSUME(t >= 0 && t <= ((int64_t)1 << 61)); return t; }
static inline ConnectionLease iora_make_lease(HttpClient *self, iora_sv hostPort) { (void)self; (void)hostPort; ConnectionLease l = {0}; return l; }
#define IORA_SET_ABSENT(s, k) (iora_hset_find(&(s), (k)) == iora_hset_end(&(s)))
#define IORA_SCOPE_UNLOCK(self) ((self)->_mutex.held = false, G_unlock_scope++)
static inline void iora_cv_notify_one(iora_cv_g *c) { (void)c; }     /* not notify_all: L3 then fails (lost wake-up risk, see the comment at releaseLease) */
#endif
