int main(){return 0;}
