/* unit http_lease: no extra types */
