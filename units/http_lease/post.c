/* Contracts for unit http_lease (C17 anchor: "at most one cached connection per host:port, used by one exchange at a time"). */
#define LEASE_ZERO (G_tick == 0 && G_insert_calls == 0 && G_erase_calls == 0 && G_notify_all_calls == 0 && G_waits == 0 && G_locks == 0 && G_unlock_scope == 0 && G_insert_at == 0 && G_erase_at == 0 && G_notify_at == 0)
#define LEASE_GHOSTS G_tick, G_insert_calls, G_insert_at, G_insert_saw_free, G_erase_calls, G_erase_at, G_notify_all_calls, G_notify_at, G_waits, G_locks, G_unlock_scope

void HttpClient_acquireLease_contract(HttpClient *self, iora_sv hostPort, ConnectionLease *iora_ret)
__CPROVER_requires(IORA_TRUE && __CPROVER_is_fresh(self, sizeof(*self)) && __CPROVER_is_fresh(iora_ret, sizeof(*iora_ret)) && !self->_mutex.held && iora_exc == EXC_NONE && LEASE_ZERO)
__CPROVER_requires(self->_config.leaseAcquireTimeout <= ((int64_t)1 << 61))      /* durations do not wrap */
__CPROVER_assigns(*self, *iora_ret, iora_exc, LEASE_GHOSTS)
/* L1 (also asserted at the insert itself) a normal return happens only after inserting hostPort in a critical section in which it was NOT leased */
__CPROVER_ensures(iora_exc == EXC_NONE ==> (G_insert_calls == 1 && G_insert_saw_free && self->_leasedHosts.has && !self->_closing))
/* L2 on timeout / shutdown it throws and leaves _leasedHosts unchanged by this thread */
__CPROVER_ensures(iora_exc != EXC_NONE ==> (iora_exc == EXC_runtime_error && G_insert_calls == 0))
__CPROVER_ensures(G_erase_calls == 0 && G_notify_all_calls == 0)
/* L2b it never returns a lease while shutting down, and it does not give up while the host is free (no spurious timeout) */
__CPROVER_ensures((iora_exc != EXC_NONE && !self->_closing) ==> self->_leasedHosts.has)
/* L4 (asserted in every set operation / wait) the shared state is touched only with _mutex held; the lock is taken exactly once */
__CPROVER_ensures(G_locks == 1)
;
void h_acquire(void)
{
  HttpClient *c; iora_sv h; ConnectionLease *l;
  HttpClient_acquireLease(c, h, l);
  IORA_CANARY("h_acquire: returns");
  if (iora_exc == EXC_NONE && G_waits > 0) { IORA_CANARY("h_acquire: lease after waiting"); }
  if (iora_exc == EXC_NONE && G_waits == 0) { IORA_CANARY("h_acquire: lease immediately"); }
  if (iora_exc != EXC_NONE) { IORA_CANARY("h_acquire: timeout / shutdown"); }
}

void HttpClient_releaseLease_contract(HttpClient *self, iora_sv hostPort)
__CPROVER_requires(IORA_TRUE && __CPROVER_is_fresh(self, sizeof(*self)) && !self->_mutex.held && LEASE_ZERO)
__CPROVER_assigns(*self, LEASE_GHOSTS)
/* L3 erases exactly hostPort (once, under the mutex), releases the mutex, THEN wakes ALL waiters (one cv serves every host) */
__CPROVER_ensures(G_erase_calls == 1 && !self->_leasedHosts.has && G_insert_calls == 0)
__CPROVER_ensures(G_locks == 1 && G_unlock_scope == 1 && !self->_mutex.held)
__CPROVER_ensures(G_notify_all_calls == 1 && G_erase_at < G_notify_at)
;
void h_release(void)
{
  HttpClient *c; iora_sv h;
  HttpClient_releaseLease(c, h);
  IORA_CANARY("h_release: returns");
}
