// Scripted engine for the native replays of the Transport sync units: a detail::EngineBase that performs no I/O and starts no thread.
// Transport installs its engine callbacks into it (Impl::setupEngineCallbacks -> setCallbacks); the replay then invokes those callbacks
// directly, exactly as the I/O thread would, and records the commands Transport issues (connect / close).
#pragma once
#include "iora/network/transport_impl.hpp"
using namespace iora::network;
struct ScriptedEngine : detail::EngineBase {
  Callbacks cbs; SessionId next = 1; std::vector<SessionId> closed;
  StartResult start() override { return StartResult::ok(); }
  void stop() override {}
  bool isRunning() const override { return false; }
  TransportErrorInfo lastError() const override { return {}; }
  ListenResult addListener(const std::string &, std::uint16_t, TlsMode) override { return ListenResult::ok(1); }
  ConnectResult connect(const std::string &, std::uint16_t, TlsMode) override { return ConnectResult::ok(next++); }
  ConnectResult connectViaListener(ListenerId, const std::string &, std::uint16_t) override { return ConnectResult::ok(next++); }
  bool close(SessionId s) override { closed.push_back(s); return true; }
  bool send(SessionId, const void *, std::size_t) override { return true; }
  void sendAsync(SessionId, const void *, std::size_t, SendCompleteCallback) override {}
  void setCallbacks(Callbacks c) override { cbs = std::move(c); }
  TransportStats getStats() const override { return {}; }
  TransportAddress getListenerAddress(ListenerId) const override { return {}; }
  TransportAddress getLocalAddress(SessionId) const override { return {}; }
  TransportAddress getRemoteAddress(SessionId) const override { return {}; }
  bool setDscp(SessionId, std::uint8_t) override { return true; }
  std::thread::id getIoThreadId() const override { return {}; }
  void detachForTermination() override {}
  void scheduleSelfDestruct(std::function<void()>) override {}
};
