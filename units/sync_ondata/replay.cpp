// REPLAY adapter for unit sync_ondata: drives the REAL Transport (transport_impl.hpp) through its private engine-injection factory
// with a scripted engine (no sockets, no threads): the engine callbacks that Impl::setupEngineCallbacks() installs are invoked
// directly, exactly as the I/O thread would.  Inputs (from the SEARCH harness):  MAX = config.maxSyncReceiveBuffer,
// CH = chunk lengths (one byte each), CH_N = number of chunks.  Oracle = property C03: what the synchronous reader obtains is a
// gap-free prefix of the byte stream that arrived, and if anything was dropped the reader gets BufferOverflow (not a silent gap).
#include "scripted_engine.h"
#include "replay_io.h"
int main(int argc, char **argv) {
  auto in = replay_io::load(argv[1]);
  std::vector<uint8_t> ch = replay_io::bytes(in["CH"]);
  if (in.count("CH_N")) ch.resize(std::min<size_t>(ch.size(), replay_io::u64(in["CH_N"])));
  TransportConfig cfg; cfg.maxSyncReceiveBuffer = replay_io::u64(in["MAX"]);
  auto eng = std::make_unique<ScriptedEngine>(); ScriptedEngine *e = eng.get();
  auto t = Transport::withEngine(std::move(eng), cfg);
  const SessionId sid = 7;
  if (!t->setReadMode(sid, ReadMode::Sync)) replay_io::fail("setReadMode(Sync) refused");
  // the peer's byte stream: byte k has value k (mod 251), so a gap or a reordering is visible in the content
  std::vector<uint8_t> stream; size_t arrived = 0;
  for (uint8_t len : ch) {
    std::vector<uint8_t> c(len); for (auto &b : c) { b = (uint8_t)(arrived % 251); stream.push_back(b); arrived++; }
    e->cbs.onData(sid, iora::core::BufferView(c.data(), c.size()), std::chrono::steady_clock::now());
    printf("onData(%u bytes)\n", (unsigned)len);
  }
  bool closed = in.count("CLOSE") && replay_io::u64(in["CLOSE"]);
  if (closed) { e->cbs.onClose(sid, TransportErrorInfo{TransportError::PeerClosed, "peer closed"}); printf("onClose\n"); }
  std::vector<uint8_t> got; TransportError err = TransportError::None;
  for (;;) {
    uint8_t buf[64]; size_t len = sizeof buf;
    auto r = t->receiveSync(sid, buf, len, std::chrono::milliseconds(20));
    if (r.isErr()) { err = r.error().code; break; }
    printf("receiveSync -> %zu bytes:", r.value()); for (size_t i = 0; i < r.value(); i++) printf(" %02x", buf[i]); printf("\n");
    got.insert(got.end(), buf, buf + r.value());
  }
  printf("receiveSync -> error %d (%s)\n", (int)err, err == TransportError::BufferOverflow ? "BufferOverflow" : err == TransportError::Timeout ? "Timeout" : "other");
  for (size_t k = 0; k < got.size(); k++)
    if (k >= stream.size() || got[k] != stream[k]) {
      char m[400]; snprintf(m, sizeof m, "C03: byte %zu handed to the synchronous reader is stream byte with value %02x, expected %02x: a gap BEFORE any error was reported "
                            "(bytes dropped by the overflow were skipped silently; a later chunk was appended after overflow was set)", k, got[k], k < stream.size() ? stream[k] : 0);
      replay_io::fail(m); }
  if (closed && got.size() == stream.size() && err != TransportError::PeerClosed) replay_io::fail("C03: everything that arrived before the close must be returned, then PeerClosed");
  if (got.size() < stream.size() && err != TransportError::BufferOverflow) replay_io::fail("C03: bytes were dropped but the reader did not get BufferOverflow");
  replay_io::ok("reader obtained a gap-free prefix of the stream, followed by the right error");
  return 0;
}
