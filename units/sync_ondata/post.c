/* Contract of the Transport onData handler, written from property C03 (not from the code):
 *   "While a session is in synchronous read mode ... the bytes that arrived from the peer in order, each byte exactly once ...
 *    a disabled session delivers nothing, and exceeding the configured buffer bound is reported to the synchronous reader as a
 *    distinct, sticky overflow error after the bytes buffered before it - never as an undetectable gap in what it reads."
 *
 * The handler is loop-free: the harness below is a COMPLETE proof over the full domain (any Impl state satisfying the monitor
 * invariant, any session id, any chunk of 1..2^62 bytes, any mode, buffer present or absent, callback set or not).
 * Frame: all state is in three objects (Impl, the witness buffer, the scratch buffer); they are snapshotted and compared.
 *
 * W = witness session (arbitrary). Case sid == W gives the functional clauses for every session; case sid != W is the frame
 * "the entry of any other session is untouched". */
void h_ondata(void)
{
  Impl impl; SyncReceiveBuffer wbuf, obuf;
  Impl *self = &impl; G_impl = self;
  SessionId W = nondet_u64(), sid = nondet_u64();
  iora_chunk data; iora_time tm;
  iora_engine eng; impl.engine = &eng;
  /* ---- environment: the I/O thread enters an engine callback holding no Transport lock ---- */
  impl.syncMutex.held = 0; impl.callbackMutex.held = 0;
  impl.readModes.guard = &impl.syncMutex; impl.receiveBuffers.guard = &impl.syncMutex; impl.pendingConnects.guard = &impl.syncMutex;
  impl.readModes.wkey = W; impl.receiveBuffers.wkey = W;
  impl.receiveBuffers.wval = &wbuf; impl.receiveBuffers.other = &obuf;
  wbuf.guard = &impl.syncMutex; wbuf.data.guard = &impl.syncMutex; obuf.guard = &impl.syncMutex; obuf.data.guard = &impl.syncMutex;
  __CPROVER_assume(impl.readModes.wval <= ReadMode_Disabled);
  /* _Bool members of the nondeterministic structs: only 0 / 1 */
  impl.shuttingDown = nondet_bool(); impl.readModes.present = nondet_bool(); impl.receiveBuffers.present = nondet_bool(); impl.onDataCb.set = nondet_bool();
  wbuf.hasData = nondet_bool(); wbuf.closed = nondet_bool(); wbuf.flushing = nondet_bool(); wbuf.overflow = nondet_bool();
  /* the chunk is the next piece of the session's stream: 1..2^62 bytes starting at position G_arrived
   * (TcpEngine calls onData only for recv() > 0, tcp_engine.hpp "if (n > 0)"; see NOTES O1 for the empty UDP datagram) */
  G_arrived = nondet_size_t();
  __CPROVER_assume(data.pos == G_arrived && data.n >= 1 && data.n <= STREAM_LIMIT && G_arrived <= STREAM_LIMIT - data.n);
  /* monitor invariant at entry */
  __CPROVER_assume(SRB_INV(&wbuf, G_arrived, impl.shuttingDown, impl.config.maxSyncReceiveBuffer));
  G_cb_calls = 0;

  Impl impl0 = impl; SyncReceiveBuffer w0 = wbuf;
  ReadMode mode0 = (sid == W) ? (impl.readModes.present ? impl.readModes.wval : ReadMode_Async) : 255;
  size_t max = impl.config.maxSyncReceiveBuffer, n0 = wbuf.data.hi - wbuf.data.lo, L = data.n;
  bool present0 = impl.receiveBuffers.present;

  Impl_onData(self, sid, data, tm);
  IORA_CANARY("h_ondata: returns");

  /* ---- every path: locks released, maps and flags of Impl untouched (frame) ---- */
  __CPROVER_assert(!impl.syncMutex.held && !impl.callbackMutex.held, "LK5 no Transport lock is held when the handler returns");
  __CPROVER_assert(impl.readModes.present == impl0.readModes.present && impl.readModes.wval == impl0.readModes.wval
                   && impl.receiveBuffers.present == impl0.receiveBuffers.present && impl.receiveBuffers.wval == impl0.receiveBuffers.wval
                   && impl.shuttingDown == impl0.shuttingDown && impl.config.maxSyncReceiveBuffer == impl0.config.maxSyncReceiveBuffer
                   && impl.activeReceives == impl0.activeReceives && impl.activeFlushes == impl0.activeFlushes,
                   "F1 read modes, buffer map and teardown state are not modified by onData");
  /* ---- sticky flags, on every path ---- */
  __CPROVER_assert(!w0.overflow || wbuf.overflow, "S1 overflow is sticky");
  __CPROVER_assert(w0.closed == wbuf.closed, "S2 closed is not touched by onData");
  __CPROVER_assert(wbuf.waiters == w0.waiters && wbuf.flushing == w0.flushing, "F2 waiters/flushing are not touched by onData");
  /* ---- monitor invariant at exit, for the stream advanced by this chunk iff it was presented to the Sync branch ---- */
  if (sid != W)
  {
    IORA_CANARY("h_ondata: other session");
    __CPROVER_assert(SAME_BUF(wbuf, w0), "F3 the buffer of every other session is untouched");
  }
  else if (mode0 == ReadMode_Sync)
  {
    __CPROVER_assert(G_cb_calls == 0, "D1 Sync mode: the data callback is not invoked");
    if (!present0)
    {
      IORA_CANARY("h_ondata: sync, no buffer");
      __CPROVER_assert(SAME_BUF(wbuf, w0), "F4 no buffer registered: nothing to modify");
    }
    else
    {
      __CPROVER_assert(SRB_INV(&wbuf, G_arrived + L, impl.shuttingDown, max), "INV monitor invariant re-established (stream advanced by the chunk)");
      __CPROVER_assert(wbuf.data.lo == w0.data.lo, "A0 onData never removes buffered bytes");
      if (impl0.shuttingDown && w0.waiters == 0)
      {
        IORA_CANARY("h_ondata: teardown skip");
        __CPROVER_assert(SAME_BUF(wbuf, w0), "T1 teardown without a parked reader: buffer untouched");
      }
      else if (w0.overflow)
      {
        IORA_CANARY("h_ondata: already overflowed");
        __CPROVER_assert(wbuf.data.hi == w0.data.hi, "R1 old(overflow) ==> nothing appended (never an undetectable gap)");
      }
      else if (L > max - n0)
      {
        IORA_CANARY("h_ondata: overflow");
        __CPROVER_assert(wbuf.overflow, "O1 n + len > max ==> overflow set");
        __CPROVER_assert(wbuf.data.hi == w0.data.hi && wbuf.hasData == w0.hasData, "O2 n + len > max ==> nothing appended");
        __CPROVER_assert(wbuf.cv.n_all == (w0.cv.n_all < 0x7fffffffu ? w0.cv.n_all + 1 : w0.cv.n_all), "O3 overflow is signalled to the reader's condition variable (notify_all)");
      }
      else
      {
        IORA_CANARY("h_ondata: append");
        __CPROVER_assert(wbuf.data.hi == w0.data.hi + L && w0.data.hi == data.pos, "A1 n + len <= max ==> exactly the chunk is appended at the end");
        __CPROVER_assert(wbuf.hasData && !wbuf.overflow, "A2 hasData set, no overflow raised");
        __CPROVER_assert(wbuf.cv.n_one == (w0.cv.n_one < 0x7fffffffu ? w0.cv.n_one + 1 : w0.cv.n_one), "A3 arrival is signalled to the reader's condition variable (notify_one)");
      }
    }
  }
  else if (mode0 == ReadMode_Disabled)
  {
    IORA_CANARY("h_ondata: disabled");
    __CPROVER_assert(G_cb_calls == 0, "D2 Disabled mode: the data callback is not invoked");
    __CPROVER_assert(SAME_BUF(wbuf, w0), "D3 Disabled mode: nothing is appended");
  }
  else
  {
    IORA_CANARY("h_ondata: async");
    __CPROVER_assert(SAME_BUF(wbuf, w0), "Y1 Async mode: the sync buffer is untouched");
    __CPROVER_assert(G_cb_calls == (impl0.onDataCb.set ? 1 : 0), "Y2 Async mode: the callback is invoked exactly once iff one is registered");
    __CPROVER_assert(!impl0.onDataCb.set || (G_cb_sid == sid && G_cb_pos == data.pos && G_cb_n == data.n), "Y3 Async mode: the callback receives exactly this chunk");
  }
}

/* ---- onClose step 6, first part (block target): mark the session's buffer closed, or leave a closed tombstone for a late receiver;
 * forget the read mode. From C03 "report peer-closed only after every byte that arrived before the close has been returned":
 * the close must not touch the buffered bytes - it only raises the (sticky) closed flag that receiveSync reports once drained.
 * The rest of the critical section (GC of stale tombstones of OTHER sessions) is not under contract. ---- */
void h_onclose_tombstone(void)
{
  Impl impl; SyncReceiveBuffer wbuf, obuf, fresh; Impl *self = &impl; G_impl = self; G_fresh = &fresh; G_made = 0;
  SessionId W = nondet_u64(), sid = nondet_u64();
  iora_engine eng; impl.engine = &eng;
  impl.syncMutex.held = 0; impl.callbackMutex.held = 0;
  impl.readModes.guard = &impl.syncMutex; impl.receiveBuffers.guard = &impl.syncMutex; impl.pendingConnects.guard = &impl.syncMutex;
  impl.readModes.wkey = W; impl.receiveBuffers.wkey = W;
  impl.receiveBuffers.wval = &wbuf; impl.receiveBuffers.other = &obuf;
  wbuf.guard = &impl.syncMutex; wbuf.data.guard = &impl.syncMutex; obuf.guard = &impl.syncMutex; obuf.data.guard = &impl.syncMutex;
  __CPROVER_assume(impl.readModes.wval <= ReadMode_Disabled);
  impl.shuttingDown = nondet_bool(); impl.readModes.present = nondet_bool(); impl.receiveBuffers.present = nondet_bool();
  wbuf.hasData = nondet_bool(); wbuf.closed = nondet_bool(); wbuf.flushing = nondet_bool(); wbuf.overflow = nondet_bool();
  __CPROVER_assume(wbuf.cv.n_all < 1000);
  G_arrived = nondet_size_t(); __CPROVER_assume(G_arrived <= STREAM_LIMIT);
  __CPROVER_assume(SRB_INV(&wbuf, G_arrived, impl.shuttingDown, impl.config.maxSyncReceiveBuffer));
  Impl impl0 = impl; SyncReceiveBuffer w0 = wbuf; bool present0 = impl.receiveBuffers.present;

  Impl_onClose_tombstone(self, sid);
  IORA_CANARY("h_onclose_tombstone: returns");
  __CPROVER_assert(impl.shuttingDown == impl0.shuttingDown && impl.activeReceives == impl0.activeReceives && impl.activeFlushes == impl0.activeFlushes, "F1 teardown state untouched");
  if (sid != W)
  {
    IORA_CANARY("h_onclose_tombstone: other session");
    __CPROVER_assert(SAME_BUF(wbuf, w0) && impl.receiveBuffers.present == present0 && impl.receiveBuffers.wval == &wbuf && impl.readModes.present == impl0.readModes.present && impl.readModes.wval == impl0.readModes.wval,
                     "F3 buffer, entry and mode of every other session are untouched by this part");
    return;
  }
  __CPROVER_assert(!impl.readModes.present, "K1 the read mode of the closed session is forgotten");
  __CPROVER_assert(impl.receiveBuffers.present, "K2 an entry exists afterwards (a late receiveSync finds the close instead of waiting forever)");
  if (present0)
  {
    IORA_CANARY("h_onclose_tombstone: buffer exists");
    __CPROVER_assert(impl.receiveBuffers.wval == &wbuf && G_made == 0 && wbuf.closed, "K3 existing buffer: closed is set");
    __CPROVER_assert(wbuf.data.lo == w0.data.lo && wbuf.data.hi == w0.data.hi && wbuf.hasData == w0.hasData && wbuf.overflow == w0.overflow && wbuf.waiters == w0.waiters && wbuf.flushing == w0.flushing,
                     "K4 ... and NOTHING else: the bytes that arrived before the close stay buffered (drain before EOF), overflow stays");
    __CPROVER_assert(wbuf.cv.n_all == w0.cv.n_all + 1, "K5 every parked reader is notified (notify_all)");
    __CPROVER_assert(SRB_INV(&wbuf, G_arrived, impl.shuttingDown, impl.config.maxSyncReceiveBuffer), "INV monitor invariant re-established");
  }
  else
  {
    IORA_CANARY("h_onclose_tombstone: tombstone");
    __CPROVER_assert(impl.receiveBuffers.wval == &fresh && G_made == 1 && fresh.closed && fresh.data.lo == fresh.data.hi && !fresh.hasData && !fresh.overflow && fresh.waiters == 0 && !fresh.flushing,
                     "K6 no buffer: a closed, empty tombstone is registered");
    __CPROVER_assert(SAME_BUF(wbuf, w0), "F4 nothing else is touched");
  }
}

#ifdef IORA_SEARCH
/* SEARCH (bounded; only used to obtain a concrete call sequence for REPLAY): a fresh Sync session, up to 3 chunks of 1..8 bytes,
 * buffer bound MAX <= 8. The same shim obligations (SL1/SL2) and INV are checked after every call. */
void h_search(void)
{
  static Impl impl; static SyncReceiveBuffer wbuf, obuf; static iora_engine eng;
  Impl *self = &impl; G_impl = self; impl.engine = &eng;
  uint8_t CH[3]; size_t CH_N = nondet_size_t(); size_t MAX = nondet_size_t();
  IORA_NONDET_BYTES(CH, 3);
  __CPROVER_assume(CH_N <= 3 && MAX <= 8);
  impl.config.maxSyncReceiveBuffer = MAX;
  impl.readModes.guard = &impl.syncMutex; impl.receiveBuffers.guard = &impl.syncMutex; impl.pendingConnects.guard = &impl.syncMutex;
  impl.readModes.wkey = 7; impl.readModes.present = 1; impl.readModes.wval = ReadMode_Sync;
  impl.receiveBuffers.wkey = 7; impl.receiveBuffers.present = 1; impl.receiveBuffers.wval = &wbuf; impl.receiveBuffers.other = &obuf;
  wbuf.guard = &impl.syncMutex; wbuf.data.guard = &impl.syncMutex; obuf.guard = &impl.syncMutex; obuf.data.guard = &impl.syncMutex;
  G_arrived = 0; iora_time tm = {0};
  for (unsigned i = 0; i < 3; i++)
  {
    if (i >= CH_N) break;
    __CPROVER_assume(CH[i] >= 1 && CH[i] <= 8);
    iora_chunk c = { G_arrived, CH[i] };
    bool ovf0 = wbuf.overflow; size_t hi0 = wbuf.data.hi;
    Impl_onData(self, 7, c, tm);
    G_arrived += CH[i];
    __CPROVER_assert(!ovf0 || wbuf.data.hi == hi0, "R1 old(overflow) ==> nothing appended (never an undetectable gap)");
    __CPROVER_assert(SRB_INV(&wbuf, G_arrived, 0, MAX), "INV monitor invariant re-established (stream advanced by the chunk)");
  }
}
#endif
