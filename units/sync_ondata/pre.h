/* unit sync_ondata: the Transport `onData` engine callback (lambda in Impl::setupEngineCallbacks), property C03.
 * Type environment: shims/iora_tsync.h. This file: ghost state, monitor invariant, callback stub. */

/* value-initialised ReadMode (what readModes[sid] inserts) is Async: the map shim's default 0 must be ReadMode_Async */
_Static_assert(ReadMode_Async == 0, "ReadMode::Async is the value-initialised ReadMode");

/* ---- ghost byte stream of the session being served (DESIGN C03) ----
 * Stream positions count the bytes the engine handed to onData for this session while it was in Sync mode ("arrived").
 * G_arrived = number of such bytes so far = stream position of the first byte of the chunk now being delivered.            */
size_t G_arrived;
/* STREAM_LIMIT, the monitor invariant SRB_INV (I1, I3, I4, I5) and SAME_BUF are in shims/iora_tsync.h */

/* ghost: the Impl the maps belong to (for the "other key" havoc, which needs config and shuttingDown) */
Impl *G_impl;
static inline void iora_rmmap_havoc_other(iora_rmmap *m) { m->other = nondet_u8(); }
/* the buffer of a session other than the witness: an arbitrary buffer satisfying the monitor invariant w.r.t. the served stream */
static inline void iora_rbmap_havoc_other(iora_rbmap *m)
{
  SyncReceiveBuffer *o = m->other;
  o->data.lo = nondet_size_t(); o->data.hi = nondet_size_t(); o->hasData = nondet_bool(); o->closed = nondet_bool();
  o->waiters = nondet_size_t(); o->flushing = nondet_bool(); o->overflow = nondet_bool();
  IORA_ASSUME(SRB_INV(o, G_arrived, G_impl->shuttingDown, G_impl->config.maxSyncReceiveBuffer));
}
static inline void iora_pcmap_havoc_other(iora_pcmap *m) { (void)m; }

/* ---- std::make_shared<SyncReceiveBuffer>() (the tombstone in onClose): one fresh object supplied by the harness, initialised with the
 * default member initialisers of struct SyncReceiveBuffer. A fresh buffer is empty at the current stream position. ---- */
SyncReceiveBuffer *G_fresh; unsigned G_made;
static inline SyncReceiveBuffer *iora_make_srb(Impl *im)
{
  IORA_ASSERT(G_made == 0, "at most one allocation per call (harness supplies one object)");
  G_made++;
  SyncReceiveBuffer *b = G_fresh;
  b->data.lo = G_arrived; b->data.hi = G_arrived; b->data.guard = &im->syncMutex; b->guard = &im->syncMutex;
  b->cv.n_one = 0; b->cv.n_all = 0;
  b->hasData = false; b->closed = false; b->waiters = 0; b->flushing = false; b->overflow = false;
  return b;
}

/* ---- R21: the user's DataCallback. Ghost stub: counts invocations and records the arguments.
 * HR-6 of the source ("no Transport lock is held during a user callback") is asserted here. ---- */
unsigned G_cb_calls; SessionId G_cb_sid; iora_spos G_cb_pos; size_t G_cb_n;
static inline void iora_call_DataCallback(Impl *self, iora_fn f, SessionId sid, iora_chunk data, iora_time t)
{
  (void)t;
  IORA_ASSERT(f.set, "CB1 an empty std::function is never invoked (bad_function_call)");
  IORA_ASSERT(!self->syncMutex.held && !self->callbackMutex.held, "CB2 user callback invoked with no Transport lock held (HR-6)");
  if (G_cb_calls < 1000) G_cb_calls++;
  G_cb_sid = sid; G_cb_pos = data.pos; G_cb_n = data.n;
}
