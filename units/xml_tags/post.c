/* Contracts of the token layer (property C14: "a document is accepted only if every start tag is closed by a matching end tag in proper
 * nesting and all configured limits hold; every reported slice lies inside the input").
 * OLD(x) = value on entry. GL = arbitrary ghost stack level (witness entry), GK = arbitrary byte index, GA = arbitrary attribute index. */
#define ST self->_elementStack
#define TOK self->_token
#define TOKEN_FRAME self->_cur, self->_line, self->_col, self->_hasError, self->_error, self->_token, self->_producedTokens
#define ERR_IFF_FALSE ENS(!RV ==> self->_hasError) ENS(RV ==> self->_hasError == OLD(self->_hasError))
#define ATTR_OK(a) (XML_SLICE_IN(self, (a).name) && XML_SLICE_IN(self, (a).value) && (a).name.n >= 1 && (a).name.n <= self->_opt.maxNameLength && (a).value.n <= self->_opt.maxTextSpan)

/* ---------------- readAttributes ---------------- */
#define DECL_readAttributes(sym, POST) bool sym(Parser *self, iora_attrvec *attrs) __CPROVER_requires(XML_PRE(self) && __CPROVER_is_fresh(attrs, sizeof(*attrs))) \
  __CPROVER_assigns(self->_cur, self->_line, self->_col, self->_hasError, self->_error, attrs->n, attrs->gk) POST ;
/* A1 cursor; A2 true => NOT at the end and the next byte is '/' or '>' (the caller peeks without testing eof()); A5 failure <=> error flag */
#define ATTRS_SAFE ENS(XML_CUR_INV(self) && self->_cur >= OC) ENS(RV ==> (NOT_EOF && (XML_AT(self, self->_cur) == (char)47 || XML_AT(self, self->_cur) == (char)62))) ERR_IFF_FALSE
/* A3 limit: never more than maxAttrsPerElement attributes are reported; A4 slice containment and limits of EVERY attribute (witness index GA) */
#define ATTRS_LIMIT ENS(RV ==> attrs->n <= self->_opt.maxAttrsPerElement) ENS((RV && GA < attrs->n) ==> ATTR_OK(attrs->gk))
DECL_readAttributes(Parser_readAttributes_contract, ATTRS_SAFE ATTRS_LIMIT)
DECL_readAttributes(Parser_readAttributes_safe, ATTRS_SAFE)
DECL_readAttributes(Parser_readAttributes_limit, ATTRS_LIMIT)
void h_readAttributes(void) { Parser *p; iora_attrvec *a; bool r = Parser_readAttributes(p, a); IORA_CANARY("h_readAttributes: returns");
  if (r) { IORA_CANARY("h_readAttributes: ok"); } else { IORA_CANARY("h_readAttributes: error"); } }

/* ---------------- readComment / readCData ---------------- */
#define DECL_readDelimited(sym, POST) bool sym(Parser *self, size_t startOffset, size_t startLine, size_t startCol) \
  __CPROVER_requires(XML_TAG_PRE(self) && XML_GS_TAIL(self)) __CPROVER_assigns(TOKEN_FRAME) POST ;
/* D1 invariants; D2 slice containment: the token text is exactly the input range up to the terminator; D3 failure <=> error flag, no token counted */
#define DELIM_POST(KIND) ENS(XML_CUR_INV(self) && self->_cur >= OC && XML_TAG_INV(self)) \
  ENS(RV ==> (TOK.kind == KIND && self->_cur >= OC + 3 && XML_SLICE_IS(self, TOK.text, OC, self->_cur - OC - 3) && TOK.name.n == 0 && TOK.attributes.n == 0)) \
  ENS(RV ==> (TOK.depth == self->_depth && TOK.offset == startOffset && self->_producedTokens == OLD(self->_producedTokens) + 1)) \
  ENS(!RV ==> self->_producedTokens == OLD(self->_producedTokens)) ERR_IFF_FALSE
DECL_readDelimited(Parser_readComment_contract, DELIM_POST(TokenKind_Comment))
DECL_readDelimited(Parser_readCData_contract, DELIM_POST(TokenKind_CData))
void h_readComment(void) { Parser *p; size_t a, b, c; bool r = Parser_readComment(p, a, b, c); IORA_CANARY("h_readComment: returns"); if (r) { IORA_CANARY("h_readComment: token"); } else { IORA_CANARY("h_readComment: error"); } }
void h_readCData(void) { Parser *p; size_t a, b, c; bool r = Parser_readCData(p, a, b, c); IORA_CANARY("h_readCData: returns"); if (r) { IORA_CANARY("h_readCData: token"); } else { IORA_CANARY("h_readCData: error"); } }

/* ---------------- readProcessingInstruction / readDoctype: ASSUMED (not proved in this round, see NOTES.md) ---------------- */
#define OTHER_POST(KIND) ENS(XML_CUR_INV(self) && self->_cur >= OC && XML_TAG_INV(self)) \
  ENS(RV ==> (TOK.kind == KIND && XML_SLICE_IN(self, TOK.name) && XML_SLICE_IN(self, TOK.text) && TOK.attributes.n == 0 && self->_producedTokens == OLD(self->_producedTokens) + 1)) \
  ENS(!RV ==> self->_producedTokens == OLD(self->_producedTokens)) ERR_IFF_FALSE
bool Parser_readProcessingInstruction_assumed(Parser *self, size_t startOffset, size_t startLine, size_t startCol)
  __CPROVER_requires(XML_TAG_PRE(self)) __CPROVER_assigns(TOKEN_FRAME) OTHER_POST(TokenKind_ProcessingInstruction) ;
bool Parser_readDoctype_assumed(Parser *self, size_t startOffset, size_t startLine, size_t startCol)
  __CPROVER_requires(XML_TAG_PRE(self)) __CPROVER_assigns(TOKEN_FRAME) OTHER_POST(TokenKind_Doctype) ;

/* ---------------- readEndTag: BALANCE ---------------- */
#define DECL_readEndTag(sym, POST) bool sym(Parser *self, size_t startOffset, size_t startLine, size_t startCol) \
  __CPROVER_requires(XML_TAG_PRE(self)) __CPROVER_assigns(TOKEN_FRAME, self->_depth, ST.n) POST ;
/* E1 invariants (depth == stack size) on every outcome; E5 failure <=> error flag and nothing popped/counted; E6 an end tag with no open element is rejected */
#define END_SAFE ENS(XML_CUR_INV(self) && self->_cur >= OC && XML_TAG_INV(self)) ERR_IFF_FALSE \
  ENS(!RV ==> (ST.n == OLD(ST.n) && self->_depth == OLD(self->_depth) && self->_producedTokens == OLD(self->_producedTokens))) \
  ENS(OLD(ST.n) == 0 ==> !RV)
/* E2 an EndElement pops exactly one open element; E4 slice containment + name limit */
#define END_POP ENS(RV ==> (OLD(ST.n) >= 1 && ST.n == OLD(ST.n) - 1 && self->_depth == OLD(self->_depth) - 1 && TOK.kind == TokenKind_EndElement \
       && TOK.depth == OLD(self->_depth) && TOK.offset == startOffset && self->_producedTokens == OLD(self->_producedTokens) + 1 && self->_cur >= OC + 2)) \
  ENS(RV ==> (XML_SLICE_IN(self, TOK.name) && TOK.name.n >= 1 && TOK.name.n <= self->_opt.maxNameLength && TOK.attributes.n == 0))
/* E3 BALANCE: EndElement is produced only if its name EQUALS the top of the stack - for the arbitrary witness level GL: same length and the
 * same byte at the arbitrary index GK */
#define END_MATCH ENS((RV && OLD(ST.n) - 1 == GL) ==> TOK.name.n == OLD(ST.wit_n)) \
  ENS((RV && OLD(ST.n) - 1 == GL && GK < TOK.name.n) ==> XML_SLICE_BYTE(self, TOK.name, GK) == XML_AT(self, OLD(ST.wit_off) + GK))
DECL_readEndTag(Parser_readEndTag_contract, END_SAFE END_POP END_MATCH)
DECL_readEndTag(Parser_readEndTag_safe, END_SAFE)
DECL_readEndTag(Parser_readEndTag_balance, END_POP END_MATCH)
void h_readEndTag(void) { Parser *p; size_t a, b, c; bool r = Parser_readEndTag(p, a, b, c); IORA_CANARY("h_readEndTag: returns"); if (r) { IORA_CANARY("h_readEndTag: token"); } else { IORA_CANARY("h_readEndTag: error"); } }

/* ---------------- readStartOrEmptyTag: depth limit BEFORE the increment, push ---------------- */
#define DECL_readStart(sym, POST) bool sym(Parser *self, size_t startOffset, size_t startLine, size_t startCol) \
  __CPROVER_requires(XML_TAG_PRE(self)) __CPROVER_assigns(TOKEN_FRAME, self->_depth, ST.n, ST.wit_off, ST.wit_n) POST ;
#define START_SAFE ENS(XML_CUR_INV(self) && self->_cur >= OC && XML_TAG_INV(self)) ERR_IFF_FALSE \
  ENS(!RV ==> (ST.n == OLD(ST.n) && self->_depth == OLD(self->_depth) && self->_producedTokens == OLD(self->_producedTokens)))
/* S2 `_depth + 1 > maxDepth` is tested BEFORE the increment: an accepted tag never takes the depth beyond maxDepth (and the counter cannot wrap);
 * S3 StartElement pushes exactly one element; S4 EmptyElement leaves stack and depth unchanged */
#define START_DEPTH ENS(RV ==> (OLD(self->_depth) < self->_opt.maxDepth && (TOK.kind == TokenKind_StartElement || TOK.kind == TokenKind_EmptyElement) \
       && TOK.depth == OLD(self->_depth) + 1 && TOK.offset == startOffset && self->_producedTokens == OLD(self->_producedTokens) + 1 && self->_cur >= OC + 2)) \
  ENS((RV && TOK.kind == TokenKind_StartElement) ==> (ST.n == OLD(ST.n) + 1 && self->_depth == OLD(self->_depth) + 1 && !TOK.selfClosing)) \
  ENS((RV && TOK.kind == TokenKind_EmptyElement) ==> (ST.n == OLD(ST.n) && self->_depth == OLD(self->_depth) && TOK.selfClosing))
/* S5 the pushed entry IS the reported name (witness level GL); other levels are untouched; S6 slice containment + limits of name and attributes */
#define START_PUSH ENS((RV && TOK.kind == TokenKind_StartElement && OLD(ST.n) == GL) ==> (ST.wit_off == (size_t)__CPROVER_POINTER_OFFSET(TOK.name.p) && ST.wit_n == TOK.name.n)) \
  ENS(!(RV && TOK.kind == TokenKind_StartElement && OLD(ST.n) == GL) ==> (ST.wit_off == OLD(ST.wit_off) && ST.wit_n == OLD(ST.wit_n))) \
  ENS(RV ==> (XML_SLICE_IN(self, TOK.name) && TOK.name.n >= 1 && TOK.name.n <= self->_opt.maxNameLength && TOK.attributes.n <= self->_opt.maxAttrsPerElement)) \
  ENS((RV && GA < TOK.attributes.n) ==> ATTR_OK(TOK.attributes.gk))
DECL_readStart(Parser_readStartOrEmptyTag_contract, START_SAFE START_DEPTH START_PUSH)
DECL_readStart(Parser_readStartOrEmptyTag_safe, START_SAFE)
DECL_readStart(Parser_readStartOrEmptyTag_depth, START_DEPTH)
DECL_readStart(Parser_readStartOrEmptyTag_push, START_PUSH)
void h_readStart(void) { Parser *p; size_t a, b, c; bool r = Parser_readStartOrEmptyTag(p, a, b, c); IORA_CANARY("h_readStart: returns");
  if (r) { if (p == 0) { } IORA_CANARY("h_readStart: token"); } else { IORA_CANARY("h_readStart: error"); } }

/* ---------------- emitEof: Eof only if the stack is empty ---------------- */
void Parser_emitEof_contract(Parser *self)
__CPROVER_requires(XML_TAG_PRE(self))
__CPROVER_assigns(self->_hasError, self->_error, self->_token, self->_emittedEof)
/* F1 open elements at the end => error, NO Eof */
ENS(OLD(ST.n) > 0 ==> (self->_hasError && self->_emittedEof == OLD(self->_emittedEof)))
/* F2 empty stack => Eof token */
ENS(OLD(ST.n) == 0 ==> (self->_emittedEof && TOK.kind == TokenKind_Eof && TOK.offset == self->_cur && TOK.depth == self->_depth && TOK.name.n == 0 && TOK.text.n == 0 && self->_hasError == OLD(self->_hasError)))
;
void h_emitEof(void) { Parser *p; Parser_emitEof(p); IORA_CANARY("h_emitEof: returns"); }

/* ---------------- next ---------------- */
#define DECL_next(sym, POST) bool sym(Parser *self) __CPROVER_requires(XML_TAG_PRE(self) && XML_GS_TAIL(self)) \
  __CPROVER_assigns(TOKEN_FRAME, self->_depth, ST.n, ST.wit_off, ST.wit_n, self->_emittedEof) POST ;
#define WAS_DONE (OLD(self->_hasError) || OLD(self->_emittedEof))
#define AT_LIMIT (self->_opt.maxTotalTokens != 0 && OLD(self->_producedTokens) >= self->_opt.maxTotalTokens)
/* N1 invariants on every outcome; N2 after an error or Eof nothing happens any more; N5 false <=> error or Eof */
#define NEXT_SAFE ENS(XML_CUR_INV(self) && self->_cur >= OC && XML_TAG_INV(self)) \
  ENS(WAS_DONE ==> (!RV && self->_cur == OC && self->_producedTokens == OLD(self->_producedTokens) && ST.n == OLD(ST.n) && self->_hasError == OLD(self->_hasError) && self->_emittedEof == OLD(self->_emittedEof))) \
  ENS(!RV ==> (self->_hasError || self->_emittedEof)) ENS(RV ==> (!self->_hasError && !self->_emittedEof))
/* N3 the token limit is tested BEFORE producing: at the limit nothing is consumed or counted; the count never exceeds the limit;
 * N4 a token costs at least one byte (so the pull loop terminates: variant size - cursor) and is counted exactly once */
#define NEXT_LIMIT ENS((!WAS_DONE && AT_LIMIT) ==> (!RV && self->_hasError && self->_cur == OC && self->_producedTokens == OLD(self->_producedTokens))) \
  ENS((RV && self->_opt.maxTotalTokens != 0) ==> self->_producedTokens <= self->_opt.maxTotalTokens) \
  ENS(RV ==> (self->_producedTokens == OLD(self->_producedTokens) + 1 && self->_cur > OC)) ENS(!RV ==> self->_producedTokens == OLD(self->_producedTokens))
/* N6 BALANCE at the interface: Eof only if the stack is empty and the input is exhausted; EndElement pops one element and carries the name of the
 * top (witness level GL, byte GK); StartElement pushes one within maxDepth; every other token leaves the stack alone */
#define NEXT_BALANCE ENS((self->_emittedEof && !OLD(self->_emittedEof)) ==> (ST.n == 0 && self->_depth == 0 && TOK.kind == TokenKind_Eof && self->_cur == self->_input.n && !RV)) \
  ENS((RV && TOK.kind == TokenKind_EndElement) ==> (OLD(ST.n) >= 1 && ST.n == OLD(ST.n) - 1)) \
  ENS((RV && TOK.kind == TokenKind_EndElement && OLD(ST.n) - 1 == GL) ==> TOK.name.n == OLD(ST.wit_n)) \
  ENS((RV && TOK.kind == TokenKind_EndElement && OLD(ST.n) - 1 == GL && GK < TOK.name.n) ==> XML_SLICE_BYTE(self, TOK.name, GK) == XML_AT(self, OLD(ST.wit_off) + GK)) \
  ENS((RV && TOK.kind == TokenKind_StartElement) ==> (ST.n == OLD(ST.n) + 1 && ST.n <= self->_opt.maxDepth)) \
  ENS((RV && TOK.kind != TokenKind_StartElement && TOK.kind != TokenKind_EndElement) ==> ST.n == OLD(ST.n)) \
  ENS(!RV ==> ST.n == OLD(ST.n))
/* N7 slice containment of what the token reports; N8 only the nine token kinds */
#define NEXT_SLICES ENS(RV ==> (XML_SLICE_IN(self, TOK.name) && XML_SLICE_IN(self, TOK.text) && TOK.name.n <= self->_opt.maxNameLength && TOK.attributes.n <= self->_opt.maxAttrsPerElement)) \
  ENS((RV && GA < TOK.attributes.n) ==> ATTR_OK(TOK.attributes.gk)) \
  ENS(RV ==> (TOK.kind == TokenKind_Doctype || TOK.kind == TokenKind_StartElement || TOK.kind == TokenKind_EndElement || TOK.kind == TokenKind_EmptyElement \
     || TOK.kind == TokenKind_Text || TOK.kind == TokenKind_CData || TOK.kind == TokenKind_Comment || TOK.kind == TokenKind_ProcessingInstruction)) \
  ENS((RV && TOK.kind == TokenKind_Text) ==> TOK.text.n <= self->_opt.maxTextSpan)
DECL_next(Parser_next_safe, NEXT_SAFE)
DECL_next(Parser_next_limit, NEXT_LIMIT)
DECL_next(Parser_next_balance, NEXT_BALANCE)
DECL_next(Parser_next_slices, NEXT_SLICES)
void h_next(void) { Parser *p; bool r = Parser_next(p); IORA_CANARY("h_next: returns"); if (r) { IORA_CANARY("h_next: token"); } else { IORA_CANARY("h_next: error or Eof"); } }
