/* unit xml_tags: one contract symbol per proof (PRE + FRAME + clause groups of contracts.h) and the harnesses */
/* ---- readAttributes ---- */
DECL_readAttributes(Parser_readAttributes_contract, ATTRS_SAFE ATTRS_LIMIT)
DECL_readAttributes(Parser_readAttributes_safe, ATTRS_SAFE)
DECL_readAttributes(Parser_readAttributes_limit, ATTRS_LIMIT)
void h_readAttributes(void) { Parser *p; iora_attrvec *a; bool r = Parser_readAttributes(p, a); IORA_CANARY("h_readAttributes: returns");
  if (r) { IORA_CANARY("h_readAttributes: ok"); } else { IORA_CANARY("h_readAttributes: error"); } }
/* ---- readComment / readCData ---- */
DECL_readDelimited(Parser_readComment_contract, DELIM_POST(TokenKind_Comment))
DECL_readDelimited(Parser_readCData_contract, DELIM_POST(TokenKind_CData))
void h_readComment(void) { Parser *p; size_t a, b, c; bool r = Parser_readComment(p, a, b, c); IORA_CANARY("h_readComment: returns"); if (r) { IORA_CANARY("h_readComment: token"); } else { IORA_CANARY("h_readComment: error"); } }
void h_readCData(void) { Parser *p; size_t a, b, c; bool r = Parser_readCData(p, a, b, c); IORA_CANARY("h_readCData: returns"); if (r) { IORA_CANARY("h_readCData: token"); } else { IORA_CANARY("h_readCData: error"); } }
/* ---- readEndTag ---- */
DECL_readEndTag(Parser_readEndTag_safe, END_SAFE)
DECL_readEndTag(Parser_readEndTag_balance, END_POP END_MATCH)
void h_readEndTag(void) { Parser *p; size_t a, b, c; bool r = Parser_readEndTag(p, a, b, c); IORA_CANARY("h_readEndTag: returns"); if (r) { IORA_CANARY("h_readEndTag: token"); } else { IORA_CANARY("h_readEndTag: error"); } }
/* ---- readStartOrEmptyTag ---- */
DECL_readStart(Parser_readStartOrEmptyTag_safe, START_SAFE)
DECL_readStart(Parser_readStartOrEmptyTag_depth, START_DEPTH)
DECL_readStart(Parser_readStartOrEmptyTag_push, START_PUSH)
void h_readStart(void) { Parser *p; size_t a, b, c; bool r = Parser_readStartOrEmptyTag(p, a, b, c); IORA_CANARY("h_readStart: returns");
  if (r) { IORA_CANARY("h_readStart: token"); } else { IORA_CANARY("h_readStart: error"); } }
/* ---- emitEof ---- */
DECL_emitEof(Parser_emitEof_contract, EMITEOF_POST)
void h_emitEof(void) { Parser *p; Parser_emitEof(p); IORA_CANARY("h_emitEof: returns"); }
/* ---- readProcessingInstruction / readDoctype ---- */
DECL_readPI(Parser_readPI_safe, OTHER_SAFE OTHER_TOKEN(TokenKind_ProcessingInstruction))
DECL_readPI(Parser_readPI_slice, PI_SLICE)
DECL_readDoctype(Parser_readDoctype_safe, OTHER_SAFE OTHER_TOKEN(TokenKind_Doctype))
DECL_readDoctype(Parser_readDoctype_slice, DOCTYPE_SLICE)
void h_readPI(void) { Parser *p; size_t a, b, c; bool r = Parser_readProcessingInstruction(p, a, b, c); IORA_CANARY("h_readPI: returns"); if (r) { IORA_CANARY("h_readPI: token"); } else { IORA_CANARY("h_readPI: error"); } }
void h_readDoctype(void) { Parser *p; size_t a, b, c; bool r = Parser_readDoctype(p, a, b, c); IORA_CANARY("h_readDoctype: returns"); if (r) { IORA_CANARY("h_readDoctype: token"); } else { IORA_CANARY("h_readDoctype: error"); } }
/* lemma (plain harness + the loop contract of the body): the plain C body of find("?>") satisfies the clauses of the stub's contract */
void h_find2(void)
{
  iora_sv v; size_t pos; char w[3];
  IORA_TRUE = 1;
  __CPROVER_assume((v.n >> 40) == 0);
  v.p = (const char *)malloc(v.n);
  __CPROVER_assume(v.p != NULL && w[0] != 0 && w[1] != 0);
  w[2] = 0;
  size_t r = xsv_find_str2_impl(&v, w, pos);
  IORA_CANARY("h_find2: returns");
  __CPROVER_assert(r == IORA_NPOS || (pos <= r && r < v.n && v.n - r >= 2), "find2: result is npos or an in-range position at/after pos");
  __CPROVER_assert(r != IORA_NPOS ==> XSV_F2_AT(&v, r, w), "find2: the two bytes at the result match");
  __CPROVER_assert((pos <= GF && GF < v.n && v.n - GF >= 2 && (r == IORA_NPOS || GF < r)) ==> !XSV_F2_AT(&v, GF, w), "find2: FIRST occurrence (no match at the arbitrary index GF before the result)");
  if (r == IORA_NPOS) { IORA_CANARY("h_find2: not found"); } else { IORA_CANARY("h_find2: found"); }
}
