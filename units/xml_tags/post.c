/* unit xml_tags: one contract symbol per proof (PRE + FRAME + clause groups of contracts.h) and the harnesses */
/* ---- readAttributes ---- */
DECL_readAttributes(Parser_readAttributes_contract, ATTRS_SAFE ATTRS_LIMIT)
DECL_readAttributes(Parser_readAttributes_safe, ATTRS_SAFE)
DECL_readAttributes(Parser_readAttributes_limit, ATTRS_LIMIT)
void h_readAttributes(void) { Parser *p; iora_attrvec *a; bool r = Parser_readAttributes(p, a); IORA_CANARY("h_readAttributes: returns");
  if (r) { IORA_CANARY("h_readAttributes: ok"); } else { IORA_CANARY("h_readAttributes: error"); } }
/* ---- readComment / readCData ---- */
DECL_readDelimited(Parser_readComment_contract, DELIM_POST(TokenKind_Comment))
DECL_readDelimited(Parser_readCData_contract, DELIM_POST(TokenKind_CData))
void h_readComment(void) { Parser *p; size_t a, b, c; bool r = Parser_readComment(p, a, b, c); IORA_CANARY("h_readComment: returns"); if (r) { IORA_CANARY("h_readComment: token"); } else { IORA_CANARY("h_readComment: error"); } }
void h_readCData(void) { Parser *p; size_t a, b, c; bool r = Parser_readCData(p, a, b, c); IORA_CANARY("h_readCData: returns"); if (r) { IORA_CANARY("h_readCData: token"); } else { IORA_CANARY("h_readCData: error"); } }
/* ---- readEndTag ---- */
DECL_readEndTag(Parser_readEndTag_safe, END_SAFE)
DECL_readEndTag(Parser_readEndTag_balance, END_POP END_MATCH)
void h_readEndTag(void) { Parser *p; size_t a, b, c; bool r = Parser_readEndTag(p, a, b, c); IORA_CANARY("h_readEndTag: returns"); if (r) { IORA_CANARY("h_readEndTag: token"); } else { IORA_CANARY("h_readEndTag: error"); } }
/* ---- readStartOrEmptyTag ---- */
DECL_readStart(Parser_readStartOrEmptyTag_safe, START_SAFE)
DECL_readStart(Parser_readStartOrEmptyTag_depth, START_DEPTH)
DECL_readStart(Parser_readStartOrEmptyTag_push, START_PUSH)
void h_readStart(void) { Parser *p; size_t a, b, c; bool r = Parser_readStartOrEmptyTag(p, a, b, c); IORA_CANARY("h_readStart: returns");
  if (r) { IORA_CANARY("h_readStart: token"); } else { IORA_CANARY("h_readStart: error"); } }
/* ---- emitEof ---- */
DECL_emitEof(Parser_emitEof_contract, EMITEOF_POST)
void h_emitEof(void) { Parser *p; Parser_emitEof(p); IORA_CANARY("h_emitEof: returns"); }
