/* Contracts of the token layer of xml::Parser (property C14: "a document is accepted only if every start tag is closed by a matching end tag in
 * proper nesting and all configured limits hold; every reported slice lies inside the input").
 * Same structure as ../xml_cursor/contracts.h: per function SIG / PRE / FRAMELIST and GROUPS of ensures clauses; unit xml_tags proves
 * `PRE FRAME <group>`; unit xml_next turns the same parts into assert/havoc/assume stubs for the callees of next().
 * OLD(x) = value on entry. GL = arbitrary ghost stack level (witness entry), GK = arbitrary byte index, GA = arbitrary attribute index. */
#ifndef XML_TAGS_CONTRACTS_H
#define XML_TAGS_CONTRACTS_H
/* ---- parser invariant of the token layer ----
 * depth == stack size; depth <= maxDepth; each open element and each produced token consumed at least one byte (so neither counter can wrap);
 * the witness entry is a non-empty slice of the input */
#define XML_TAG_INV(s) ((s)->_depth == (s)->_elementStack.n && (s)->_depth <= (s)->_opt.maxDepth && (s)->_depth <= (s)->_cur && (s)->_producedTokens <= (s)->_cur \
  && ((s)->_elementStack.n > GL ==> ((s)->_elementStack.wit_n >= 1 && (s)->_elementStack.wit_off <= (s)->_input.n && (s)->_elementStack.wit_n <= (s)->_input.n - (s)->_elementStack.wit_off)))
#define XML_TAG_PRE(s) (XML_PRE(s) && XML_TAG_INV(s))
/* content of a slice v of the input at index k, through the input pointer (slices returned by replaced contracts are only known by offset) */
#define XML_SLICE_BYTE(s, v, k) XML_AT(s, (size_t)__CPROVER_POINTER_OFFSET((v).p) + (k))
#define ST self->_elementStack
#define TOK self->_token
#define ERR_IFF_FALSE ENS(!RV ==> self->_hasError) ENS(RV ==> self->_hasError == OLD(self->_hasError))
#define ATTR_OK(a) (XML_SLICE_IN(self, (a).name) && XML_SLICE_IN(self, (a).value) && (a).name.n >= 1 && (a).name.n <= self->_opt.maxNameLength && (a).value.n <= self->_opt.maxTextSpan)

/* ---------------- readAttributes ---------------- */
#define DECL_readAttributes(sym, POST) bool sym(Parser *self, iora_attrvec *attrs) __CPROVER_requires(XML_PRE(self) && __CPROVER_is_fresh(attrs, sizeof(*attrs))) \
  __CPROVER_assigns(self->_cur, self->_line, self->_col, self->_hasError, self->_error, attrs->n, attrs->gk) POST ;
/* A1 cursor; A2 true => NOT at the end and the next byte is '/' or '>' (the caller peeks without testing eof()); A5 failure <=> error flag */
#define ATTRS_SAFE ENS(XML_CUR_INV(self) && self->_cur >= OC) ENS(RV ==> (NOT_EOF && (XML_AT(self, self->_cur) == (char)47 || XML_AT(self, self->_cur) == (char)62))) ERR_IFF_FALSE
/* A3 limit: never more than maxAttrsPerElement attributes are reported; A4 slice containment and limits of EVERY attribute (witness index GA) */
#define ATTRS_LIMIT ENS(RV ==> attrs->n <= self->_opt.maxAttrsPerElement) ENS((RV && GA < attrs->n) ==> ATTR_OK(attrs->gk))

/* ---------------- readComment / readCData ---------------- */
#define DELIM_PRE (XML_TAG_PRE(self) && XML_GS_TAIL(self))
#define DECL_readDelimited(sym, POST) TOKEN_SIG(sym) __CPROVER_requires(DELIM_PRE) __CPROVER_assigns(TOKEN_FRAMELIST) POST ;
/* D1 invariants; D2 slice containment: the token text is exactly the input range up to the terminator; D3 failure <=> error flag, no token counted */
#define DELIM_POST(KIND) ENS(XML_CUR_INV(self) && self->_cur >= OC && XML_TAG_INV(self)) \
  ENS(RV ==> (TOK.kind == KIND && self->_cur >= OC + 3 && XML_SLICE_IS(self, TOK.text, OC, self->_cur - OC - 3) && TOK.name.n == 0 && TOK.attributes.n == 0)) \
  ENS(RV ==> (TOK.depth == self->_depth && TOK.offset == startOffset && self->_producedTokens == OLD(self->_producedTokens) + 1)) \
  ENS(!RV ==> self->_producedTokens == OLD(self->_producedTokens)) ERR_IFF_FALSE

/* ---------------- readProcessingInstruction / readDoctype ---------------- */
#define OTHER_PRE XML_TAG_PRE(self)
/* readDoctype counts '[' in an `int`: it cannot overflow for inputs of fewer than 2^31 bytes. This bound is PART OF THE PRECONDITION of readDoctype
 * (and therefore of next(), unit xml_next); with the general 2^40 bound the obligation "signed overflow in ++bracket" fails (observation X-DT, NOTES.md) */
#define XML_DOCTYPE_IN_BITS 31
#define DOCTYPE_PRE (XML_TAG_PRE(self) && XML_SMALL(self->_input.n, XML_DOCTYPE_IN_BITS))
#define DECL_readPI(sym, POST) TOKEN_SIG(sym) __CPROVER_requires(OTHER_PRE) __CPROVER_assigns(TOKEN_FRAMELIST) POST ;
#define DECL_readDoctype(sym, POST) TOKEN_SIG(sym) __CPROVER_requires(DOCTYPE_PRE) __CPROVER_assigns(TOKEN_FRAMELIST) POST ;
/* O1 invariants; O3 failure <=> error flag, nothing counted; O2 the token: kind, slices inside the input, bookkeeping, at least one byte consumed */
#define OTHER_SAFE ENS(XML_CUR_INV(self) && self->_cur >= OC && XML_TAG_INV(self)) ENS(!RV ==> self->_producedTokens == OLD(self->_producedTokens)) ERR_IFF_FALSE
#define OTHER_TOKEN(KIND) ENS(RV ==> (TOK.kind == KIND && XML_SLICE_IN(self, TOK.name) && XML_SLICE_IN(self, TOK.text) && TOK.name.n <= self->_opt.maxNameLength && TOK.attributes.n == 0 \
       && TOK.depth == self->_depth && TOK.offset == startOffset && self->_producedTokens == OLD(self->_producedTokens) + 1 && self->_cur > OC))
#define XML_TEXT_OFF ((size_t)__CPROVER_POINTER_OFFSET(TOK.text.p))
/* P1 the PI has a target (1..maxNameLength bytes) and its content is the input range that ends where the FIRST "?>" behind the target begins;
 * the cursor ends right behind that "?>" */
#define PI_SLICE ENS(RV ==> (TOK.name.n >= 1 && self->_cur >= OC + 3 && __CPROVER_same_object(TOK.text.p, self->_input.p) && XML_TEXT_OFF >= OC + TOK.name.n \
       && XML_TEXT_OFF + TOK.text.n + 2 == self->_cur && XML_AT(self, self->_cur - 2) == (char)63 && XML_AT(self, self->_cur - 1) == (char)62)) \
  ENS((RV && GF >= XML_TEXT_OFF && GF < self->_cur - 2) ==> !(XML_AT(self, GF) == (char)63 && XML_AT(self, GF + 1) == (char)62))
/* T1 the Doctype text is exactly the input range from the entry cursor up to the terminating '>' (slice containment), the cursor ends behind it;
 * a failure consumes nothing */
#define DOCTYPE_SLICE ENS(RV ==> (self->_cur >= OC + 1 && XML_SLICE_IS(self, TOK.text, OC, self->_cur - OC - 1) && XML_AT(self, self->_cur - 1) == (char)62 && TOK.name.n == 0)) \
  ENS(!RV ==> self->_cur == OC)

/* ---------------- readEndTag: BALANCE ---------------- */
#define END_PRE XML_TAG_PRE(self)
#define END_FRAMELIST TOKEN_FRAMELIST, self->_depth, ST.n
#define DECL_readEndTag(sym, POST) TOKEN_SIG(sym) __CPROVER_requires(END_PRE) __CPROVER_assigns(END_FRAMELIST) POST ;
/* E1 invariants (depth == stack size) on every outcome; E5 failure <=> error flag and nothing popped/counted; E6 an end tag with no open element is rejected */
#define END_SAFE ENS(XML_CUR_INV(self) && self->_cur >= OC && XML_TAG_INV(self)) ERR_IFF_FALSE \
  ENS(!RV ==> (ST.n == OLD(ST.n) && self->_depth == OLD(self->_depth) && self->_producedTokens == OLD(self->_producedTokens))) \
  ENS(OLD(ST.n) == 0 ==> !RV)
/* E2 an EndElement pops exactly one open element; E4 slice containment + name limit */
#define END_POP ENS(RV ==> (OLD(ST.n) >= 1 && ST.n == OLD(ST.n) - 1 && self->_depth == OLD(self->_depth) - 1 && TOK.kind == TokenKind_EndElement \
       && TOK.depth == OLD(self->_depth) && TOK.offset == startOffset && self->_producedTokens == OLD(self->_producedTokens) + 1 && self->_cur >= OC + 2)) \
  ENS(RV ==> (XML_SLICE_IN(self, TOK.name) && TOK.name.n >= 1 && TOK.name.n <= self->_opt.maxNameLength && TOK.attributes.n == 0 && TOK.text.n == 0))
/* E3 BALANCE: EndElement is produced only if its name EQUALS the top of the stack - for the arbitrary witness level GL: same length and the
 * same byte at the arbitrary index GK */
#define END_MATCH ENS((RV && OLD(ST.n) - 1 == GL) ==> TOK.name.n == OLD(ST.wit_n)) \
  ENS((RV && OLD(ST.n) - 1 == GL && GK < TOK.name.n) ==> XML_SLICE_BYTE(self, TOK.name, GK) == XML_AT(self, OLD(ST.wit_off) + GK))

/* ---------------- readStartOrEmptyTag: depth limit BEFORE the increment, push ---------------- */
#define START_PRE XML_TAG_PRE(self)
#define START_FRAMELIST TOKEN_FRAMELIST, self->_depth, ST.n, ST.wit_off, ST.wit_n
#define DECL_readStart(sym, POST) TOKEN_SIG(sym) __CPROVER_requires(START_PRE) __CPROVER_assigns(START_FRAMELIST) POST ;
#define START_SAFE ENS(XML_CUR_INV(self) && self->_cur >= OC && XML_TAG_INV(self)) ERR_IFF_FALSE \
  ENS(!RV ==> (ST.n == OLD(ST.n) && self->_depth == OLD(self->_depth) && self->_producedTokens == OLD(self->_producedTokens)))
/* S2 `_depth + 1 > maxDepth` is tested BEFORE the increment: an accepted tag never takes the depth beyond maxDepth (and the counter cannot wrap);
 * S3 StartElement pushes exactly one element; S4 EmptyElement leaves stack and depth unchanged */
#define START_DEPTH ENS(RV ==> (OLD(self->_depth) < self->_opt.maxDepth && (TOK.kind == TokenKind_StartElement || TOK.kind == TokenKind_EmptyElement) \
       && TOK.depth == OLD(self->_depth) + 1 && TOK.offset == startOffset && self->_producedTokens == OLD(self->_producedTokens) + 1 && self->_cur >= OC + 2)) \
  ENS((RV && TOK.kind == TokenKind_StartElement) ==> (ST.n == OLD(ST.n) + 1 && self->_depth == OLD(self->_depth) + 1 && !TOK.selfClosing)) \
  ENS((RV && TOK.kind == TokenKind_EmptyElement) ==> (ST.n == OLD(ST.n) && self->_depth == OLD(self->_depth) && TOK.selfClosing))
/* S5 the pushed entry IS the reported name (witness level GL); other levels are untouched; S6 slice containment + limits of name and attributes */
#define START_PUSH ENS((RV && TOK.kind == TokenKind_StartElement && OLD(ST.n) == GL) ==> (ST.wit_off == (size_t)__CPROVER_POINTER_OFFSET(TOK.name.p) && ST.wit_n == TOK.name.n)) \
  ENS(!(RV && TOK.kind == TokenKind_StartElement && OLD(ST.n) == GL) ==> (ST.wit_off == OLD(ST.wit_off) && ST.wit_n == OLD(ST.wit_n))) \
  ENS(RV ==> (XML_SLICE_IN(self, TOK.name) && TOK.name.n >= 1 && TOK.name.n <= self->_opt.maxNameLength && TOK.attributes.n <= self->_opt.maxAttrsPerElement && TOK.text.n == 0)) \
  ENS((RV && GA < TOK.attributes.n) ==> ATTR_OK(TOK.attributes.gk))

/* ---------------- emitEof: Eof only if the stack is empty ---------------- */
#define EOF_SIG(sym) void sym(Parser *self)
#define EMITEOF_PRE XML_TAG_PRE(self)
#define EMITEOF_FRAMELIST self->_hasError, self->_error, self->_token, self->_emittedEof
#define DECL_emitEof(sym, POST) EOF_SIG(sym) __CPROVER_requires(EMITEOF_PRE) __CPROVER_assigns(EMITEOF_FRAMELIST) POST ;
/* F1 open elements at the end => error, NO Eof; F2 empty stack => Eof token, no error */
#define EMITEOF_POST ENS(OLD(ST.n) > 0 ==> (self->_hasError && self->_emittedEof == OLD(self->_emittedEof))) \
  ENS(OLD(ST.n) == 0 ==> (self->_emittedEof && TOK.kind == TokenKind_Eof && TOK.offset == self->_cur && TOK.depth == self->_depth && TOK.name.n == 0 && TOK.text.n == 0 && self->_hasError == OLD(self->_hasError)))
#endif
